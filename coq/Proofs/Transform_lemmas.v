(** Lemmas for C11 / C12 (graph transformations). *)
From PM Require Import Spec.WfGraph Proofs.Model_lemmas.
From Coq Require Import Lia.

(* ------------------------------------------------------------------ *)
(** * Equalities *)

Lemma atom_eqb_refl : forall a, atom_eqb a a = true.
Proof. destruct a; simpl; auto using str_eqb_refl. Qed.

Lemma atom_eqb_sym : forall a b, atom_eqb a b = atom_eqb b a.
Proof.
  intros a b. destruct a, b; simpl; auto.
  - destruct (str_eqb s s0) eqn:E.
    + apply str_eqb_eq in E. subst. symmetry. apply str_eqb_refl.
    + symmetry. apply str_eqb_neq. intro H. subst. rewrite str_eqb_refl in E. discriminate.
  - destruct (str_eqb txt txt0) eqn:E.
    + apply str_eqb_eq in E. subst. symmetry. apply str_eqb_refl.
    + symmetry. apply str_eqb_neq. intro H. subst. rewrite str_eqb_refl in E. discriminate.
Qed.

Lemma atom_eqb_trans : forall a b c, atom_eqb a b = true -> atom_eqb b c = true -> atom_eqb a c = true.
Proof.
  intros a b c H1 H2. destruct a, b, c; simpl in *; try discriminate; auto.
  - apply str_eqb_eq in H1. apply str_eqb_eq in H2. subst. apply str_eqb_refl.
  - apply str_eqb_eq in H1. apply str_eqb_eq in H2. subst. apply str_eqb_refl.
Qed.

(* rewriting under an atom_eqb-equal argument *)
Lemma atom_eqb_congr_l : forall a b c, atom_eqb a b = true -> atom_eqb a c = atom_eqb b c.
Proof.
  intros a b c H. destruct (atom_eqb b c) eqn:E.
  - eapply atom_eqb_trans; eauto.
  - destruct (atom_eqb a c) eqn:E2; auto.
    rewrite atom_eqb_sym in H. rewrite (atom_eqb_trans _ _ _ H E2) in E. discriminate.
Qed.
Lemma atom_eqb_congr_r : forall a b c, atom_eqb a b = true -> atom_eqb c a = atom_eqb c b.
Proof. intros. rewrite (atom_eqb_sym c a), (atom_eqb_sym c b). apply atom_eqb_congr_l; auto. Qed.

Lemma atom_eqb_astr : forall s b, atom_eqb (AStr s) b = true -> b = AStr s.
Proof. intros s b H. destruct b; simpl in H; try discriminate. apply str_eqb_eq in H. subst. auto. Qed.
Lemma atom_eqb_astr_r : forall s b, atom_eqb b (AStr s) = true -> b = AStr s.
Proof. intros. apply atom_eqb_astr. rewrite atom_eqb_sym. auto. Qed.

Lemma is_astr_iff : forall a, is_astr a = true <-> exists s, a = AStr s.
Proof. destruct a; simpl; split; intro H; try discriminate; eauto; destruct H; discriminate. Qed.

Lemma str_eqb_sym : forall a b, str_eqb a b = str_eqb b a.
Proof.
  intros. destruct (str_eqb a b) eqn:E.
  - apply str_eqb_eq in E. subst. symmetry. apply str_eqb_refl.
  - symmetry. apply str_eqb_neq. intro. subst. rewrite str_eqb_refl in E. discriminate.
Qed.

Lemma triple_eqb_refl : forall t, triple_eqb t t = true.
Proof. intros. unfold triple_eqb. rewrite !atom_eqb_refl, str_eqb_refl. auto. Qed.
Lemma triple_eqb_sym : forall a b, triple_eqb a b = triple_eqb b a.
Proof.
  intros. unfold triple_eqb.
  rewrite (atom_eqb_sym (tsrc a)), (atom_eqb_sym (ttgt a)), (str_eqb_sym (trole a)). auto.
Qed.
Lemma triple_eqb_true : forall a b, triple_eqb a b = true <->
  atom_eqb (tsrc a) (tsrc b) = true /\ trole a = trole b /\ atom_eqb (ttgt a) (ttgt b) = true.
Proof.
  intros. unfold triple_eqb. rewrite !andb_true_iff, str_eqb_eq. tauto.
Qed.
Lemma triple_eqb_trans : forall a b c, triple_eqb a b = true -> triple_eqb b c = true -> triple_eqb a c = true.
Proof.
  intros a b c H1 H2. apply triple_eqb_true in H1. apply triple_eqb_true in H2.
  apply triple_eqb_true. destruct H1 as (A1 & A2 & A3), H2 as (B1 & B2 & B3).
  repeat split; try congruence; eapply atom_eqb_trans; eauto.
Qed.
Lemma triple_eqb_congr_l : forall a b c, triple_eqb a b = true -> triple_eqb a c = triple_eqb b c.
Proof.
  intros a b c H. destruct (triple_eqb b c) eqn:E.
  - eapply triple_eqb_trans; eauto.
  - destruct (triple_eqb a c) eqn:E2; auto.
    rewrite triple_eqb_sym in H. rewrite (triple_eqb_trans _ _ _ H E2) in E. discriminate.
Qed.
Lemma triple_eqb_congr_r : forall a b c, triple_eqb a b = true -> triple_eqb c a = triple_eqb c b.
Proof. intros. rewrite (triple_eqb_sym c a), (triple_eqb_sym c b). apply triple_eqb_congr_l; auto. Qed.

(* membership *)
Lemma mem_app : forall {A} (eqb : A -> A -> bool) x l1 l2,
  mem eqb x (l1 ++ l2) = mem eqb x l1 || mem eqb x l2.
Proof. intros. unfold mem. apply existsb_app. Qed.

Lemma mem_atom_congr : forall a b l, atom_eqb a b = true -> mem atom_eqb a l = mem atom_eqb b l.
Proof.
  intros a b l H. induction l as [|x l IH]; simpl; auto.
  rewrite IH. rewrite (atom_eqb_congr_l a b x H). auto.
Qed.

Lemma mem_atom_true : forall a l, mem atom_eqb a l = true <-> exists b, In b l /\ atom_eqb a b = true.
Proof. intros. unfold mem. apply existsb_exists. Qed.

Lemma mem_atom_in : forall a l, In a l -> mem atom_eqb a l = true.
Proof. intros. apply mem_atom_true. exists a. split; auto. apply atom_eqb_refl. Qed.

(* ------------------------------------------------------------------ *)
(** * [bind] inversion *)

Lemma bind_ok : forall {A B} (x : outcome A) (f : A -> outcome B) b,
  bind x f = Ok b -> exists a, x = Ok a /\ f a = Ok b.
Proof. intros A B x f b H. destruct x; simpl in H; try discriminate. eauto. Qed.

(* ------------------------------------------------------------------ *)
(** * The top is kept (C12, F12) *)

Lemma graph_top_mk : forall ts top ed meta,
  graph_top (mk_graph ts (Some top) ed meta) = Some top.
Proof. reflexivity. Qed.

Lemma graph_top_mk_gen : forall g ts ed meta,
  (triples g = [] -> ts = []) ->
  graph_top (mk_graph ts (graph_top g) ed meta) = graph_top g.
Proof.
  intros g ts ed meta H. destruct (graph_top g) eqn:E; [reflexivity|].
  unfold graph_top in E. destruct (gtop g); [discriminate|].
  destruct (triples g) eqn:T; [|discriminate].
  rewrite H by auto. reflexivity.
Qed.

Lemma reify_edges_top : forall m g g', reify_edges m g = Ok g' -> graph_top g' = graph_top g.
Proof.
  intros m g g' H. unfold reify_edges in H. apply bind_ok in H. destruct H as ([ts ed] & H1 & H2).
  inversion H2; subst. apply graph_top_mk_gen. intro T. rewrite T in H1. simpl in H1. congruence.
Qed.

Lemma dereify_edges_top : forall m g g', dereify_edges m g = Ok g' -> graph_top g' = graph_top g.
Proof.
  intros m g g' H. unfold dereify_edges in H. apply bind_ok in H. destruct H as (ag & H1 & H2).
  destruct (dereify_edges_loop ag (triples g) (epidata g)) as [ts ed] eqn:L.
  inversion H2; subst. apply graph_top_mk_gen. intro T. rewrite T in L. simpl in L. congruence.
Qed.

Lemma reify_attributes_top : forall g g', reify_attributes g = Ok g' -> graph_top g' = graph_top g.
Proof.
  intros g g' H. unfold reify_attributes in H. apply bind_ok in H. destruct H as ([ts ed] & H1 & H2).
  inversion H2; subst. apply graph_top_mk_gen. intro T. rewrite T in H1. simpl in H1. congruence.
Qed.

Lemma indicate_branches_top : forall m g g', indicate_branches m g = Ok g' -> graph_top g' = graph_top g.
Proof.
  intros m g g' H. unfold indicate_branches in H. apply bind_ok in H. destruct H as (ts & H1 & H2).
  inversion H2; subst. apply graph_top_mk_gen. intro T. rewrite T in H1. simpl in H1. congruence.
Qed.

(* ------------------------------------------------------------------ *)
(** * Totality (C12, the F9 clause): no exception on any graph *)

Lemma reifiable_rows : forall m r, is_role_reifiable m r = true ->
  exists c sr tr rest, reif_rows m r = (c, sr, tr) :: rest.
Proof.
  intros m r H. unfold is_role_reifiable in H. destruct (reif_rows m r) as [|[[c sr] tr] rest]; [discriminate|].
  eauto.
Qed.

Lemma reify_ok : forall m t vars, is_role_reifiable m (trole t) = true ->
  exists c sr tr rest, reif_rows m (trole t) = (c, sr, tr) :: rest /\
    reify m t vars = Ok ((AStr (match vars with [] => USCORE | _ => fresh_var vars end), sr, tsrc t),
                         (AStr (match vars with [] => USCORE | _ => fresh_var vars end), INSTANCE, AStr c),
                         (AStr (match vars with [] => USCORE | _ => fresh_var vars end), tr, ttgt t)).
Proof.
  intros m t vars H. destruct (reifiable_rows _ _ H) as (c & sr & tr & rest & E).
  exists c, sr, tr, rest. split; auto. unfold reify. rewrite E. reflexivity.
Qed.

Lemma reify_edges_loop_total : forall m g ts vars ed,
  exists r, reify_edges_loop m g ts vars ed = Ok r.
Proof.
  intros m g ts. induction ts as [|t ts IH]; intros vars ed; simpl.
  - eauto.
  - destruct (is_role_reifiable m (trole t)) eqn:R.
    + destruct (reify_ok m t vars R) as (c & sr & tr & rest & _ & E). rewrite E. simpl.
      match goal with |- context [epi_pop ?a ?b] => destruct (epi_pop a b) as [old ed2] end.
      destruct (edge_markers old) as [ne oe].
      match goal with |- context [reify_edges_loop m g ts ?v ?e] => destruct (IH v e) as ([r1 r2] & E2); rewrite E2 end.
      simpl. eauto.
    + destruct (IH vars ed) as ([r1 r2] & E2). rewrite E2. simpl. eauto.
Qed.

Lemma reify_edges_total : forall m g, exists g', reify_edges m g = Ok g'.
Proof.
  intros. unfold reify_edges.
  destruct (reify_edges_loop_total m g (triples g) (used_names g) (epidata g)) as ([ts ed] & E).
  rewrite E. simpl. eauto.
Qed.

(* --- dict facts --- *)
Section DictFacts.
  Context {K V : Type} (keq : K -> K -> bool).
  Hypothesis keq_refl : forall k, keq k k = true.
  Hypothesis keq_sym : forall a b, keq a b = keq b a.
  Hypothesis keq_trans : forall a b c, keq a b = true -> keq b c = true -> keq a c = true.

  Lemma keq_congr_l : forall a b c, keq a b = true -> keq a c = keq b c.
  Proof.
    intros a b c H. destruct (keq b c) eqn:E.
    - eapply keq_trans; eauto.
    - destruct (keq a c) eqn:E2; auto.
      rewrite keq_sym in H. rewrite (keq_trans _ _ _ H E2) in E. discriminate.
  Qed.

  Lemma dget_congr : forall (d : dict K V) a b, keq a b = true -> dget keq a d = dget keq b d.
  Proof.
    induction d as [|[k v] d IH]; intros a b H; simpl; auto.
    rewrite (keq_congr_l a b k H). destruct (keq b k); auto.
  Qed.

  Lemma dget_some_in : forall (d : dict K V) k v, dget keq k d = Some v ->
    exists k', In (k', v) d /\ keq k k' = true.
  Proof.
    induction d as [|[k0 v0] d IH]; intros k v H; simpl in H; [discriminate|].
    destruct (keq k k0) eqn:E.
    - inversion H; subst. exists k0. split; auto. left; auto.
    - destruct (IH _ _ H) as (k' & I & E'). exists k'. split; auto. right; auto.
  Qed.

  Lemma keq_congr_r : forall a b c, keq a b = true -> keq c a = keq c b.
  Proof. intros. rewrite (keq_sym c a), (keq_sym c b). apply keq_congr_l; auto. Qed.

  Lemma dget_dset : forall (d : dict K V) k k' v,
    dget keq k (dset keq k' v d) = if keq k k' then Some v else dget keq k d.
  Proof.
    induction d as [|[k0 v0] d IH]; intros k k' v; simpl.
    - destruct (keq k k'); auto.
    - destruct (keq k' k0) eqn:E; simpl.
      + rewrite (keq_congr_r k' k0 k E). destruct (keq k k0); auto.
      + rewrite IH. destruct (keq k k0) eqn:E2; auto.
        destruct (keq k k') eqn:E3; auto.
        rewrite keq_sym in E3. rewrite (keq_trans _ _ _ E3 E2) in E. discriminate.
  Qed.

  Lemma in_dset : forall (d : dict K V) k v k' v',
    In (k', v') (dset keq k v d) -> In (k', v') d \/ (v' = v /\ keq k k' = true).
  Proof.
    induction d as [|[k0 v0] d IH]; intros k v k' v' H; simpl in H.
    - destruct H as [H|[]]. inversion H; subst. right. split; auto.
    - destruct (keq k k0) eqn:E.
      + destruct H as [H|H].
        * inversion H; subst. right. split; auto.
        * left. right. auto.
      + destruct H as [H|H].
        * left. left. auto.
        * destruct (IH _ _ _ _ H) as [I|I]; auto. left. right. auto.
  Qed.

  (* keys *)
  Lemma dkeys_dset : forall (d : dict K V) k v,
    dkeys (dset keq k v d) = if dmem keq k d then dkeys d else dkeys d ++ [k].
  Proof.
    unfold dmem. induction d as [|[k0 v0] d IH]; intros k v; simpl; auto.
    destruct (keq k k0) eqn:E; simpl; auto.
    unfold dkeys in *. simpl. rewrite IH. destruct (dget keq k d); auto.
  Qed.

  Lemma dmem_mem : forall (d : dict K V) k, dmem keq k d = mem keq k (dkeys d).
  Proof.
    unfold dmem. induction d as [|[k0 v0] d IH]; intros k; simpl; auto.
    destruct (keq k k0); simpl; auto.
  Qed.

  Lemma mem_congr : forall l a b, keq a b = true -> mem keq a l = mem keq b l.
  Proof.
    induction l as [|x l IH]; intros a b H; simpl; auto.
    rewrite (keq_congr_l a b x H), (IH a b H). auto.
  Qed.

  Lemma nodup_b_snoc : forall l k, nodup_b keq l = true -> mem keq k l = false ->
    nodup_b keq (l ++ [k]) = true.
  Proof.
    induction l as [|x l IH]; intros k H E; simpl in *; auto.
    apply andb_true_iff in H. destruct H as [H1 H2].
    apply orb_false_iff in E. destruct E as [E1 E2].
    rewrite IH by auto. rewrite mem_app. simpl. rewrite orb_false_r.
    apply negb_true_iff in H1. rewrite H1. simpl. rewrite keq_sym, E1. auto.
  Qed.

  Lemma nodup_dset : forall (d : dict K V) k v,
    nodup_b keq (dkeys d) = true -> nodup_b keq (dkeys (dset keq k v d)) = true.
  Proof.
    intros d k v H. rewrite dkeys_dset. destruct (dmem keq k d) eqn:E; auto.
    rewrite dmem_mem in E. apply nodup_b_snoc; auto.
  Qed.

  Lemma mem_ddel_keys : forall (d : dict K V) k x,
    mem keq x (dkeys (ddel keq k d)) = true -> mem keq x (dkeys d) = true.
  Proof.
    induction d as [|[k0 v0] d IH]; intros k x H; simpl in *; auto.
    destruct (keq k k0); simpl in *.
    - rewrite H. apply orb_true_r.
    - destruct (keq x k0); simpl in *; auto. eapply IH; eauto.
  Qed.

  Lemma nodup_ddel : forall (d : dict K V) k,
    nodup_b keq (dkeys d) = true -> nodup_b keq (dkeys (ddel keq k d)) = true.
  Proof.
    induction d as [|[k0 v0] d IH]; intros k H; simpl in *; auto.
    apply andb_true_iff in H. destruct H as [H1 H2].
    destruct (keq k k0); simpl; auto.
    rewrite IH by auto. rewrite andb_true_r.
    apply negb_true_iff. apply negb_true_iff in H1.
    destruct (mem keq k0 (dkeys (ddel keq k d))) eqn:E; auto.
    apply mem_ddel_keys in E. unfold dkeys in *. congruence.
  Qed.

  Lemma dget_none_notmem : forall (d : dict K V) k, dget keq k d = None <-> mem keq k (dkeys d) = false.
  Proof.
    intros. rewrite <- dmem_mem. unfold dmem. destruct (dget keq k d); split; intro; congruence.
  Qed.

  Lemma dget_ddel : forall (d : dict K V) k k', nodup_b keq (dkeys d) = true ->
    dget keq k (ddel keq k' d) = if keq k k' then None else dget keq k d.
  Proof.
    induction d as [|[k0 v0] d IH]; intros k k' H; simpl in *.
    - destruct (keq k k'); auto.
    - apply andb_true_iff in H. destruct H as [H1 H2]. apply negb_true_iff in H1.
      destruct (keq k' k0) eqn:E; simpl.
      + destruct (keq k k') eqn:E2.
        * apply dget_none_notmem. rewrite (mem_congr _ k k0); auto. eapply keq_trans; eauto.
        * destruct (keq k k0) eqn:E3; auto.
          rewrite keq_sym in E. rewrite (keq_trans _ _ _ E3 E) in E2. discriminate.
      + rewrite IH by auto. destruct (keq k k0) eqn:E3; auto.
        destruct (keq k k') eqn:E2; auto.
        rewrite keq_sym in E2. rewrite (keq_trans _ _ _ E2 E3) in E. discriminate.
  Qed.
End DictFacts.

(* specialisations to the two key types in use *)
Definition A_dget_congr {V} := @dget_congr atom V atom_eqb atom_eqb_sym atom_eqb_trans.
Definition A_dget_dset {V} := @dget_dset atom V atom_eqb atom_eqb_sym atom_eqb_trans.
Definition A_dget_ddel {V} := @dget_ddel atom V atom_eqb atom_eqb_sym atom_eqb_trans.
Definition A_in_dset {V} := @in_dset atom V atom_eqb atom_eqb_refl.
Definition A_nodup_dset {V} := @nodup_dset atom V atom_eqb atom_eqb_sym.
Definition A_mem_congr := @mem_congr atom atom_eqb atom_eqb_sym atom_eqb_trans.
Definition T_dget_congr {V} := @dget_congr triple V triple_eqb triple_eqb_sym triple_eqb_trans.
Definition T_dget_dset {V} := @dget_dset triple V triple_eqb triple_eqb_sym triple_eqb_trans.
Definition T_dget_ddel {V} := @dget_ddel triple V triple_eqb triple_eqb_sym triple_eqb_trans.
Definition T_in_dset {V} := @in_dset triple V triple_eqb triple_eqb_refl.
Definition T_nodup_dset {V} := @nodup_dset triple V triple_eqb triple_eqb_sym.
Definition T_mem_congr := @mem_congr triple triple_eqb triple_eqb_sym triple_eqb_trans.


(* --- the agenda scan --- *)
Definition scan_inv (s : agenda_scan) : Prop :=
  let '(inst, other, fixed) := s in
  (forall k t, In (k, t) inst -> is_inst t = true /\ atom_eqb (tsrc t) k = true) /\
  (forall k l, In (k, l) other -> forall t, In t l -> atom_eqb (tsrc t) k = true).

Lemma scan_step_inv : forall s t, scan_inv s -> scan_inv (agenda_scan_step s t).
Proof.
  intros [[inst other] fixed] t [H1 H2]. unfold agenda_scan_step.
  fold (is_inst t). destruct (is_inst t) eqn:I; split; auto.
  - intros k t' HI. apply A_in_dset in HI. destruct HI as [HI|[E1 E2]]; auto. subst. auto.
  - intros k l HI t' Ht'. destruct (dget atom_eqb (tsrc t) other) as [l0|] eqn:G.
    + apply A_in_dset in HI. destruct HI as [HI|[E1 E2]]; [eapply H2; eauto|]. subst.
      apply in_app_or in Ht'. destruct Ht' as [Ht'|[Ht'|[]]].
      * apply (dget_some_in atom_eqb) in G. destruct G as (k' & I' & E').
        specialize (H2 _ _ I' _ Ht'). eapply atom_eqb_trans; eauto.
        eapply atom_eqb_trans; [|eauto]. rewrite atom_eqb_sym. auto.
      * subst. auto.
    + apply A_in_dset in HI. destruct HI as [HI|[E1 E2]]; [eapply H2; eauto|]. subst.
      destruct Ht' as [Ht'|[]]. subst. auto.
Qed.

Lemma scan_all_inv : forall ts s, scan_inv s -> scan_inv (fold_left agenda_scan_step ts s).
Proof. induction ts; simpl; intros; auto. apply IHts. apply scan_step_inv. auto. Qed.


(* which role and orientation Model.dereify picks, as a function of the concept and the two roles *)
Definition dereify_pick (m : model) (c ra rb : str) : option (str * bool) :=
  match find (fun '(r, s, t) => str_eqb s ra && str_eqb t rb) (deif_rows m c) with
  | Some (r, _, _) => Some (r, true)
  | None =>
      match find (fun '(r, s, t) => str_eqb t ra && str_eqb s rb) (deif_rows m c) with
      | Some (r, _, _) => Some (r, false)
      | None => None
      end
  end.

Lemma dereify_spec : forall m i a b,
  is_inst i = true -> atom_eqb (tsrc i) (tsrc a) = true -> atom_eqb (tsrc a) (tsrc b) = true ->
  dereify m i a b =
  match ttgt i with
  | AStr c =>
      match dereify_pick m c (trole a) (trole b) with
      | Some (r, true) => Ok (ttgt a, r, ttgt b)
      | Some (r, false) => Ok (ttgt b, r, ttgt a)
      | None => ModelErr
      end
  | _ => ModelErr
  end.
Proof.
  intros m i a b H1 H2 H3. unfold dereify. unfold is_inst in H1. rewrite H1, H2, H3.
  cbv [negb andb]. destruct (ttgt i); auto. unfold dereify_pick.
  destruct (deif_rows m s) as [|p l]; [reflexivity|].
  destruct (find _ (p :: l)) as [[[r ?] ?]|]; auto.
  destruct (find _ (p :: l)) as [[[r ?] ?]|]; auto.
Qed.

Lemma dereify_outcomes : forall m i a b,
  is_inst i = true -> atom_eqb (tsrc i) (tsrc a) = true -> atom_eqb (tsrc a) (tsrc b) = true ->
  (exists t, dereify m i a b = Ok t) \/ dereify m i a b = ModelErr.
Proof.
  intros m i a b H1 H2 H3. rewrite dereify_spec by auto.
  destruct (ttgt i); auto. destruct (dereify_pick m s (trole a) (trole b)) as [[r [|]]|]; eauto.
Qed.

Lemma agenda_item_total : forall m g other fixed var instance,
  is_inst instance = true -> atom_eqb (tsrc instance) var = true ->
  (forall k l, In (k, l) other -> forall t, In t l -> atom_eqb (tsrc t) k = true) ->
  exists r, agenda_item m g other fixed var instance = Ok r.
Proof.
  intros m g other fixed var instance HI HS HO. unfold agenda_item.
  destruct (mem atom_eqb var fixed); eauto.
  destruct (dget atom_eqb var other) as [l|] eqn:G; eauto.
  destruct l as [|o1 [|o2 [|o3 l]]]; eauto.
  destruct (is_concept_dereifiable m (ttgt instance)); eauto.
  apply (dget_some_in atom_eqb) in G. destruct G as (k' & I' & E').
  assert (S1 : atom_eqb (tsrc o1) k' = true) by (eapply HO; eauto; simpl; auto).
  assert (S2 : atom_eqb (tsrc o2) k' = true) by (eapply HO; eauto; simpl; auto).
  assert (A1 : atom_eqb (tsrc instance) (tsrc o1) = true).
  { eapply atom_eqb_trans; eauto. eapply atom_eqb_trans; eauto. rewrite atom_eqb_sym; auto. }
  assert (A2 : atom_eqb (tsrc instance) (tsrc o2) = true).
  { eapply atom_eqb_trans; eauto. eapply atom_eqb_trans; eauto. rewrite atom_eqb_sym; auto. }
  assert (A3 : atom_eqb (tsrc o1) (tsrc o2) = true).
  { eapply atom_eqb_trans; eauto. rewrite atom_eqb_sym; auto. }
  destruct (atom_eqb (pushed_value g o2) var).
  - destruct (dereify_outcomes m instance o2 o1 HI A2) as [[t E]|E]; try rewrite E; eauto.
    + rewrite atom_eqb_sym; auto.
    + destruct (negb (is_var g (tsrc t))); eauto.
  - destruct (dereify_outcomes m instance o1 o2 HI A1 A3) as [[t E]|E]; rewrite E; eauto.
    destruct (negb (is_var g (tsrc t))); eauto.
Qed.

Lemma agenda_items_total : forall m g other fixed inst,
  (forall k t, In (k, t) inst -> is_inst t = true /\ atom_eqb (tsrc t) k = true) ->
  (forall k l, In (k, l) other -> forall t, In t l -> atom_eqb (tsrc t) k = true) ->
  exists r, agenda_items m g other fixed inst = Ok r.
Proof.
  intros m g other fixed inst. induction inst as [|[var instance] inst IH]; intros H1 H2; simpl; eauto.
  destruct (H1 var instance) as [A B]; [left; auto|].
  destruct (agenda_item_total m g other fixed var instance A B H2) as [r E]. rewrite E. simpl.
  destruct IH as [r' E']; auto. { intros. apply H1. right. auto. }
  rewrite E'. simpl. eauto.
Qed.

Lemma dereify_agenda_total : forall m g, exists ag, dereify_agenda m g = Ok ag.
Proof.
  intros. unfold dereify_agenda. unfold agenda_scan_all.
  assert (I : scan_inv (fold_left agenda_scan_step (triples g) ([], [], [top_atom g]))).
  { apply scan_all_inv. simpl. split; intros ? ? []. }
  destruct (fold_left agenda_scan_step (triples g) ([], [], [top_atom g])) as [[inst other] fixed].
  destruct I. apply agenda_items_total; auto.
Qed.

Lemma dereify_edges_total : forall m g, exists g', dereify_edges m g = Ok g'.
Proof.
  intros. unfold dereify_edges. destruct (dereify_agenda_total m g) as [ag E]. rewrite E. simpl.
  destruct (dereify_edges_loop ag (triples g) (epidata g)). eauto.
Qed.


(* ------------------------------------------------------------------ *)
(** * Fresh names: [N_to_str] is injective, the search always succeeds *)

Definition dstep (acc c : N) : N := (acc * 10 + (c - 48))%N.
Lemma digits_to_N_eq : forall s, digits_to_N s = fold_left dstep s 0%N.
Proof. reflexivity. Qed.

Lemma N_to_str_fuel_val : forall f n acc, (n < 10 ^ N.of_nat f)%N ->
  fold_left dstep (N_to_str_fuel f n acc) 0%N = fold_left dstep acc n.
Proof.
  induction f as [|f IH]; intros n acc H.
  - simpl in *. assert (n = 0)%N by lia. subst. reflexivity.
  - simpl N_to_str_fuel.
    assert (D : (n = 10 * (n / 10) + n mod 10)%N) by (apply N.div_mod; lia).
    assert (M : (n mod 10 < 10)%N) by (apply N.mod_lt; lia).
    destruct (N.eqb (n / 10) 0) eqn:Q.
    + apply N.eqb_eq in Q. simpl. unfold dstep at 2. unfold digit_char.
      f_equal. clear H IH. rewrite Q in D. lia.
    + apply N.eqb_neq in Q. rewrite IH.
      * simpl. unfold dstep at 2. unfold digit_char. f_equal. clear H IH.
        remember (n / 10)%N as q. remember (n mod 10)%N as r. lia.
      * rewrite Nat2N.inj_succ, N.pow_succ_r' in H.
        apply N.div_lt_upper_bound; [lia|]. exact H.
Qed.

Lemma N_to_str_val : forall n, digits_to_N (N_to_str n) = n.
Proof.
  intros n. rewrite digits_to_N_eq. unfold N_to_str. rewrite N_to_str_fuel_val; [reflexivity|].
  rewrite Nat2N.inj_succ, N2Nat.id.
  destruct (N.eq_dec n 0) as [->|NZ]; [simpl; lia|].
  assert (L := N.log2_spec n ltac:(lia)). destruct L as [_ L].
  eapply N.lt_le_trans; [exact L|]. apply N.pow_le_mono_l. lia.
Qed.

Lemma N_to_str_inj : forall a b, N_to_str a = N_to_str b -> a = b.
Proof. intros a b H. rewrite <- (N_to_str_val a), <- (N_to_str_val b). congruence. Qed.

Lemma N_to_str_fuel_nonempty : forall f n acc, acc <> [] -> N_to_str_fuel f n acc <> [].
Proof.
  induction f; intros n acc H; simpl; auto.
  destruct (N.eqb (n / 10) 0); [discriminate|]. apply IHf. discriminate.
Qed.
Lemma N_to_str_nonempty : forall n, N_to_str n <> [].
Proof.
  intros n. unfold N_to_str. simpl. destruct (N.eqb (n / 10) 0); [discriminate|].
  apply N_to_str_fuel_nonempty. discriminate.
Qed.

Definition fname (k : N) : str := USCORE ++ N_to_str k.
Lemma fname_inj : forall a b, fname a = fname b -> a = b.
Proof. unfold fname. intros a b H. apply app_inv_head in H. apply N_to_str_inj; auto. Qed.
Lemma fname_not_uscore : forall k, fname k <> USCORE.
Proof.
  unfold fname, USCORE. intros k H. simpl in H. inversion H as [H1].
  apply (N_to_str_nonempty k). auto.
Qed.
Lemma fname_uscore : forall k, startswith (fname k) USCORE = true.
Proof. intros. apply startswith_iff. exists (N_to_str k). reflexivity. Qed.

(* a generated name: _ or _k *)
Definition gen_name (s : str) : Prop := s = USCORE \/ exists k, s = fname k.

Lemma mem_astr_in : forall s l, mem atom_eqb (AStr s) l = true -> In (AStr s) l.
Proof.
  intros s l H. apply mem_atom_true in H. destruct H as (b & I & E).
  apply atom_eqb_astr in E. subst. auto.
Qed.

(* pigeonhole: [seen] are distinct members of [vars]; with fuel >= the rest the loop finds a free name *)
Lemma attr_fresh_loop_some : forall f vars var i seen,
  NoDup seen -> incl seen vars ->
  (forall x, In x seen -> x <> AStr var /\ forall k, (i <= k)%N -> x <> AStr (fname k)) ->
  (forall k, (i <= k)%N -> var <> fname k) ->
  length vars <= length seen + f ->
  exists r, attr_fresh_loop f vars var i = Some r.
Proof.
  induction f as [|f IH]; intros vars var i seen ND INC OLD CUR LEN; simpl.
  - destruct (mem atom_eqb (AStr var) vars) eqn:M; eauto.
    exfalso. apply mem_astr_in in M.
    assert (ND' : NoDup (AStr var :: seen)).
    { constructor; auto. intro I. destruct (OLD _ I) as [N _]. congruence. }
    assert (INC' : incl (AStr var :: seen) vars).
    { intros x [<-|I]; auto. }
    pose proof (NoDup_incl_length ND' INC') as L. simpl in L. lia.
  - destruct (mem atom_eqb (AStr var) vars) eqn:M; eauto.
    apply mem_astr_in in M.
    apply IH with (seen := AStr var :: seen).
    + constructor; auto. intro I. destruct (OLD _ I) as [N _]. congruence.
    + intros x [<-|I]; auto.
    + intros x [<-|I].
      * split.
        -- intro E. inversion E as [E']. apply (CUR i); auto. lia.
        -- intros k Hk E. inversion E as [E']. apply (CUR k); auto. lia.
      * destruct (OLD _ I) as [N1 N2]. split.
        -- apply N2. lia.
        -- intros k Hk. apply N2. lia.
    + intros k Hk E. apply fname_inj in E. lia.
    + simpl. lia.
Qed.

Lemma attr_fresh_some : forall vars i, exists r, attr_fresh vars i = Some r.
Proof.
  intros. unfold attr_fresh. apply attr_fresh_loop_some with (seen := []).
  - constructor.
  - intros x [].
  - intros x [].
  - intros k _ E. symmetry in E. apply fname_not_uscore in E. auto.
  - simpl. lia.
Qed.

Lemma attr_fresh_loop_spec : forall f vars var i v i',
  attr_fresh_loop f vars var i = Some (v, i') -> gen_name var ->
  mem atom_eqb (AStr v) vars = false /\ gen_name v.
Proof.
  induction f as [|f IH]; intros vars var i v i' H G; simpl in H.
  - destruct (mem atom_eqb (AStr var) vars) eqn:M; [discriminate|]. inversion H; subst. auto.
  - destruct (mem atom_eqb (AStr var) vars) eqn:M.
    + eapply IH; eauto. right. eexists. reflexivity.
    + inversion H; subst. auto.
Qed.
Lemma attr_fresh_spec : forall vars i v i',
  attr_fresh vars i = Some (v, i') -> mem atom_eqb (AStr v) vars = false /\ gen_name v.
Proof. intros. eapply attr_fresh_loop_spec; eauto. left. reflexivity. Qed.

(* Model.reify's variable *)
Lemma fresh_loop_O : forall vars i, fresh_loop 0 vars i = fname i.
Proof. reflexivity. Qed.
Lemma fresh_loop_S : forall f vars i, fresh_loop (S f) vars i =
  if mem atom_eqb (AStr (fname i)) vars then fresh_loop f vars (i + 1)%N else fname i.
Proof. reflexivity. Qed.
Lemma fresh_loop_spec : forall f vars i seen,
  NoDup seen -> incl seen vars ->
  (forall x, In x seen -> forall k, (i <= k)%N -> x <> AStr (fname k)) ->
  length vars <= length seen + f ->
  mem atom_eqb (AStr (fresh_loop f vars i)) vars = false /\ gen_name (fresh_loop f vars i).
Proof.
  induction f as [|f IH]; intros vars i seen ND INC OLD LEN.
  - rewrite fresh_loop_O. split; [|right; eexists; reflexivity].
    destruct (mem atom_eqb (AStr (fname i)) vars) eqn:M; auto.
    exfalso. apply mem_astr_in in M.
    assert (ND' : NoDup (AStr (fname i) :: seen)).
    { constructor; auto. intro I. apply (OLD _ I i); auto. lia. }
    assert (INC' : incl (AStr (fname i) :: seen) vars) by (intros x [<-|I]; auto).
    pose proof (NoDup_incl_length ND' INC') as L. simpl in L. lia.
  - rewrite fresh_loop_S. destruct (mem atom_eqb (AStr (fname i)) vars) eqn:M.
    + apply mem_astr_in in M. apply IH with (seen := AStr (fname i) :: seen).
      * constructor; auto. intro I. apply (OLD _ I i); auto. lia.
      * intros x [<-|I]; auto.
      * intros x [<-|I] k Hk.
        -- intro E. assert (E' : fname i = fname k) by congruence. apply fname_inj in E'. lia.
        -- apply (OLD _ I). lia.
      * simpl. lia.
    + split; auto. right. eexists. reflexivity.
Qed.

Lemma fresh_var_spec : forall vars,
  mem atom_eqb (AStr (fresh_var vars)) vars = false /\ gen_name (fresh_var vars).
Proof.
  intros vars. unfold fresh_var. destruct (mem atom_eqb (AStr USCORE) vars) eqn:M.
  - apply mem_astr_in in M. apply fresh_loop_spec with (seen := [AStr USCORE]).
    + constructor; auto. constructor.
    + intros x [<-|[]]; auto.
    + intros x [<-|[]] k _ E. assert (E' : fname k = USCORE) by congruence.
      apply fname_not_uscore in E'. auto.
    + simpl. lia.
  - split; auto. left. reflexivity.
Qed.


(* ------------------------------------------------------------------ *)
(** * Names chosen along a loop *)

(* each name is generated, not yet used, and then joins the used set *)
Fixpoint names_ok (used : list atom) (vs : list str) : Prop :=
  match vs with
  | [] => True
  | v :: vs' => mem atom_eqb (AStr v) used = false /\ gen_name v /\ names_ok (used ++ [AStr v]) vs'
  end.

Lemma names_ok_notin : forall vs used v, names_ok used vs -> In v vs ->
  mem atom_eqb (AStr v) used = false /\ gen_name v.
Proof.
  induction vs as [|w vs IH]; intros used v H I; [destruct I|].
  destruct H as (H1 & H2 & H3). destruct I as [<-|I]; auto.
  destruct (IH _ _ H3 I) as [A B]. split; auto.
  rewrite mem_app in A. apply orb_false_iff in A. tauto.
Qed.

Lemma names_ok_nodup : forall vs used, names_ok used vs -> NoDup vs.
Proof.
  induction vs as [|w vs IH]; intros used H; [constructor|].
  destruct H as (H1 & H2 & H3). constructor; eauto.
  intro I. destruct (names_ok_notin _ _ _ H3 I) as [A _].
  rewrite mem_app in A. apply orb_false_iff in A. destruct A as [_ A].
  simpl in A. rewrite str_eqb_refl in A. discriminate.
Qed.

(* ------------------------------------------------------------------ *)
(** * Pure form of reify_edges (names given) *)

Definition reif_row (m : model) (r : str) : str * str * str :=
  match reif_rows m r with x :: _ => x | [] => ([], [], []) end.

(* the three triples in LIST order: (first, node, third) *)
Definition rexpand (m : model) (g : graph) (t : triple) (v : str) : triple * triple * triple :=
  let '(c, sr, tr) := reif_row m (trole t) in
  let i0 := (AStr v, sr, tsrc t) in
  let o0 := (AStr v, tr, ttgt t) in
  if reify_swaps g t then (o0, (AStr v, INSTANCE, AStr c), i0)
  else (i0, (AStr v, INSTANCE, AStr c), o0).

Fixpoint rloop (m : model) (g : graph) (ts : list triple) (vs : list str)
  (ed : dict triple (list epi)) : list triple * dict triple (list epi) :=
  match ts with
  | [] => ([], ed)
  | t :: ts' =>
      if is_role_reifiable m (trole t) then
        match vs with
        | v :: vs' =>
            let '(i, n, o) := rexpand m g t v in
            let ed1 := dset triple_eqb i [Push (AStr v)] ed in
            let '(old, ed2) := epi_pop t ed1 in
            let '(ne, oe) := edge_markers old in
            let ed4 := dset triple_eqb o oe (dset triple_eqb n ne ed2) in
            let '(rest, edf) := rloop m g ts' vs' ed4 in
            (i :: n :: o :: rest, edf)
        | [] => ([], ed)
        end
      else
        let '(rest, edf) := rloop m g ts' vs ed in (t :: rest, edf)
  end.

Definition count_reif (m : model) (ts : list triple) : nat :=
  length (filter (fun t => is_role_reifiable m (trole t)) ts).

Lemma fresh_var_match : forall vars,
  match vars with [] => USCORE | _ => fresh_var vars end = fresh_var vars.
Proof. destruct vars; reflexivity. Qed.

Lemma reify_edges_loop_cons : forall m g t ts' vars ed,
  reify_edges_loop m g (t :: ts') vars ed =
      if is_role_reifiable m (trole t) then
        '(in0, node_triple, out0) <- reify m t vars ;;
        let swap := negb (atom_eqb (tsrc t) (ttgt t)) && appears_inverted g t in
        let in_triple := if swap then out0 else in0 in
        let out_triple := if swap then in0 else out0 in
        let var := tsrc node_triple in
        let ed1 := dset triple_eqb in_triple [Push var] ed in
        let '(old_epis, ed2) := epi_pop t ed1 in
        let '(node_epis, out_epis) := edge_markers old_epis in
        let ed3 := dset triple_eqb node_triple node_epis ed2 in
        let ed4 := dset triple_eqb out_triple out_epis ed3 in
        '(rest, edf) <- reify_edges_loop m g ts' (vars ++ [var]) ed4 ;;
        Ok (in_triple :: node_triple :: out_triple :: rest, edf)
      else
        '(rest, edf) <- reify_edges_loop m g ts' vars ed ;;
        Ok (t :: rest, edf).
Proof. reflexivity. Qed.

Lemma reify_edges_loop_pure : forall m g ts vars ed,
  exists vs, reify_edges_loop m g ts vars ed = Ok (rloop m g ts vs ed) /\
             names_ok vars vs /\ length vs = count_reif m ts.
Proof.
  intros m g ts. induction ts as [|t ts IH]; intros vars ed.
  - exists []. simpl. auto.
  - rewrite reify_edges_loop_cons. unfold count_reif. simpl filter. cbn [rloop].
    destruct (is_role_reifiable m (trole t)) eqn:R.
    + destruct (reify_ok m t vars R) as (c & sr & tr & rest & RR & E). rewrite E.
      rewrite fresh_var_match. set (v := fresh_var vars).
      destruct (fresh_var_spec vars) as [F1 F2].
      cbv beta iota zeta. unfold bind at 1. cbv beta iota zeta.
      assert (RX : rexpand m g t v =
        (if negb (atom_eqb (tsrc t) (ttgt t)) && appears_inverted g t return triple then (AStr v, tr, ttgt t) else (AStr v, sr, tsrc t),
         (AStr v, INSTANCE, AStr c),
         if negb (atom_eqb (tsrc t) (ttgt t)) && appears_inverted g t return triple then (AStr v, sr, tsrc t) else (AStr v, tr, ttgt t))).
      { unfold rexpand, reif_row, reify_swaps. rewrite RR.
        destruct (negb (atom_eqb (tsrc t) (ttgt t)) && appears_inverted g t); reflexivity. }
      set (i := if negb (atom_eqb (tsrc t) (ttgt t)) && appears_inverted g t return triple then (AStr v, tr, ttgt t) else (AStr v, sr, tsrc t)) in *.
      set (o := if negb (atom_eqb (tsrc t) (ttgt t)) && appears_inverted g t return triple then (AStr v, sr, tsrc t) else (AStr v, tr, ttgt t)) in *.
      change (tsrc (AStr v, INSTANCE, AStr c)) with (AStr v).
      destruct (epi_pop t (dset triple_eqb i [Push (AStr v)] ed)) as [old ed2] eqn:EP.
      destruct (edge_markers old) as [ne oe] eqn:EM.
      destruct (IH (vars ++ [AStr v]) (dset triple_eqb o oe (dset triple_eqb (AStr v, INSTANCE, AStr c) ne ed2)))
        as (vs & E2 & N & L).
      exists (v :: vs). rewrite RX. rewrite EP, EM. rewrite E2.
      destruct (rloop m g ts vs _) as [r1 r2]. simpl.
      split; [reflexivity|]. split; [split; auto|]. f_equal. exact L.
    + destruct (IH vars ed) as (vs & E2 & N & L). exists vs. rewrite E2.
      destruct (rloop m g ts vs ed) as [r1 r2]. simpl. auto.
Qed.

(* only the triples *)
Fixpoint rtriples (m : model) (g : graph) (ts : list triple) (vs : list str) : list triple :=
  match ts with
  | [] => []
  | t :: ts' =>
      if is_role_reifiable m (trole t) then
        match vs with
        | v :: vs' => let '(i, n, o) := rexpand m g t v in i :: n :: o :: rtriples m g ts' vs'
        | [] => []
        end
      else t :: rtriples m g ts' vs
  end.

Lemma rloop_triples : forall m g ts vs ed, fst (rloop m g ts vs ed) = rtriples m g ts vs.
Proof.
  intros m g ts. induction ts as [|t ts IH]; intros vs ed; cbn [rloop rtriples]; auto.
  destruct (is_role_reifiable m (trole t)).
  - destruct vs as [|v vs]; auto. destruct (rexpand m g t v) as [[i n] o].
    destruct (epi_pop t (dset triple_eqb i [Push (AStr v)] ed)) as [old ed2].
    destruct (edge_markers old) as [ne oe].
    specialize (IH vs (dset triple_eqb o oe (dset triple_eqb n ne ed2))).
    destruct (rloop m g ts vs (dset triple_eqb o oe (dset triple_eqb n ne ed2))). simpl in *. rewrite IH. auto.
  - specialize (IH vs ed). destruct (rloop m g ts vs ed). simpl in *. rewrite IH. auto.
Qed.

Lemma reify_edges_pure : forall m g g', reify_edges m g = Ok g' ->
  exists vs, names_ok (used_names g) vs /\ length vs = count_reif m (triples g) /\
    g' = mk_graph (rtriples m g (triples g) vs) (graph_top g)
                  (snd (rloop m g (triples g) vs (epidata g))) (gmeta g).
Proof.
  intros m g g' H. unfold reify_edges in H.
  destruct (reify_edges_loop_pure m g (triples g) (used_names g) (epidata g)) as (vs & E & N & L).
  rewrite E in H. simpl in H. exists vs. split; auto. split; auto.
  rewrite <- (rloop_triples m g (triples g) vs (epidata g)). destruct (rloop m g (triples g) vs (epidata g)). simpl in *. congruence.
Qed.


(* ------------------------------------------------------------------ *)
(** * Pure form of reify_attributes *)

Definition is_attr_of (variables : list atom) (t : triple) : bool :=
  negb (str_eqb (trole t) INSTANCE) && negb (mem atom_eqb (ttgt t) variables).

Fixpoint aloop (variables : list atom) (ts : list triple) (vs : list str)
  (ed : dict triple (list epi)) : list triple * dict triple (list epi) :=
  match ts with
  | [] => ([], ed)
  | t :: ts' =>
      if is_attr_of variables t then
        match vs with
        | v :: vs' =>
            let var := AStr v in
            let role_triple := (tsrc t, trole t, var) in
            let node_triple := (var, INSTANCE, ttgt t) in
            let '(old_epis, ed1) := epi_pop t ed in
            let '(role_epis, node_epis) := attr_markers old_epis in
            let ed2 := dset triple_eqb role_triple (role_epis ++ [Push var]) ed1 in
            let ed3 := dset triple_eqb node_triple (node_epis ++ [Pop]) ed2 in
            let '(rest, edf) := aloop variables ts' vs' ed3 in
            (role_triple :: node_triple :: rest, edf)
        | [] => ([], ed)
        end
      else
        let '(rest, edf) := aloop variables ts' vs ed in (t :: rest, edf)
  end.

Fixpoint atriples (variables : list atom) (ts : list triple) (vs : list str) : list triple :=
  match ts with
  | [] => []
  | t :: ts' =>
      if is_attr_of variables t then
        match vs with
        | v :: vs' => (tsrc t, trole t, AStr v) :: (AStr v, INSTANCE, ttgt t) :: atriples variables ts' vs'
        | [] => []
        end
      else t :: atriples variables ts' vs
  end.

Lemma aloop_triples : forall variables ts vs ed, fst (aloop variables ts vs ed) = atriples variables ts vs.
Proof.
  intros variables ts. induction ts as [|t ts IH]; intros vs ed; cbn [aloop atriples]; auto.
  destruct (is_attr_of variables t).
  - destruct vs as [|v vs]; auto.
    destruct (epi_pop t ed) as [old ed1]. destruct (attr_markers old) as [re ne].
    match goal with |- context [aloop variables ts vs ?e] => specialize (IH vs e); destruct (aloop variables ts vs e) end.
    simpl in *. rewrite IH. auto.
  - specialize (IH vs ed). destruct (aloop variables ts vs ed). simpl in *. rewrite IH. auto.
Qed.

Lemma reify_attributes_loop_cons : forall variables t ts' vars i ed,
  reify_attributes_loop variables (t :: ts') vars i ed =
      if negb (str_eqb (trole t) INSTANCE) && negb (mem atom_eqb (ttgt t) variables) then
        match attr_fresh vars i with
        | None => OutOfFuel
        | Some (v, i') =>
            let var := AStr v in
            let role_triple := (tsrc t, trole t, var) in
            let node_triple := (var, INSTANCE, ttgt t) in
            let '(old_epis, ed1) := epi_pop t ed in
            let '(role_epis, node_epis) := attr_markers old_epis in
            let ed2 := dset triple_eqb role_triple (role_epis ++ [Push var]) ed1 in
            let ed3 := dset triple_eqb node_triple (node_epis ++ [Pop]) ed2 in
            '(rest, edf) <- reify_attributes_loop variables ts' (vars ++ [var]) i' ed3 ;;
            Ok (role_triple :: node_triple :: rest, edf)
        end
      else
        '(rest, edf) <- reify_attributes_loop variables ts' vars i ed ;;
        Ok (t :: rest, edf).
Proof. reflexivity. Qed.

Definition count_attr (variables : list atom) (ts : list triple) : nat :=
  length (filter (is_attr_of variables) ts).

Lemma reify_attributes_loop_pure : forall variables ts vars i ed,
  exists vs, reify_attributes_loop variables ts vars i ed = Ok (aloop variables ts vs ed) /\
             names_ok vars vs /\ length vs = count_attr variables ts.
Proof.
  intros variables ts. induction ts as [|t ts IH]; intros vars i ed.
  - exists []. simpl. auto.
  - rewrite reify_attributes_loop_cons. unfold count_attr. simpl filter. cbn [aloop].
    fold (is_attr_of variables t). destruct (is_attr_of variables t) eqn:A.
    + destruct (attr_fresh_some vars i) as [[v i'] F]. rewrite F.
      destruct (attr_fresh_spec _ _ _ _ F) as [F1 F2].
      cbv beta iota zeta.
      destruct (epi_pop t ed) as [old ed1]. destruct (attr_markers old) as [re ne].
      match goal with |- context [reify_attributes_loop variables ts ?a ?b ?c] =>
        destruct (IH a b c) as (vs & E2 & N & L) end.
      exists (v :: vs). rewrite E2.
      match goal with |- context [aloop variables ts vs ?e] => destruct (aloop variables ts vs e) as [r1 r2] end.
      simpl. split; [reflexivity|]. split; [split; auto|]. f_equal. exact L.
    + destruct (IH vars i ed) as (vs & E2 & N & L). exists vs. rewrite E2.
      destruct (aloop variables ts vs ed) as [r1 r2]. simpl. auto.
Qed.

Lemma reify_attributes_total : forall g, exists g', reify_attributes g = Ok g'.
Proof.
  intros g. unfold reify_attributes.
  destruct (reify_attributes_loop_pure (variables g) (triples g) (used_names g) 2%N (epidata g)) as (vs & E & _).
  rewrite E. destruct (aloop _ _ _ _). simpl. eauto.
Qed.

Lemma reify_attributes_pure : forall g g', reify_attributes g = Ok g' ->
  exists vs, names_ok (used_names g) vs /\ length vs = count_attr (variables g) (triples g) /\
    g' = mk_graph (atriples (variables g) (triples g) vs) (graph_top g)
                  (snd (aloop (variables g) (triples g) vs (epidata g))) (gmeta g).
Proof.
  intros g g' H. unfold reify_attributes in H.
  destruct (reify_attributes_loop_pure (variables g) (triples g) (used_names g) 2%N (epidata g)) as (vs & E & N & L).
  rewrite E in H. simpl in H. exists vs. split; auto. split; auto.
  rewrite <- (aloop_triples (variables g) (triples g) vs (epidata g)).
  destruct (aloop (variables g) (triples g) vs (epidata g)). simpl in *. congruence.
Qed.

(* ------------------------------------------------------------------ *)
(** * indicate_branches *)

(* the triples indicate_branches inserts in front of [t] *)
Definition indicated (m : model) (g : graph) (t : triple) : list triple :=
  match get_pushed_variable g t with
  | Some v =>
      if atom_eqb v (ttgt t) then [(tsrc t, top_role m, ttgt t)]
      else if atom_eqb v (tsrc t) && is_var g (ttgt t) then [(ttgt t, top_role m, tsrc t)]
      else []
  | None => []
  end.
Definition itriples (m : model) (g : graph) (ts : list triple) : list triple :=
  flat_map (fun t => indicated m g t ++ [t]) ts.

Lemma indicate_loop_pure : forall m g ts, vars_are_str g ->
  indicate_loop m g ts = Ok (itriples m g ts).
Proof.
  intros m g ts VS. induction ts as [|t ts IH]; simpl; auto.
  rewrite IH. unfold indicated.
  destruct (get_pushed_variable g t) as [v|]; simpl; auto.
  destruct (atom_eqb v (ttgt t)); simpl; auto.
  destruct (atom_eqb v (tsrc t)); simpl; auto.
  destruct (is_var g (ttgt t)) eqn:V; simpl; auto.
  rewrite (VS _ V). reflexivity.
Qed.

Lemma indicate_loop_only_assert : forall m g ts r,
  indicate_loop m g ts = r -> (exists l, r = Ok l) \/ r = Other 4.
Proof.
  intros m g ts. induction ts as [|t ts IH]; intros r H; simpl in H.
  - left. eauto.
  - destruct (IH _ eq_refl) as [[l E]|E]; rewrite E in H; subst;
    destruct (get_pushed_variable g t) as [v|]; simpl; eauto;
    destruct (atom_eqb v (ttgt t)); simpl; eauto;
    destruct (atom_eqb v (tsrc t) && is_var g (ttgt t)); simpl; eauto;
    destruct (is_astr (ttgt t)); simpl; eauto.
Qed.

(* ------------------------------------------------------------------ *)
(** * Variables of a graph *)

Lemma mem_rev : forall a l, mem atom_eqb a (rev l) = mem atom_eqb a l.
Proof.
  intros a l. induction l as [|x l IH]; simpl; auto.
  rewrite mem_app, IH. simpl. rewrite orb_false_r. apply orb_comm.
Qed.

Lemma mem_dedup_acc : forall l acc a,
  mem atom_eqb a (dedup_acc atom_eqb l acc) = mem atom_eqb a acc || mem atom_eqb a l.
Proof.
  induction l as [|x l IH]; intros acc a; simpl.
  - rewrite mem_rev, orb_false_r. auto.
  - destruct (mem atom_eqb x acc) eqn:M; rewrite IH.
    + destruct (atom_eqb a x) eqn:E; simpl; auto.
      rewrite (mem_atom_congr a x acc E), M. auto.
    + simpl. destruct (atom_eqb a x); simpl; auto. rewrite orb_true_r. auto.
Qed.

Lemma mem_dedup : forall l a, mem atom_eqb a (dedup atom_eqb l) = mem atom_eqb a l.
Proof. intros. unfold dedup. rewrite mem_dedup_acc. auto. Qed.

Definition top_list (o : option atom) : list atom := match o with Some t => [t] | None => [] end.

Lemma is_var_spec : forall g x,
  is_var g x = mem atom_eqb x (map tsrc (triples g)) || mem atom_eqb x (top_list (gtop g)).
Proof. intros. unfold is_var, variables. rewrite mem_dedup, mem_app. reflexivity. Qed.

Lemma is_var_congr : forall g a b, atom_eqb a b = true -> is_var g a = is_var g b.
Proof. intros. unfold is_var. apply mem_atom_congr. auto. Qed.

Lemma in_variables_is_var : forall g x, In x (variables g) -> is_var g x = true.
Proof. intros. unfold is_var. apply mem_atom_in. auto. Qed.

Lemma is_var_in_variables : forall g x, is_var g x = true -> exists y, In y (variables g) /\ atom_eqb x y = true.
Proof. intros g x H. unfold is_var in H. apply mem_atom_true in H. auto. Qed.

Lemma src_is_var : forall g t, In t (triples g) -> is_var g (tsrc t) = true.
Proof.
  intros g t H. rewrite is_var_spec. apply orb_true_iff. left.
  apply mem_atom_in. apply in_map. auto.
Qed.

Lemma graph_top_is_var : forall g t, graph_top g = Some t -> is_var g t = true.
Proof.
  intros g t H. unfold graph_top in H. rewrite is_var_spec. destruct (gtop g) as [t0|].
  - inversion H; subst. simpl. rewrite atom_eqb_refl. apply orb_true_r.
  - destruct (triples g) as [|t1 l]; [discriminate|]. inversion H; subst. simpl.
    rewrite atom_eqb_refl. auto.
Qed.

(* ---- mk_graph ---- *)
Definition colonize (t : triple) : triple := (tsrc t, ensure_colon (trole t), ttgt t).

Lemma triples_mk : forall ts top ed meta, triples (mk_graph ts top ed meta) = map colonize ts.
Proof. reflexivity. Qed.

Lemma ensure_colon_has : forall r, has_colon (ensure_colon r) = true.
Proof.
  intros r. unfold ensure_colon, has_colon. destruct (startswith r [COLON]) eqn:E; auto.
  rewrite startswith_cons1. reflexivity.
Qed.
Lemma ensure_colon_id : forall r, has_colon r = true -> ensure_colon r = r.
Proof. intros r H. unfold ensure_colon. unfold has_colon in H. rewrite H. auto. Qed.
Lemma colonize_id : forall t, has_colon (trole t) = true -> colonize t = t.
Proof. intros [[s r] x] H. unfold colonize. simpl in *. rewrite ensure_colon_id; auto. Qed.
Lemma map_colonize_id : forall ts, (forall t, In t ts -> has_colon (trole t) = true) -> map colonize ts = ts.
Proof.
  induction ts as [|t ts IH]; intros H; simpl; auto.
  rewrite colonize_id, IH; auto.
  - intros. apply H. right. auto.
  - apply H. left. auto.
Qed.
Lemma colonize_src : forall t, tsrc (colonize t) = tsrc t. Proof. reflexivity. Qed.
Lemma colonize_tgt : forall t, ttgt (colonize t) = ttgt t. Proof. reflexivity. Qed.
Lemma map_src_colonize : forall ts, map tsrc (map colonize ts) = map tsrc ts.
Proof. intros. rewrite map_map. apply map_ext. reflexivity. Qed.
Lemma map_tgt_colonize : forall ts, map ttgt (map colonize ts) = map ttgt ts.
Proof. intros. rewrite map_map. apply map_ext. reflexivity. Qed.

Lemma INSTANCE_colon : has_colon INSTANCE = true.
Proof. reflexivity. Qed.

Lemma is_var_mk : forall ts top ed meta x,
  is_var (mk_graph ts top ed meta) x = mem atom_eqb x (map tsrc ts) || mem atom_eqb x (top_list top).
Proof. intros. rewrite is_var_spec. simpl. rewrite map_src_colonize. auto. Qed.

(* ---- instance counting ---- *)
Definition inst_hit (x : atom) (t : triple) : bool := atom_eqb (tsrc t) x && is_inst t.
Lemma inst_count_cons : forall t l x,
  inst_count (t :: l) x = (if inst_hit x t then 1 else 0) + inst_count l x.
Proof. intros. unfold inst_count, inst_hit. simpl. destruct (atom_eqb (tsrc t) x && is_inst t); auto. Qed.
Lemma inst_count_nil : forall x, inst_count [] x = 0. Proof. reflexivity. Qed.
Lemma inst_count_congr : forall l a b, atom_eqb a b = true -> inst_count l a = inst_count l b.
Proof.
  intros l a b H. induction l as [|t l IH]; auto. rewrite !inst_count_cons, IH.
  unfold inst_hit. rewrite (atom_eqb_congr_r a b (tsrc t) H). auto.
Qed.
Lemma inst_count_no_src : forall l x, (forall t, In t l -> atom_eqb (tsrc t) x = false) -> inst_count l x = 0.
Proof.
  induction l as [|t l IH]; intros x H; auto. rewrite inst_count_cons, IH.
  - unfold inst_hit. rewrite H; auto. left. auto.
  - intros. apply H. right. auto.
Qed.

(* node_graph, unfolded *)
Lemma node_graph_iff : forall g, node_graph g <->
  (forall t, In t (triples g) -> has_colon (trole t) = true) /\
  (forall x, is_var g x = true -> is_astr x = true /\ inst_count (triples g) x = 1).
Proof.
  intros g. unfold node_graph, node_graph_b. rewrite andb_true_iff, !forallb_forall. split.
  - intros [H1 H2]. split; auto. intros x V.
    apply is_var_in_variables in V. destruct V as (y & I & E).
    specialize (H2 y I). apply andb_true_iff in H2. destruct H2 as [A B].
    apply is_astr_iff in A. destruct A as [s ->]. apply atom_eqb_astr_r in E. subst.
    split; auto. apply Nat.eqb_eq. auto.
  - intros [H1 H2]. split; auto. intros x I.
    destruct (H2 x (in_variables_is_var g x I)) as [A B]. rewrite A, B. auto.
Qed.

Lemma wf_node_graph : forall g, wf_graph g -> node_graph g.
Proof.
  intros g H. unfold wf_graph, wf_graph_b in H. unfold node_graph, node_graph_b.
  repeat (apply andb_true_iff in H; destruct H as [H ?]).
  apply andb_true_iff. split; auto.
  apply forallb_forall. intros x I.
  rewrite forallb_forall in H1. rewrite (H1 x I), andb_true_r.
  unfold variables in I.
  assert (V : is_var g x = true) by (apply in_variables_is_var; auto).
  rewrite is_var_spec in V. apply orb_true_iff in V. destruct V as [V|V].
  - apply mem_atom_true in V. destruct V as (b & Ib & E). apply in_map_iff in Ib.
    destruct Ib as (t & <- & It). rewrite forallb_forall in H. specialize (H t It).
    apply is_astr_iff in H. destruct H as [s Hs]. rewrite Hs in E. apply atom_eqb_astr_r in E. subst. auto.
  - (* the explicit top: it has an instance triple, so it is a source *)
    specialize (H1 x I). apply Nat.eqb_eq in H1.
    destruct (filter (fun t => atom_eqb (tsrc t) x && is_inst t) (triples g)) as [|t l] eqn:F.
    { unfold inst_count in H1. rewrite F in H1. discriminate. }
    assert (It : In t (filter (fun t => atom_eqb (tsrc t) x && is_inst t) (triples g))) by (rewrite F; left; auto).
    apply filter_In in It. destruct It as [It C]. apply andb_true_iff in C. destruct C as [C _].
    rewrite forallb_forall in H. specialize (H t It). apply is_astr_iff in H. destruct H as [s Hs].
    rewrite Hs in C. apply atom_eqb_astr in C. subst. auto.
Qed.


(* ------------------------------------------------------------------ *)
(** * reify_edges keeps node_graph (C12) *)

Lemma reif_rows_in : forall m r c sr tr rest, reif_rows m r = (c, sr, tr) :: rest ->
  In (r, c, sr, tr) (reifs m).
Proof.
  intros m r c sr tr rest H. unfold reif_rows in H.
  assert (I : In (c, sr, tr) (flat_map (fun '(r0, c0, s, t) => if str_eqb r0 r then [(c0, s, t)] else []) (reifs m))).
  { rewrite H. left. auto. }
  apply in_flat_map in I. destruct I as ([[[r0 c0] s0] t0] & I1 & I2).
  destruct (str_eqb r0 r) eqn:E; [|destruct I2].
  apply str_eqb_eq in E. subst. destruct I2 as [I2|[]]. inversion I2; subst. auto.
Qed.

Lemma table_inst_free_row : forall m r c sr tr, table_inst_free m = true -> In (r, c, sr, tr) (reifs m) ->
  colon_inst r = false /\ colon_inst sr = false /\ colon_inst tr = false.
Proof.
  intros m r c sr tr H I. unfold table_inst_free in H. rewrite forallb_forall in H.
  specialize (H _ I). simpl in H. repeat (apply andb_true_iff in H; destruct H as [H ?]).
  repeat split; apply negb_true_iff; auto.
Qed.

Lemma reif_row_facts : forall m r, table_inst_free m = true -> is_role_reifiable m r = true ->
  let '(c, sr, tr) := reif_row m r in
  colon_inst r = false /\ colon_inst sr = false /\ colon_inst tr = false.
Proof.
  intros m r T R. destruct (reifiable_rows _ _ R) as (c & sr & tr & rest & E).
  unfold reif_row. rewrite E. eapply table_inst_free_row; eauto. eapply reif_rows_in; eauto.
Qed.

Lemma is_inst_colonize : forall t, is_inst (colonize t) = colon_inst (trole t).
Proof. reflexivity. Qed.

(* the three new triples of one reification, unordered view *)
Lemma rexpand_cases : forall m g t v i n o, rexpand m g t v = (i, n, o) ->
  let '(c, sr, tr) := reif_row m (trole t) in
  n = (AStr v, INSTANCE, AStr c) /\
  ((i = (AStr v, sr, tsrc t) /\ o = (AStr v, tr, ttgt t) /\ reify_swaps g t = false) \/
   (i = (AStr v, tr, ttgt t) /\ o = (AStr v, sr, tsrc t) /\ reify_swaps g t = true)).
Proof.
  intros m g t v i n o H. unfold rexpand in H. destruct (reif_row m (trole t)) as [[c sr] tr].
  destruct (reify_swaps g t); inversion H; subst; auto.
Qed.

Lemma inst_hit_old_new : forall x v r y, atom_eqb (AStr v) x = false -> inst_hit x (colonize (AStr v, r, y)) = false.
Proof. intros. unfold inst_hit, colonize, tsrc. cbn [fst snd]. rewrite H. reflexivity. Qed.

(* counting over the expansion, for an atom that is none of the new names *)
Lemma count_reif_cons : forall m t ts,
  count_reif m (t :: ts) = (if is_role_reifiable m (trole t) then 1 else 0) + count_reif m ts.
Proof. intros. unfold count_reif. simpl. destruct (is_role_reifiable m (trole t)); auto. Qed.

Lemma reifiable_not_inst : forall m t x, table_inst_free m = true -> has_colon (trole t) = true ->
  is_role_reifiable m (trole t) = true -> inst_hit x t = false.
Proof.
  intros m t x T C R. pose proof (reif_row_facts m (trole t) T R) as F.
  unfold inst_hit, is_inst. destruct (reif_row m (trole t)) as [[c sr] tr]. destruct F as (F1 & _).
  unfold colon_inst in F1. rewrite ensure_colon_id in F1 by auto. rewrite F1. apply andb_false_r.
Qed.

Lemma cnt_rtriples_old : forall m g ts vs x,
  table_inst_free m = true ->
  (forall t, In t ts -> has_colon (trole t) = true) ->
  (forall v, In v vs -> atom_eqb (AStr v) x = false) ->
  count_reif m ts <= length vs ->
  inst_count (map colonize (rtriples m g ts vs)) x = inst_count ts x.
Proof.
  intros m g ts. induction ts as [|t ts IH]; intros vs x T C N L; simpl; auto.
  assert (C' : forall t0, In t0 ts -> has_colon (trole t0) = true) by (intros; apply C; right; auto).
  rewrite count_reif_cons in L.
  destruct (is_role_reifiable m (trole t)) eqn:R.
  - assert (NI : inst_hit x t = false) by (eapply reifiable_not_inst; eauto; apply C; left; auto).
    destruct vs as [|v vs]; [simpl in L; lia|].
    destruct (rexpand m g t v) as [[i n] o] eqn:RX. apply rexpand_cases in RX.
    destruct (reif_row m (trole t)) as [[c sr] tr].
    assert (NV : atom_eqb (AStr v) x = false) by (apply N; left; auto).
    destruct RX as (-> & [(-> & -> & _)|(-> & -> & _)]); simpl map;
      rewrite !inst_count_cons, !inst_hit_old_new, NI by auto; simpl;
      apply IH; auto; try (intros; apply N; right; auto); simpl in L; lia.
  - simpl map. rewrite !inst_count_cons. rewrite colonize_id by (apply C; left; auto).
    f_equal. apply IH; auto; try (simpl in L; lia).
Qed.

(* ... and for one of the new names *)
Lemma cnt_rtriples_new : forall m g ts vs v,
  table_inst_free m = true ->
  (forall t, In t ts -> has_colon (trole t) = true) ->
  (forall t, In t ts -> atom_eqb (tsrc t) (AStr v) = false) ->
  NoDup vs -> length vs = count_reif m ts -> In v vs ->
  inst_count (map colonize (rtriples m g ts vs)) (AStr v) = 1.
Proof.
  intros m g ts. induction ts as [|t ts IH]; intros vs v T C S ND L I.
  - simpl in L. destruct vs; [destruct I|discriminate].
  - assert (C' : forall t0, In t0 ts -> has_colon (trole t0) = true) by (intros; apply C; right; auto).
    assert (S' : forall t0, In t0 ts -> atom_eqb (tsrc t0) (AStr v) = false) by (intros; apply S; right; auto).
    rewrite count_reif_cons in L. simpl rtriples.
    destruct (is_role_reifiable m (trole t)) eqn:R.
    + destruct vs as [|w vs]; [destruct I|]. simpl in L. inversion ND as [|? ? NI ND']; subst.
      destruct (rexpand m g t w) as [[i n] o] eqn:RX. apply rexpand_cases in RX.
      pose proof (reif_row_facts m (trole t) T R) as F.
      destruct (reif_row m (trole t)) as [[c sr] tr]. destruct F as (F1 & F2 & F3).
      destruct I as [<-|I].
      * (* our own node triple counts once; nothing else does *)
        assert (REST : inst_count (map colonize (rtriples m g ts vs)) (AStr w) = 0).
        { rewrite cnt_rtriples_old; auto; try lia.
          - apply inst_count_no_src. auto.
          - intros u Iu. simpl. apply str_eqb_neq. intro E. subst. contradiction. }
        destruct RX as (-> & [(-> & -> & _)|(-> & -> & _)]); simpl map;
          rewrite !inst_count_cons, REST; unfold inst_hit;
          rewrite !is_inst_colonize, !colonize_src; unfold tsrc, trole; cbn [fst snd];
          rewrite !atom_eqb_refl, ?F2, ?F3; reflexivity.
      * assert (NW : atom_eqb (AStr w) (AStr v) = false).
        { simpl. apply str_eqb_neq. intro E. subst. contradiction. }
        destruct RX as (-> & [(-> & -> & _)|(-> & -> & _)]); simpl map;
          rewrite !inst_count_cons, !inst_hit_old_new by auto; simpl;
          apply IH; auto; lia.
    + simpl map. rewrite inst_count_cons. unfold inst_hit. rewrite colonize_src, S by (left; auto).
      simpl. apply IH; auto.
Qed.

(* sources of the expansion *)
Lemma rtriples_src : forall m g ts vs t', In t' (rtriples m g ts vs) ->
  (exists t, In t ts /\ tsrc t' = tsrc t) \/ (exists v, In v vs /\ tsrc t' = AStr v).
Proof.
  intros m g ts. induction ts as [|t ts IH]; intros vs t' H; simpl in H; [destruct H|].
  destruct (is_role_reifiable m (trole t)).
  - destruct vs as [|v vs]; [destruct H|].
    destruct (rexpand m g t v) as [[i n] o] eqn:RX. apply rexpand_cases in RX.
    destruct (reif_row m (trole t)) as [[c sr] tr].
    destruct H as [H|[H|[H|H]]].
    + right. exists v. split; [left; auto|]. destruct RX as (_ & [(-> & _)|(-> & _)]); subst; reflexivity.
    + right. exists v. split; [left; auto|]. destruct RX as (-> & _); subst; reflexivity.
    + right. exists v. split; [left; auto|]. destruct RX as (_ & [(_ & -> & _)|(_ & -> & _)]); subst; reflexivity.
    + destruct (IH _ _ H) as [(t0 & I0 & E)|(v0 & I0 & E)].
      * left. exists t0. split; auto. right. auto.
      * right. exists v0. split; auto. right. auto.
  - destruct H as [<-|H].
    + left. exists t. split; auto. left. auto.
    + destruct (IH _ _ H) as [(t0 & I0 & E)|(v0 & I0 & E)].
      * left. exists t0. split; auto. right. auto.
      * right. exists v0. split; auto.
Qed.

Lemma used_names_var : forall g x, is_var g x = true -> mem atom_eqb x (used_names g) = true.
Proof. intros. unfold used_names. rewrite mem_app. unfold is_var in H. rewrite H. auto. Qed.

Lemma reify_edges_node_graph : forall m g g', node_graph g -> table_inst_free m = true ->
  reify_edges m g = Ok g' -> node_graph g'.
Proof.
  intros m g g' NG T H. apply reify_edges_pure in H. destruct H as (vs & N & L & ->).
  apply node_graph_iff in NG. destruct NG as [C V].
  apply node_graph_iff. split.
  - intros t I. rewrite triples_mk in I. apply in_map_iff in I. destruct I as (t0 & <- & _).
    apply ensure_colon_has.
  - intros x X. rewrite triples_mk.
    assert (FRESH : forall v, In v vs -> mem atom_eqb (AStr v) (used_names g) = false)
      by (intros v I; eapply names_ok_notin; eauto).
    assert (OLDNEW : forall y v, is_var g y = true -> In v vs -> atom_eqb (AStr v) y = false).
    { intros y v Y I. destruct (atom_eqb (AStr v) y) eqn:E; auto.
      pose proof (FRESH v I) as F. rewrite (mem_atom_congr _ _ (used_names g) E) in F.
      rewrite used_names_var in F; auto. }
    assert (CASES : is_var g x = true \/ exists v, In v vs /\ x = AStr v).
    { rewrite is_var_mk in X. apply orb_true_iff in X. destruct X as [X|X].
      - apply mem_atom_true in X. destruct X as (b & Ib & E). apply in_map_iff in Ib.
        destruct Ib as (t' & <- & It'). apply rtriples_src in It'.
        destruct It' as [(t0 & I0 & E0)|(v0 & I0 & E0)]; rewrite E0 in E.
        + left. rewrite (is_var_congr g _ _ E). apply src_is_var. auto.
        + right. exists v0. split; auto. apply atom_eqb_astr_r in E. auto.
      - left. destruct (graph_top g) as [tp|] eqn:GT; simpl in X; [|discriminate].
        rewrite orb_false_r in X. rewrite (is_var_congr g _ _ X). apply graph_top_is_var. auto. }
    destruct CASES as [OLD|(v & I & ->)].
    + destruct (V x OLD) as [A B]. split; auto.
      rewrite cnt_rtriples_old; auto; try lia.
    + split; auto. apply cnt_rtriples_new; auto.
      * intros t It. destruct (atom_eqb (tsrc t) (AStr v)) eqn:E; auto.
        rewrite atom_eqb_sym in E. rewrite (OLDNEW (tsrc t) v) in E; auto. apply src_is_var. auto.
      * eapply names_ok_nodup; eauto.
Qed.


(* ------------------------------------------------------------------ *)
(** * reify_attributes (C12) *)

Lemma tsrc_mk : forall (s : atom) (r : str) (x : atom), tsrc (s, r, x) = s. Proof. reflexivity. Qed.
Lemma trole_mk : forall (s : atom) (r : str) (x : atom), trole (s, r, x) = r. Proof. reflexivity. Qed.
Lemma ttgt_mk : forall (s : atom) (r : str) (x : atom), ttgt (s, r, x) = x. Proof. reflexivity. Qed.
Ltac proj := rewrite ?colonize_src, ?colonize_tgt, ?is_inst_colonize, ?tsrc_mk, ?trole_mk, ?ttgt_mk.

Lemma count_attr_cons : forall V t ts,
  count_attr V (t :: ts) = (if is_attr_of V t then 1 else 0) + count_attr V ts.
Proof. intros. unfold count_attr. simpl. destruct (is_attr_of V t); auto. Qed.

Lemma is_attr_not_inst : forall V t, is_attr_of V t = true -> is_inst t = false.
Proof. intros V t H. unfold is_attr_of in H. apply andb_true_iff in H. destruct H as [H _]. apply negb_true_iff in H. auto. Qed.

Lemma colon_inst_id : forall r, has_colon r = true -> colon_inst r = str_eqb r INSTANCE.
Proof. intros. unfold colon_inst. rewrite ensure_colon_id; auto. Qed.

Lemma cnt_atriples_old : forall V ts vs x,
  (forall t, In t ts -> has_colon (trole t) = true) ->
  (forall v, In v vs -> atom_eqb (AStr v) x = false) ->
  count_attr V ts <= length vs ->
  inst_count (map colonize (atriples V ts vs)) x = inst_count ts x.
Proof.
  intros V ts. induction ts as [|t ts IH]; intros vs x C N L; simpl; auto.
  assert (C' : forall t0, In t0 ts -> has_colon (trole t0) = true) by (intros; apply C; right; auto).
  rewrite count_attr_cons in L. destruct (is_attr_of V t) eqn:A.
  - destruct vs as [|v vs]; [simpl in L; lia|].
    assert (NV : atom_eqb (AStr v) x = false) by (apply N; left; auto).
    pose proof (is_attr_not_inst _ _ A) as NI.
    simpl map. rewrite !inst_count_cons. rewrite inst_hit_old_new by auto.
    unfold inst_hit at 1 2. proj.
    rewrite colon_inst_id by (apply C; left; auto). fold (is_inst t). rewrite NI, !andb_false_r. simpl.
    apply IH; auto. { intros; apply N; right; auto. } simpl in L. lia.
  - simpl map. rewrite !inst_count_cons. rewrite colonize_id by (apply C; left; auto).
    f_equal. apply IH; auto; try (simpl in L; lia).
Qed.

Lemma cnt_atriples_new : forall V ts vs v,
  (forall t, In t ts -> has_colon (trole t) = true) ->
  (forall t, In t ts -> atom_eqb (tsrc t) (AStr v) = false) ->
  NoDup vs -> length vs = count_attr V ts -> In v vs ->
  inst_count (map colonize (atriples V ts vs)) (AStr v) = 1.
Proof.
  intros V ts. induction ts as [|t ts IH]; intros vs v C S ND L I.
  - simpl in L. destruct vs; [destruct I|discriminate].
  - assert (C' : forall t0, In t0 ts -> has_colon (trole t0) = true) by (intros; apply C; right; auto).
    assert (S' : forall t0, In t0 ts -> atom_eqb (tsrc t0) (AStr v) = false) by (intros; apply S; right; auto).
    rewrite count_attr_cons in L. simpl atriples. destruct (is_attr_of V t) eqn:A.
    + destruct vs as [|w vs]; [destruct I|]. simpl in L. inversion ND as [|? ? NI ND']; subst.
      pose proof (is_attr_not_inst _ _ A) as NT.
      assert (ST : atom_eqb (tsrc t) (AStr v) = false) by (apply S; left; auto).
      simpl map. rewrite !inst_count_cons.
      unfold inst_hit at 1. proj. rewrite ST. simpl.
      destruct I as [<-|I].
      * assert (REST : inst_count (map colonize (atriples V ts vs)) (AStr w) = 0).
        { rewrite cnt_atriples_old; auto; try lia.
          - apply inst_count_no_src. auto.
          - intros u Iu. simpl. apply str_eqb_neq. intro E. subst. contradiction. }
        rewrite REST. unfold inst_hit. proj.
        rewrite atom_eqb_refl. reflexivity.
      * assert (NW : atom_eqb (AStr w) (AStr v) = false).
        { simpl. apply str_eqb_neq. intro E. subst. contradiction. }
        rewrite inst_hit_old_new by auto. simpl. apply IH; auto; lia.
    + simpl map. rewrite inst_count_cons. unfold inst_hit. rewrite colonize_src, S by (left; auto).
      simpl. apply IH; auto.
Qed.

Lemma atriples_src : forall V ts vs t', In t' (atriples V ts vs) ->
  (exists t, In t ts /\ tsrc t' = tsrc t) \/ (exists v, In v vs /\ tsrc t' = AStr v).
Proof.
  intros V ts. induction ts as [|t ts IH]; intros vs t' H; simpl in H; [destruct H|].
  destruct (is_attr_of V t).
  - destruct vs as [|v vs]; [destruct H|]. destruct H as [H|[H|H]].
    + left. exists t. split; [left; auto|]. subst. reflexivity.
    + right. exists v. split; [left; auto|]. subst. reflexivity.
    + destruct (IH _ _ H) as [(t0 & I0 & E)|(v0 & I0 & E)].
      * left. exists t0. split; auto. right. auto.
      * right. exists v0. split; auto. right. auto.
  - destruct H as [<-|H].
    + left. exists t. split; auto. left. auto.
    + destruct (IH _ _ H) as [(t0 & I0 & E)|(v0 & I0 & E)].
      * left. exists t0. split; auto. right. auto.
      * right. exists v0. split; auto.
Qed.

(* every old source is still a source *)
Lemma atriples_keeps_src : forall V ts vs t, count_attr V ts <= length vs -> In t ts ->
  exists t', In t' (atriples V ts vs) /\ tsrc t' = tsrc t.
Proof.
  intros V ts. induction ts as [|t0 ts IH]; intros vs t L I; [destruct I|].
  rewrite count_attr_cons in L. simpl. destruct (is_attr_of V t0) eqn:A; try rewrite A in L.
  - destruct vs as [|v vs]; [simpl in L; lia|]. destruct I as [<-|I].
    + eexists. split; [left; reflexivity|]. reflexivity.
    + destruct (IH vs t) as (t' & I' & E); auto; try (simpl in L; lia).
      exists t'. split; auto. right. right. auto.
  - destruct I as [<-|I].
    + exists t0. split; auto. left. auto.
    + destruct (IH vs t) as (t' & I' & E); auto; try (simpl in L; lia).
      exists t'. split; auto. right. auto.
Qed.

Lemma reify_attributes_node_graph : forall g g', node_graph g ->
  reify_attributes g = Ok g' -> node_graph g'.
Proof.
  intros g g' NG H. apply reify_attributes_pure in H. destruct H as (vs & N & L & ->).
  apply node_graph_iff in NG. destruct NG as [C V].
  apply node_graph_iff. split.
  - intros t I. rewrite triples_mk in I. apply in_map_iff in I. destruct I as (t0 & <- & _).
    apply ensure_colon_has.
  - intros x X. rewrite triples_mk.
    assert (FRESH : forall v, In v vs -> mem atom_eqb (AStr v) (used_names g) = false)
      by (intros v I; eapply names_ok_notin; eauto).
    assert (OLDNEW : forall y v, is_var g y = true -> In v vs -> atom_eqb (AStr v) y = false).
    { intros y v Y I. destruct (atom_eqb (AStr v) y) eqn:E; auto.
      pose proof (FRESH v I) as F. rewrite (mem_atom_congr _ _ (used_names g) E) in F.
      rewrite used_names_var in F; auto. }
    assert (CASES : is_var g x = true \/ exists v, In v vs /\ x = AStr v).
    { rewrite is_var_mk in X. apply orb_true_iff in X. destruct X as [X|X].
      - apply mem_atom_true in X. destruct X as (b & Ib & E). apply in_map_iff in Ib.
        destruct Ib as (t' & <- & It'). apply atriples_src in It'.
        destruct It' as [(t0 & I0 & E0)|(v0 & I0 & E0)]; rewrite E0 in E.
        + left. rewrite (is_var_congr g _ _ E). apply src_is_var. auto.
        + right. exists v0. split; auto. apply atom_eqb_astr_r in E. auto.
      - left. destruct (graph_top g) as [tp|] eqn:GT; simpl in X; [|discriminate].
        rewrite orb_false_r in X. rewrite (is_var_congr g _ _ X). apply graph_top_is_var. auto. }
    destruct CASES as [OLD|(v & I & ->)].
    + destruct (V x OLD) as [A B]. split; auto.
      rewrite cnt_atriples_old; auto; try lia.
    + split; auto. apply cnt_atriples_new; auto.
      * intros t It. destruct (atom_eqb (tsrc t) (AStr v)) eqn:E; auto.
        rewrite atom_eqb_sym in E. rewrite (OLDNEW (tsrc t) v) in E; auto. apply src_is_var. auto.
      * eapply names_ok_nodup; eauto.
Qed.

(* no attribute is left *)
Lemma attributes_all : forall g,
  attributes g None None None =
  filter (fun x => negb (str_eqb (trole x) INSTANCE) && negb (is_var g (ttgt x))) (triples g).
Proof.
  intros. unfold attributes, filter_triples. simpl.
  f_equal. induction (triples g); simpl; auto. f_equal. auto.
Qed.

Lemma filter_nil : forall {A} (f : A -> bool) l, (forall x, In x l -> f x = false) -> filter f l = [].
Proof.
  induction l as [|x l IH]; intros H; simpl; auto. rewrite H by (left; auto). apply IH. intros. apply H. right. auto.
Qed.

Lemma atriples_cases : forall V ts vs t', In t' (atriples V ts vs) ->
  (In t' ts /\ is_attr_of V t' = false) \/
  (exists t v, In t ts /\ In v vs /\ In (AStr v, INSTANCE, ttgt t) (atriples V ts vs) /\
               (t' = (tsrc t, trole t, AStr v) \/ t' = (AStr v, INSTANCE, ttgt t))).
Proof.
  intros V ts. induction ts as [|t ts IH]; intros vs t' H; simpl in H; [destruct H|].
  simpl atriples. destruct (is_attr_of V t) eqn:A.
  - destruct vs as [|v vs]; [destruct H|]. destruct H as [H|[H|H]].
    + right. exists t, v. split; [left; auto|]. split; [left; auto|]. split; [right; left; auto|]. left; auto.
    + right. exists t, v. split; [left; auto|]. split; [left; auto|]. split; [right; left; auto|]. right; auto.
    + destruct (IH _ _ H) as [[I0 A0]|(t0 & v0 & I0 & I1 & I2 & E)].
      * left. split; auto. right. auto.
      * right. exists t0, v0. split; [right; auto|]. split; [right; auto|]. split; [right; right; auto|]. auto.
  - destruct H as [<-|H].
    + left. split; auto. left. auto.
    + destruct (IH _ _ H) as [[I0 A0]|(t0 & v0 & I0 & I1 & I2 & E)].
      * left. split; auto. right. auto.
      * right. exists t0, v0. split; [right; auto|]. split; [auto|]. split; [right; auto|]. auto.
Qed.

Lemma reify_attributes_no_attr : forall g g', reify_attributes g = Ok g' ->
  attributes g' None None None = [].
Proof.
  intros g g' H. apply reify_attributes_pure in H. destruct H as (vs & N & L & ->).
  rewrite attributes_all. apply filter_nil. intros t' I. rewrite triples_mk in I.
  apply in_map_iff in I. destruct I as (t0 & <- & I0).
  apply andb_false_iff. rewrite !negb_false_iff. rewrite colonize_tgt.
  fold (is_inst (colonize t0)). rewrite is_inst_colonize.
  set (g' := mk_graph _ _ _ _).
  assert (SRC : forall t1, In t1 (atriples (variables g) (triples g) vs) -> is_var g' (tsrc t1) = true).
  { intros t1 I1. unfold g'. rewrite is_var_mk. apply orb_true_iff. left.
    apply mem_atom_in. apply in_map. auto. }
  destruct (atriples_cases _ _ _ _ I0) as [[I1 A]|(t & v & I1 & I2 & I3 & [->| ->])].
  - unfold is_attr_of in A. apply andb_false_iff in A. rewrite !negb_false_iff in A. destruct A as [A|A].
    + left. unfold colon_inst. apply str_eqb_eq in A. rewrite A. reflexivity.
    + right. fold (is_var g (ttgt t0)) in A. rewrite is_var_spec in A. apply orb_true_iff in A.
      destruct A as [A|A].
      * apply mem_atom_true in A. destruct A as (b & Ib & E). apply in_map_iff in Ib.
        destruct Ib as (t1 & <- & I4).
        destruct (atriples_keeps_src (variables g) (triples g) vs t1) as (t2 & I5 & E5); auto; try lia.
        rewrite (is_var_congr g' _ _ E), <- E5. apply SRC. auto.
      * unfold g'. rewrite is_var_mk. apply orb_true_iff. right.
        unfold graph_top. destruct (gtop g); auto. simpl in A. discriminate.
  - right. proj. apply (SRC _ I3).
  - left. reflexivity.
Qed.

(* contracting the new nodes gives the triples back *)
Lemma contract_atriples : forall old V ts vs,
  (forall t, In t ts -> has_colon (trole t) = true /\ mem atom_eqb (ttgt t) old = true) ->
  (forall v, In v vs -> mem atom_eqb (AStr v) old = false) ->
  count_attr V ts <= length vs ->
  contract_attrs old (map colonize (atriples V ts vs)) = ts.
Proof.
  intros old V ts. induction ts as [|t ts IH]; intros vs H N L; auto.
  assert (H' : forall t0, In t0 ts -> has_colon (trole t0) = true /\ mem atom_eqb (ttgt t0) old = true)
    by (intros; apply H; right; auto).
  destruct (H t) as [Ct Mt]; [left; auto|].
  rewrite count_attr_cons in L. simpl atriples. destruct (is_attr_of V t) eqn:A.
  - destruct vs as [|v vs]; [simpl in L; lia|].
    simpl map. cbn [contract_attrs].
    pose proof (is_attr_not_inst _ _ A) as NI.
    proj. rewrite colon_inst_id by auto.
    fold (is_inst t). rewrite NI.
    rewrite (N v) by (left; auto). rewrite atom_eqb_refl.
    change (colon_inst INSTANCE) with true. cbn [negb andb].
    replace (trole (colonize (tsrc t, trole t, AStr v))) with (trole t)
      by (unfold colonize; proj; rewrite ensure_colon_id; auto).
    rewrite IH; auto.
    + destruct t as [[s r] x]. reflexivity.
    + intros. apply N. right. auto.
    + simpl in L. lia.
  - simpl map. rewrite colonize_id by auto.
    assert (E : contract_attrs old (t :: map colonize (atriples V ts vs)) = t :: contract_attrs old (map colonize (atriples V ts vs))).
    { cbn [contract_attrs]. destruct (map colonize (atriples V ts vs)) as [|t2 rest'] eqn:M; auto.
      rewrite Mt. rewrite andb_false_r. reflexivity. }
    rewrite E, IH; auto; try (simpl in L; lia).
Qed.

Lemma reify_attributes_contract : forall g g', (forall t, In t (triples g) -> has_colon (trole t) = true) ->
  reify_attributes g = Ok g' -> contract_attrs (used_names g) (triples g') = triples g.
Proof.
  intros g g' C H. apply reify_attributes_pure in H. destruct H as (vs & N & L & ->).
  rewrite triples_mk. apply contract_atriples; try lia.
  - intros t I. split; auto. unfold used_names. rewrite mem_app. apply orb_true_iff. right.
    apply mem_atom_in. apply in_map. auto.
  - intros v I. eapply names_ok_notin; eauto.
Qed.


(* ------------------------------------------------------------------ *)
(** * indicate_branches (C12) *)

Lemma node_graph_vars_str : forall g, node_graph g -> vars_are_str g.
Proof. intros g H x V. apply node_graph_iff in H. destruct H as [_ H]. apply H. auto. Qed.

Lemma indicate_branches_pure : forall m g, vars_are_str g ->
  indicate_branches m g = Ok (mk_graph (itriples m g (triples g)) (graph_top g) (epidata g) (gmeta g)).
Proof. intros. unfold indicate_branches. rewrite indicate_loop_pure; auto. Qed.

Lemma indicate_branches_total : forall m g, vars_are_str g -> exists g', indicate_branches m g = Ok g'.
Proof. intros. rewrite indicate_branches_pure; eauto. Qed.

Lemma indicated_spec : forall m g t, In t (triples g) ->
  (indicated m g t = [] /\ indicates g t = false) \/
  (exists a b, indicated m g t = [(a, top_role m, b)] /\ indicates g t = true /\ is_var g a = true).
Proof.
  intros m g t I. unfold indicated, indicates. destruct (get_pushed_variable g t) as [v|]; auto.
  destruct (atom_eqb v (ttgt t)) eqn:E1; simpl.
  - right. exists (tsrc t), (ttgt t). repeat split; auto. apply src_is_var; auto.
  - destruct (atom_eqb v (tsrc t) && is_var g (ttgt t)) eqn:E2; auto.
    right. exists (ttgt t), (tsrc t). repeat split; auto.
    apply andb_true_iff in E2. tauto.
Qed.

Lemma cnt_itriples : forall m g ts x, colon_inst (top_role m) = false ->
  (forall t, In t ts -> has_colon (trole t) = true /\ In t (triples g)) ->
  inst_count (map colonize (itriples m g ts)) x = inst_count ts x.
Proof.
  intros m g ts x T. induction ts as [|t ts IH]; intros H; auto.
  unfold itriples in *. simpl flat_map. rewrite <- app_assoc. simpl app.
  destruct (H t) as [C I]; [left; auto|].
  assert (H' : forall t0, In t0 ts -> has_colon (trole t0) = true /\ In t0 (triples g)) by (intros; apply H; right; auto).
  destruct (indicated_spec m g t I) as [[E _]|(a & b & E & _ & _)]; rewrite E; simpl app; simpl map.
  - rewrite !inst_count_cons, colonize_id, IH; auto.
  - rewrite !inst_count_cons, (colonize_id t), IH; auto.
    unfold inst_hit. rewrite is_inst_colonize. rewrite trole_mk, T, andb_false_r. reflexivity.
Qed.

Lemma itriples_src : forall m g ts t', (forall t, In t ts -> In t (triples g)) ->
  In t' (itriples m g ts) -> is_var g (tsrc t') = true.
Proof.
  intros m g ts t' H I. unfold itriples in I. apply in_flat_map in I. destruct I as (t & It & I).
  apply in_app_or in I. destruct I as [I|[<-|[]]].
  - destruct (indicated_spec m g t (H _ It)) as [[E _]|(a & b & E & _ & V)]; rewrite E in I.
    + destruct I.
    + destruct I as [<-|[]]. rewrite tsrc_mk. auto.
  - apply src_is_var. auto.
Qed.

Lemma itriples_keeps : forall m g ts t, In t ts -> In t (itriples m g ts).
Proof.
  intros. unfold itriples. apply in_flat_map. exists t. split; auto. apply in_or_app. right. left. auto.
Qed.

Lemma indicate_branches_node_graph : forall m g g', node_graph g -> colon_inst (top_role m) = false ->
  indicate_branches m g = Ok g' -> node_graph g'.
Proof.
  intros m g g' NG T H. rewrite indicate_branches_pure in H by (apply node_graph_vars_str; auto).
  inversion H; subst. clear H.
  apply node_graph_iff in NG. destruct NG as [C V]. apply node_graph_iff. split.
  - intros t I. rewrite triples_mk in I. apply in_map_iff in I. destruct I as (t0 & <- & _).
    apply ensure_colon_has.
  - intros x X. rewrite triples_mk.
    assert (OLD : is_var g x = true).
    { rewrite is_var_mk in X. apply orb_true_iff in X. destruct X as [X|X].
      - apply mem_atom_true in X. destruct X as (b & Ib & E). apply in_map_iff in Ib.
        destruct Ib as (t' & <- & It'). rewrite (is_var_congr g _ _ E).
        eapply itriples_src; eauto.
      - destruct (graph_top g) as [tp|] eqn:GT; simpl in X; [|discriminate].
        rewrite orb_false_r in X. rewrite (is_var_congr g _ _ X). apply graph_top_is_var. auto. }
    destruct (V x OLD) as [A B]. split; auto. rewrite cnt_itriples; auto.
Qed.

Lemma itriples_length : forall m g ts, (forall t, In t ts -> In t (triples g)) ->
  length (itriples m g ts) = length ts + length (filter (indicates g) ts).
Proof.
  intros m g ts. induction ts as [|t ts IH]; intros H; auto.
  unfold itriples in *. simpl flat_map. rewrite !app_length, IH by (intros; apply H; right; auto).
  simpl filter. destruct (indicated_spec m g t (H t (or_introl eq_refl))) as [[E F]|(a & b & E & F & _)]; rewrite E, F; simpl; lia.
Qed.

Lemma itriples_remove : forall m g ts,
  (forall t, In t ts -> has_colon (trole t) = true /\ str_eqb (trole t) (ensure_colon (top_role m)) = false /\ In t (triples g)) ->
  filter (fun t => negb (str_eqb (trole t) (ensure_colon (top_role m)))) (map colonize (itriples m g ts)) = ts.
Proof.
  intros m g ts. induction ts as [|t ts IH]; intros H; auto.
  unfold itriples in *. simpl flat_map. rewrite <- app_assoc. simpl app. rewrite map_app, filter_app.
  destruct (H t) as (C & R & I); [left; auto|].
  assert (E1 : filter (fun t0 => negb (str_eqb (trole t0) (ensure_colon (top_role m)))) (map colonize (indicated m g t)) = []).
  { destruct (indicated_spec m g t I) as [[E _]|(a & b & E & _ & _)]; rewrite E; auto.
    simpl. unfold colonize at 1. rewrite !trole_mk. rewrite str_eqb_refl. reflexivity. }
  rewrite E1. simpl. rewrite colonize_id by auto. rewrite R. simpl. f_equal.
  apply IH. intros. apply H. right. auto.
Qed.


(* ------------------------------------------------------------------ *)
(** * The dereification agenda as a function of the variable *)

Definition insts_of (ts : list triple) (v : atom) : list triple :=
  filter (fun t => atom_eqb (tsrc t) v && is_inst t) ts.
Definition others_of (ts : list triple) (v : atom) : list triple :=
  filter (fun t => atom_eqb (tsrc t) v && negb (is_inst t)) ts.
Definition fixed_of (g : graph) : list atom :=
  top_atom g :: map ttgt (filter (fun t => negb (is_inst t)) (triples g)).
Fixpoint last_opt {A} (l : list A) : option A :=
  match l with
  | [] => None
  | x :: l' => match last_opt l' with Some y => Some y | None => Some x end
  end.

Lemma insts_of_cons : forall t ts v,
  insts_of (t :: ts) v = if atom_eqb (tsrc t) v && is_inst t then t :: insts_of ts v else insts_of ts v.
Proof. reflexivity. Qed.
Lemma others_of_cons : forall t ts v,
  others_of (t :: ts) v = if atom_eqb (tsrc t) v && negb (is_inst t) then t :: others_of ts v else others_of ts v.
Proof. reflexivity. Qed.

Definition scan_of (ts : list triple) (s : agenda_scan) : agenda_scan := fold_left agenda_scan_step ts s.

Lemma scan_step_eq : forall inst other fixed t,
  agenda_scan_step (inst, other, fixed) t =
  if is_inst t then (dset atom_eqb (tsrc t) t inst, other, fixed)
  else (inst,
        match dget atom_eqb (tsrc t) other with
        | None => dset atom_eqb (tsrc t) [t] other
        | Some l => dset atom_eqb (tsrc t) (l ++ [t]) other
        end, fixed ++ [ttgt t]).
Proof. reflexivity. Qed.

Lemma scan_fixed : forall ts inst other fixed,
  snd (scan_of ts (inst, other, fixed)) = fixed ++ map ttgt (filter (fun t => negb (is_inst t)) ts).
Proof.
  unfold scan_of. induction ts as [|t ts IH]; intros inst other fixed; cbn [fold_left].
  - simpl. rewrite app_nil_r. auto.
  - rewrite scan_step_eq. simpl filter. destruct (is_inst t); simpl negb; cbv iota.
    + apply IH.
    + rewrite IH. simpl. rewrite <- app_assoc. reflexivity.
Qed.

Lemma scan_other : forall ts inst other fixed v,
  dget atom_eqb v (snd (fst (scan_of ts (inst, other, fixed)))) =
  match dget atom_eqb v other, others_of ts v with
  | Some l, l' => Some (l ++ l')
  | None, [] => None
  | None, l' => Some l'
  end.
Proof.
  unfold scan_of. induction ts as [|t ts IH]; intros inst other fixed v; cbn [fold_left].
  - simpl. destruct (dget atom_eqb v other); auto. rewrite app_nil_r. auto.
  - rewrite scan_step_eq, others_of_cons. destruct (is_inst t) eqn:I; simpl negb.
    + rewrite andb_false_r. apply IH.
    + rewrite andb_true_r. rewrite IH. rewrite (atom_eqb_sym (tsrc t) v).
      destruct (atom_eqb v (tsrc t)) eqn:E.
      * rewrite <- (A_dget_congr other _ _ E).
        destruct (dget atom_eqb v other) as [l0|] eqn:G; rewrite A_dget_dset, E.
        -- rewrite <- app_assoc. reflexivity.
        -- reflexivity.
      * destruct (dget atom_eqb (tsrc t) other) as [l0|]; rewrite A_dget_dset, E; reflexivity.
Qed.

Lemma scan_inst : forall ts inst other fixed v,
  dget atom_eqb v (fst (fst (scan_of ts (inst, other, fixed)))) =
  match last_opt (insts_of ts v) with Some t => Some t | None => dget atom_eqb v inst end.
Proof.
  unfold scan_of. induction ts as [|t ts IH]; intros inst other fixed v; cbn [fold_left]; auto.
  rewrite scan_step_eq, insts_of_cons. destruct (is_inst t) eqn:I.
  - rewrite andb_true_r. rewrite IH. rewrite A_dget_dset. rewrite (atom_eqb_sym (tsrc t) v).
    destruct (atom_eqb v (tsrc t)); simpl; destruct (last_opt (insts_of ts v)); auto.
  - rewrite andb_false_r. destruct (dget atom_eqb (tsrc t) other); apply IH.
Qed.

Lemma scan_inst_nodup : forall ts inst other fixed,
  nodup_b atom_eqb (dkeys inst) = true ->
  nodup_b atom_eqb (dkeys (fst (fst (scan_of ts (inst, other, fixed))))) = true.
Proof.
  unfold scan_of. induction ts as [|t ts IH]; intros inst other fixed H; cbn [fold_left]; auto.
  rewrite scan_step_eq. destruct (is_inst t).
  - apply IH. apply A_nodup_dset. auto.
  - destruct (dget atom_eqb (tsrc t) other); apply IH; auto.
Qed.

Lemma scan_fixed' : forall ts (s : agenda_scan),
  snd (scan_of ts s) = snd s ++ map ttgt (filter (fun t => negb (is_inst t)) ts).
Proof. intros ts [[i o] f]. apply scan_fixed. Qed.
Lemma scan_other' : forall ts (s : agenda_scan) v,
  dget atom_eqb v (snd (fst (scan_of ts s))) =
  match dget atom_eqb v (snd (fst s)), others_of ts v with
  | Some l, l' => Some (l ++ l')
  | None, [] => None
  | None, l' => Some l'
  end.
Proof. intros ts [[i o] f] v. apply scan_other. Qed.
Lemma scan_inst' : forall ts (s : agenda_scan) v,
  dget atom_eqb v (fst (fst (scan_of ts s))) =
  match last_opt (insts_of ts v) with Some t => Some t | None => dget atom_eqb v (fst (fst s)) end.
Proof. intros ts [[i o] f] v. apply scan_inst. Qed.
Lemma scan_inst_nodup' : forall ts (s : agenda_scan),
  nodup_b atom_eqb (dkeys (fst (fst s))) = true ->
  nodup_b atom_eqb (dkeys (fst (fst (scan_of ts s)))) = true.
Proof. intros ts [[i o] f]. apply scan_inst_nodup. Qed.

(* agenda_item only looks at its own entry of [other], and respects atom_eqb on the variable *)
Lemma agenda_item_other_ext : forall m g o1 o2 fixed v i,
  dget atom_eqb v o1 = dget atom_eqb v o2 ->
  agenda_item m g o1 fixed v i = agenda_item m g o2 fixed v i.
Proof. intros. unfold agenda_item. rewrite H. reflexivity. Qed.

Lemma agenda_item_congr : forall m g other fixed v k i, atom_eqb v k = true ->
  agenda_item m g other fixed v i = agenda_item m g other fixed k i.
Proof.
  intros. unfold agenda_item.
  rewrite (mem_atom_congr v k fixed H), (A_dget_congr other v k H).
  destruct (mem atom_eqb k fixed); auto.
  destruct (dget atom_eqb k other) as [[|o1 [|o2 [|o3 l]]]|]; auto.
  rewrite (atom_eqb_congr_r v k (pushed_value g o2) H). reflexivity.
Qed.

Definition out_opt {A} (o : outcome (option A)) : option A := match o with Ok r => r | _ => None end.

Lemma agenda_items_lookup : forall m g other fixed inst ag,
  nodup_b atom_eqb (dkeys inst) = true ->
  agenda_items m g other fixed inst = Ok ag ->
  forall v, dget atom_eqb v ag =
    match dget atom_eqb v inst with
    | Some i => out_opt (agenda_item m g other fixed v i)
    | None => None
    end.
Proof.
  intros m g other fixed inst. induction inst as [|[k i] inst IH]; intros ag ND H v; simpl in H.
  - inversion H. reflexivity.
  - apply bind_ok in H. destruct H as (e & E1 & H). apply bind_ok in H. destruct H as (rest & E2 & H).
    inversion H; subst. clear H.
    simpl in ND. apply andb_true_iff in ND. destruct ND as [ND1 ND2]. apply negb_true_iff in ND1.
    specialize (IH rest ND2 E2 v). simpl dget at 2.
    destruct (atom_eqb v k) eqn:E.
    + rewrite (agenda_item_congr m g other fixed v k i E), E1. simpl.
      destruct e as [x|].
      * simpl. rewrite E. reflexivity.
      * rewrite IH.
        assert (G : dget atom_eqb v inst = None).
        { apply dget_none_notmem. rewrite (A_mem_congr _ v k E). auto. }
        rewrite G. reflexivity.
    + destruct e as [x|]; auto. simpl. rewrite E. auto.
Qed.

Definition own_entry (ts : list triple) (v : atom) : dict atom (list triple) :=
  match others_of ts v with [] => [] | l => [(v, l)] end.

Definition collapsible (m : model) (g : graph) (v : atom) : option agenda_entry :=
  match last_opt (insts_of (triples g) v) with
  | None => None
  | Some i => out_opt (agenda_item m g (own_entry (triples g) v) (fixed_of g) v i)
  end.

Lemma agenda_spec : forall m g ag, dereify_agenda m g = Ok ag ->
  forall v, dget atom_eqb v ag = collapsible m g v.
Proof.
  intros m g ag H v. unfold dereify_agenda, agenda_scan_all in H.
  match type of H with context [fold_left agenda_scan_step (triples g) ?init] =>
    pose proof (scan_inst' (triples g) init v) as SI;
    pose proof (scan_other' (triples g) init v) as SO;
    pose proof (scan_fixed' (triples g) init) as SF;
    pose proof (scan_inst_nodup' (triples g) init eq_refl) as SN;
    unfold scan_of in *;
    remember (fold_left agenda_scan_step (triples g) init) as sc eqn:SC; clear SC
  end.
  destruct sc as [[inst other] fixed].
  simpl fst in *. simpl snd in *.
  rewrite (agenda_items_lookup m g other fixed inst ag SN H v). unfold collapsible.
  rewrite SI. simpl dget. destruct (last_opt (insts_of (triples g) v)) as [i|]; auto.
  f_equal. subst fixed. change ([top_atom g] ++ ?x) with (top_atom g :: x). fold (fixed_of g).
  apply agenda_item_other_ext. rewrite SO. unfold own_entry. simpl dget.
  destruct (others_of (triples g) v); simpl; auto. rewrite atom_eqb_refl. auto.
Qed.

(* what an agenda entry says *)
Lemma collapsible_inv : forall m g v first d epis, collapsible m g v = Some (first, d, epis) ->
  exists i o1 o2 second,
    last_opt (insts_of (triples g) v) = Some i /\
    mem atom_eqb v (fixed_of g) = false /\
    others_of (triples g) v = [o1; o2] /\
    is_concept_dereifiable m (ttgt i) = true /\
    ((first = o1 /\ second = o2 /\ atom_eqb (pushed_value g o2) v = false) \/
     (first = o2 /\ second = o1 /\ atom_eqb (pushed_value g o2) v = true)) /\
    dereify m i first second = Ok d /\
    is_var g (tsrc d) = true /\
    epis = match dget triple_eqb i (alignments g) with Some a => aln_to_role_epi a | None => [] end
           ++ filter is_not_raln (epis_of g second).
Proof.
  intros m g v first d epis H. unfold collapsible in H.
  destruct (last_opt (insts_of (triples g) v)) as [i|]; [|discriminate].
  unfold agenda_item, own_entry in H.
  destruct (mem atom_eqb v (fixed_of g)) eqn:F; [discriminate|].
  destruct (others_of (triples g) v) as [|o1 l] eqn:O; [discriminate|].
  simpl dget in H. rewrite atom_eqb_refl in H.
  destruct l as [|o2 [|o3 l]]; try discriminate.
  destruct (is_concept_dereifiable m (ttgt i)) eqn:CD; [|discriminate].
  destruct (atom_eqb (pushed_value g o2) v) eqn:SW.
  - destruct (dereify m i o2 o1) as [dd| | | | | | | |] eqn:D; try discriminate.
    destruct (is_var g (tsrc dd)) eqn:V; simpl in H; [|discriminate].
    inversion H; subst. exists i, o1, first, o1. repeat split; auto.
  - destruct (dereify m i o1 o2) as [dd| | | | | | | |] eqn:D; try discriminate.
    destruct (is_var g (tsrc dd)) eqn:V; simpl in H; [|discriminate].
    inversion H; subst. exists i, first, o2, o2. repeat split; auto.
Qed.


(* ------------------------------------------------------------------ *)
(** * Pure form of dereify_edges; it keeps node_graph (C12, F17) *)

Fixpoint dtriples (ag : dict atom agenda_entry) (ts : list triple) : list triple :=
  match ts with
  | [] => []
  | t :: ts' =>
      match dget atom_eqb (tsrc t) ag with
      | Some (first, d, _) => if triple_eqb t first then d :: dtriples ag ts' else dtriples ag ts'
      | None => t :: dtriples ag ts'
      end
  end.

Lemma dloop_triples : forall (ag : dict atom agenda_entry) ts ed, fst (dereify_edges_loop ag ts ed) = dtriples ag ts.
Proof.
  intros ag ts. induction ts as [|t ts IH]; intros ed; cbn [dereify_edges_loop dtriples]; auto.
  destruct (dget atom_eqb (tsrc t) ag) as [[[first d] epis]|].
  - destruct (triple_eqb t first).
    + match goal with |- context [dereify_edges_loop ag ts ?e] => specialize (IH e); destruct (dereify_edges_loop ag ts e) end.
      simpl in *. rewrite IH. auto.
    + apply IH.
  - specialize (IH ed). destruct (dereify_edges_loop ag ts ed). simpl in *. rewrite IH. auto.
Qed.

Lemma dereify_edges_pure : forall m g g', dereify_edges m g = Ok g' ->
  exists ag, dereify_agenda m g = Ok ag /\
    g' = mk_graph (dtriples ag (triples g)) (graph_top g)
                  (snd (dereify_edges_loop ag (triples g) (epidata g))) (gmeta g).
Proof.
  intros m g g' H. unfold dereify_edges in H. apply bind_ok in H. destruct H as (ag & E & H).
  exists ag. split; auto. rewrite <- (dloop_triples ag (triples g) (epidata g)).
  destruct (dereify_edges_loop ag (triples g) (epidata g)). simpl. congruence.
Qed.

Lemma find_some_in : forall {A} (f : A -> bool) l x, find f l = Some x -> In x l /\ f x = true.
Proof. intros. apply find_some. auto. Qed.

Lemma deif_rows_in : forall m c r s t, In (r, s, t) (deif_rows m c) -> In (r, c, s, t) (reifs m).
Proof.
  intros m c r s t H. unfold deif_rows in H. apply in_flat_map in H.
  destruct H as ([[[r0 c0] s0] t0] & I1 & I2). destruct (str_eqb c0 c) eqn:E; [|destruct I2].
  apply str_eqb_eq in E. subst. destruct I2 as [I2|[]]. inversion I2; subst. auto.
Qed.

Lemma dereify_ok_inv : forall m i a b d, dereify m i a b = Ok d ->
  exists c s t, In (trole d, c, s, t) (reifs m) /\
    ((tsrc d = ttgt a /\ ttgt d = ttgt b) \/ (tsrc d = ttgt b /\ ttgt d = ttgt a)).
Proof.
  intros m i a b d H. unfold dereify in H.
  destruct (negb (str_eqb (trole i) INSTANCE)); [discriminate|].
  destruct (negb (atom_eqb (tsrc i) (tsrc a) && atom_eqb (tsrc a) (tsrc b))); [discriminate|].
  destruct (ttgt i) as [|c|]; try discriminate.
  destruct (deif_rows m c) as [|p l] eqn:D; [discriminate|]. rewrite <- D in H.
  match type of H with context [find ?f (deif_rows m c)] => destruct (find f (deif_rows m c)) as [[[r s] t]|] eqn:F1 end.
  - apply find_some_in in F1. destruct F1 as [I _]. inversion H; subst.
    exists c, s, t. split; [apply deif_rows_in; auto|]. left. auto.
  - match type of H with context [find ?f (deif_rows m c)] => destruct (find f (deif_rows m c)) as [[[r s] t]|] eqn:F2 end; [|discriminate].
    apply find_some_in in F2. destruct F2 as [I _]. inversion H; subst.
    exists c, s, t. split; [apply deif_rows_in; auto|]. right. auto.
Qed.

Lemma collapsible_fixed_none : forall m g v, mem atom_eqb v (fixed_of g) = true -> collapsible m g v = None.
Proof.
  intros m g v H. unfold collapsible. destruct (last_opt (insts_of (triples g) v)); auto.
  unfold agenda_item. rewrite H. reflexivity.
Qed.

Lemma others_of_in : forall ts v t, In t (others_of ts v) ->
  In t ts /\ atom_eqb (tsrc t) v = true /\ is_inst t = false.
Proof.
  intros ts v t H. unfold others_of in H. apply filter_In in H. destruct H as [I C].
  apply andb_true_iff in C. destruct C as [C1 C2]. apply negb_true_iff in C2. auto.
Qed.

Lemma nonint_tgt_fixed : forall g t, In t (triples g) -> is_inst t = false ->
  mem atom_eqb (ttgt t) (fixed_of g) = true.
Proof.
  intros g t I N. unfold fixed_of. simpl. apply orb_true_iff. right.
  apply mem_atom_in. apply in_map. apply filter_In. split; auto. rewrite N. auto.
Qed.

(* the facts C12 needs about one agenda entry *)
Lemma agenda_entry_facts : forall m g (ag : dict atom agenda_entry) v first d epis, dereify_agenda m g = Ok ag ->
  dget atom_eqb v ag = Some (first, d, epis) ->
  is_var g (tsrc d) = true /\ dget atom_eqb (tsrc d) ag = None /\
  exists c s t, In (trole d, c, s, t) (reifs m).
Proof.
  intros m g ag v first d epis H G. rewrite (agenda_spec m g ag H) in G.
  apply collapsible_inv in G. destruct G as (i & o1 & o2 & second & _ & _ & O & _ & SW & D & V & _).
  apply dereify_ok_inv in D. destruct D as (c & s & t & I & SRC).
  split; auto. split; [|eauto].
  rewrite (agenda_spec m g ag H). apply collapsible_fixed_none.
  assert (I1 : In o1 (others_of (triples g) v)) by (rewrite O; left; auto).
  assert (I2 : In o2 (others_of (triples g) v)) by (rewrite O; right; left; auto).
  apply others_of_in in I1. apply others_of_in in I2.
  destruct I1 as (A1 & _ & B1), I2 as (A2 & _ & B2).
  destruct SW as [(-> & -> & _)|(-> & -> & _)]; destruct SRC as [[-> _]|[-> _]]; apply nonint_tgt_fixed; auto.
Qed.

Lemma dtriples_cases : forall (ag : dict atom agenda_entry) ts t', In t' (dtriples ag ts) ->
  (In t' ts /\ dget atom_eqb (tsrc t') ag = None) \/
  (exists v first epis, dget atom_eqb v ag = Some (first, t', epis)).
Proof.
  intros ag ts. induction ts as [|t ts IH]; intros t' H; simpl in H; [destruct H|].
  destruct (dget atom_eqb (tsrc t) ag) as [[[first d] epis]|] eqn:G.
  - destruct (triple_eqb t first).
    + destruct H as [<-|H].
      * right. eauto.
      * destruct (IH _ H) as [[I N]|R]; auto. left. split; auto. right. auto.
    + destruct (IH _ H) as [[I N]|R]; auto. left. split; auto. right. auto.
  - destruct H as [<-|H].
    + left. split; auto. left. auto.
    + destruct (IH _ H) as [[I N]|R]; auto. left. split; auto. right. auto.
Qed.

Lemma cnt_dtriples : forall (ag : dict atom agenda_entry) ts x,
  dget atom_eqb x ag = None ->
  (forall v first d epis, dget atom_eqb v ag = Some (first, d, epis) -> colon_inst (trole d) = false) ->
  (forall t, In t ts -> has_colon (trole t) = true) ->
  inst_count (map colonize (dtriples ag ts)) x = inst_count ts x.
Proof.
  intros ag ts x N D. induction ts as [|t ts IH]; intros C; auto.
  assert (C' : forall t0, In t0 ts -> has_colon (trole t0) = true) by (intros; apply C; right; auto).
  simpl dtriples. rewrite (inst_count_cons t ts x).
  match goal with |- context [match ?X with Some _ => _ | None => _ end] =>
    destruct X as [[[first d] epis]|] eqn:G end.
  - assert (NH : inst_hit x t = false).
    { unfold inst_hit. destruct (atom_eqb (tsrc t) x) eqn:E; auto.
      rewrite (A_dget_congr ag _ _ E) in G. congruence. }
    rewrite NH. change ((if false then 1 else 0) + inst_count ts x) with (inst_count ts x).
    destruct (triple_eqb t first).
    + simpl map. rewrite inst_count_cons. unfold inst_hit. rewrite is_inst_colonize.
      rewrite (D _ _ _ _ G), andb_false_r. simpl. auto.
    + auto.
  - simpl map. rewrite inst_count_cons, colonize_id by (apply C; left; auto). f_equal. auto.
Qed.

Lemma dereify_edges_node_graph : forall m g g', node_graph g -> table_inst_free m = true ->
  dereify_edges m g = Ok g' -> node_graph g'.
Proof.
  intros m g g' NG T H. apply dereify_edges_pure in H. destruct H as (ag & AG & ->).
  apply node_graph_iff in NG. destruct NG as [C V]. apply node_graph_iff. split.
  - intros t I. rewrite triples_mk in I. apply in_map_iff in I. destruct I as (t0 & <- & _).
    apply ensure_colon_has.
  - intros x X. rewrite triples_mk.
    assert (TOPN : forall tp, graph_top g = Some tp -> dget atom_eqb tp ag = None).
    { intros tp GT. rewrite (agenda_spec m g ag AG). apply collapsible_fixed_none.
      unfold fixed_of, top_atom. rewrite GT. simpl. rewrite atom_eqb_refl. auto. }
    assert (OLD : is_var g x = true /\ dget atom_eqb x ag = None).
    { rewrite is_var_mk in X. apply orb_true_iff in X. destruct X as [X|X].
      - apply mem_atom_true in X. destruct X as (b & Ib & E). apply in_map_iff in Ib.
        destruct Ib as (t' & <- & It'). rewrite (is_var_congr g _ _ E), (A_dget_congr ag _ _ E).
        apply dtriples_cases in It'. destruct It' as [[I N]|(v & first & epis & G)].
        + split; auto. apply src_is_var. auto.
        + destruct (agenda_entry_facts m g ag v first t' epis AG G) as (A & B & _). auto.
      - destruct (graph_top g) as [tp|] eqn:GT; simpl in X; [|discriminate].
        rewrite orb_false_r in X. rewrite (is_var_congr g _ _ X), (A_dget_congr ag _ _ X).
        split; [apply graph_top_is_var; auto|apply TOPN; auto]. }
    destruct OLD as [OV ON]. destruct (V x OV) as [A B]. split; auto.
    rewrite cnt_dtriples; auto.
    intros v first d epis G. destruct (agenda_entry_facts m g ag v first d epis AG G) as (_ & _ & c & s & t & I).
    eapply table_inst_free_row in I; eauto. tauto.
Qed.

(* ------------------------------------------------------------------ *)
(** * dereify never collapses a node that is the top, is referenced, or has not exactly two relations (C11) *)

Lemma dereify_never_collapses : forall m g (ag : dict atom agenda_entry) v, dereify_agenda m g = Ok ag ->
  (atom_eqb v (top_atom g) = true \/
   mem atom_eqb v (map ttgt (filter (fun t => negb (is_inst t)) (triples g))) = true \/
   length (others_of (triples g) v) <> 2) ->
  dget atom_eqb v ag = None.
Proof.
  intros m g ag v AG H. rewrite (agenda_spec m g ag AG).
  destruct (collapsible m g v) as [[[first d] epis]|] eqn:CO; auto.
  apply collapsible_inv in CO. destruct CO as (i & o1 & o2 & second & _ & F & O & _).
  unfold fixed_of in F. simpl in F. apply orb_false_iff in F. destruct F as [F1 F2].
  destruct H as [H|[H|H]]; try congruence. rewrite O in H. simpl in H. congruence.
Qed.

Lemma dereify_keeps_others : forall (ag : dict atom agenda_entry) ts t, In t ts -> dget atom_eqb (tsrc t) ag = None -> In t (dtriples ag ts).
Proof.
  intros ag ts. induction ts as [|t0 ts IH]; intros t I N; [destruct I|].
  simpl. destruct I as [<-|I].
  - rewrite N. left. auto.
  - destruct (dget atom_eqb (tsrc t0) ag) as [[[first d] epis]|].
    + destruct (triple_eqb t0 first); [right|]; auto.
    + right. auto.
Qed.


(* ------------------------------------------------------------------ *)
(** * reify_edges: no reifiable role left, fresh variables, the rest is kept (C11) *)

Lemma triple_eqb_src_false : forall a b, atom_eqb (tsrc a) (tsrc b) = false -> triple_eqb a b = false.
Proof. intros. unfold triple_eqb. rewrite H. reflexivity. Qed.
Lemma triple_eqb_role_false : forall a b, str_eqb (trole a) (trole b) = false -> triple_eqb a b = false.
Proof. intros. unfold triple_eqb. rewrite H. rewrite andb_false_r. reflexivity. Qed.

Lemma dget_ddel_other : forall (d : dict triple (list epi)) k k', triple_eqb k k' = false ->
  dget triple_eqb k (ddel triple_eqb k' d) = dget triple_eqb k d.
Proof.
  induction d as [|[k0 v0] d IH]; intros k k' H; simpl; auto.
  destruct (triple_eqb k' k0) eqn:E.
  - destruct (triple_eqb k k0) eqn:E2; auto.
    rewrite triple_eqb_sym in E. rewrite (triple_eqb_trans _ _ _ E2 E) in H. discriminate.
  - simpl. rewrite IH; auto.
Qed.

Lemma epi_pop_spec : forall t ed old ed2, epi_pop t ed = (old, ed2) ->
  old = (match dget triple_eqb t ed with Some l => l | None => [] end) /\
  (forall k, triple_eqb k t = false -> dget triple_eqb k ed2 = dget triple_eqb k ed).
Proof.
  intros t ed old ed2 H. unfold epi_pop in H. destruct (dget triple_eqb t ed) eqn:G; inversion H; subst.
  - split; auto. intros. apply dget_ddel_other. auto.
  - split; auto.
Qed.

Lemma rexpand_src : forall m g t v i n o, rexpand m g t v = (i, n, o) ->
  tsrc i = AStr v /\ tsrc n = AStr v /\ tsrc o = AStr v.
Proof.
  intros m g t v i n o H. apply rexpand_cases in H. destruct (reif_row m (trole t)) as [[c sr] tr].
  destruct H as (-> & [(-> & -> & _)|(-> & -> & _)]); auto.
Qed.

(* keys the loop does not touch *)
Lemma rloop_frame : forall m g ts vs ed k,
  (forall t, In t ts -> is_role_reifiable m (trole t) = true -> triple_eqb k t = false) ->
  (forall v, In v vs -> atom_eqb (tsrc k) (AStr v) = false) ->
  dget triple_eqb k (snd (rloop m g ts vs ed)) = dget triple_eqb k ed.
Proof.
  intros m g ts. induction ts as [|t ts IH]; intros vs ed k H1 H2; cbn [rloop]; auto.
  destruct (is_role_reifiable m (trole t)) eqn:R.
  - destruct vs as [|v vs]; auto.
    destruct (rexpand m g t v) as [[i n] o] eqn:RX.
    destruct (rexpand_src _ _ _ _ _ _ _ RX) as (Si & Sn & So).
    destruct (epi_pop t (dset triple_eqb i [Push (AStr v)] ed)) as [old ed2] eqn:EP.
    destruct (edge_markers old) as [ne oe].
    match goal with |- context [rloop m g ts vs ?e] =>
      specialize (IH vs e k); destruct (rloop m g ts vs e) as [r1 r2] end.
    simpl snd in *. rewrite IH.
    + assert (NV : atom_eqb (tsrc k) (AStr v) = false) by (apply H2; left; auto).
      rewrite !T_dget_dset.
      rewrite (triple_eqb_src_false k o) by (rewrite So; auto).
      rewrite (triple_eqb_src_false k n) by (rewrite Sn; auto).
      apply epi_pop_spec in EP. destruct EP as [_ EP]. rewrite EP by (apply H1; auto; left; auto).
      rewrite T_dget_dset. rewrite (triple_eqb_src_false k i) by (rewrite Si; auto). reflexivity.
    + intros. apply H1; auto. right. auto.
    + intros. apply H2. right. auto.
  - specialize (IH vs ed k). destruct (rloop m g ts vs ed) as [r1 r2]. simpl snd in *. apply IH.
    + intros. apply H1; auto. right. auto.
    + auto.
Qed.

Lemma names_not_var : forall g vs v, names_ok (used_names g) vs -> In v vs ->
  is_var g (AStr v) = false /\ mem atom_eqb (AStr v) (map ttgt (triples g)) = false.
Proof.
  intros g vs v N I. destruct (names_ok_notin _ _ _ N I) as [A _].
  unfold used_names in A. rewrite mem_app in A. apply orb_false_iff in A. auto.
Qed.

Lemma node_graph_colon : forall g t, node_graph g -> In t (triples g) -> has_colon (trole t) = true.
Proof. intros g t NG I. apply node_graph_iff in NG. destruct NG as [C _]. auto. Qed.

(* (1) the non-reified triples, in order, are exactly the triples of g' whose source is an old variable *)
Lemma rtriples_old_part : forall m g ts vs,
  (forall t, In t ts -> has_colon (trole t) = true /\ is_var g (tsrc t) = true) ->
  (forall v, In v vs -> is_var g (AStr v) = false) ->
  count_reif m ts <= length vs ->
  filter (fun t => is_var g (tsrc t)) (map colonize (rtriples m g ts vs)) =
  filter (fun t => negb (is_role_reifiable m (trole t))) ts.
Proof.
  intros m g ts. induction ts as [|t ts IH]; intros vs H N L; auto.
  destruct (H t) as [C V]; [left; auto|].
  assert (H' : forall t0, In t0 ts -> has_colon (trole t0) = true /\ is_var g (tsrc t0) = true) by (intros; apply H; right; auto).
  rewrite count_reif_cons in L. simpl rtriples. simpl filter at 2.
  destruct (is_role_reifiable m (trole t)) eqn:R; simpl negb; cbv iota.
  - destruct vs as [|v vs]; [simpl in L; lia|].
    destruct (rexpand m g t v) as [[i n] o] eqn:RX.
    destruct (rexpand_src _ _ _ _ _ _ _ RX) as (Si & Sn & So).
    simpl map. simpl filter. rewrite !colonize_src, Si, Sn, So. rewrite (N v) by (left; auto).
    apply IH; auto; try (intros; apply N; right; auto); try (simpl in L; lia).
  - simpl map. simpl filter. rewrite colonize_src, V. rewrite colonize_id by auto. f_equal.
    apply IH; auto; try (simpl in L; lia).
Qed.

Lemma reify_keeps_rest : forall m g g', node_graph g -> reify_edges m g = Ok g' ->
  filter (fun t => is_var g (tsrc t)) (triples g') =
    filter (fun t => negb (is_role_reifiable m (trole t))) (triples g) /\
  (forall t, In t (triples g) -> is_role_reifiable m (trole t) = false ->
     dget triple_eqb t (epidata g') = dget triple_eqb t (epidata g)) /\
  gmeta g' = gmeta g /\ graph_top g' = graph_top g.
Proof.
  intros m g g' NG H. pose proof (reify_edges_top _ _ _ H) as TOP.
  apply reify_edges_pure in H. destruct H as (vs & N & L & ->).
  split; [|split; [|split]]; auto.
  - rewrite triples_mk. apply rtriples_old_part; try lia.
    + intros t I. split; [eapply node_graph_colon; eauto|apply src_is_var; auto].
    + intros v I. eapply names_not_var; eauto.
  - intros t I R. simpl epidata. apply rloop_frame.
    + intros t0 I0 R0. apply triple_eqb_role_false.
      destruct (str_eqb (trole t) (trole t0)) eqn:E; auto. apply str_eqb_eq in E. congruence.
    + intros v Iv. destruct (atom_eqb (tsrc t) (AStr v)) eqn:E; auto.
      destruct (names_not_var g vs v N Iv) as [A _].
      rewrite <- (is_var_congr g _ _ E) in A. rewrite src_is_var in A; auto.
Qed.

(* (2) fresh variables *)
Lemma reify_fresh : forall m g g', reify_edges m g = Ok g' ->
  exists vs, triples g' = map colonize (rtriples m g (triples g) vs) /\
    length vs = count_reif m (triples g) /\ NoDup vs /\
    forall v, In v vs -> gen_name v /\ is_var g (AStr v) = false /\
                          mem atom_eqb (AStr v) (map ttgt (triples g)) = false.
Proof.
  intros m g g' H. apply reify_edges_pure in H. destruct H as (vs & N & L & ->).
  exists vs. split; [apply triples_mk|]. split; auto. split; [eapply names_ok_nodup; eauto|].
  intros v I. destruct (names_not_var g vs v N I). destruct (names_ok_notin _ _ _ N I). auto.
Qed.

(* (3) no reifiable role is left *)
Lemma row_shape_facts : forall m r, row_shape_ok m r = true -> is_role_reifiable m r = true ->
  let '(c, sr, tr) := reif_row m r in
  r <> INSTANCE /\ sr <> INSTANCE /\ tr <> INSTANCE /\ has_colon sr = true /\ has_colon tr = true /\
  sr <> tr /\ is_role_reifiable m sr = false /\ is_role_reifiable m tr = false.
Proof.
  intros m r H R. destruct (reifiable_rows _ _ R) as (c & sr & tr & rest & E).
  unfold row_shape_ok in H. unfold reif_row. rewrite E in *.
  repeat (apply andb_true_iff in H; destruct H as [H ?]).
  repeat match goal with X : negb _ = true |- _ => apply negb_true_iff in X end.
  repeat split; auto; intro X; subst; rewrite str_eqb_refl in *; discriminate.
Qed.

Lemma rtriples_roles : forall m g ts vs t', In t' (rtriples m g ts vs) ->
  (In t' ts /\ is_role_reifiable m (trole t') = false) \/
  (exists t, In t ts /\ is_role_reifiable m (trole t) = true /\
     let '(c, sr, tr) := reif_row m (trole t) in trole t' = sr \/ trole t' = INSTANCE \/ trole t' = tr).
Proof.
  intros m g ts. induction ts as [|t ts IH]; intros vs t' H; simpl in H; [destruct H|].
  destruct (is_role_reifiable m (trole t)) eqn:R.
  - destruct vs as [|v vs]; [destruct H|].
    destruct (rexpand m g t v) as [[i n] o] eqn:RX. apply rexpand_cases in RX.
    destruct H as [H|[H|[H|H]]].
    + right. exists t. split; [left; auto|]. split; auto. destruct (reif_row m (trole t)) as [[c sr] tr].
      destruct RX as (-> & [(-> & -> & _)|(-> & -> & _)]); subst; rewrite trole_mk; auto.
    + right. exists t. split; [left; auto|]. split; auto. destruct (reif_row m (trole t)) as [[c sr] tr].
      destruct RX as (-> & _); subst; rewrite trole_mk; auto.
    + right. exists t. split; [left; auto|]. split; auto. destruct (reif_row m (trole t)) as [[c sr] tr].
      destruct RX as (-> & [(-> & -> & _)|(-> & -> & _)]); subst; rewrite trole_mk; auto.
    + destruct (IH _ _ H) as [[I N]|(t0 & I0 & R0 & X)].
      * left. split; auto. right. auto.
      * right. exists t0. split; auto. right. auto.
  - destruct H as [<-|H].
    + left. split; auto. left. auto.
    + destruct (IH _ _ H) as [[I N]|(t0 & I0 & R0 & X)].
      * left. split; auto. right. auto.
      * right. exists t0. split; auto. right. auto.
Qed.

Lemma node_graph_has_inst : forall g t, node_graph g -> In t (triples g) ->
  exists ti, In ti (triples g) /\ is_inst ti = true /\ atom_eqb (tsrc ti) (tsrc t) = true.
Proof.
  intros g t NG I. apply node_graph_iff in NG. destruct NG as [_ V].
  destruct (V (tsrc t) (src_is_var g t I)) as [_ C]. unfold inst_count in C.
  destruct (filter (fun t0 => atom_eqb (tsrc t0) (tsrc t) && is_inst t0) (triples g)) as [|ti l] eqn:F; [discriminate|].
  assert (X : In ti (filter (fun t0 => atom_eqb (tsrc t0) (tsrc t) && is_inst t0) (triples g))) by (rewrite F; left; auto).
  apply filter_In in X. destruct X as [X1 X2]. apply andb_true_iff in X2. exists ti. tauto.
Qed.

Lemma reify_no_reifiable : forall m g g', node_graph g ->
  (forall t, In t (triples g) -> row_shape_ok m (trole t) = true) ->
  reify_edges m g = Ok g' ->
  forall t', In t' (triples g') -> is_role_reifiable m (trole t') = false.
Proof.
  intros m g g' NG SH H t' I. apply reify_edges_pure in H. destruct H as (vs & N & L & ->).
  rewrite triples_mk in I. apply in_map_iff in I. destruct I as (t0 & <- & I0).
  destruct (rtriples_roles _ _ _ _ _ I0) as [[I1 R1]|(t & I1 & R1 & X)].
  - rewrite colonize_id; auto. eapply node_graph_colon; eauto.
  - pose proof (row_shape_facts m (trole t) (SH t I1) R1) as F.
    destruct (node_graph_has_inst g t NG I1) as (ti & Ii & II & _).
    assert (RI : is_role_reifiable m INSTANCE = false).
    { destruct (is_role_reifiable m INSTANCE) eqn:RI; auto.
      pose proof (row_shape_facts m (trole ti) (SH ti Ii)) as F2.
      unfold is_inst in II. apply str_eqb_eq in II. rewrite II in F2. specialize (F2 RI).
      destruct (reif_row m INSTANCE) as [[c2 s2] t2]. destruct F2 as (F2 & _). congruence. }
    destruct (reif_row m (trole t)) as [[c sr] tr].
    destruct F as (_ & _ & _ & C1 & C2 & _ & N1 & N2).
    unfold colonize. rewrite trole_mk.
    destruct X as [-> | [-> | ->]]; rewrite ensure_colon_id; auto.
Qed.


(* ------------------------------------------------------------------ *)
(** * C11_inverse, part 1: the reified graph in detail *)

(* reified triples paired with their variable *)
Fixpoint rpairs (m : model) (ts : list triple) (vs : list str) : list (triple * str) :=
  match ts with
  | [] => []
  | t :: ts' =>
      if is_role_reifiable m (trole t) then
        match vs with v :: vs' => (t, v) :: rpairs m ts' vs' | [] => [] end
      else rpairs m ts' vs
  end.

Lemma rpairs_in : forall m ts vs t v, In (t, v) (rpairs m ts vs) ->
  In t ts /\ In v vs /\ is_role_reifiable m (trole t) = true.
Proof.
  intros m ts. induction ts as [|t0 ts IH]; intros vs t v H; simpl in H; [destruct H|].
  destruct (is_role_reifiable m (trole t0)) eqn:R.
  - destruct vs as [|v0 vs]; [destruct H|]. destruct H as [H|H].
    + inversion H; subst. repeat split; auto; left; auto.
    + destruct (IH _ _ _ H) as (A & B & C). repeat split; auto; right; auto.
  - destruct (IH _ _ _ H) as (A & B & C). repeat split; auto; right; auto.
Qed.

(* every reified triple has its pair *)
Lemma rpairs_total : forall m ts vs t, count_reif m ts <= length vs -> In t ts ->
  is_role_reifiable m (trole t) = true -> exists v, In (t, v) (rpairs m ts vs).
Proof.
  intros m ts. induction ts as [|t0 ts IH]; intros vs t L I R; [destruct I|].
  rewrite count_reif_cons in L. simpl. destruct (is_role_reifiable m (trole t0)) eqn:R0.
  - destruct vs as [|v0 vs]; [simpl in L; lia|]. destruct I as [<-|I].
    + exists v0. left. auto.
    + destruct (IH vs t) as [v Iv]; auto. { simpl in L. lia. } exists v. right. auto.
  - destruct I as [<-|I]; [congruence|]. apply IH; auto.
Qed.

(* the shape facts of one reification, as needed below *)
Record xfacts (m : model) (g : graph) (t : triple) (v : str) (i n o : triple) : Prop := {
  xf_src : tsrc i = AStr v /\ tsrc n = AStr v /\ tsrc o = AStr v;
  xf_in : triple_eqb i n = false /\ triple_eqb i o = false /\ triple_eqb n o = false;
  xf_inst : is_inst i = false /\ is_inst n = true /\ is_inst o = false;
  xf_colon : has_colon (trole i) = true /\ has_colon (trole n) = true /\ has_colon (trole o) = true;
  xf_noreif : is_role_reifiable m (trole i) = false /\ is_role_reifiable m (trole o) = false;
  xf_tgts : (ttgt i = tsrc t /\ ttgt o = ttgt t) \/ (ttgt i = ttgt t /\ ttgt o = tsrc t)
}.

Lemma rexpand_xfacts : forall m g t v i n o, row_shape_ok m (trole t) = true ->
  is_role_reifiable m (trole t) = true -> rexpand m g t v = (i, n, o) -> xfacts m g t v i n o.
Proof.
  intros m g t v i n o SH R RX. pose proof (row_shape_facts m (trole t) SH R) as F.
  apply rexpand_cases in RX. destruct (reif_row m (trole t)) as [[c sr] tr].
  destruct F as (F0 & F1 & F2 & C1 & C2 & F3 & N1 & N2).
  assert (E1 : str_eqb sr INSTANCE = false) by (apply str_eqb_neq; auto).
  assert (E2 : str_eqb tr INSTANCE = false) by (apply str_eqb_neq; auto).
  assert (E3 : str_eqb sr tr = false) by (apply str_eqb_neq; auto).
  assert (E4 : str_eqb tr sr = false) by (apply str_eqb_neq; auto).
  assert (E5 : str_eqb INSTANCE sr = false) by (apply str_eqb_neq; auto).
  assert (E6 : str_eqb INSTANCE tr = false) by (apply str_eqb_neq; auto).
  destruct RX as (-> & [(-> & -> & _)|(-> & -> & _)]); constructor; unfold triple_eqb, is_inst;
    rewrite ?tsrc_mk, ?trole_mk, ?ttgt_mk, ?atom_eqb_refl, ?E1, ?E2, ?E3, ?E4, ?E5, ?E6; simpl; auto.
Qed.

(* all roles of the reified triple list carry their colon, so Graph() changes nothing *)
Lemma rtriples_colon : forall m g ts vs,
  (forall t, In t ts -> has_colon (trole t) = true /\ row_shape_ok m (trole t) = true) ->
  map colonize (rtriples m g ts vs) = rtriples m g ts vs.
Proof.
  intros m g ts vs H. apply map_colonize_id. intros t' I.
  destruct (rtriples_roles _ _ _ _ _ I) as [[I1 R1]|(t & I1 & R1 & X)].
  - apply H. auto.
  - destruct (H t I1) as [_ SH]. pose proof (row_shape_facts m (trole t) SH R1) as F.
    destruct (reif_row m (trole t)) as [[c sr] tr]. destruct F as (_ & _ & _ & C1 & C2 & _).
    destruct X as [-> | [-> | ->]]; auto.
Qed.

(* keys of the epidata stay distinct *)
Lemma epi_pop_nodup : forall t ed old ed2, epi_pop t ed = (old, ed2) ->
  nodup_b triple_eqb (dkeys ed) = true -> nodup_b triple_eqb (dkeys ed2) = true.
Proof.
  intros t ed old ed2 H N. unfold epi_pop in H. destruct (dget triple_eqb t ed); inversion H; subst; auto.
  apply nodup_ddel. auto.
Qed.

Lemma rloop_nodup : forall m g ts vs ed, nodup_b triple_eqb (dkeys ed) = true ->
  nodup_b triple_eqb (dkeys (snd (rloop m g ts vs ed))) = true.
Proof.
  intros m g ts. induction ts as [|t ts IH]; intros vs ed N; cbn [rloop]; auto.
  destruct (is_role_reifiable m (trole t)).
  - destruct vs as [|v vs]; auto. destruct (rexpand m g t v) as [[i n] o].
    destruct (epi_pop t (dset triple_eqb i [Push (AStr v)] ed)) as [old ed2] eqn:EP.
    destruct (edge_markers old) as [ne oe].
    match goal with |- context [rloop m g ts vs ?e] =>
      specialize (IH vs e); destruct (rloop m g ts vs e) as [r1 r2] end.
    simpl snd in *. apply IH. apply T_nodup_dset. apply T_nodup_dset.
    eapply epi_pop_nodup; eauto. apply T_nodup_dset. auto.
  - specialize (IH vs ed N). destruct (rloop m g ts vs ed). auto.
Qed.

(* a sharper frame lemma: keys different from everything the loop touches *)
Lemma rloop_frame2 : forall m g ts vs ed k,
  (forall t v, In (t, v) (rpairs m ts vs) ->
     let '(i, n, o) := rexpand m g t v in
     triple_eqb k t = false /\ triple_eqb k i = false /\ triple_eqb k n = false /\ triple_eqb k o = false) ->
  dget triple_eqb k (snd (rloop m g ts vs ed)) = dget triple_eqb k ed.
Proof.
  intros m g ts. induction ts as [|t ts IH]; intros vs ed k H; cbn [rloop]; auto.
  cbn [rpairs] in H. destruct (is_role_reifiable m (trole t)) eqn:R.
  - destruct vs as [|v vs]; auto.
    pose proof (H t v (or_introl eq_refl)) as H0.
    destruct (rexpand m g t v) as [[i n] o] eqn:RX. destruct H0 as (K0 & K1 & K2 & K3).
    destruct (epi_pop t (dset triple_eqb i [Push (AStr v)] ed)) as [old ed2] eqn:EP.
    destruct (edge_markers old) as [ne oe].
    match goal with |- context [rloop m g ts vs ?e] =>
      specialize (IH vs e k); destruct (rloop m g ts vs e) as [r1 r2] end.
    simpl snd in *. rewrite IH.
    + rewrite !T_dget_dset, K3, K2. apply epi_pop_spec in EP. destruct EP as [_ EP].
      rewrite EP by auto. rewrite T_dget_dset, K1. reflexivity.
    + intros. apply H. right. auto.
  - specialize (IH vs ed k). destruct (rloop m g ts vs ed) as [r1 r2]. simpl snd in *. apply IH. auto.
Qed.

(* what the reified graph's epidata holds for one reification *)
Lemma rloop_lookup : forall m g ts vs ed,
  nodup_b triple_eqb (dkeys ed) = true ->
  nodup_b triple_eqb ts = true -> NoDup vs ->
  (forall t, In t ts -> row_shape_ok m (trole t) = true) ->
  (forall t v, In t ts -> In v vs -> atom_eqb (tsrc t) (AStr v) = false) ->
  forall t v, In (t, v) (rpairs m ts vs) ->
    let '(i, n, o) := rexpand m g t v in
    let L := match dget triple_eqb t ed with Some l => l | None => [] end in
    dget triple_eqb i (snd (rloop m g ts vs ed)) = Some [Push (AStr v)] /\
    dget triple_eqb n (snd (rloop m g ts vs ed)) = Some (fst (edge_markers L)) /\
    dget triple_eqb o (snd (rloop m g ts vs ed)) = Some (snd (edge_markers L)) /\
    dget triple_eqb t (snd (rloop m g ts vs ed)) = None.
Proof.
  intros m g ts. induction ts as [|t0 ts IH]; intros vs ed NK NT NV SH SV t v I; [destruct I|].
  cbn [rpairs] in I. cbn [rloop].
  simpl in NT. apply andb_true_iff in NT. destruct NT as [NT0 NT]. apply negb_true_iff in NT0.
  assert (SH' : forall t1, In t1 ts -> row_shape_ok m (trole t1) = true) by (intros; apply SH; right; auto).
  destruct (is_role_reifiable m (trole t0)) eqn:R0.
  - destruct vs as [|v0 vs]; [destruct I|]. inversion NV as [|? ? NV0 NV']; subst.
    destruct (rexpand m g t0 v0) as [[i0 n0] o0] eqn:RX0.
    pose proof (rexpand_xfacts m g t0 v0 i0 n0 o0 (SH t0 (or_introl eq_refl)) R0 RX0) as X0.
    destruct X0 as [(S1 & S2 & S3) (D1 & D2 & D3) _ _ _ _].
    assert (ST0 : atom_eqb (tsrc t0) (AStr v0) = false) by (apply SV; left; auto).
    assert (T0i : triple_eqb t0 i0 = false) by (apply triple_eqb_src_false; rewrite S1; auto).
    assert (T0n : triple_eqb t0 n0 = false) by (apply triple_eqb_src_false; rewrite S2; auto).
    assert (T0o : triple_eqb t0 o0 = false) by (apply triple_eqb_src_false; rewrite S3; auto).
    destruct (epi_pop t0 (dset triple_eqb i0 [Push (AStr v0)] ed)) as [old ed2] eqn:EP.
    pose proof (epi_pop_nodup _ _ _ _ EP (T_nodup_dset ed i0 [Push (AStr v0)] NK)) as NK2.
    pose proof (epi_pop_spec _ _ _ _ EP) as [OLD FR].
    rewrite T_dget_dset, T0i in OLD.
    destruct (edge_markers old) as [ne oe] eqn:EM.
    set (ed4 := dset triple_eqb o0 oe (dset triple_eqb n0 ne ed2)).
    assert (NK4 : nodup_b triple_eqb (dkeys ed4) = true) by (unfold ed4; repeat apply T_nodup_dset; auto).
    destruct I as [I|I].
    + (* the head reification itself *)
      inversion I; subst t v. clear I. rewrite RX0.
      assert (FRAME : forall k, atom_eqb (tsrc k) (AStr v0) = true \/ triple_eqb k t0 = true ->
                dget triple_eqb k (snd (rloop m g ts vs ed4)) = dget triple_eqb k ed4).
      { intros k Hk. apply rloop_frame2. intros t1 v1 I1. destruct (rpairs_in _ _ _ _ _ I1) as (A1 & B1 & C1).
        destruct (rexpand m g t1 v1) as [[i1 n1] o1] eqn:RX1.
        destruct (rexpand_src _ _ _ _ _ _ _ RX1) as (Q1 & Q2 & Q3).
        assert (NE : atom_eqb (AStr v0) (AStr v1) = false).
        { simpl. apply str_eqb_neq. intro E. subst. contradiction. }
        destruct Hk as [Hk|Hk].
        - assert (KS : forall y, tsrc y = AStr v1 -> triple_eqb k y = false).
          { intros y Y. apply triple_eqb_src_false. rewrite Y. rewrite (atom_eqb_congr_l _ _ _ Hk). auto. }
          repeat split; auto. apply triple_eqb_src_false. rewrite (atom_eqb_congr_l _ _ _ Hk).
          rewrite atom_eqb_sym. apply SV; [right; auto|left; auto].
        - assert (KS : forall y, tsrc y = AStr v1 -> triple_eqb k y = false).
          { intros y Y. rewrite (triple_eqb_congr_l _ _ _ Hk). apply triple_eqb_src_false. rewrite Y.
            apply SV; [left; auto|right; auto]. }
          repeat split; auto. rewrite (triple_eqb_congr_l _ _ _ Hk).
          destruct (triple_eqb t0 t1) eqn:E; auto.
          assert (M : mem triple_eqb t0 ts = true).
          { unfold mem. apply existsb_exists. exists t1. split; auto. }
          congruence. }
      destruct (rloop m g ts vs ed4) as [r1 r2] eqn:RL. simpl snd in *.
      rewrite !FRAME by (rewrite ?S1, ?S2, ?S3, ?atom_eqb_refl, ?triple_eqb_refl; auto).
      unfold ed4. rewrite !T_dget_dset.
      rewrite D2, D1, D3, !triple_eqb_refl, T0o, T0n.
      rewrite !FR by (rewrite triple_eqb_sym; auto). rewrite !T_dget_dset, triple_eqb_refl.
      pose proof EM as EM'. unfold edge_markers, reified_markers in EM'. inversion EM'; subst ne oe. clear EM'.
      rewrite <- OLD. repeat split; auto.
      (* the popped key is gone *)
      unfold epi_pop in EP. destruct (dget triple_eqb t0 (dset triple_eqb i0 [Push (AStr v0)] ed)) eqn:G.
      * inversion EP; subst. rewrite T_dget_ddel by (apply T_nodup_dset; auto). rewrite triple_eqb_refl. auto.
      * inversion EP; subst. auto.
    + (* a later reification: the head step does not touch its keys *)
      destruct (rpairs_in _ _ _ _ _ I) as (A1 & B1 & C1).
      assert (NE : atom_eqb (AStr v) (AStr v0) = false).
      { simpl. apply str_eqb_neq. intro E. subst. contradiction. }
      assert (TT : triple_eqb t t0 = false).
      { destruct (triple_eqb t t0) eqn:E; auto. rewrite triple_eqb_sym in E.
        assert (M : mem triple_eqb t0 ts = true) by (unfold mem; apply existsb_exists; exists t; split; auto).
        congruence. }
      assert (ST : atom_eqb (tsrc t) (AStr v0) = false) by (apply SV; [right; auto|left; auto]).
      specialize (IH vs ed4 NK4 NT NV' SH' (fun t1 v1 I1 I2 => SV t1 v1 (or_intror I1) (or_intror I2)) t v I).
      destruct (rexpand m g t v) as [[i n] o] eqn:RX.
      assert (E4 : dget triple_eqb t ed4 = dget triple_eqb t ed).
      { unfold ed4. rewrite !T_dget_dset.
        rewrite (triple_eqb_src_false t o0) by (rewrite S3; auto).
        rewrite (triple_eqb_src_false t n0) by (rewrite S2; auto).
        rewrite FR by auto. rewrite T_dget_dset.
        rewrite (triple_eqb_src_false t i0) by (rewrite S1; auto). reflexivity. }
      rewrite E4 in IH. destruct (rloop m g ts vs ed4) as [r1 r2]. simpl snd in *. exact IH.
  - specialize (IH vs ed NK NT NV SH' (fun t1 v1 I1 I2 => SV t1 v1 (or_intror I1) I2) t v I).
    destruct (rloop m g ts vs ed) as [r1 r2]. exact IH.
Qed.


(* ------------------------------------------------------------------ *)
(** * C11_inverse, part 2: filtering the reified triple list by source *)

Definition nreif (m : model) (t : triple) : bool := negb (is_role_reifiable m (trole t)).

Lemma filter_src_rtriples_old : forall m g (P : triple -> bool) ts vs x,
  (forall v, In v vs -> atom_eqb (AStr v) x = false) ->
  count_reif m ts <= length vs ->
  filter (fun t => atom_eqb (tsrc t) x && P t) (rtriples m g ts vs) =
  filter (fun t => atom_eqb (tsrc t) x && P t) (filter (nreif m) ts).
Proof.
  intros m g P ts. induction ts as [|t ts IH]; intros vs x N L; auto.
  rewrite count_reif_cons in L. simpl rtriples. simpl filter at 3. unfold nreif at 1.
  destruct (is_role_reifiable m (trole t)) eqn:R; simpl negb; cbv iota.
  - destruct vs as [|v vs]; [simpl in L; lia|].
    destruct (rexpand m g t v) as [[i n] o] eqn:RX.
    destruct (rexpand_src _ _ _ _ _ _ _ RX) as (Si & Sn & So).
    simpl filter at 1. rewrite Si, Sn, So. rewrite (N v) by (left; auto). simpl.
    apply IH; try (intros; apply N; right; auto). simpl in L. lia.
  - simpl filter. destruct (atom_eqb (tsrc t) x && P t); [f_equal|]; apply IH; auto; simpl in L; lia.
Qed.

Lemma filter_src_rtriples_new : forall m g (P : triple -> bool) ts vs t0 v0,
  NoDup vs -> In (t0, v0) (rpairs m ts vs) ->
  (forall t, In t ts -> atom_eqb (tsrc t) (AStr v0) = false) ->
  let '(i, n, o) := rexpand m g t0 v0 in
  filter (fun t => atom_eqb (tsrc t) (AStr v0) && P t) (rtriples m g ts vs) = filter P [i; n; o].
Proof.
  intros m g P ts. induction ts as [|t ts IH]; intros vs t0 v0 ND I S; [destruct I|].
  cbn [rpairs] in I. simpl rtriples.
  assert (S' : forall t1, In t1 ts -> atom_eqb (tsrc t1) (AStr v0) = false) by (intros; apply S; right; auto).
  destruct (is_role_reifiable m (trole t)) eqn:R.
  - destruct vs as [|v vs]; [destruct I|]. inversion ND as [|? ? NI ND']; subst.
    destruct I as [I|I].
    + inversion I; subst t v. clear I.
      destruct (rexpand m g t0 v0) as [[i n] o] eqn:RX.
      destruct (rexpand_src _ _ _ _ _ _ _ RX) as (Si & Sn & So).
      cbn [filter]. rewrite Si, Sn, So, !atom_eqb_refl. cbn [andb].
      assert (REST : filter (fun t => atom_eqb (tsrc t) (AStr v0) && P t) (rtriples m g ts vs) = []).
      { apply filter_nil. intros t' I'. apply andb_false_iff. left.
        apply rtriples_src in I'. destruct I' as [(t1 & I1 & ->)|(v1 & I1 & ->)]; auto.
        simpl. apply str_eqb_neq. intro E. subst. contradiction. }
      rewrite REST. destruct (P i), (P n), (P o); reflexivity.
    + specialize (IH vs t0 v0 ND' I S'). destruct (rpairs_in _ _ _ _ _ I) as (_ & Iv & _).
      assert (NE : atom_eqb (AStr v) (AStr v0) = false).
      { simpl. apply str_eqb_neq. intro E. subst. contradiction. }
      destruct (rexpand m g t v) as [[i1 n1] o1] eqn:RX1.
      destruct (rexpand_src _ _ _ _ _ _ _ RX1) as (Si & Sn & So).
      cbn [filter]. rewrite Si, Sn, So, NE. cbn [andb]. exact IH.
  - specialize (IH vs t0 v0 ND I S'). cbn [filter]. rewrite (S t) by (left; auto). cbn [andb]. exact IH.
Qed.

(* non-instance targets of the reified list *)
Lemma rtriples_ni_tgt : forall m g ts vs t',
  (forall t, In t ts -> row_shape_ok m (trole t) = true) ->
  In t' (rtriples m g ts vs) -> is_inst t' = false ->
  exists t, In t ts /\ (ttgt t' = tsrc t \/ ttgt t' = ttgt t).
Proof.
  intros m g ts. induction ts as [|t ts IH]; intros vs t' SH I NI; simpl in I; [destruct I|].
  assert (SH' : forall t0, In t0 ts -> row_shape_ok m (trole t0) = true) by (intros; apply SH; right; auto).
  destruct (is_role_reifiable m (trole t)) eqn:R.
  - destruct vs as [|v vs]; [destruct I|].
    destruct (rexpand m g t v) as [[i n] o] eqn:RX.
    pose proof (rexpand_xfacts m g t v i n o (SH t (or_introl eq_refl)) R RX) as X.
    destruct X as [_ _ (_ & IN & _) _ _ TG].
    destruct I as [<-|[<-|[<-|I]]].
    + exists t. split; [left; auto|]. destruct TG as [[A _]|[A _]]; auto.
    + congruence.
    + exists t. split; [left; auto|]. destruct TG as [[_ A]|[_ A]]; auto.
    + destruct (IH vs t' SH' I NI) as (t1 & I1 & X). exists t1. split; auto. right. auto.
  - destruct I as [<-|I].
    + exists t. split; [left; auto|]. auto.
    + destruct (IH vs t' SH' I NI) as (t1 & I1 & X). exists t1. split; auto. right. auto.
Qed.

Lemma rtriples_keeps_tgt : forall m g ts vs t,
  (forall t, In t ts -> row_shape_ok m (trole t) = true) ->
  count_reif m ts <= length vs -> In t ts -> is_inst t = false ->
  (exists t', In t' (rtriples m g ts vs) /\ is_inst t' = false /\ ttgt t' = ttgt t) /\
  (is_role_reifiable m (trole t) = true ->
   exists t', In t' (rtriples m g ts vs) /\ is_inst t' = false /\ ttgt t' = tsrc t).
Proof.
  intros m g ts. induction ts as [|t0 ts IH]; intros vs t SH L I NI; [destruct I|].
  assert (SH' : forall t1, In t1 ts -> row_shape_ok m (trole t1) = true) by (intros; apply SH; right; auto).
  rewrite count_reif_cons in L. simpl rtriples.
  destruct (is_role_reifiable m (trole t0)) eqn:R.
  - destruct vs as [|v vs]; [simpl in L; lia|].
    destruct (rexpand m g t0 v) as [[i n] o] eqn:RX.
    pose proof (rexpand_xfacts m g t0 v i n o (SH t0 (or_introl eq_refl)) R RX) as X.
    destruct X as [_ _ (II & _ & IO) _ _ TG].
    destruct I as [<-|I].
    + split; [|intros _].
      * destruct TG as [[_ A]|[A _]]; [exists o|exists i]; repeat split; auto; simpl; auto.
      * destruct TG as [[A _]|[_ A]]; [exists i|exists o]; repeat split; auto; simpl; auto.
    + destruct (IH vs t SH') as [A B]; auto; try (simpl in L; lia).
      split.
      * destruct A as (t' & I' & X). exists t'. split; auto. right. right. right. auto.
      * intros RR. destruct (B RR) as (t' & I' & X). exists t'. split; auto. right. right. right. auto.
  - destruct I as [<-|I].
    + split; [|congruence]. exists t0. repeat split; auto. left. auto.
    + destruct (IH vs t SH') as [A B]; auto; try (simpl in L; lia).
      split.
      * destruct A as (t' & I' & X). exists t'. split; auto. right. auto.
      * intros RR. destruct (B RR) as (t' & I' & X). exists t'. split; auto. right. auto.
Qed.

(* every name is used by some pair *)
Lemma rpairs_all_names : forall m ts vs v, length vs = count_reif m ts -> In v vs ->
  exists t, In (t, v) (rpairs m ts vs).
Proof.
  intros m ts. induction ts as [|t0 ts IH]; intros vs v L I.
  - simpl in L. destruct vs; [destruct I|discriminate].
  - rewrite count_reif_cons in L. simpl. destruct (is_role_reifiable m (trole t0)).
    + destruct vs as [|v0 vs]; [destruct I|]. simpl in L. destruct I as [<-|I].
      * exists t0. left. auto.
      * destruct (IH vs v) as [t It]; auto; try lia. exists t. right. auto.
    + apply IH; auto.
Qed.

(* a pair's triples are in the list, in order first / node / third *)
Lemma rpairs_triples_in : forall m g ts vs t v, In (t, v) (rpairs m ts vs) ->
  let '(i, n, o) := rexpand m g t v in
  In i (rtriples m g ts vs) /\ In n (rtriples m g ts vs) /\ In o (rtriples m g ts vs).
Proof.
  intros m g ts. induction ts as [|t0 ts IH]; intros vs t v I; simpl in I; [destruct I|].
  simpl rtriples. destruct (is_role_reifiable m (trole t0)).
  - destruct vs as [|v0 vs]; [destruct I|]. destruct I as [I|I].
    + inversion I; subst. destruct (rexpand m g t v) as [[i n] o]. simpl. intuition.
    + specialize (IH vs t v I). destruct (rexpand m g t v) as [[i n] o].
      destruct (rexpand m g t0 v0) as [[i0 n0] o0]. simpl. tauto.
  - specialize (IH vs t v I). destruct (rexpand m g t v) as [[i n] o]. simpl. tauto.
Qed.

Lemma rtriples_keeps_unreified : forall m g ts vs t, count_reif m ts <= length vs ->
  In t ts -> is_role_reifiable m (trole t) = false -> In t (rtriples m g ts vs).
Proof.
  intros m g ts. induction ts as [|t0 ts IH]; intros vs t L I R; [destruct I|].
  rewrite count_reif_cons in L. simpl. destruct (is_role_reifiable m (trole t0)) eqn:R0.
  - destruct vs as [|v vs]; [simpl in L; lia|]. destruct (rexpand m g t0 v) as [[i n] o].
    destruct I as [<-|I]; [congruence|]. right. right. right. apply IH; auto. simpl in L. lia.
  - destruct I as [<-|I]; [left; auto|]. right. apply IH; auto.
Qed.


(* ------------------------------------------------------------------ *)
(** * C11_inverse, part 3: marker bookkeeping *)

Lemma last_such_spec : forall (p : epi -> bool) l, last_such p l = last_opt (filter p l).
Proof.
  intros p l. unfold last_such.
  assert (G : forall acc, fold_left (fun acc e => if p e then Some e else acc) l acc =
                          match last_opt (filter p l) with Some e => Some e | None => acc end).
  { induction l as [|e l IH]; intros acc; simpl; auto. rewrite IH. destruct (p e); simpl; auto.
    destruct (last_opt (filter p l)); auto. }
  rewrite G. destruct (last_opt (filter p l)); auto.
Qed.

Lemma last_opt_in : forall {A} (l : list A) x, last_opt l = Some x -> In x l.
Proof.
  induction l as [|y l IH]; intros x H; simpl in H; [discriminate|].
  destruct (last_opt l) eqn:E.
  - inversion H; subst. right. auto.
  - inversion H; subst. left. auto.
Qed.

Lemma last_such_in : forall p l e, last_such p l = Some e -> In e l /\ p e = true.
Proof.
  intros p l e H. rewrite last_such_spec in H. apply last_opt_in in H. apply filter_In in H. auto.
Qed.

Lemma find_app_l_none : forall {A} (f : A -> bool) l1 l2, (forall x, In x l1 -> f x = false) ->
  find f (l1 ++ l2) = find f l2.
Proof.
  induction l1 as [|x l1 IH]; intros l2 H; simpl; auto.
  rewrite H by (left; auto). apply IH. intros. apply H. right. auto.
Qed.
Lemma find_none_all : forall {A} (f : A -> bool) l, (forall x, In x l -> f x = false) -> find f l = None.
Proof.
  induction l as [|x l IH]; intros H; simpl; auto. rewrite H by (left; auto). apply IH. intros. apply H. right. auto.
Qed.

Lemma filter_id_all : forall {A} (f : A -> bool) l, (forall x, In x l -> f x = true) -> filter f l = l.
Proof.
  induction l as [|x l IH]; intros H; simpl; auto. rewrite H by (left; auto). f_equal. apply IH.
  intros. apply H. right. auto.
Qed.

Definition out_epis (L : list epi) : list epi :=
  filter is_other_epi L ++ push_list (last_such is_push L) ++ filter is_pop L.
Definition node_epis (L : list epi) : list epi := flat_map role_to_node_epi (filter is_role_epi L).

Lemma edge_markers_eq : forall L, edge_markers L = (node_epis L, out_epis L).
Proof. reflexivity. Qed.

Lemma is_other_is_aln : forall e, is_other_epi e = is_aln e.
Proof. destruct e; reflexivity. Qed.

Lemma find_push_out_epis : forall L,
  find is_push (out_epis L) = last_such is_push L.
Proof.
  intros L. unfold out_epis. rewrite find_app_l_none.
  - destruct (last_such is_push L) as [e|] eqn:E; simpl.
    + apply last_such_in in E. destruct E as [_ E]. rewrite E. auto.
    + apply find_none_all. intros x I. apply filter_In in I. destruct I as [_ I]. destruct x; simpl in *; auto; discriminate.
  - intros x I. apply filter_In in I. destruct I as [_ I]. rewrite is_other_is_aln in I. destruct x; simpl in *; auto; discriminate.
Qed.

Lemma filter_not_raln_out_epis : forall L, filter is_not_raln (out_epis L) = out_epis L.
Proof.
  intros L. unfold out_epis. rewrite !filter_app. f_equal; [|f_equal].
  - apply filter_id_all. intros x I. apply filter_In in I. destruct I as [_ I]. destruct x; simpl in *; auto; discriminate.
  - destruct (last_such is_push L) as [e|] eqn:E; simpl; auto.
    apply last_such_in in E. destruct E as [_ E]. destruct e; simpl in *; auto; discriminate.
  - apply filter_id_all. intros x I. apply filter_In in I. destruct I as [_ I]. destruct x; simpl in *; auto; discriminate.
Qed.

Lemma node_epis_last : forall L,
  match last_such is_aln (node_epis L) with Some a => aln_to_role_epi a | None => [] end =
  push_list (last_such is_raln L).
Proof.
  intros L. rewrite !last_such_spec. unfold node_epis.
  induction L as [|e L IH]; simpl; auto.
  destruct e; simpl; auto.
  (* e = RAln idx pre *)
  destruct (last_opt (filter is_aln (flat_map role_to_node_epi (filter is_role_epi L)))) eqn:A;
  destruct (last_opt (filter is_raln L)) eqn:B; simpl in *; auto; try discriminate.
  - apply last_opt_in in A. apply filter_In in A. destruct A as [_ A].
    destruct e; simpl in *; discriminate.
Qed.

Lemma canon_epis_eq : forall L,
  push_list (last_such is_raln L) ++ out_epis L = canon_epis L.
Proof.
  intros L. unfold canon_epis, out_epis. f_equal. f_equal.
  apply filter_ext. intros. apply is_other_is_aln.
Qed.

(* lookup in alignments(g) *)
Definition galn (p : epi -> bool) (d : dict triple (list epi)) : dict triple epi :=
  flat_map (fun kv : triple * list epi =>
              match last_such p (snd kv) with Some e => [(fst kv, e)] | None => [] end) d.

Lemma dget_galn : forall p d k, nodup_b triple_eqb (dkeys d) = true ->
  dget triple_eqb k (galn p d) =
  match dget triple_eqb k d with Some l => last_such p l | None => None end.
Proof.
  intros p d. induction d as [|[k0 l0] d IH]; intros k N; simpl; auto.
  simpl in N. apply andb_true_iff in N. destruct N as [N1 N2]. apply negb_true_iff in N1.
  destruct (triple_eqb k k0) eqn:E.
  - destruct (last_such p l0) as [e|]; simpl.
    + rewrite E. auto.
    + rewrite IH by auto.
      assert (G : dget triple_eqb k d = None).
      { apply dget_none_notmem. rewrite (T_mem_congr _ k k0 E). auto. }
      rewrite G. auto.
  - destruct (last_such p l0) as [e|]; simpl; [rewrite E|]; apply IH; auto.
Qed.

Lemma alignments_galn : forall g, alignments g = galn is_aln (epidata g).
Proof. reflexivity. Qed.


(* ------------------------------------------------------------------ *)
(** * C11_inverse, part 4: the agenda of the reified graph *)

Lemma filter_comm : forall {A} (f h : A -> bool) l, filter f (filter h l) = filter h (filter f l).
Proof.
  induction l as [|x l IH]; simpl; auto.
  destruct (h x) eqn:H1; destruct (f x) eqn:H2; simpl; rewrite ?H1, ?H2, IH; auto.
Qed.

(* parametricity of Model.dereify in the atoms *)
Lemma outcome_is_ok : forall o t, outcome_is o t = true -> exists x, o = Ok x /\ triple_eqb x t = true.
Proof. intros o t H. destruct o; simpl in H; try discriminate. eauto. Qed.

Lemma MK_AB : atom_eqb MK_B MK_A = false. Proof. reflexivity. Qed.

Lemma plain_ok_pick : forall m r c sr tr rest, reif_rows m r = (c, sr, tr) :: rest ->
  row_plain_ok m r = true -> dereify_pick m c sr tr = Some (r, true).
Proof.
  intros m r c sr tr rest E H. unfold row_plain_ok in H. rewrite E in H.
  apply outcome_is_ok in H. destruct H as (x & D & X).
  rewrite dereify_spec in D by (simpl; rewrite ?str_eqb_refl, ?atom_eqb_refl; auto).
  rewrite ttgt_mk, !trole_mk in D.
  destruct (dereify_pick m c sr tr) as [[r' [|]]|]; try discriminate; inversion D; subst x;
    apply triple_eqb_true in X; rewrite !tsrc_mk, !trole_mk, !ttgt_mk in X; destruct X as (X1 & X2 & X3).
  - subst. auto.
  - rewrite MK_AB in X1. discriminate.
Qed.

Lemma inv_ok_pick : forall m r c sr tr rest, reif_rows m r = (c, sr, tr) :: rest ->
  row_inv_ok m r = true -> dereify_pick m c tr sr = Some (r, false).
Proof.
  intros m r c sr tr rest E H. unfold row_inv_ok in H. rewrite E in H.
  apply outcome_is_ok in H. destruct H as (x & D & X).
  rewrite dereify_spec in D by (simpl; rewrite ?str_eqb_refl, ?atom_eqb_refl; auto).
  rewrite ttgt_mk, !trole_mk in D.
  destruct (dereify_pick m c tr sr) as [[r' [|]]|]; try discriminate; inversion D; subst x;
    apply triple_eqb_true in X; rewrite !tsrc_mk, !trole_mk, !ttgt_mk in X; destruct X as (X1 & X2 & X3).
  - rewrite MK_AB in X1. discriminate.
  - subst. auto.
Qed.

Lemma reif_concept_dereifiable : forall m r c sr tr rest, reif_rows m r = (c, sr, tr) :: rest ->
  is_concept_dereifiable m (AStr c) = true.
Proof.
  intros m r c sr tr rest E. apply reif_rows_in in E. unfold is_concept_dereifiable.
  destruct (deif_rows m c) eqn:D; auto.
  assert (I : In (r, sr, tr) (deif_rows m c)).
  { unfold deif_rows. apply in_flat_map. exists (r, c, sr, tr). split; auto. rewrite str_eqb_refl. left. auto. }
  rewrite D in I. destruct I.
Qed.

Section Inverse.
  Variable m : model.
  Variable g : graph.
  Variable vs : list str.
  Hypothesis WF : wf_graph g.
  Hypothesis EO : epi_ok g.
  Hypothesis NC : no_collapsible m g.
  Hypothesis TO : table_ok_for m g = true.
  Hypothesis NM : names_ok (used_names g) vs.
  Hypothesis LN : length vs = count_reif m (triples g).

  Let ts := triples g.
  Let T1 := rtriples m g ts vs.
  Let E1 := snd (rloop m g ts vs (epidata g)).
  Let g1 := mkGraph T1 (graph_top g) E1 (gmeta g).

  Lemma F_NG : node_graph g. Proof. apply wf_node_graph. auto. Qed.

  Lemma F_NDT : nodup_b triple_eqb ts = true.
  Proof.
    unfold wf_graph, wf_graph_b in WF. apply andb_true_iff in WF. tauto.
  Qed.

  Lemma F_COL : forall t, In t ts -> has_colon (trole t) = true.
  Proof. intros. eapply node_graph_colon; eauto. apply F_NG. Qed.

  Lemma F_TO : forall t, In t ts -> row_shape_ok m (trole t) = true /\
    (if reify_swaps g t then row_inv_ok m (trole t) else row_plain_ok m (trole t)) = true.
  Proof.
    intros t I. unfold table_ok_for in TO. rewrite forallb_forall in TO. specialize (TO t I).
    apply andb_true_iff in TO. auto.
  Qed.
  Lemma F_SH : forall t, In t ts -> row_shape_ok m (trole t) = true.
  Proof. intros. apply F_TO. auto. Qed.

  Lemma F_ND : NoDup vs. Proof. eapply names_ok_nodup; eauto. Qed.

  Lemma F_NV : forall v, In v vs -> is_var g (AStr v) = false /\ mem atom_eqb (AStr v) (map ttgt ts) = false.
  Proof. intros. eapply names_not_var; eauto. Qed.

  Lemma F_SV : forall t v, In t ts -> In v vs -> atom_eqb (tsrc t) (AStr v) = false.
  Proof.
    intros t v It Iv. destruct (atom_eqb (tsrc t) (AStr v)) eqn:E; auto.
    destruct (F_NV v Iv) as [A _]. rewrite <- (is_var_congr g _ _ E) in A. rewrite src_is_var in A; auto.
  Qed.

  Lemma F_TV : forall t v, In t ts -> In v vs -> atom_eqb (ttgt t) (AStr v) = false.
  Proof.
    intros t v It Iv. destruct (atom_eqb (ttgt t) (AStr v)) eqn:E; auto.
    destruct (F_NV v Iv) as [_ A]. rewrite atom_eqb_sym in E.
    rewrite (mem_atom_congr _ _ _ E) in A. rewrite mem_atom_in in A; [discriminate|]. apply in_map. auto.
  Qed.

  Lemma F_old_new : forall x v, is_var g x = true -> In v vs -> atom_eqb (AStr v) x = false.
  Proof.
    intros x v X Iv. destruct (atom_eqb (AStr v) x) eqn:E; auto.
    destruct (F_NV v Iv) as [A _]. rewrite (is_var_congr g _ _ E) in A. congruence.
  Qed.

  Lemma F_EK : nodup_b triple_eqb (dkeys (epidata g)) = true /\
    forall k es, In (k, es) (epidata g) -> is_var g (tsrc k) = true /\ epi_pushes_vars g es = true.
  Proof.
    unfold epi_ok, epi_ok_b in EO. apply andb_true_iff in EO. destruct EO as [A B]. split; auto.
    intros k es I. rewrite forallb_forall in B. specialize (B _ I). simpl in B. apply andb_true_iff in B. auto.
  Qed.

  Lemma F_LE : count_reif m ts <= length vs. Proof. unfold ts. lia. Qed.

  Lemma F_inst_nreif : forall t, In t ts -> is_inst t = true -> is_role_reifiable m (trole t) = false.
  Proof.
    intros t I II. destruct (is_role_reifiable m (trole t)) eqn:R; auto.
    pose proof (row_shape_facts m (trole t) (F_SH t I) R) as F.
    destruct (reif_row m (trole t)) as [[c sr] tr]. destruct F as (F & _).
    unfold is_inst in II. apply str_eqb_eq in II. congruence.
  Qed.

  Lemma G1_eq : mk_graph T1 (graph_top g) E1 (gmeta g) = g1.
  Proof.
    unfold mk_graph, g1. f_equal. apply rtriples_colon.
    intros t I. split; [apply F_COL|apply F_SH]; auto.
  Qed.

  Lemma G1_top : graph_top g1 = graph_top g.
  Proof.
    rewrite <- G1_eq. apply graph_top_mk_gen. intro E. unfold T1, ts. rewrite E. reflexivity.
  Qed.

  Lemma G1_top_atom : top_atom g1 = top_atom g.
  Proof. unfold top_atom. rewrite G1_top. auto. Qed.

  (* variables of g1 *)
  Lemma G1_var_inv : forall x, is_var g1 x = true -> is_var g x = true \/ exists v, In v vs /\ x = AStr v.
  Proof.
    intros x X. rewrite is_var_spec in X. apply orb_true_iff in X. destruct X as [X|X].
    - apply mem_atom_true in X. destruct X as (b & Ib & E). apply in_map_iff in Ib.
      destruct Ib as (t' & <- & It'). apply rtriples_src in It'.
      destruct It' as [(t0 & I0 & E0)|(v0 & I0 & E0)]; rewrite E0 in E.
      + left. rewrite (is_var_congr g _ _ E). apply src_is_var. auto.
      + right. exists v0. split; auto. apply atom_eqb_astr_r in E. auto.
    - left. simpl in X. destruct (graph_top g) as [tp|] eqn:GT; simpl in X; [|discriminate].
      rewrite orb_false_r in X. rewrite (is_var_congr g _ _ X). apply graph_top_is_var. auto.
  Qed.

  Lemma G1_var_old : forall t, In t ts -> is_var g1 (tsrc t) = true.
  Proof.
    intros t I. destruct (node_graph_has_inst g t F_NG I) as (ti & Ii & II & E).
    rewrite <- (is_var_congr g1 _ _ E). apply src_is_var. simpl.
    apply rtriples_keeps_unreified; auto. apply F_LE. apply F_inst_nreif; auto.
  Qed.

  (* instance / other triples of an old atom *)
  Lemma G1_insts_old : forall x, (forall v, In v vs -> atom_eqb (AStr v) x = false) ->
    insts_of T1 x = insts_of ts x.
  Proof.
    intros x N. unfold insts_of, T1. rewrite filter_src_rtriples_old by (auto; apply F_LE).
    rewrite filter_comm. apply filter_id_all. intros t I. apply filter_In in I. destruct I as [I C].
    apply andb_true_iff in C. destruct C as [_ C]. unfold nreif. rewrite F_inst_nreif; auto.
  Qed.

  Lemma G1_others_old : forall x, (forall v, In v vs -> atom_eqb (AStr v) x = false) ->
    others_of T1 x = filter (nreif m) (others_of ts x).
  Proof.
    intros x N. unfold others_of, T1.
    rewrite (filter_src_rtriples_old m g (fun t => negb (is_inst t))) by (auto; apply F_LE).
    apply filter_comm.
  Qed.

  (* the three triples of one reification *)
  Lemma G1_pair : forall t v, In (t, v) (rpairs m ts vs) ->
    let '(i, n, o) := rexpand m g t v in
    xfacts m g t v i n o /\ In t ts /\ In v vs /\
    insts_of T1 (AStr v) = [n] /\ others_of T1 (AStr v) = [i; o].
  Proof.
    intros t v I. destruct (rpairs_in _ _ _ _ _ I) as (It & Iv & R).
    pose proof (filter_src_rtriples_new m g is_inst ts vs t v F_ND I (fun t1 I1 => F_SV t1 v I1 Iv)) as A.
    pose proof (filter_src_rtriples_new m g (fun t => negb (is_inst t)) ts vs t v F_ND I (fun t1 I1 => F_SV t1 v I1 Iv)) as B.
    destruct (rexpand m g t v) as [[i n] o] eqn:RX.
    pose proof (rexpand_xfacts m g t v i n o (F_SH t It) R RX) as X.
    split; auto. split; auto. split; auto.
    destruct X as [_ _ (I1 & I2 & I3) _ _ _].
    unfold insts_of, others_of, T1. rewrite A, B. simpl. rewrite I1, I2, I3. simpl. auto.
  Qed.

  (* fixed set of g1 *)
  Lemma G1_fixed_mono : forall x, mem atom_eqb x (fixed_of g) = true -> mem atom_eqb x (fixed_of g1) = true.
  Proof.
    intros x H. unfold fixed_of in *. rewrite G1_top_atom. simpl in *.
    apply orb_true_iff in H. apply orb_true_iff. destruct H as [H|H]; auto. right.
    apply mem_atom_true in H. destruct H as (b & Ib & E). apply in_map_iff in Ib.
    destruct Ib as (t & <- & It). apply filter_In in It. destruct It as [It NI]. apply negb_true_iff in NI.
    destruct (rtriples_keeps_tgt m g ts vs t F_SH F_LE It NI) as [(t' & I' & N' & E') _].
    apply mem_atom_true. exists (ttgt t'). split; [|rewrite E'; auto].
    apply in_map. apply filter_In. split; auto. rewrite N'. auto.
  Qed.

  Lemma G1_fixed_reif_src : forall t, In t ts -> is_role_reifiable m (trole t) = true ->
    mem atom_eqb (tsrc t) (fixed_of g1) = true.
  Proof.
    intros t It R. assert (NI : is_inst t = false).
    { destruct (is_inst t) eqn:II; auto. rewrite F_inst_nreif in R; auto. }
    destruct (rtriples_keeps_tgt m g ts vs t F_SH F_LE It NI) as [_ B].
    destruct (B R) as (t' & I' & N' & E'). unfold fixed_of. simpl. apply orb_true_iff. right.
    rewrite <- E'. apply mem_atom_in. apply in_map. apply filter_In. split; auto. rewrite N'. auto.
  Qed.

  Lemma G1_fixed_new : forall v, In v vs -> mem atom_eqb (AStr v) (fixed_of g1) = false.
  Proof.
    intros v Iv. unfold fixed_of. rewrite G1_top_atom. simpl. apply orb_false_iff. split.
    - unfold top_atom. destruct (graph_top g) as [tp|] eqn:GT; auto.
      apply F_old_new; auto. apply graph_top_is_var; auto.
    - destruct (mem atom_eqb (AStr v) (map ttgt (filter (fun t => negb (is_inst t)) T1))) eqn:M; auto.
      apply mem_atom_true in M. destruct M as (b & Ib & E). apply in_map_iff in Ib.
      destruct Ib as (t' & <- & It'). apply filter_In in It'. destruct It' as [It' NI]. apply negb_true_iff in NI.
      destruct (rtriples_ni_tgt m g ts vs t' F_SH It' NI) as (t & It & [X|X]); rewrite X in E; rewrite atom_eqb_sym in E.
      + rewrite F_SV in E; auto.
      + rewrite F_TV in E; auto.
  Qed.

  (* epidata of g1 on untouched triples *)
  Lemma G1_epis_old : forall t, In t ts -> is_role_reifiable m (trole t) = false -> epis_of g1 t = epis_of g t.
  Proof.
    intros t It R. unfold epis_of. simpl. unfold E1. rewrite rloop_frame; auto.
    - intros t0 I0 R0. apply triple_eqb_role_false.
      destruct (str_eqb (trole t) (trole t0)) eqn:E; auto. apply str_eqb_eq in E. congruence.
    - intros v Iv. apply F_SV; auto.
  Qed.

  Lemma G1_nodup_keys : nodup_b triple_eqb (dkeys E1) = true.
  Proof. unfold E1. apply rloop_nodup. apply F_EK. Qed.

  Lemma G1_lookup : forall t v, In (t, v) (rpairs m ts vs) ->
    let '(i, n, o) := rexpand m g t v in
    dget triple_eqb i E1 = Some [Push (AStr v)] /\
    dget triple_eqb n E1 = Some (node_epis (epis_of g t)) /\
    dget triple_eqb o E1 = Some (out_epis (epis_of g t)) /\
    dget triple_eqb t E1 = None.
  Proof.
    intros t v I. pose proof (rloop_lookup m g ts vs (epidata g) (proj1 F_EK) F_NDT F_ND F_SH F_SV t v I) as H.
    destruct (rexpand m g t v) as [[i n] o]. cbv zeta in H. rewrite edge_markers_eq in H. exact H.
  Qed.

  (* an old atom is not collapsible in g1 *)
  Lemma G1_old_none : forall x, (forall v, In v vs -> atom_eqb (AStr v) x = false) -> collapsible m g1 x = None.
  Proof.
    intros x N.
    assert (C0 : collapsible m g x = None).
    { unfold no_collapsible in NC. rewrite <- (agenda_spec m g [] NC x). reflexivity. }
    unfold collapsible in *. simpl triples. rewrite G1_insts_old by auto. fold ts in C0.
    destruct (last_opt (insts_of ts x)) as [i|] eqn:LI; auto.
    unfold agenda_item in *.
    destruct (mem atom_eqb x (fixed_of g1)) eqn:F1; auto.
    assert (F0 : mem atom_eqb x (fixed_of g) = false).
    { destruct (mem atom_eqb x (fixed_of g)) eqn:F0; auto. rewrite G1_fixed_mono in F1; auto. }
    rewrite F0 in C0.
    assert (NR : forall t, In t (others_of ts x) -> nreif m t = true).
    { intros t I. apply others_of_in in I. destruct I as (It & E & _).
      unfold nreif. destruct (is_role_reifiable m (trole t)) eqn:R; auto.
      rewrite <- (mem_atom_congr _ _ _ E), G1_fixed_reif_src in F1; auto. }
    assert (O1 : others_of T1 x = others_of ts x).
    { rewrite G1_others_old by auto. apply filter_id_all. auto. }
    unfold own_entry in *. rewrite O1.
    destruct (others_of ts x) as [|o1 [|o2 [|o3 l]]] eqn:OS; simpl dget in *; rewrite ?atom_eqb_refl in *; auto.
    assert (I1 : In o1 ts /\ nreif m o1 = true).
    { split; [|apply NR; left; auto]. assert (X : In o1 (others_of ts x)) by (rewrite OS; left; auto).
      apply others_of_in in X. tauto. }
    assert (I2 : In o2 ts /\ nreif m o2 = true).
    { split; [|apply NR; right; left; auto]. assert (X : In o2 (others_of ts x)) by (rewrite OS; right; left; auto).
      apply others_of_in in X. tauto. }
    destruct I1 as [I1 R1], I2 as [I2 R2]. unfold nreif in R1, R2. apply negb_true_iff in R1, R2.
    destruct (is_concept_dereifiable m (ttgt i)); auto.
    assert (PV : pushed_value g1 o2 = pushed_value g o2).
    { unfold pushed_value, get_pushed_variable. rewrite G1_epis_old; auto. }
    rewrite PV.
    set (first := if atom_eqb (pushed_value g o2) x then o2 else o1) in *.
    set (second := if atom_eqb (pushed_value g o2) x then o1 else o2) in *.
    destruct (dereify m i first second) as [d| | | | | | | |] eqn:D; auto.
    destruct (is_var g (tsrc d)) eqn:V; simpl in C0; [discriminate|].
    destruct (is_var g1 (tsrc d)) eqn:V1; simpl; auto.
    exfalso. apply G1_var_inv in V1. destruct V1 as [V1|(v & Iv & EV)]; [congruence|].
    apply dereify_ok_inv in D. destruct D as (_ & _ & _ & _ & SRC).
    assert (TG : exists t, In t ts /\ tsrc d = ttgt t).
    { unfold first, second in SRC. destruct (atom_eqb (pushed_value g o2) x);
        destruct SRC as [[-> _]|[-> _]]; eauto. }
    destruct TG as (t & It & ET). rewrite ET in EV.
    pose proof (F_TV t v It Iv) as X. rewrite EV, atom_eqb_refl in X. discriminate.
  Qed.

  (* a new variable is collapsible, and dereifies to the original triple *)
  Lemma G1_new_some : forall t v, In (t, v) (rpairs m ts vs) ->
    let '(i, n, o) := rexpand m g t v in
    collapsible m g1 (AStr v) = Some (i, t, canon_epis (epis_of g t)).
  Proof.
    intros t v I. pose proof (G1_pair t v I) as P. pose proof (G1_lookup t v I) as LK.
    destruct (rexpand m g t v) as [[i n] o] eqn:RX.
    destruct P as (X & It & Iv & IN & OT). destruct LK as (L1 & L2 & L3 & L4).
    destruct (rpairs_in _ _ _ _ _ I) as (_ & _ & R).
    unfold collapsible. simpl triples. fold T1. rewrite IN. simpl last_opt. cbv iota.
    unfold agenda_item. rewrite G1_fixed_new by auto.
    unfold own_entry. rewrite OT. unfold dget. rewrite atom_eqb_refl.
    (* the row *)
    destruct (reifiable_rows _ _ R) as (c & sr & tr & rest & RR).
    pose proof (rexpand_cases _ _ _ _ _ _ _ RX) as RC. unfold reif_row in RC. rewrite RR in RC.
    destruct RC as (EN & RC).
    assert (CD : is_concept_dereifiable m (ttgt n) = true).
    { rewrite EN, ttgt_mk. eapply reif_concept_dereifiable; eauto. }
    rewrite CD.
    (* the third triple carries the old markers: its Push, if any, names an old variable *)
    assert (PV : atom_eqb (pushed_value g1 o) (AStr v) = false).
    { unfold pushed_value, get_pushed_variable, epis_of. simpl epidata. rewrite L3.
      rewrite find_push_out_epis. destruct (last_such is_push (epis_of g t)) as [e|] eqn:LP; auto.
      apply last_such_in in LP. destruct LP as [Ie Pe]. destruct e as [x| | |]; simpl in Pe; try discriminate.
      unfold epis_of in Ie. destruct (dget triple_eqb t (epidata g)) as [l|] eqn:G; [|destruct Ie].
      apply (dget_some_in triple_eqb) in G. destruct G as (k' & Ik & _).
      destruct (proj2 F_EK _ _ Ik) as [_ PVs]. unfold epi_pushes_vars in PVs. rewrite forallb_forall in PVs.
      specialize (PVs _ Ie). simpl in PVs. rewrite atom_eqb_sym. apply F_old_new; auto. }
    rewrite PV.
    (* dereify gives the original triple back *)
    destruct (F_TO t It) as [_ OK].
    assert (D : dereify m n i o = Ok t).
    { rewrite dereify_spec.
      - rewrite EN, ttgt_mk. destruct RC as [(-> & -> & SW)|(-> & -> & SW)]; rewrite SW in OK; rewrite !trole_mk, !ttgt_mk.
        + rewrite (plain_ok_pick m (trole t) c sr tr rest RR OK). destruct t as [[s r] x]. reflexivity.
        + rewrite (inv_ok_pick m (trole t) c sr tr rest RR OK). destruct t as [[s r] x]. reflexivity.
      - destruct X as [_ _ (_ & A & _) _ _ _]. auto.
      - destruct X as [(A & B & _) _ _ _ _ _]. rewrite A, B. apply atom_eqb_refl.
      - destruct X as [(A & _ & B) _ _ _ _ _]. rewrite A, B. apply atom_eqb_refl. }
    rewrite D. rewrite (G1_var_old t It). simpl negb. cbv iota.
    (* markers *)
    rewrite alignments_galn, dget_galn by (simpl; apply G1_nodup_keys).
    simpl epidata. rewrite L2. unfold epis_of at 2. simpl epidata. rewrite L3.
    rewrite node_epis_last, filter_not_raln_out_epis, canon_epis_eq. reflexivity.
  Qed.

  (* ---------------------------------------------------------------- *)
  (** part 5: running dereify_edges over the reified graph *)

  Lemma dget_del_other : forall (d : dict triple (list epi)) k x, triple_eqb k x = false ->
    dget triple_eqb k (del_if_present x d) = dget triple_eqb k d.
  Proof. intros. unfold del_if_present. destruct (dmem triple_eqb x d); auto. apply dget_ddel_other. auto. Qed.

  Lemma dget_del_same : forall (d : dict triple (list epi)) k x, nodup_b triple_eqb (dkeys d) = true ->
    triple_eqb k x = true -> dget triple_eqb k (del_if_present x d) = None.
  Proof.
    intros d k x N E. unfold del_if_present. destruct (dmem triple_eqb x d) eqn:M.
    - rewrite T_dget_ddel by auto. rewrite E. auto.
    - unfold dmem in M. rewrite (T_dget_congr d k x E). destruct (dget triple_eqb x d); auto. discriminate.
  Qed.

  Lemma nodup_del : forall (d : dict triple (list epi)) x, nodup_b triple_eqb (dkeys d) = true ->
    nodup_b triple_eqb (dkeys (del_if_present x d)) = true.
  Proof. intros. unfold del_if_present. destruct (dmem triple_eqb x d); auto. apply nodup_ddel. auto. Qed.

  (* what the agenda must say about a list of triples / names *)
  Definition ag_ok (ag : dict atom agenda_entry) (l : list triple) (ws : list str) : Prop :=
    (forall t v, In (t, v) (rpairs m l ws) ->
       let '(i, n, o) := rexpand m g t v in
       dget atom_eqb (AStr v) ag = Some (i, t, canon_epis (epis_of g t))) /\
    (forall t, In t l -> is_role_reifiable m (trole t) = false -> dget atom_eqb (tsrc t) ag = None).

  Lemma ag_ok_tail_reif : forall ag t l v ws, is_role_reifiable m (trole t) = true ->
    ag_ok ag (t :: l) (v :: ws) -> ag_ok ag l ws.
  Proof.
    intros ag t l v ws R [A B]. split.
    - intros t1 v1 I. apply A. cbn [rpairs]. rewrite R. right. auto.
    - intros t1 I. apply B. right. auto.
  Qed.
  Lemma ag_ok_tail_nreif : forall ag t l ws, is_role_reifiable m (trole t) = false ->
    ag_ok ag (t :: l) ws -> ag_ok ag l ws.
  Proof.
    intros ag t l ws R [A B]. split.
    - intros t1 v1 I. apply A. cbn [rpairs]. rewrite R. auto.
    - intros t1 I. apply B. right. auto.
  Qed.

  (* local facts about a sublist of the triples *)
  Definition sub_ok (l : list triple) (ws : list str) : Prop :=
    (forall t, In t l -> In t ts) /\ (forall v, In v ws -> In v vs) /\
    nodup_b triple_eqb l = true /\ NoDup ws /\ count_reif m l <= length ws.

  Lemma sub_ok_tail_reif : forall t l v ws, is_role_reifiable m (trole t) = true ->
    sub_ok (t :: l) (v :: ws) -> sub_ok l ws /\ In t ts /\ In v vs /\ ~ In v ws /\ mem triple_eqb t l = false.
  Proof.
    intros t l v ws R (A & B & C & D & E). simpl in C. apply andb_true_iff in C. destruct C as [C1 C2].
    apply negb_true_iff in C1. inversion D; subst. rewrite count_reif_cons, R in E. simpl in E.
    split; [|split; [|split; [|split]]]; auto.
    - unfold sub_ok. split; [|split; [|split; [|split]]]; auto.
      + intros. apply A. right. auto.
      + intros. apply B. right. auto.
      + lia.
    - apply A. left. auto.
    - apply B. left. auto.
  Qed.
  Lemma sub_ok_tail_nreif : forall t l ws, is_role_reifiable m (trole t) = false ->
    sub_ok (t :: l) ws -> sub_ok l ws /\ In t ts.
  Proof.
    intros t l ws R (A & B & C & D & E). simpl in C. apply andb_true_iff in C. destruct C as [C1 C2].
    rewrite count_reif_cons, R in E. simpl in E.
    split; [|apply A; left; auto].
    unfold sub_ok. split; [|split; [|split; [|split]]]; auto.
    intros. apply A. right. auto.
  Qed.

  Lemma D_triples : forall ag l ws, sub_ok l ws -> ag_ok ag l ws ->
    dtriples ag (rtriples m g l ws) = l.
  Proof.
    intros ag l. induction l as [|t l IH]; intros ws SO AO; auto.
    simpl rtriples. destruct (is_role_reifiable m (trole t)) eqn:R.
    - destruct ws as [|v ws]; [destruct SO as (_ & _ & _ & _ & E); rewrite count_reif_cons, R in E; simpl in E; lia|].
      destruct (sub_ok_tail_reif _ _ _ _ R SO) as (SO' & It & Iv & NI & NM').
      pose proof (proj1 AO t v) as A. cbn [rpairs] in A. rewrite R in A. specialize (A (or_introl eq_refl)).
      destruct (rexpand m g t v) as [[i n] o] eqn:RX.
      pose proof (rexpand_xfacts m g t v i n o (F_SH t It) R RX) as X.
      destruct X as [(S1 & S2 & S3) (D1 & D2 & D3) _ _ _ _].
      cbn [dtriples]. rewrite S1, S2, S3, A. rewrite triple_eqb_refl.
      rewrite (triple_eqb_sym n i), D1, (triple_eqb_sym o i), D2.
      f_equal. apply IH; auto. eapply ag_ok_tail_reif; eauto.
    - destruct (sub_ok_tail_nreif _ _ _ R SO) as (SO' & It).
      cbn [dtriples]. rewrite (proj2 AO t (or_introl eq_refl) R). f_equal.
      apply IH; auto. eapply ag_ok_tail_nreif; eauto.
  Qed.

  (* one step of the loop on a reified triple *)
  Definition after_reif (i n o t : triple) (e : list epi) (ed : dict triple (list epi)) : dict triple (list epi) :=
    del_if_present o (del_if_present n (del_if_present i (dset triple_eqb t e ed))).

  Lemma dloop_unfold_reif : forall ag t l v ws ed i n o,
    is_role_reifiable m (trole t) = true -> sub_ok (t :: l) (v :: ws) -> ag_ok ag (t :: l) (v :: ws) ->
    rexpand m g t v = (i, n, o) ->
    snd (dereify_edges_loop ag (rtriples m g (t :: l) (v :: ws)) ed) =
    snd (dereify_edges_loop ag (rtriples m g l ws) (after_reif i n o t (canon_epis (epis_of g t)) ed)).
  Proof.
    intros ag t l v ws ed i n o R SO AO RX.
    destruct (sub_ok_tail_reif _ _ _ _ R SO) as (SO' & It & Iv & NI & NM').
    pose proof (proj1 AO t v) as A. cbn [rpairs] in A. rewrite R in A. specialize (A (or_introl eq_refl)).
    rewrite RX in A.
    pose proof (rexpand_xfacts m g t v i n o (F_SH t It) R RX) as X.
    destruct X as [(S1 & S2 & S3) (D1 & D2 & D3) _ _ _ _].
    simpl rtriples. rewrite R, RX. cbn [dereify_edges_loop]. rewrite S1, S2, S3, A.
    rewrite triple_eqb_refl, (triple_eqb_sym n i), D1, (triple_eqb_sym o i), D2.
    unfold after_reif.
    destruct (dereify_edges_loop ag (rtriples m g l ws) _) as [r1 r2]. reflexivity.
  Qed.

  Lemma dloop_unfold_nreif : forall ag t l ws ed,
    is_role_reifiable m (trole t) = false -> ag_ok ag (t :: l) ws ->
    snd (dereify_edges_loop ag (rtriples m g (t :: l) ws) ed) =
    snd (dereify_edges_loop ag (rtriples m g l ws) ed).
  Proof.
    intros ag t l ws ed R AO. simpl rtriples. rewrite R. cbn [dereify_edges_loop].
    rewrite (proj2 AO t (or_introl eq_refl) R).
    destruct (dereify_edges_loop ag (rtriples m g l ws) ed) as [r1 r2]. reflexivity.
  Qed.

  (* (F1) keys nobody touches *)
  Lemma D_frame : forall ag l ws ed k, sub_ok l ws -> ag_ok ag l ws ->
    (forall t v, In (t, v) (rpairs m l ws) ->
       let '(i, n, o) := rexpand m g t v in
       triple_eqb k t = false /\ triple_eqb k i = false /\ triple_eqb k n = false /\ triple_eqb k o = false) ->
    dget triple_eqb k (snd (dereify_edges_loop ag (rtriples m g l ws) ed)) = dget triple_eqb k ed.
  Proof.
    intros ag l. induction l as [|t l IH]; intros ws ed k SO AO H; auto.
    destruct (is_role_reifiable m (trole t)) eqn:R.
    - destruct ws as [|v ws]; [destruct SO as (_ & _ & _ & _ & E); rewrite count_reif_cons, R in E; simpl in E; lia|].
      destruct (sub_ok_tail_reif _ _ _ _ R SO) as (SO' & _).
      pose proof (H t v) as H0. cbn [rpairs] in H0. rewrite R in H0. specialize (H0 (or_introl eq_refl)).
      destruct (rexpand m g t v) as [[i n] o] eqn:RX. destruct H0 as (K0 & K1 & K2 & K3).
      rewrite (dloop_unfold_reif ag t l v ws ed i n o R SO AO RX).
      rewrite IH; auto.
      + unfold after_reif. rewrite !dget_del_other by auto. rewrite T_dget_dset, K0. auto.
      + eapply ag_ok_tail_reif; eauto.
      + intros t1 v1 I1. apply H. cbn [rpairs]. rewrite R. right. auto.
    - destruct (sub_ok_tail_nreif _ _ _ R SO) as (SO' & _).
      rewrite (dloop_unfold_nreif ag t l ws ed R AO). apply IH; auto.
      + eapply ag_ok_tail_nreif; eauto.
      + intros t1 v1 I1. apply H. cbn [rpairs]. rewrite R. auto.
  Qed.

  (* separation facts between one pair and the pairs of a later sublist *)
  Lemma pair_sep : forall l ws t v t1 v1, sub_ok l ws -> In t ts -> In v vs -> ~ In v ws ->
    mem triple_eqb t l = false -> is_role_reifiable m (trole t) = true ->
    In (t1, v1) (rpairs m l ws) ->
    let '(i, n, o) := rexpand m g t v in
    let '(i1, n1, o1) := rexpand m g t1 v1 in
    forall k, (triple_eqb k t = true \/ triple_eqb k i = true \/ triple_eqb k n = true \/ triple_eqb k o = true) ->
      triple_eqb k t1 = false /\ triple_eqb k i1 = false /\ triple_eqb k n1 = false /\ triple_eqb k o1 = false.
  Proof.
    intros l ws t v t1 v1 SO It Iv NI NM' R I1.
    destruct (rpairs_in _ _ _ _ _ I1) as (A1 & B1 & C1). destruct SO as (SA & SB & _).
    destruct (rexpand m g t v) as [[i n] o] eqn:RX. destruct (rexpand m g t1 v1) as [[i1 n1] o1] eqn:RX1.
    destruct (rexpand_src _ _ _ _ _ _ _ RX) as (S1 & S2 & S3).
    destruct (rexpand_src _ _ _ _ _ _ _ RX1) as (Q1 & Q2 & Q3).
    assert (NE : atom_eqb (AStr v) (AStr v1) = false).
    { simpl. apply str_eqb_neq. intro E. subst. contradiction. }
    assert (TT : triple_eqb t t1 = false).
    { destruct (triple_eqb t t1) eqn:E; auto.
      assert (M : mem triple_eqb t l = true) by (unfold mem; apply existsb_exists; exists t1; split; auto). congruence. }
    assert (ST : atom_eqb (tsrc t) (AStr v1) = false) by (apply F_SV; auto).
    assert (ST1 : atom_eqb (AStr v) (tsrc t1) = false) by (rewrite atom_eqb_sym; apply F_SV; auto).
    intros k [K|[K|[K|K]]]; rewrite !(triple_eqb_congr_l _ _ _ K);
      repeat split; auto; apply triple_eqb_src_false; rewrite ?S1, ?S2, ?S3, ?Q1, ?Q2, ?Q3; auto.
  Qed.

  (* (F2)/(F3): the reified triple gets its markers back, the three new keys disappear *)
  Lemma D_lookup : forall ag l ws ed, sub_ok l ws -> ag_ok ag l ws ->
    nodup_b triple_eqb (dkeys ed) = true ->
    forall t v, In (t, v) (rpairs m l ws) ->
      let '(i, n, o) := rexpand m g t v in
      let Ef := snd (dereify_edges_loop ag (rtriples m g l ws) ed) in
      dget triple_eqb t Ef = Some (canon_epis (epis_of g t)) /\
      dget triple_eqb i Ef = None /\ dget triple_eqb n Ef = None /\ dget triple_eqb o Ef = None.
  Proof.
    intros ag l. induction l as [|t0 l IH]; intros ws ed SO AO NK t v I; [destruct I|].
    cbn [rpairs] in I. destruct (is_role_reifiable m (trole t0)) eqn:R0.
    - destruct ws as [|v0 ws]; [destruct I|].
      destruct (sub_ok_tail_reif _ _ _ _ R0 SO) as (SO' & It0 & Iv0 & NI & NM').
      destruct (rexpand m g t0 v0) as [[i0 n0] o0] eqn:RX0.
      pose proof (rexpand_xfacts m g t0 v0 i0 n0 o0 (F_SH t0 It0) R0 RX0) as X0.
      destruct X0 as [(S1 & S2 & S3) (D1 & D2 & D3) _ _ _ _].
      assert (ST0 : atom_eqb (tsrc t0) (AStr v0) = false) by (apply F_SV; auto).
      assert (T0i : triple_eqb t0 i0 = false) by (apply triple_eqb_src_false; rewrite S1; auto).
      assert (T0n : triple_eqb t0 n0 = false) by (apply triple_eqb_src_false; rewrite S2; auto).
      assert (T0o : triple_eqb t0 o0 = false) by (apply triple_eqb_src_false; rewrite S3; auto).
      set (e0 := canon_epis (epis_of g t0)).
      set (ed1 := dset triple_eqb t0 e0 ed).
      set (ed2 := del_if_present i0 ed1). set (ed3 := del_if_present n0 ed2).
      assert (N1 : nodup_b triple_eqb (dkeys ed1) = true) by (apply T_nodup_dset; auto).
      assert (N2 : nodup_b triple_eqb (dkeys ed2) = true) by (apply nodup_del; auto).
      assert (N3 : nodup_b triple_eqb (dkeys ed3) = true) by (apply nodup_del; auto).
      assert (N4 : nodup_b triple_eqb (dkeys (after_reif i0 n0 o0 t0 e0 ed)) = true) by (apply nodup_del; auto).
      destruct I as [I|I].
      + inversion I; subst t v. clear I. rewrite RX0. cbv zeta.
        rewrite (dloop_unfold_reif ag t0 l v0 ws ed i0 n0 o0 R0 SO AO RX0). fold e0.
        assert (FR : forall k, (triple_eqb k t0 = true \/ triple_eqb k i0 = true \/ triple_eqb k n0 = true \/ triple_eqb k o0 = true) ->
          dget triple_eqb k (snd (dereify_edges_loop ag (rtriples m g l ws) (after_reif i0 n0 o0 t0 e0 ed))) =
          dget triple_eqb k (after_reif i0 n0 o0 t0 e0 ed)).
        { intros k K. apply D_frame; auto. { eapply ag_ok_tail_reif; eauto. }
          intros t1 v1 I1. pose proof (pair_sep l ws t0 v0 t1 v1 SO' It0 Iv0 NI NM' R0 I1) as PS.
          rewrite RX0 in PS. destruct (rexpand m g t1 v1) as [[i1 n1] o1]. apply PS. auto. }
        rewrite !FR by (rewrite ?triple_eqb_refl; auto).
        unfold after_reif. unfold ed3, ed2, ed1 in *. repeat split.
        * rewrite !dget_del_other by auto. rewrite T_dget_dset, triple_eqb_refl. auto.
        * rewrite dget_del_other by auto. rewrite dget_del_other by auto.
          apply dget_del_same; auto. apply triple_eqb_refl.
        * rewrite dget_del_other by auto. apply dget_del_same; auto. apply triple_eqb_refl.
        * apply dget_del_same; auto. apply triple_eqb_refl.
      + rewrite (dloop_unfold_reif ag t0 l v0 ws ed i0 n0 o0 R0 SO AO RX0).
        apply IH; auto. eapply ag_ok_tail_reif; eauto.
    - destruct (sub_ok_tail_nreif _ _ _ R0 SO) as (SO' & _).
      rewrite (dloop_unfold_nreif ag t0 l ws ed R0 AO). apply IH; auto. eapply ag_ok_tail_nreif; eauto.
  Qed.

  (* ---------------------------------------------------------------- *)
  (** part 6: assembling *)

  Lemma G1_ag_ok : forall ag, dereify_agenda m g1 = Ok ag -> ag_ok ag ts vs.
  Proof.
    intros ag H. split.
    - intros t v I. pose proof (G1_new_some t v I) as X. destruct (rexpand m g t v) as [[i n] o].
      rewrite (agenda_spec m g1 ag H). exact X.
    - intros t I R. rewrite (agenda_spec m g1 ag H). apply G1_old_none.
      intros v Iv. rewrite atom_eqb_sym. apply F_SV; auto.
  Qed.

  Lemma G1_sub_ok : sub_ok ts vs.
  Proof.
    unfold sub_ok. split; [|split; [|split; [|split]]]; auto.
    - apply F_NDT.
    - apply F_ND.
    - apply F_LE.
  Qed.

  Lemma existsb_false_all : forall {A} (f : A -> bool) l, existsb f l = false -> forall x, In x l -> f x = false.
  Proof.
    induction l as [|y l IH]; intros H x I; [destruct I|]. simpl in H. apply orb_false_iff in H.
    destruct I as [<-|I]; [tauto|]. apply IH; tauto.
  Qed.

  Definition reified_key (k : triple) : bool :=
    mem triple_eqb k (filter (fun t => is_role_reifiable m (trole t)) ts).

  Theorem inverse_main : forall g2, dereify_edges m g1 = Ok g2 ->
    triples g2 = triples g /\ gtop g2 = graph_top g /\ gmeta g2 = gmeta g /\
    forall k, epis_of g2 k = if reified_key k then canon_epis (epis_of g k) else epis_of g k.
  Proof.
    intros g2 H. apply dereify_edges_pure in H. destruct H as (ag & AG & ->).
    pose proof (G1_ag_ok ag AG) as AO. pose proof G1_sub_ok as SO.
    change (triples g1) with T1. change (epidata g1) with E1. change (gmeta g1) with (gmeta g).
    split; [|split; [|split]].
    - rewrite triples_mk. unfold T1. rewrite (D_triples ag ts vs SO AO). apply map_colonize_id. apply F_COL.
    - simpl. apply G1_top.
    - reflexivity.
    - intros k. unfold epis_of at 1. simpl epidata. fold T1.
      set (Ef := snd (dereify_edges_loop ag T1 E1)).
      unfold reified_key. destruct (mem triple_eqb k (filter (fun t => is_role_reifiable m (trole t)) ts)) eqn:M.
      + unfold mem in M. apply existsb_exists in M. destruct M as (t & It & E).
        apply filter_In in It. destruct It as [It R].
        destruct (rpairs_total m ts vs t F_LE It R) as [v Iv].
        pose proof (D_lookup ag ts vs E1 SO AO G1_nodup_keys t v Iv) as LK.
        destruct (rexpand m g t v) as [[i n] o]. cbv zeta in LK. destruct LK as (LK & _).
        unfold Ef, T1. rewrite (T_dget_congr _ k t E), LK.
        unfold epis_of. rewrite (T_dget_congr (epidata g) k t E). reflexivity.
      + pose proof (existsb_false_all _ _ M) as M'. clear M.
        destruct (existsb (fun tv : triple * str => let '(i, n, o) := rexpand m g (fst tv) (snd tv) in
                     triple_eqb k i || triple_eqb k n || triple_eqb k o) (rpairs m ts vs)) eqn:X.
        * apply existsb_exists in X. destruct X as ([t v] & Iv & X). simpl in X.
          pose proof (D_lookup ag ts vs E1 SO AO G1_nodup_keys t v Iv) as LK.
          destruct (rpairs_in _ _ _ _ _ Iv) as (It & Ivs & R).
          destruct (rexpand m g t v) as [[i n] o] eqn:RX. cbv zeta in LK. destruct LK as (_ & L1 & L2 & L3).
          destruct (rexpand_src _ _ _ _ _ _ _ RX) as (S1 & S2 & S3).
          assert (KN : dget triple_eqb k Ef = None /\ atom_eqb (tsrc k) (AStr v) = true).
          { apply orb_true_iff in X. destruct X as [X|X]; [apply orb_true_iff in X; destruct X as [X|X]|];
              unfold Ef, T1; rewrite (T_dget_congr _ _ _ X); split; auto;
              apply triple_eqb_true in X; destruct X as (X & _); rewrite ?S1, ?S2, ?S3 in X; auto. }
          destruct KN as [KN KS]. rewrite KN.
          unfold epis_of. destruct (dget triple_eqb k (epidata g)) as [l|] eqn:G; auto.
          apply (dget_some_in triple_eqb) in G. destruct G as (k' & Ik & E).
          destruct (proj2 F_EK _ _ Ik) as [V _].
          apply triple_eqb_true in E. destruct E as (E & _).
          rewrite <- (is_var_congr g _ _ E), (is_var_congr g _ _ KS) in V.
          destruct (F_NV v Ivs) as [NV _]. congruence.
        * pose proof (existsb_false_all _ _ X) as X'. clear X.
          assert (SEP : forall t v, In (t, v) (rpairs m ts vs) ->
                    let '(i, n, o) := rexpand m g t v in
                    triple_eqb k t = false /\ triple_eqb k i = false /\ triple_eqb k n = false /\ triple_eqb k o = false).
          { intros t v Iv. specialize (X' (t, v) Iv). simpl in X'.
            destruct (rpairs_in _ _ _ _ _ Iv) as (It & _ & R).
            destruct (rexpand m g t v) as [[i n] o].
            apply orb_false_iff in X'. destruct X' as [X' X3]. apply orb_false_iff in X'. destruct X' as [X1 X2].
            repeat split; auto. apply M'. apply filter_In. split; auto. }
          unfold Ef, T1. rewrite (D_frame ag ts vs E1 k SO AO SEP).
          unfold E1. rewrite (rloop_frame2 m g ts vs (epidata g) k SEP). reflexivity.
  Qed.
End Inverse.

(* the theorem, for the graphs reify_edges / dereify_edges actually return *)
Theorem inverse_thm : forall m g g1 g2,
  wf_graph g -> epi_ok g -> no_collapsible m g -> table_ok_for m g = true ->
  reify_edges m g = Ok g1 -> dereify_edges m g1 = Ok g2 ->
  triples g2 = triples g /\ gtop g2 = graph_top g /\ gmeta g2 = gmeta g /\
  forall k, epis_of g2 k = if reified_key m g k then canon_epis (epis_of g k) else epis_of g k.
Proof.
  intros m g g1 g2 WF EO NC TO H1 H2. apply reify_edges_pure in H1. destruct H1 as (vs & NM & LN & ->).
  rewrite (G1_eq m g vs WF TO) in H2.
  eapply inverse_main; eauto.
Qed.

(* ------------------------------------------------------------------ *)
(** * Corollaries of the inverse theorem *)

Lemma inverse_canonical : forall m g g1 g2,
  wf_graph g -> epi_ok g -> no_collapsible m g -> table_ok_for m g = true ->
  (forall t, In t (triples g) -> is_role_reifiable m (trole t) = true ->
     canon_epis (epis_of g t) = epis_of g t) ->
  reify_edges m g = Ok g1 -> dereify_edges m g1 = Ok g2 ->
  triples g2 = triples g /\ graph_top g2 = graph_top g /\ gmeta g2 = gmeta g /\
  forall k, epis_of g2 k = epis_of g k.
Proof.
  intros m g g1 g2 WF EO NC TO CAN H1 H2.
  destruct (inverse_thm m g g1 g2 WF EO NC TO H1 H2) as (A & B & C & D).
  split; auto. split; [|split; auto].
  - rewrite (dereify_edges_top _ _ _ H2). apply (reify_edges_top _ _ _ H1).
  - intros k. rewrite D. unfold reified_key.
    destruct (mem triple_eqb k (filter (fun t => is_role_reifiable m (trole t)) (triples g))) eqn:M; auto.
    unfold mem in M. apply existsb_exists in M. destruct M as (t & It & E).
    apply filter_In in It. destruct It as [It R].
    unfold epis_of. rewrite (T_dget_congr (epidata g) k t E). apply (CAN t It R).
Qed.

Lemma inverse_exists : forall m g,
  wf_graph g -> epi_ok g -> no_collapsible m g -> table_ok_for m g = true ->
  exists g1 g2, reify_edges m g = Ok g1 /\ dereify_edges m g1 = Ok g2 /\
    triples g2 = triples g /\ graph_top g2 = graph_top g /\ gmeta g2 = gmeta g.
Proof.
  intros m g WF EO NC TO. destruct (reify_edges_total m g) as [g1 H1].
  destruct (dereify_edges_total m g1) as [g2 H2]. exists g1, g2.
  destruct (inverse_thm m g g1 g2 WF EO NC TO H1 H2) as (A & B & C & D).
  repeat split; auto. rewrite (dereify_edges_top _ _ _ H2). apply (reify_edges_top _ _ _ H1).
Qed.

Lemma table_ok_sufficient : forall m g, table_ok m (roles_used g) -> table_ok_for m g = true.
Proof.
  intros m g H. unfold table_ok, roles_used in H. rewrite forallb_forall in H.
  unfold table_ok_for. apply forallb_forall. intros t I.
  specialize (H (trole t) (in_map trole _ _ I)). unfold table_ok_role in H.
  apply andb_true_iff in H. destruct H as [H H3]. apply andb_true_iff in H. destruct H as [H1 H2].
  rewrite H1. destruct (reify_swaps g t); auto.
Qed.

Lemma dereify_keeps : forall m g g' (ag : dict atom agenda_entry) t,
  dereify_agenda m g = Ok ag -> dereify_edges m g = Ok g' ->
  In t (triples g) -> dget atom_eqb (tsrc t) ag = None -> In (colonize t) (triples g').
Proof.
  intros m g g' ag t AG H I N. apply dereify_edges_pure in H. destruct H as (ag' & AG' & ->).
  rewrite AG in AG'. inversion AG'; subst ag'. rewrite triples_mk. apply in_map.
  apply dereify_keeps_others; auto.
Qed.


(* ------------------------------------------------------------------ *)
(** * Connectivity (C12) *)

(* the boolean procedure is sound for the declarative notion *)
Lemma reach_step_sound : forall g l seen, (forall t, In t l -> In t (triples g)) ->
  (forall x, In x seen -> reach g x) ->
  forall x, In x (fold_left (fun acc t =>
               if is_edge g t then
                 if mem atom_eqb (tsrc t) acc && negb (mem atom_eqb (ttgt t) acc) then acc ++ [ttgt t]
                 else if mem atom_eqb (ttgt t) acc && negb (mem atom_eqb (tsrc t) acc) then acc ++ [tsrc t]
                 else acc
               else acc) l seen) -> reach g x.
Proof.
  intros g l. induction l as [|t l IH]; intros seen H S x I; simpl in I; auto.
  apply IH in I; auto. { intros. apply H. right. auto. }
  clear I x. intros x I. assert (It : In t (triples g)) by (apply H; left; auto).
  destruct (is_edge g t) eqn:E; auto.
  destruct (mem atom_eqb (tsrc t) seen && negb (mem atom_eqb (ttgt t) seen)) eqn:C1.
  - apply in_app_or in I. destruct I as [I|[<-|[]]]; auto.
    apply andb_true_iff in C1. destruct C1 as [C1 _]. apply mem_atom_true in C1. destruct C1 as (b & Ib & Eb).
    apply reach_fwd; auto. apply reach_eq with b; auto. rewrite atom_eqb_sym. auto.
  - destruct (mem atom_eqb (ttgt t) seen && negb (mem atom_eqb (tsrc t) seen)) eqn:C2; auto.
    apply in_app_or in I. destruct I as [I|[<-|[]]]; auto.
    apply andb_true_iff in C2. destruct C2 as [C2 _]. apply mem_atom_true in C2. destruct C2 as (b & Ib & Eb).
    apply reach_bwd; auto. apply reach_eq with b; auto. rewrite atom_eqb_sym. auto.
Qed.

Lemma reach_iter_sound : forall n g seen, (forall x, In x seen -> reach g x) ->
  forall x, In x (reach_iter n g seen) -> reach g x.
Proof.
  induction n as [|n IH]; intros g seen S x I; simpl in I; auto.
  eapply IH; [|exact I]. intros y Iy. unfold reach_step in Iy.
  eapply reach_step_sound; [| |exact Iy]; auto.
Qed.

Lemma connected_b_sound : forall g, connected g -> connectedP g.
Proof.
  intros g H x V. unfold connected, connected_b in H. rewrite forallb_forall in H.
  apply is_var_in_variables in V. destruct V as (y & Iy & E).
  specialize (H y Iy). apply mem_atom_true in H. destruct H as (b & Ib & Eb).
  apply reach_eq with b.
  - unfold reachable in Ib. destruct (graph_top g) as [tp|] eqn:GT; [|destruct Ib].
    eapply reach_iter_sound; [|exact Ib]. intros z [<-|[]]. apply reach_top. auto.
  - rewrite atom_eqb_sym. eapply atom_eqb_trans; eauto.
Qed.

(* transport of reachability: same top, every edge of g is bridged in g' *)
Lemma reach_transport : forall g g', graph_top g' = graph_top g ->
  (forall t, In t (triples g) -> is_edge g t = true ->
     (reach g' (tsrc t) -> reach g' (ttgt t)) /\ (reach g' (ttgt t) -> reach g' (tsrc t))) ->
  forall x, reach g x -> reach g' x.
Proof.
  intros g g' T B x R. induction R.
  - apply reach_top. congruence.
  - eapply reach_eq; eauto.
  - apply (B t); auto.
  - apply (B t); auto.
Qed.

Lemma edge_bridge : forall g' t, In t (triples g') -> is_edge g' t = true ->
  (reach g' (tsrc t) -> reach g' (ttgt t)) /\ (reach g' (ttgt t) -> reach g' (tsrc t)).
Proof. intros. split; intro; [apply reach_fwd|apply reach_bwd]; auto. Qed.

Lemma is_edge_spec : forall g t, is_edge g t = true <-> is_inst t = false /\ is_var g (ttgt t) = true.
Proof. intros. unfold is_edge. rewrite andb_true_iff, negb_true_iff. tauto. Qed.

(* ---- indicate_branches ---- *)
Lemma indicate_branches_connected : forall m g g', node_graph g -> colon_inst (top_role m) = false ->
  connectedP g -> indicate_branches m g = Ok g' -> connectedP g'.
Proof.
  intros m g g' NG T CN H. pose proof (indicate_branches_top _ _ _ H) as TOP.
  rewrite indicate_branches_pure in H by (apply node_graph_vars_str; auto). inversion H; subst g'. clear H.
  set (g' := mk_graph _ _ _ _) in *.
  assert (COL : forall t, In t (triples g) -> has_colon (trole t) = true) by (intros; eapply node_graph_colon; eauto).
  assert (KEEP : forall t, In t (triples g) -> In t (triples g')).
  { intros t I. unfold g'. rewrite triples_mk. rewrite <- (colonize_id t) by auto. apply in_map. apply itriples_keeps. auto. }
  assert (VM : forall x, is_var g x = true -> is_var g' x = true).
  { intros x X. rewrite is_var_spec in X. apply orb_true_iff in X. destruct X as [X|X].
    - apply mem_atom_true in X. destruct X as (b & Ib & E). apply in_map_iff in Ib. destruct Ib as (t & <- & It).
      rewrite (is_var_congr g' _ _ E). apply src_is_var. auto.
    - unfold g'. rewrite is_var_mk. apply orb_true_iff. right. unfold graph_top. destruct (gtop g); auto. discriminate. }
  assert (VI : forall x, is_var g' x = true -> is_var g x = true).
  { intros x X. unfold g' in X. rewrite is_var_mk in X. apply orb_true_iff in X. destruct X as [X|X].
    - apply mem_atom_true in X. destruct X as (b & Ib & E). apply in_map_iff in Ib.
      destruct Ib as (t' & <- & It'). rewrite (is_var_congr g _ _ E). eapply itriples_src; eauto.
    - destruct (graph_top g) as [tp|] eqn:GT; simpl in X; [|discriminate].
      rewrite orb_false_r in X. rewrite (is_var_congr g _ _ X). apply graph_top_is_var. auto. }
  intros x X. apply (reach_transport g g'); auto.
  intros t I E. apply edge_bridge; auto. apply is_edge_spec in E. apply is_edge_spec. destruct E. auto.
Qed.

(* ---- reify_attributes ---- *)
Lemma atriples_keeps_edges : forall V ts vs t, count_attr V ts <= length vs -> In t ts ->
  is_attr_of V t = false -> In t (atriples V ts vs).
Proof.
  intros V ts. induction ts as [|t0 ts IH]; intros vs t L I A; [destruct I|].
  rewrite count_attr_cons in L. simpl. destruct (is_attr_of V t0) eqn:A0.
  - destruct vs as [|v vs]; [simpl in L; lia|]. destruct I as [<-|I]; [congruence|].
    right. right. apply IH; auto. simpl in L. lia.
  - destruct I as [<-|I]; [left; auto|]. right. apply IH; auto.
Qed.

Lemma atriples_cases2 : forall V ts vs t', In t' (atriples V ts vs) ->
  (In t' ts /\ is_attr_of V t' = false) \/
  (exists t v, In t ts /\ is_attr_of V t = true /\
               In (tsrc t, trole t, AStr v) (atriples V ts vs) /\
               (t' = (tsrc t, trole t, AStr v) \/ t' = (AStr v, INSTANCE, ttgt t))).
Proof.
  intros V ts. induction ts as [|t ts IH]; intros vs t' H; simpl in H; [destruct H|].
  simpl atriples. destruct (is_attr_of V t) eqn:A.
  - destruct vs as [|v vs]; [destruct H|]. destruct H as [H|[H|H]].
    + right. exists t, v. split; [left; auto|]. split; auto. split; [left; auto|]. left; auto.
    + right. exists t, v. split; [left; auto|]. split; auto. split; [left; auto|]. right; auto.
    + destruct (IH _ _ H) as [[I0 A0]|(t0 & v0 & I0 & I1 & I2 & E)].
      * left. split; auto. right. auto.
      * right. exists t0, v0. split; [right; auto|]. split; auto. split; [right; right; auto|]. auto.
  - destruct H as [<-|H].
    + left. split; auto. left. auto.
    + destruct (IH _ _ H) as [[I0 A0]|(t0 & v0 & I0 & I1 & I2 & E)].
      * left. split; auto. right. auto.
      * right. exists t0, v0. split; [right; auto|]. split; auto. split; [right; auto|]. auto.
Qed.

Lemma reify_attributes_connected : forall g g', node_graph g -> connectedP g ->
  reify_attributes g = Ok g' -> connectedP g'.
Proof.
  intros g g' NG CN H. pose proof (reify_attributes_top _ _ H) as TOP.
  apply reify_attributes_pure in H. destruct H as (vs & N & L & ->).
  set (g' := mk_graph _ _ _ _) in *.
  assert (COL : forall t, In t (triples g) -> has_colon (trole t) = true) by (intros; eapply node_graph_colon; eauto).
  assert (SRC : forall t1, In t1 (atriples (variables g) (triples g) vs) -> is_var g' (tsrc t1) = true).
  { intros t1 I1. unfold g'. rewrite is_var_mk. apply orb_true_iff. left. apply mem_atom_in. apply in_map. auto. }
  assert (VM : forall x, is_var g x = true -> is_var g' x = true).
  { intros x X. rewrite is_var_spec in X. apply orb_true_iff in X. destruct X as [X|X].
    - apply mem_atom_true in X. destruct X as (b & Ib & E). apply in_map_iff in Ib. destruct Ib as (t & <- & It).
      destruct (atriples_keeps_src (variables g) (triples g) vs t) as (t2 & I2 & E2); auto; try lia.
      rewrite (is_var_congr g' _ _ E), <- E2. auto.
    - unfold g'. rewrite is_var_mk. apply orb_true_iff. right. unfold graph_top. destruct (gtop g); auto. discriminate. }
  assert (OLD : forall x, reach g x -> reach g' x).
  { apply reach_transport; auto. intros t I E. apply is_edge_spec in E. destruct E as [E1 E2].
    assert (K : In t (triples g')).
    { unfold g'. rewrite triples_mk. rewrite <- (colonize_id t) by auto. apply in_map.
      apply atriples_keeps_edges; auto; try lia. unfold is_attr_of. fold (is_var g (ttgt t)). rewrite E2.
      apply andb_false_r. }
    apply edge_bridge; auto. apply is_edge_spec. auto. }
  intros x X. pose proof X as X0. unfold g' in X. rewrite is_var_mk in X.
  apply orb_true_iff in X. destruct X as [X|X].
  - apply mem_atom_true in X. destruct X as (b & Ib & E). apply in_map_iff in Ib.
    destruct Ib as (t' & <- & It'). apply reach_eq with (tsrc t'); [|rewrite atom_eqb_sym; auto].
    destruct (atriples_cases2 _ _ _ _ It') as [[I1 A]|(t & v & I1 & A & I2 & [->| ->])].
    + apply OLD. apply CN. apply src_is_var. auto.
    + rewrite tsrc_mk. apply OLD. apply CN. apply src_is_var. auto.
    + rewrite tsrc_mk.
      (* the new node hangs on its role triple *)
      assert (K : In (colonize (tsrc t, trole t, AStr v)) (triples g')) by (unfold g'; rewrite triples_mk; apply in_map; auto).
      assert (ED : is_edge g' (colonize (tsrc t, trole t, AStr v)) = true).
      { apply is_edge_spec. rewrite is_inst_colonize, colonize_tgt, trole_mk, ttgt_mk. split.
        - rewrite colon_inst_id by auto. apply (is_attr_not_inst _ _ A).
        - rewrite <- (tsrc_mk (AStr v) INSTANCE (ttgt t)). apply SRC. apply It'. }
      pose proof (reach_fwd g' _ K ED) as F. rewrite colonize_src, colonize_tgt, tsrc_mk, ttgt_mk in F.
      apply F. apply OLD. apply CN. apply src_is_var. auto.
  - destruct (graph_top g) as [tp|] eqn:GT; simpl in X; [|discriminate].
    rewrite orb_false_r in X. apply reach_eq with tp; [|rewrite atom_eqb_sym; auto].
    apply reach_top. rewrite TOP. auto.
Qed.

(* ---- reify_edges ---- *)
Lemma reify_edges_connected : forall m g g', node_graph g -> table_inst_free m = true ->
  connectedP g -> reify_edges m g = Ok g' -> connectedP g'.
Proof.
  intros m g g' NG T CN H. pose proof (reify_edges_top _ _ _ H) as TOP.
  apply reify_edges_pure in H. destruct H as (vs & N & L & ->).
  set (g' := mk_graph _ _ _ _) in *.
  assert (COL : forall t, In t (triples g) -> has_colon (trole t) = true) by (intros; eapply node_graph_colon; eauto).
  assert (LE : count_reif m (triples g) <= length vs) by lia.
  assert (SRC : forall t1, In t1 (rtriples m g (triples g) vs) -> is_var g' (tsrc t1) = true).
  { intros t1 I1. unfold g'. rewrite is_var_mk. apply orb_true_iff. left. apply mem_atom_in. apply in_map. auto. }
  assert (INR : forall t, In t (triples g) -> is_inst t = true -> is_role_reifiable m (trole t) = false).
  { intros t I II. destruct (is_role_reifiable m (trole t)) eqn:R; auto.
    pose proof (reifiable_not_inst m t (tsrc t) T (COL t I) R) as X. unfold inst_hit in X.
    rewrite atom_eqb_refl, II in X. discriminate. }
  assert (VM : forall x, is_var g x = true -> is_var g' x = true).
  { intros x X. rewrite is_var_spec in X. apply orb_true_iff in X. destruct X as [X|X].
    - apply mem_atom_true in X. destruct X as (b & Ib & E). apply in_map_iff in Ib. destruct Ib as (t & <- & It).
      destruct (node_graph_has_inst g t NG It) as (ti & Ii & II & Ei).
      rewrite (is_var_congr g' _ _ E), <- (is_var_congr g' _ _ Ei). apply SRC.
      apply rtriples_keeps_unreified; auto.
    - unfold g'. rewrite is_var_mk. apply orb_true_iff. right. unfold graph_top. destruct (gtop g); auto. discriminate. }
  (* the two new edges of a pair *)
  assert (PAIR : forall t v, In (t, v) (rpairs m (triples g) vs) ->
            let '(c, sr, tr) := reif_row m (trole t) in
            In (colonize (AStr v, sr, tsrc t)) (triples g') /\ is_edge g' (colonize (AStr v, sr, tsrc t)) = true /\
            In (colonize (AStr v, tr, ttgt t)) (triples g') /\
            (is_var g (ttgt t) = true -> is_edge g' (colonize (AStr v, tr, ttgt t)) = true)).
  { intros t v I. destruct (rpairs_in _ _ _ _ _ I) as (It & Iv & R).
    pose proof (rpairs_triples_in m g _ _ _ _ I) as PI.
    pose proof (reif_row_facts m (trole t) T R) as F.
    destruct (rexpand m g t v) as [[i n] o] eqn:RX. apply rexpand_cases in RX.
    destruct (reif_row m (trole t)) as [[c sr] tr]. destruct F as (_ & F2 & F3).
    destruct PI as (P1 & _ & P3).
    assert (A : In (AStr v, sr, tsrc t) (rtriples m g (triples g) vs) /\ In (AStr v, tr, ttgt t) (rtriples m g (triples g) vs)).
    { destruct RX as (_ & [(-> & -> & _)|(-> & -> & _)]); auto. }
    destruct A as [A1 A2]. unfold g'. rewrite triples_mk.
    split; [apply in_map; auto|]. split; [|split; [apply in_map; auto|]].
    - apply is_edge_spec. rewrite is_inst_colonize, colonize_tgt, trole_mk, ttgt_mk. split; auto.
      apply VM. apply src_is_var. auto.
    - intros V. apply is_edge_spec. rewrite is_inst_colonize, colonize_tgt, trole_mk, ttgt_mk. split; auto. }
  assert (OLD : forall x, reach g x -> reach g' x).
  { apply reach_transport; auto. intros t I E. apply is_edge_spec in E. destruct E as [E1 E2].
    destruct (is_role_reifiable m (trole t)) eqn:R.
    - destruct (rpairs_total m (triples g) vs t LE I R) as [v Iv].
      specialize (PAIR t v Iv). destruct (reif_row m (trole t)) as [[c sr] tr].
      destruct PAIR as (K1 & D1 & K2 & D2). specialize (D2 E2).
      pose proof (edge_bridge g' _ K1 D1) as [B1 B2]. pose proof (edge_bridge g' _ K2 D2) as [B3 B4].
      rewrite colonize_src, colonize_tgt, tsrc_mk, ttgt_mk in *. split; auto.
    - assert (K : In t (triples g')).
      { unfold g'. rewrite triples_mk. rewrite <- (colonize_id t) by auto. apply in_map.
        apply rtriples_keeps_unreified; auto. }
      apply edge_bridge; auto. apply is_edge_spec. auto. }
  intros x X. unfold g' in X. rewrite is_var_mk in X.
  apply orb_true_iff in X. destruct X as [X|X].
  - apply mem_atom_true in X. destruct X as (b & Ib & E). apply in_map_iff in Ib.
    destruct Ib as (t' & <- & It'). apply reach_eq with (tsrc t'); [|rewrite atom_eqb_sym; auto].
    apply rtriples_src in It'. destruct It' as [(t0 & I0 & ->)|(v0 & I0 & ->)].
    + apply OLD. apply CN. apply src_is_var. auto.
    + destruct (rpairs_all_names m (triples g) vs v0 L I0) as [t It].
      destruct (rpairs_in _ _ _ _ _ It) as (I1 & _ & _).
      specialize (PAIR t v0 It). destruct (reif_row m (trole t)) as [[c sr] tr].
      destruct PAIR as (K1 & D1 & _). pose proof (edge_bridge g' _ K1 D1) as [_ B2].
      rewrite colonize_src, colonize_tgt, tsrc_mk, ttgt_mk in B2. apply B2.
      apply OLD. apply CN. apply src_is_var. auto.
  - destruct (graph_top g) as [tp|] eqn:GT; simpl in X; [|discriminate].
    rewrite orb_false_r in X. apply reach_eq with tp; [|rewrite atom_eqb_sym; auto].
    apply reach_top. rewrite TOP. auto.
Qed.

(* ---- dereify_edges ---- *)
Lemma dtriples_emits : forall (ag : dict atom agenda_entry) ts first d e,
  In first ts -> dget atom_eqb (tsrc first) ag = Some (first, d, e) -> In d (dtriples ag ts).
Proof.
  intros ag ts. induction ts as [|t ts IH]; intros first d e I G; [destruct I|].
  simpl. destruct I as [<-|I].
  - rewrite G, triple_eqb_refl. left. auto.
  - destruct (dget atom_eqb (tsrc t) ag) as [[[f0 d0] e0]|].
    + destruct (triple_eqb t f0); [right|]; eapply IH; eauto.
    + right. eapply IH; eauto.
Qed.

Lemma dereify_edges_connected : forall m g g', node_graph g -> table_inst_free m = true ->
  connectedP g -> dereify_edges m g = Ok g' -> connectedP g'.
Proof.
  intros m g g' NG T CN H. pose proof (dereify_edges_top _ _ _ H) as TOP.
  apply dereify_edges_pure in H. destruct H as (ag & AG & ->).
  set (g' := mk_graph _ _ _ _) in *.
  assert (COL : forall t, In t (triples g) -> has_colon (trole t) = true) by (intros; eapply node_graph_colon; eauto).
  assert (TOPN : forall tp, graph_top g = Some tp -> dget atom_eqb tp ag = None).
  { intros tp GT. rewrite (agenda_spec m g ag AG). apply collapsible_fixed_none.
    unfold fixed_of, top_atom. rewrite GT. simpl. rewrite atom_eqb_refl. auto. }
  assert (TGTN : forall t, In t (triples g) -> is_inst t = false -> dget atom_eqb (ttgt t) ag = None).
  { intros t I N. rewrite (agenda_spec m g ag AG). apply collapsible_fixed_none. apply nonint_tgt_fixed; auto. }
  assert (KEEP : forall t, In t (triples g) -> dget atom_eqb (tsrc t) ag = None -> In t (triples g')).
  { intros t I N. unfold g'. rewrite triples_mk. rewrite <- (colonize_id t) by auto. apply in_map.
    apply dereify_keeps_others; auto. }
  assert (VK : forall x, is_var g x = true -> dget atom_eqb x ag = None -> is_var g' x = true).
  { intros x X N. rewrite is_var_spec in X. apply orb_true_iff in X. destruct X as [X|X].
    - apply mem_atom_true in X. destruct X as (b & Ib & E). apply in_map_iff in Ib. destruct Ib as (t & <- & It).
      destruct (node_graph_has_inst g t NG It) as (ti & Ii & II & Ei).
      assert (Exi : atom_eqb x (tsrc ti) = true) by (eapply atom_eqb_trans; eauto; rewrite atom_eqb_sym; auto).
      rewrite (is_var_congr g' _ _ Exi). apply src_is_var. apply KEEP; auto.
      rewrite <- (A_dget_congr ag _ _ Exi). auto.
    - unfold g'. rewrite is_var_mk. apply orb_true_iff. right. unfold graph_top. destruct (gtop g); auto. discriminate. }
  (* an agenda entry: its dereified triple is in g', joins the two neighbours *)
  assert (ENTRY : forall v first d e, dget atom_eqb v ag = Some (first, d, e) ->
            In (colonize d) (triples g') /\ is_inst (colonize d) = false /\
            forall t, In t (triples g) -> is_inst t = false -> atom_eqb (tsrc t) v = true ->
                      ttgt t = tsrc d \/ ttgt t = ttgt d).
  { intros v first d e G. pose proof G as G0. rewrite (agenda_spec m g ag AG) in G.
    apply collapsible_inv in G. destruct G as (i & o1 & o2 & second & _ & _ & O & _ & SW & D & V & _).
    pose proof (dereify_ok_inv _ _ _ _ _ D) as (c & s & tt & IR & SRC).
    assert (I1 : In o1 (others_of (triples g) v)) by (rewrite O; left; auto).
    assert (I2 : In o2 (others_of (triples g) v)) by (rewrite O; right; left; auto).
    apply others_of_in in I1. apply others_of_in in I2. destruct I1 as (A1 & B1 & C1), I2 as (A2 & B2 & C2).
    assert (FI : In first (triples g) /\ atom_eqb (tsrc first) v = true).
    { destruct SW as [(-> & _)|(-> & _)]; auto. }
    destruct FI as [FI FS]. split; [|split].
    - unfold g'. rewrite triples_mk. apply in_map. eapply dtriples_emits; eauto.
      rewrite (A_dget_congr ag _ _ FS). eauto.
    - rewrite is_inst_colonize. eapply table_inst_free_row in IR; eauto. tauto.
    - intros t It Nt Et.
      assert (Io : In t (others_of (triples g) v)).
      { unfold others_of. apply filter_In. split; auto. rewrite Et, Nt. auto. }
      rewrite O in Io.
      destruct SW as [(-> & -> & _)|(-> & -> & _)]; destruct SRC as [[S1 S2]|[S1 S2]]; rewrite S1, S2;
        destruct Io as [<-|[<-|[]]]; auto. }
  assert (MAIN : forall x, reach g x ->
            (dget atom_eqb x ag = None -> reach g' x) /\
            (forall first d e, dget atom_eqb x ag = Some (first, d, e) -> reach g' (tsrc d))).
  { intros x R. induction R as [tp GT|a b R IH E|t I E R IH|t I E R IH].
    - split; [intros _; apply reach_top; congruence|]. intros f d e G. rewrite TOPN in G; auto. discriminate.
    - destruct IH as [IH1 IH2]. rewrite <- (A_dget_congr ag _ _ E). split.
      + intros N. eapply reach_eq; eauto.
      + auto.
    - apply is_edge_spec in E. destruct E as [E1 E2]. destruct IH as [IH1 IH2].
      pose proof (TGTN t I E1) as TN. split; [intros _|intros f d e G; congruence].
      destruct (dget atom_eqb (tsrc t) ag) as [[[f d] e]|] eqn:G.
      + destruct (ENTRY _ _ _ _ G) as (K & NI & J). specialize (IH2 _ _ _ eq_refl).
        destruct (J t I E1 (atom_eqb_refl _)) as [X|X]; rewrite X; auto.
        assert (ED : is_edge g' (colonize d) = true).
        { apply is_edge_spec. split; auto. rewrite colonize_tgt, <- X. apply VK; auto. }
        pose proof (reach_fwd g' _ K ED) as F. rewrite colonize_src, colonize_tgt in F. auto.
      + assert (ED : is_edge g' t = true) by (apply is_edge_spec; split; auto).
        apply reach_fwd; auto.
    - apply is_edge_spec in E. destruct E as [E1 E2]. destruct IH as [IH1 _].
      pose proof (TGTN t I E1) as TN. specialize (IH1 TN). split.
      + intros N. assert (ED : is_edge g' t = true) by (apply is_edge_spec; split; auto).
        apply reach_bwd; auto.
      + intros f d e G. destruct (ENTRY _ _ _ _ G) as (K & NI & J).
        destruct (J t I E1 (atom_eqb_refl _)) as [X|X]; [rewrite <- X; auto|].
        assert (ED : is_edge g' (colonize d) = true).
        { apply is_edge_spec. split; auto. rewrite colonize_tgt, <- X. apply VK; auto. }
        pose proof (reach_bwd g' _ K ED) as F. rewrite colonize_src, colonize_tgt in F. apply F. rewrite <- X. auto. }
  intros x X.
  assert (OLD : is_var g x = true /\ dget atom_eqb x ag = None).
  { unfold g' in X. rewrite is_var_mk in X. apply orb_true_iff in X. destruct X as [X|X].
    - apply mem_atom_true in X. destruct X as (b & Ib & E). apply in_map_iff in Ib.
      destruct Ib as (t' & <- & It'). rewrite (is_var_congr g _ _ E), (A_dget_congr ag _ _ E).
      apply dtriples_cases in It'. destruct It' as [[I N]|(v & first & epis & G)].
      + split; auto. apply src_is_var. auto.
      + destruct (agenda_entry_facts m g ag v first t' epis AG G) as (A & B & _). auto.
    - destruct (graph_top g) as [tp|] eqn:GT; simpl in X; [|discriminate].
      rewrite orb_false_r in X. rewrite (is_var_congr g _ _ X), (A_dget_congr ag _ _ X).
      split; [apply graph_top_is_var; auto|apply TOPN; auto]. }
  destruct OLD as [OV ON]. apply (MAIN x (CN x OV)). auto.
Qed.

(* ------------------------------------------------------------------ *)
(** * Every composition (C12) *)

Lemma apply_xform_ok : forall m x g, node_graph g -> connectedP g ->
  table_inst_free m = true -> colon_inst (top_role m) = false ->
  exists g', apply_xform m x g = Ok g' /\ node_graph g' /\ connectedP g' /\ graph_top g' = graph_top g.
Proof.
  intros m x g NG CN T C. destruct x; simpl.
  - destruct (reify_edges_total m g) as [g' H]. exists g'. split; auto. split; [|split].
    + eapply reify_edges_node_graph; eauto.
    + eapply reify_edges_connected; eauto.
    + eapply reify_edges_top; eauto.
  - destruct (dereify_edges_total m g) as [g' H]. exists g'. split; auto. split; [|split].
    + eapply dereify_edges_node_graph; eauto.
    + eapply dereify_edges_connected; eauto.
    + eapply dereify_edges_top; eauto.
  - destruct (reify_attributes_total g) as [g' H]. exists g'. split; auto. split; [|split].
    + eapply reify_attributes_node_graph; eauto.
    + eapply reify_attributes_connected; eauto.
    + eapply reify_attributes_top; eauto.
  - destruct (indicate_branches_total m g (node_graph_vars_str g NG)) as [g' H]. exists g'. split; auto. split; [|split].
    + eapply indicate_branches_node_graph; eauto.
    + eapply indicate_branches_connected; eauto.
    + eapply indicate_branches_top; eauto.
Qed.

Lemma run_xforms_ok : forall m prog g, node_graph g -> connectedP g ->
  table_inst_free m = true -> colon_inst (top_role m) = false ->
  exists g', run_xforms m prog g = Ok g' /\ node_graph g' /\ connectedP g' /\ graph_top g' = graph_top g.
Proof.
  intros m prog. induction prog as [|x prog IH]; intros g NG CN T C; simpl.
  - exists g. auto.
  - destruct (apply_xform_ok m x g NG CN T C) as (g1 & H1 & NG1 & CN1 & T1). rewrite H1. simpl.
    destruct (IH g1 NG1 CN1 T C) as (g' & H' & NG' & CN' & T'). exists g'. repeat split; auto. congruence.
Qed.
