(** Proofs for C20b: byte idempotence of the penman command for the option sets
    --rearrange KEYS (pure keys), --make-variables FMT (format with an index) and
    both together, with any formatting options.  Composition of
      C02 (configure after interpret = the layout, empty concept slot dropped),
      C05 (rearrange = THE stable sort per node; a sorted list is its own sort),
      C10 / C10b (relabelling = renaming by the map of the naming rule),
      C20 (the second pass reads back the trees that were written; reduction of
           stream idempotence to a per-tree fixed point). *)
From PM Require Import Spec.Pipeline Spec.WellFormed Spec.WfLayout.
From PM Require Import Proofs.Model_lemmas Proofs.Errors_lemmas Proofs.Configure_fast Proofs.Rearrange_lemmas
  Proofs.EndToEnd_lemmas Proofs.Cli_lemmas Proofs.ResetVars_lemmas Proofs.ResetNaming_lemmas.
From Coq Require Import Lia Sorting.Permutation Sorting.Sorted.

(* ================================================================== *)
(** * Part 1: the composite sort key of the command line

    [keyval_leb] compares values of different shape as equal (Python would raise
    TypeError; position i of every composite key has one shape, so it never
    happens).  On keys of one shape it coincides with a total preorder on ALL key
    values (the pull-back of [canonical_leb]), which is what the C05 theorems
    need. *)

Definition kv_emb (a : keyval) : bool * (str * N) :=
  match a with KBool b => (b, ([], 0%N)) | KAlnum k => (false, k) | KCanon k => k end.
Definition kv_leb2 (a b : keyval) : bool := canonical_leb (kv_emb a) (kv_emb b).
Definition sk_leb2 : list keyval -> list keyval -> bool := list_leb kv_leb2.

Lemma kv_leb2_total : total kv_leb2.
Proof. intros a b. apply canonical_leb_total. Qed.
Lemma kv_leb2_transitive : transitive kv_leb2.
Proof. intros a b c. apply canonical_leb_transitive. Qed.
Lemma sk_leb2_total : total sk_leb2.
Proof. apply list_leb_total. exact kv_leb2_total. Qed.
Lemma sk_leb2_transitive : transitive sk_leb2.
Proof. apply list_leb_transitive. exact kv_leb2_transitive. Qed.

Definition same_shape (a b : keyval) : Prop :=
  match a, b with
  | KBool _, KBool _ | KAlnum _, KAlnum _ | KCanon _, KCanon _ => True
  | _, _ => False
  end.

Lemma alnum_leb_refl : forall a, alnum_leb a a = true.
Proof. intros a. destruct (alnum_leb_total a a); assumption. Qed.

Lemma kv_leb2_agree : forall a b, same_shape a b -> keyval_leb a b = kv_leb2 a b.
Proof.
  intros [x|x|x] [y|y|y] H; try contradiction; unfold kv_leb2, canonical_leb, pair_leb; simpl.
  - rewrite alnum_leb_refl, orb_true_r, andb_true_r. reflexivity.
  - reflexivity.
  - reflexivity.
Qed.

Lemma same_shape_sym : forall a b, same_shape a b -> same_shape b a.
Proof. intros [x|x|x] [y|y|y] H; try contradiction; exact I. Qed.

Lemma list_leb_agree : forall a b, Forall2 same_shape a b ->
  list_leb keyval_leb a b = list_leb kv_leb2 a b.
Proof.
  intros a b F. induction F as [|x y a b Hxy F IH]; [reflexivity|].
  simpl. rewrite IH, (kv_leb2_agree x y Hxy), (kv_leb2_agree y x (same_shape_sym _ _ Hxy)). reflexivity.
Qed.

Lemma sort_key_shape : forall m funcs r1 r2,
  Forall2 same_shape (sort_key m funcs r1) (sort_key m funcs r2).
Proof.
  intros m funcs r1 r2. unfold sort_key. induction funcs as [|me funcs IH]; [constructor|].
  simpl. constructor; [destruct me; exact I | exact IH].
Qed.

Lemma sort_key_leb_agree : forall m funcs r1 r2,
  sort_key_leb (sort_key m funcs r1) (sort_key m funcs r2) =
  sk_leb2 (sort_key m funcs r1) (sort_key m funcs r2).
Proof. intros. apply list_leb_agree. apply sort_key_shape. Qed.

(* ================================================================== *)
(** * Part 2: [rn] (rearrange of a node with a pure key) depends on the
      comparison only through the keys that occur, and on [vars] only through
      membership *)

Definition map_target (f : node -> node) (b : branch) : branch :=
  match snd b with TNode n => (fst b, TNode (f n)) | TAtom _ => b end.

Lemma rtarget_is_map_target : forall {K} (leb : K -> K -> bool) k vars b,
  rtarget leb k vars b = map_target (rn leb k vars) b.
Proof. reflexivity. Qed.

Lemma map_target_ext : forall (f g : node -> node) l,
  Forall (branch_ok (fun n => f n = g n)) l -> map (map_target f) l = map (map_target g) l.
Proof.
  intros f g l F. induction F as [|[r [a|n]] l Hb F IH]; [reflexivity| |]; simpl.
  - rewrite IH. reflexivity.
  - unfold map_target at 1 3. simpl. unfold branch_ok in Hb. simpl in Hb. rewrite Hb, IH. reflexivity.
Qed.

Lemma map_target_id : forall (f : node -> node) l,
  Forall (branch_ok (fun n => f n = n)) l -> map (map_target f) l = l.
Proof.
  intros f l F. induction F as [|[r [a|n]] l Hb F IH]; [reflexivity| |]; simpl.
  - rewrite IH. reflexivity.
  - unfold map_target at 1. simpl. unfold branch_ok in Hb. simpl in Hb. rewrite Hb, IH. reflexivity.
Qed.

Lemma Forall_split_snd : forall (P : branch -> Prop) bs, Forall P bs -> Forall P (snd (split_concept bs)).
Proof.
  intros P [|[r t] bs] F; [constructor|]. unfold split_concept.
  destruct (str_eqb r SLASHS); simpl; [inversion F; assumption | exact F].
Qed.

Lemma split_concept_app : forall bs, fst (split_concept bs) ++ snd (split_concept bs) = bs.
Proof. intros [|[r t] bs]; [reflexivity|]. unfold split_concept. destruct (str_eqb r SLASHS); reflexivity. Qed.

Lemma sorted_by_leb_ext : forall {A K} (leb leb' : K -> K -> bool) (key : A -> K) l,
  (forall a b, leb (key a) (key b) = leb' (key a) (key b)) ->
  sorted_by leb key l = sorted_by leb' key l.
Proof.
  intros A K leb leb' key l H. induction l as [|x l IH]; [reflexivity|].
  simpl. rewrite IH. generalize (sorted_by leb' key l). intros s.
  induction s as [|y s IHs]; [reflexivity|]. simpl. rewrite H, IHs. reflexivity.
Qed.

Lemma rn_leb_ext : forall {K} (leb leb' : K -> K -> bool) (k : str -> K) vars,
  (forall r1 r2, leb (k r1) (k r2) = leb' (k r1) (k r2)) ->
  forall n, rn leb k vars n = rn leb' k vars n.
Proof.
  intros K leb leb' k vars H. induction n as [v bs IHbs] using node_ind'.
  rewrite !rearrange_pure_eq. f_equal. f_equal.
  rewrite (map_ext _ _ (rtarget_is_map_target leb k vars)),
          (map_ext _ _ (rtarget_is_map_target leb' k vars)).
  rewrite (map_target_ext _ _ _ (Forall_split_snd _ _ IHbs)).
  apply sorted_by_leb_ext. intros a b. unfold branch_leb, bkey, pair_leb. simpl. rewrite !H. reflexivity.
Qed.

Lemma crit1_vars_ext : forall vars vars' b,
  (forall a, mem atom_eqb a vars = mem atom_eqb a vars') -> crit1 vars b = crit1 vars' b.
Proof. intros vars vars' [r [a|n]] H; unfold crit1; simpl; apply H. Qed.

Lemma rn_vars_ext : forall {K} (leb : K -> K -> bool) (k : str -> K) vars vars',
  (forall a, mem atom_eqb a vars = mem atom_eqb a vars') ->
  forall n, rn leb k vars n = rn leb k vars' n.
Proof.
  intros K leb k vars vars' H. induction n as [v bs IHbs] using node_ind'.
  rewrite !rearrange_pure_eq. f_equal. f_equal.
  rewrite (map_ext _ _ (rtarget_is_map_target leb k vars)),
          (map_ext _ _ (rtarget_is_map_target leb k vars')).
  rewrite (map_target_ext _ _ _ (Forall_split_snd _ _ IHbs)).
  apply sorted_by_key_ext. intros b. unfold bkey. rewrite (crit1_vars_ext vars vars' b H). reflexivity.
Qed.

(* ================================================================== *)
(** * Part 3: a sorted tree is left alone; rearranging is idempotent *)

Section Fixed.
  Context {K : Type}.
  Variable leb : K -> K -> bool.
  Variable k : str -> K.
  Variable vars : list atom.
  Hypothesis Tot : total leb.
  Hypothesis Tr : transitive leb.

  Lemma go_sorted_false_forall : forall bs, go_sorted leb k vars false bs ->
    Forall (nested_sorted leb k vars) bs.
  Proof.
    induction bs as [|[r t] bs IH]; intros H; [constructor|].
    cbn [go_sorted andb] in H. destruct H as [H1 H2]. constructor; [exact H1 | apply IH; exact H2].
  Qed.

  Lemma go_sorted_rest : forall bs, go_sorted leb k vars true bs ->
    Forall (nested_sorted leb k vars) (snd (split_concept bs)).
  Proof.
    intros [|[r t] bs] H; [constructor|]. cbn [go_sorted andb] in H. destruct H as [H1 H2].
    unfold split_concept. destruct (str_eqb r SLASHS); cbn [snd] in *.
    - apply go_sorted_false_forall. exact H2.
    - constructor; [exact H1 | apply go_sorted_false_forall; exact H2].
  Qed.

  Theorem rn_fixed : forall n, all_sorted leb k vars n -> rn leb k vars n = n.
  Proof.
    induction n as [v bs IHbs] using node_ind'. intros AS.
    apply (proj1 (all_sorted_eq leb k vars v bs)) in AS. destruct AS as [RS GS].
    rewrite rearrange_pure_eq.
    rewrite (map_ext _ _ (rtarget_is_map_target leb k vars)).
    rewrite map_target_id.
    - unfold rest_sorted in RS.
      rewrite (sorted_by_id (branch_leb leb) (bkey k vars)
                 (branch_leb_total leb Tot) (branch_leb_transitive leb Tr) _ RS).
      rewrite split_concept_app. reflexivity.
    - pose proof (Forall_split_snd _ _ IHbs) as F1. pose proof (go_sorted_rest bs GS) as F2.
      clear - F1 F2. induction F1 as [|[r [a|n]] l Hb F1 IH]; [constructor| |]; inversion F2; subst.
      + constructor; [exact I | apply IH; assumption].
      + constructor; [|apply IH; assumption]. unfold branch_ok in *. simpl in *.
        apply Hb. assumption.
  Qed.

  Theorem rn_idem : forall n, rn leb k vars (rn leb k vars n) = rn leb k vars n.
  Proof. intros n. apply rn_fixed. apply rearrange_all_sorted; assumption. Qed.
End Fixed.

(* [rearrange] proper *)
Lemma rearrange_eq : forall {K} (leb : K -> K -> bool) (k : str -> K) af t,
  rearrange leb (Some k) af t =
  mkTree (rn leb k (if af then tree_vars (troot t) else []) (troot t)) (tmeta t).
Proof.
  intros K leb k af t. unfold rearrange, rearrange_st, rn.
  destruct (rearrange_node leb (pure_key k) (if af then tree_vars (troot t) else []) tt (troot t)).
  reflexivity.
Qed.

Lemma rn_rearranged : forall {K} (leb : K -> K -> bool) (k : str -> K) vars n,
  rearranged n (rn leb k vars n).
Proof. intros. unfold rn. apply rearrange_node_rearranged. Qed.

Lemma mem_perm : forall a (l l' : list atom), Permutation l l' -> mem atom_eqb a l = mem atom_eqb a l'.
Proof. intros a l l' P. unfold mem. apply existsb_perm. exact P. Qed.

Lemma rn_tree_vars_mem : forall {K} (leb : K -> K -> bool) (k : str -> K) vars n a,
  mem atom_eqb a (tree_vars (rn leb k vars n)) = mem atom_eqb a (tree_vars n).
Proof.
  intros K leb k vars n a. apply mem_perm.
  destruct (rearranged_same_content _ _ (rn_rearranged leb k vars n)) as (_ & _ & P & _). exact P.
Qed.

Theorem rearrange_idem : forall {K} (leb : K -> K -> bool) (k : str -> K) af t,
  total leb -> transitive leb ->
  rearrange leb (Some k) af (rearrange leb (Some k) af t) = rearrange leb (Some k) af t.
Proof.
  intros K leb k af t Tot Tr. rewrite !rearrange_eq. simpl troot. simpl tmeta. f_equal.
  destruct af.
  - rewrite (rn_vars_ext leb k _ (tree_vars (troot t))).
    + apply rn_idem; assumption.
    + intros a. apply rn_tree_vars_mem.
  - apply rn_idem; assumption.
Qed.

(* the command's comparison may be replaced by the total preorder *)
Lemma rearrange_cli_leb : forall m funcs af t,
  rearrange sort_key_leb (Some (sort_key m funcs)) af t = rearrange sk_leb2 (Some (sort_key m funcs)) af t.
Proof.
  intros m funcs af t. rewrite !rearrange_eq. f_equal. apply rn_leb_ext.
  intros r1 r2. apply sort_key_leb_agree.
Qed.

Theorem rearrange_cli_idem : forall m funcs af t,
  rearrange sort_key_leb (Some (sort_key m funcs)) af
    (rearrange sort_key_leb (Some (sort_key m funcs)) af t)
  = rearrange sort_key_leb (Some (sort_key m funcs)) af t.
Proof.
  intros m funcs af t. rewrite !rearrange_cli_leb.
  apply rearrange_idem; [exact sk_leb2_total | exact sk_leb2_transitive].
Qed.

(* ================================================================== *)
(** * Part 4: rearranging preserves input well-formedness (C01 and C02 senses)
      and the normal form (no empty concept slot) *)

Lemma forallb_sorted_by : forall {A K} (leb : K -> K -> bool) (key : A -> K) (f : A -> bool) l,
  forallb f (sorted_by leb key l) = forallb f l.
Proof. intros. apply forallb_perm. apply sorted_by_perm. Qed.

Lemma map_target_fst : forall f b, fst (map_target f b) = fst b.
Proof. intros f [r [a|n]]; reflexivity. Qed.

Lemma not_slash_map_target : forall f l, forallb not_slash (map (map_target f) l) = forallb not_slash l.
Proof.
  intros f l. induction l as [|b l IH]; [reflexivity|]. simpl. rewrite IH. unfold not_slash.
  rewrite map_target_fst. reflexivity.
Qed.

Lemma split_rest_noslash : forall bs, slash_only_first bs = true ->
  forallb not_slash (snd (split_concept bs)) = true.
Proof.
  intros [|[r t] bs] H; [reflexivity|]. unfold split_concept. simpl in H.
  destruct (str_eqb r SLASHS) eqn:SL; simpl; [exact H|].
  unfold not_slash at 1. simpl. rewrite SL, H. reflexivity.
Qed.

Lemma slash_only_first_split : forall bs srt, forallb not_slash srt = true ->
  slash_only_first (fst (split_concept bs) ++ srt) = true.
Proof.
  intros [|[r t] bs] srt H; [apply not_slash_only_first; exact H|]. unfold split_concept.
  destruct (str_eqb r SLASHS); simpl; [exact H | apply not_slash_only_first; exact H].
Qed.

Lemma forallb_split : forall (f : branch -> bool) bs, forallb f bs = true ->
  forallb f (fst (split_concept bs)) = true /\ forallb f (snd (split_concept bs)) = true.
Proof.
  intros f bs H. rewrite <- (split_concept_app bs), forallb_app in H. apply andb_true_iff in H. exact H.
Qed.

Section RnPreserve.
  Context {K : Type}.
  Variable leb : K -> K -> bool.
  Variable k : str -> K.
  Variable vars : list atom.
  Notation RN := (rn leb k vars).

  Lemma rn_eq : forall v bs,
    RN (Node v bs) =
    Node v (fst (split_concept bs) ++
            sorted_by (branch_leb leb) (bkey k vars) (map (map_target RN) (snd (split_concept bs)))).
  Proof.
    intros v bs. rewrite rearrange_pure_eq.
    rewrite (map_ext _ _ (rtarget_is_map_target leb k vars)). reflexivity.
  Qed.

  (* ---- C01: wf_tree ---- *)
  Lemma wfb_map_target : forall l,
    Forall (branch_ok (fun n => WellFormed.wf_node n = true -> WellFormed.wf_node (RN n) = true)) l ->
    forallb (WellFormed.wf_branch WellFormed.wf_node) l = true ->
    forallb (WellFormed.wf_branch WellFormed.wf_node) (map (map_target RN) l) = true.
  Proof.
    intros l F. induction F as [|[r [a|n]] l Hb F IH]; intros H; [reflexivity| |];
      simpl in H; apply andb_true_iff in H; destruct H as [H1 H2]; simpl.
    - unfold map_target at 1. simpl. rewrite H1. apply IH. exact H2.
    - rewrite (IH H2), andb_true_r. unfold map_target. simpl.
      unfold WellFormed.wf_branch in *. simpl fst in *. simpl snd in *.
      destruct (str_eqb r SLASHS); [exact H1|].
      apply andb_true_iff in H1. destruct H1 as [R N]. rewrite R. apply Hb. exact N.
  Qed.

  Theorem rn_wf_c01 : forall n, WellFormed.wf_node n = true -> WellFormed.wf_node (RN n) = true.
  Proof.
    induction n as [v bs IHbs] using node_ind'. intros W. rewrite rn_eq.
    rewrite c01_wf_node_eq in W. rewrite c01_wf_node_eq.
    destruct v as [|s|x z]; [|.. |discriminate].
    - destruct bs; [reflexivity | discriminate].
    - apply andb_true_iff in W. destruct W as [W W3]. apply andb_true_iff in W. destruct W as [W1 W2].
      destruct (forallb_split _ _ W2) as [F1 F2].
      rewrite W1, forallb_app, F1, forallb_sorted_by.
      rewrite (wfb_map_target _ (Forall_split_snd _ _ IHbs) F2). simpl.
      apply slash_only_first_split. rewrite forallb_sorted_by, not_slash_map_target.
      apply split_rest_noslash. exact W3.
  Qed.

  (* ---- C02: wf_node of Spec/WfLayout ---- *)
  Variable m : model.
  Variable vs : list atom.

  Lemma wf_bs_false_forallb : forall var l,
    wf_bs m vs var false l = forallb (Configure_fast.wf_branch m vs var false) l.
  Proof. intros var l. induction l as [|b l IH]; [reflexivity|]. rewrite wf_bs_cons, IH. reflexivity. Qed.

  Lemma wfl_map_target : forall var l,
    Forall (branch_ok (fun n => WfLayout.wf_node m vs n = true -> WfLayout.wf_node m vs (RN n) = true)) l ->
    forallb (Configure_fast.wf_branch m vs var false) l = true ->
    forallb (Configure_fast.wf_branch m vs var false) (map (map_target RN) l) = true.
  Proof.
    intros var l F. induction F as [|[r [a|n]] l Hb F IH]; intros H; [reflexivity| |];
      simpl in H; apply andb_true_iff in H; destruct H as [H1 H2]; simpl.
    - unfold map_target at 1. simpl. rewrite H1. apply IH. exact H2.
    - rewrite (IH H2), andb_true_r. unfold map_target. simpl.
      unfold Configure_fast.wf_branch in *.
      destruct (str_eqb r SLASHS); [exact H1|].
      apply andb_true_iff in H1. destruct H1 as [R N]. rewrite R.
      apply andb_true_iff in N. destruct N as [N1 N2]. rewrite N2, andb_true_r.
      apply Hb. exact N1.
  Qed.

  Theorem rn_wf_layout_node : forall n, WfLayout.wf_node m vs n = true -> WfLayout.wf_node m vs (RN n) = true.
  Proof.
    induction n as [v bs IHbs] using node_ind'. intros W. rewrite rn_eq.
    rewrite wf_node_eq in W. rewrite wf_node_eq.
    apply andb_true_iff in W. destruct W as [VO W]. rewrite VO. simpl.
    destruct (wf_bs_true_cases m vs v bs W) as [[a [bs' [EB [AT [CO W']]]]]|W'].
    - subst bs. unfold split_concept. replace (str_eqb SLASHS SLASHS) with true by reflexivity.
      simpl fst. simpl snd. simpl app. rewrite wf_bs_cons.
      unfold Configure_fast.wf_branch at 1. replace (str_eqb SLASHS SLASHS) with true by reflexivity.
      rewrite AT, CO. simpl. rewrite wf_bs_false_forallb, forallb_sorted_by.
      inversion IHbs as [|? ? _ IH']; subst.
      apply wfl_map_target; [exact IH'|]. rewrite <- wf_bs_false_forallb. exact W'.
    - assert (SP : split_concept bs = ([], bs)).
      { destruct bs as [|[r t] bs']; [reflexivity|]. rewrite wf_bs_cons in W'.
        apply andb_true_iff in W'. destruct W' as [W1 _].
        unfold split_concept. rewrite (wf_branch_false_noslash _ _ _ _ _ W1). reflexivity. }
      rewrite SP. simpl fst. simpl snd. simpl app. apply wf_bs_false_true.
      rewrite wf_bs_false_forallb, forallb_sorted_by.
      apply wfl_map_target; [exact IHbs|]. rewrite <- wf_bs_false_forallb. exact W'.
  Qed.
End RnPreserve.

(* wf_node looks at [vars] through membership only *)
Lemma wf_node_vars_ext : forall m vars vars' n,
  (forall a, mem atom_eqb a vars = mem atom_eqb a vars') ->
  WfLayout.wf_node m vars n = WfLayout.wf_node m vars' n.
Proof.
  intros m vars vars' n H. induction n as [v bs IHbs] using node_ind'.
  rewrite !wf_node_eq. f_equal. generalize true as first.
  induction IHbs as [|[r t] bs Hb Hbs IH]; intros first; [reflexivity|].
  rewrite !wf_bs_cons, IH. f_equal. unfold Configure_fast.wf_branch.
  destruct (str_eqb r SLASHS); [reflexivity|]. f_equal.
  destruct t as [a|n'].
  - rewrite H. reflexivity.
  - unfold branch_ok in Hb. simpl in Hb. rewrite Hb. reflexivity.
Qed.

Lemma mem_perm_gen : forall {A} (eqb : A -> A -> bool) a l l', Permutation l l' -> mem eqb a l = mem eqb a l'.
Proof. intros A eqb a l l' P. unfold mem. apply existsb_perm. exact P. Qed.

Lemma nodup_b_perm : forall {A} (eqb : A -> A -> bool), (forall a b, eqb a b = eqb b a) ->
  forall l l', Permutation l l' -> nodup_b eqb l = nodup_b eqb l'.
Proof.
  intros A eqb Sym l l' P. induction P as [|x l l' P IH|x y l|l l' l'' P1 IH1 P2 IH2].
  - reflexivity.
  - simpl. rewrite IH, (mem_perm_gen eqb x l l' P). reflexivity.
  - simpl. unfold mem. simpl. rewrite (Sym x y).
    destruct (eqb y x), (existsb (eqb x) l), (existsb (eqb y) l); reflexivity.
  - congruence.
Qed.

Theorem rearrange_wf_tree : forall {K} (leb : K -> K -> bool) (k : str -> K) af t,
  wf_tree t = true -> wf_tree (rearrange leb (Some k) af t) = true.
Proof.
  intros K leb k af t H. rewrite rearrange_eq. unfold wf_tree in *. simpl.
  apply andb_true_iff in H. destruct H as [H1 H2]. rewrite H1. simpl. apply rn_wf_c01. exact H2.
Qed.

Theorem rearrange_wf_layout : forall {K} (leb : K -> K -> bool) (k : str -> K) af m t,
  wf_layout_tree m t = true -> wf_layout_tree m (rearrange leb (Some k) af t) = true.
Proof.
  intros K leb k af m t H. rewrite rearrange_eq. unfold wf_layout_tree, denoted in *. simpl troot.
  set (vars := if af then tree_vars (troot t) else []) in *.
  apply andb_true_iff in H. destruct H as [H H3]. apply andb_true_iff in H. destruct H as [H1 H2].
  destruct (rearranged_same_content _ _ (rn_rearranged leb k vars (troot t))) as (_ & _ & PV & PE).
  assert (MV : forall a, mem atom_eqb a (tree_vars (rn leb k vars (troot t))) = mem atom_eqb a (tree_vars (troot t))).
  { intros a. apply mem_perm. exact PV. }
  rewrite (nodup_b_perm atom_eqb atom_eqb_sym _ _ PV), H1.
  rewrite (wf_node_vars_ext m _ _ _ MV), (rn_wf_layout_node leb k vars m _ _ H2). simpl.
  rewrite (entries_vars_ext m _ _ _ MV).
  rewrite (nodup_b_perm triple_eqb triple_eqb_sym _ _ (PE m (tree_vars (troot t)))). exact H3.
Qed.

(* ---- the normal form of C02 (no empty concept slot) ---- *)
Definition head_ok (bs : list branch) : bool :=
  match bs with
  | (r, TAtom a) :: _ => negb (str_eqb r SLASHS && missing_concept a)
  | _ => true
  end.

Lemma dec_fixed_iff : forall v bs,
  dec_node (Node v bs) = Node v bs <-> head_ok bs = true /\ map dec_branch bs = bs.
Proof.
  intros v bs. rewrite dec_node_eq. split.
  - intros H. destruct bs as [|[r [a|n]] bs'].
    + split; reflexivity.
    + unfold head_ok. destruct (str_eqb r SLASHS && missing_concept a).
      * exfalso. inversion H as [E]. apply (f_equal (@length branch)) in E.
        rewrite map_length in E. simpl in E. lia.
      * split; [reflexivity|]. injection H as E.
        change (map dec_branch ((r, TAtom a) :: bs')) with ((r, TAtom a) :: map dec_branch bs').
        rewrite E. reflexivity.
    + split; [reflexivity|]. injection H as E1 E2.
        change (map dec_branch ((r, TNode n) :: bs')) with ((r, TNode (dec_node n)) :: map dec_branch bs').
        rewrite E1, E2. reflexivity.
  - intros [H1 H2]. destruct bs as [|[r [a|n]] bs']; [reflexivity| |].
    + unfold head_ok in H1. apply negb_true_iff in H1. rewrite H1, H2. reflexivity.
    + rewrite H2. reflexivity.
Qed.

Lemma map_fixed_forall : forall {A} (f : A -> A) l, map f l = l <-> Forall (fun x => f x = x) l.
Proof.
  intros A f l. induction l as [|x l IH]; [split; [constructor|reflexivity]|]. simpl. split.
  - intros H. injection H as E1 E2. constructor; [exact E1|]. apply IH. exact E2.
  - intros H. inversion H; subst. f_equal; [assumption | apply IH; assumption].
Qed.

Lemma head_ok_noslash : forall l, forallb not_slash l = true -> head_ok l = true.
Proof.
  intros [|[r [a|n]] l] H; try reflexivity. simpl in H. apply andb_true_iff in H. destruct H as [H _].
  unfold not_slash in H. simpl in H. apply negb_true_iff in H. unfold head_ok. rewrite H. reflexivity.
Qed.

Section RnDec.
  Context {K : Type}.
  Variable leb : K -> K -> bool.
  Variable k : str -> K.
  Variable vars : list atom.
  Notation RN := (rn leb k vars).

  Theorem rn_dec_fixed : forall n, WellFormed.wf_node n = true -> dec_node n = n -> dec_node (RN n) = RN n.
  Proof.
    induction n as [v bs IHbs] using node_ind'. intros W D. rewrite rn_eq.
    apply dec_fixed_iff in D. destruct D as [D1 D2]. apply dec_fixed_iff.
    rewrite c01_wf_node_eq in W. destruct v as [|s|x z]; [|.. |discriminate].
    { destruct bs; [split; reflexivity | discriminate]. }
    apply andb_true_iff in W. destruct W as [W W3]. apply andb_true_iff in W. destruct W as [W1 W2].
    set (srt := sorted_by (branch_leb leb) (bkey k vars) (map (map_target RN) (snd (split_concept bs)))).
    assert (NS : forallb not_slash srt = true).
    { unfold srt. rewrite forallb_sorted_by, not_slash_map_target. apply split_rest_noslash. exact W3. }
    split.
    - destruct bs as [|[r t] bs']; [apply head_ok_noslash; exact NS|]. unfold split_concept.
      destruct (str_eqb r SLASHS) eqn:SL; simpl fst; simpl app; [|apply head_ok_noslash; exact NS].
      destruct t; [|reflexivity]. exact D1.
    - apply map_fixed_forall. apply map_fixed_forall in D2.
      rewrite <- (split_concept_app bs) in D2. apply Forall_app in D2. destruct D2 as [D2a D2b].
      apply Forall_app. split; [exact D2a|].
      apply Permutation_Forall with (map (map_target RN) (snd (split_concept bs)));
        [apply Permutation_sym; apply sorted_by_perm|].
      pose proof (Forall_split_snd _ _ IHbs) as F1.
      destruct (forallb_split _ _ W2) as [_ F2].
      clear - F1 F2 D2b. induction F1 as [|[r [a|n]] l Hb F1 IH]; [constructor| |];
        inversion D2b as [|? ? E1 E2]; subst; simpl in F2; apply andb_true_iff in F2; destruct F2 as [F2 F3].
      + constructor; [reflexivity | apply IH; assumption].
      + constructor; [|apply IH; assumption].
        unfold map_target. simpl. unfold dec_branch. simpl. f_equal. f_equal.
        unfold branch_ok in Hb. simpl in Hb. apply Hb.
        * unfold WellFormed.wf_branch in F2. simpl in F2.
          destruct (str_eqb r SLASHS); [discriminate|]. apply andb_true_iff in F2. tauto.
        * unfold dec_branch in E1. simpl in E1. inversion E1 as [E]. rewrite !E. reflexivity.
  Qed.
End RnDec.

Theorem rearrange_dec_fixed : forall {K} (leb : K -> K -> bool) (k : str -> K) af t,
  wf_tree t = true -> drop_empty_concepts t = t ->
  drop_empty_concepts (rearrange leb (Some k) af t) = rearrange leb (Some k) af t.
Proof.
  intros K leb k af t W D. rewrite rearrange_eq. unfold drop_empty_concepts in *. simpl. f_equal.
  unfold wf_tree in W. apply andb_true_iff in W. destruct W as [_ W].
  apply rn_dec_fixed; [exact W|]. destruct t as [n md]. simpl in *. inversion D as [E]. rewrite !E. reflexivity.
Qed.

(* ================================================================== *)
(** * Part 5: the command with --rearrange KEYS (no random key), any formatting *)

(* no content normalisation, no --reconfigure, no --check, no --triples: what is
   left is --rearrange, --make-variables and the formatting options *)
Definition tree_opts_only (o : cli_opts) : bool :=
  negb (o_canonicalize_roles o) && negb (o_reify_edges o) && negb (o_dereify_edges o) &&
  negb (o_reify_attributes o) && negb (o_indicate_branches o) &&
  match given (o_reconfigure o) with None => true | _ => false end &&
  negb (o_triples o) && negb (o_check o).
Definition no_relabel (o : cli_opts) : bool :=
  match o_make_variables o with Some (_ :: _) => false | _ => true end.
Definition rearrange_only (o : cli_opts) : bool := tree_opts_only o && no_relabel o.

(* the rearrange stage as a total function *)
Definition RA (o : cli_opts) (t : tree) : tree :=
  match given (o_rearrange o) with
  | Some keys => rearrange sort_key_leb (Some (sort_key (o_model o) (key_methods keys))) (attributes_first keys) t
  | None => t
  end.

Lemma tree_opts_fields : forall o, tree_opts_only o = true ->
  o_canonicalize_roles o = false /\ o_reify_edges o = false /\ o_dereify_edges o = false /\
  o_reify_attributes o = false /\ o_indicate_branches o = false /\
  given (o_reconfigure o) = None /\ o_triples o = false /\ o_check o = false.
Proof.
  intros o H. unfold tree_opts_only in H. repeat (apply andb_true_iff in H; destruct H as [H ?]).
  repeat match goal with X : negb _ = true |- _ => apply negb_true_iff in X end.
  repeat split; try assumption.
  destruct (given (o_reconfigure o)); [discriminate | reflexivity].
Qed.

Lemma tree_opts_pre_format : forall o t, tree_opts_only o = true ->
  wf_layout_tree (o_model o) t = true ->
  pre_format o t = relabel o (RA o (drop_empty_concepts t)).
Proof.
  intros o t P W. destruct (tree_opts_fields o P) as [F1 [F2 [F3 [F4 [F5 [F6 [F7 F8]]]]]]].
  destruct (wf_interpret_ok (o_model o) t W) as [g I].
  pose proof (configure_interpret_wf (o_model o) t g W I) as C.
  unfold pre_format, normalise, canonicalise, interpret_stage, Pipeline.reify, Pipeline.dereify, reify_attrs,
    indicate, annotate, Pipeline.layout, layout_doc, revalidate, rearrange_stage, Pipeline.when, Pipeline.seq, RA.
  rewrite F1, F2, F3, F4, F5, F6, F8. simpl. rewrite I. simpl. rewrite C. simpl.
  destruct (given (o_rearrange o)); reflexivity.
Qed.

Lemma no_relabel_id : forall o, no_relabel o = true -> relabel o = (fun t => Ok t).
Proof.
  intros o H. unfold no_relabel in H. unfold relabel.
  destruct (o_make_variables o) as [[|p ps]|]; try reflexivity. discriminate.
Qed.

Lemma RA_idem : forall o t, RA o (RA o t) = RA o t.
Proof. intros o t. unfold RA. destruct (given (o_rearrange o)); [apply rearrange_cli_idem | reflexivity]. Qed.
Lemma RA_wf_tree : forall o t, wf_tree t = true -> wf_tree (RA o t) = true.
Proof. intros o t H. unfold RA. destruct (given (o_rearrange o)); [apply rearrange_wf_tree|]; exact H. Qed.
Lemma RA_wf_layout : forall o m t, wf_layout_tree m t = true -> wf_layout_tree m (RA o t) = true.
Proof. intros o m t H. unfold RA. destruct (given (o_rearrange o)); [apply rearrange_wf_layout|]; exact H. Qed.
Lemma RA_dec_fixed : forall o t, wf_tree t = true -> drop_empty_concepts t = t ->
  drop_empty_concepts (RA o t) = RA o t.
Proof.
  intros o t W D. unfold RA. destruct (given (o_rearrange o)); [apply rearrange_dec_fixed; assumption | exact D].
Qed.

(* the per-tree fixed point required by C20_idempotence_reduces_to_trees *)
Theorem rearrange_tree_fixed : forall o t, rearrange_only o = true ->
  wf_tree t = true -> wf_layout_tree (o_model o) t = true ->
  let t1 := RA o (drop_empty_concepts t) in
  pre_format o t = Ok t1 /\ wf_tree t1 = true /\ wf_layout_tree (o_model o) t1 = true /\
  pipeline o t1 = Ok (format (o_indent o) (o_compact o) t1).
Proof.
  intros o t P Wt Wl t1. unfold rearrange_only in P. apply andb_true_iff in P. destruct P as [P NR].
  destruct (tree_opts_fields o P) as [_ [_ [_ [_ [_ [_ [Tr _]]]]]]].
  pose proof (dec_wf_tree t Wt) as Wt0. pose proof (dec_wf_layout _ t Wl) as Wl0.
  pose proof (dec_idem_tree t Wt) as D0.
  assert (Wt1 : wf_tree t1 = true) by (apply RA_wf_tree; exact Wt0).
  assert (Wl1 : wf_layout_tree (o_model o) t1 = true) by (apply RA_wf_layout; exact Wl0).
  split; [rewrite (tree_opts_pre_format o t P Wl), (no_relabel_id o NR); reflexivity|].
  split; [exact Wt1|]. split; [exact Wl1|].
  rewrite (pipeline_tree o t1 Tr), (tree_opts_pre_format o t1 P Wl1), (no_relabel_id o NR).
  unfold t1 at 1. rewrite (RA_dec_fixed o _ Wt0 D0). fold t1. unfold t1 at 1. rewrite RA_idem. reflexivity.
Qed.

(* from per-tree fixed points to the stream (any option set without --check and
   --triples): the second pass reproduces the first byte for byte, status included *)
Theorem stream_idempotent_from_trees : forall o s out code,
  o_triples o = false -> o_check o = false ->
  Forall (fun t => exists t1, pre_format o t = Ok t1 /\ wf_tree t1 = true /\
                              pipeline o t1 = Ok (format (o_indent o) (o_compact o) t1))
         (fst (iterparse_str s)) ->
  run o [] s = Ok (out, code) -> run o [] out = Ok (out, code).
Proof.
  intros o s out code Tr Ck F R.
  assert (NoErr : forall l, existsb (graph_has_errors o) l = false).
  { induction l as [|t l IH]; [reflexivity|]. simpl. rewrite IH. unfold graph_has_errors. rewrite Ck. reflexivity. }
  assert (Ec : code = false).
  { unfold run in R. apply run_parsed_ok_iff in R. destruct R as [_ [_ [texts [_ [_ Ec]]]]].
    rewrite Ec. apply NoErr. }
  assert (X : exists ts', Forall2 (fun t t' => pre_format o t = Ok t') (fst (iterparse_str s)) ts' /\
                          Forall (fun t' => wf_tree t' = true) ts' /\
                          (forall t', In t' ts' -> pipeline o t' = Ok (format (o_indent o) (o_compact o) t'))).
  { induction F as [|t l [t1 [Q1 [Q2 Q3]]] F IH].
    - exists []. split; [constructor|]. split; [constructor|]. intros t' [].
    - destruct IH as [ts' [A [B C]]].
      exists (t1 :: ts'). split; [constructor; assumption|].
      split; [constructor; assumption|]. intros t' [E|I]; [subst t'; exact Q3 | apply C; exact I]. }
  destruct X as [ts' [A [B C]]].
  destruct (idempotence_reduces_to_trees o s out code ts' Tr R A B C) as [code' R'].
  assert (Ec' : code' = false).
  { unfold run in R'. apply run_parsed_ok_iff in R'. destruct R' as [_ [_ [texts [_ [_ Ec']]]]].
    rewrite Ec'. apply NoErr. }
  rewrite Ec. rewrite <- Ec'. exact R'.
Qed.

(* TARGET 1: --rearrange with any list of the pure keys, any --indent / --compact,
   any model, a stream of well-formed trees on stdin *)
Theorem rearrange_idempotent : forall o s out code, rearrange_only o = true ->
  Forall (fun t => wf_tree t = true /\ wf_layout_tree (o_model o) t = true) (fst (iterparse_str s)) ->
  run o [] s = Ok (out, code) -> run o [] out = Ok (out, code).
Proof.
  intros o s out code P F R. pose proof P as P'. unfold rearrange_only in P'.
  apply andb_true_iff in P'. destruct P' as [P1 _].
  destruct (tree_opts_fields o P1) as [_ [_ [_ [_ [_ [_ [Tr Ck]]]]]]].
  apply (stream_idempotent_from_trees o s out code Tr Ck); [|exact R].
  eapply Forall_impl; [|exact F]. intros t [Wt Wl].
  destruct (rearrange_tree_fixed o t P Wt Wl) as [Q1 [Q2 [_ Q3]]].
  eexists. split; [exact Q1|]. split; [exact Q2 | exact Q3].
Qed.

(* ================================================================== *)
(** * Part 6: relabelling a relabelled tree is the identity (tree level)

    reset ps t = rename (spec_names t) t.  Renaming by an injective map keeps the
    depth-first order of first definitions and does not touch concepts, so the
    relabelled tree gets the SAME list of names, now attached to themselves: its
    map is a partial identity, and renaming by a partial identity changes nothing. *)

Lemma partition_rejoin : forall t v (f : bool) aln, partition [TILDE] t = (v, f, aln) ->
  v ++ (if f then [TILDE] else []) ++ aln = t.
Proof. intros t v f aln P. apply partition_spec in P. destruct P as [E _]. symmetry. exact E. Qed.

Definition id_like (d : sigma) : Prop := forall a nv, sig_get d a = Some nv -> a = AStr nv.

Lemma rename_var_id : forall d v, id_like d -> rename_var d v = v.
Proof.
  intros d v H. unfold rename_var. destruct (sig_get d v) as [nv|] eqn:G; [|reflexivity].
  symmetry. apply H. exact G.
Qed.

Lemma rename_atom_id : forall d role a, id_like d -> rename_atom d role a = a.
Proof.
  intros d role a H. unfold rename_atom, ref_target, ref_parts. destruct a as [|t|x z]; try reflexivity.
  destruct (str_eqb role SLASHS); [reflexivity|].
  destruct (partition [TILDE] t) as [[v f] aln] eqn:P.
  destruct (sig_get d (AStr v)) as [nv|] eqn:G; [|reflexivity].
  apply H in G. inversion G; subst nv. f_equal. apply partition_rejoin. exact P.
Qed.

Lemma rename_node_id : forall d n, id_like d -> rename_node d n = n.
Proof.
  intros d n H. induction n as [v bs IHbs] using node_ind'.
  rewrite rename_node_eq, (rename_var_id d v H). f_equal.
  induction IHbs as [|[r [a|n']] bs Hb Hbs IH]; [reflexivity| |]; simpl; rewrite IH; f_equal.
  - unfold rename_branch. simpl. rewrite (rename_atom_id d r a H). reflexivity.
  - unfold rename_branch. simpl. unfold branch_ok in Hb. simpl in Hb. rewrite Hb. reflexivity.
Qed.

Lemma in_combine_self : forall names k v, In (k, v) (combine (map AStr names) names) -> k = AStr v.
Proof.
  induction names as [|x names IH]; intros k v I; [destruct I|].
  simpl in I. destruct I as [I|I]; [inversion I; reflexivity | apply IH; exact I].
Qed.

Lemma idmap_id_like : forall names, id_like (combine (map AStr names) names).
Proof.
  intros names a nv G. unfold sig_get in G. apply Errors_lemmas.dget_in in G.
  destruct G as (k0 & I & E). apply in_combine_self in I. subst k0.
  rewrite atom_eqb_sym in E. apply atom_eqb_str in E. exact E.
Qed.

(* ---- nodes_of / tree_vars of a renamed tree, without [names_ok] ---- *)
Section RenameNodes.
  Variable s : sigma.
  Hypothesis NoneFree : sig_get s ANone = None.
  Notation rv := (rename_var s).

  Lemma rv_none' : rv ANone = ANone.
  Proof. unfold rename_var. rewrite NoneFree. reflexivity. Qed.

  Lemma nodes_of_rename' : forall n, nodes_of (rename_node s n) = map (rename_node s) (nodes_of n).
  Proof.
    induction n as [var bs IHbs] using node_ind'.
    rewrite rename_node_eq, !nodes_of_eq, (nodes_bs_rename s bs IHbs).
    destruct var as [|t|x z].
    - rewrite rv_none'. reflexivity.
    - pose proof (rv_nonnone s (AStr t) ltac:(discriminate)) as NN.
      destruct (rv (AStr t)) eqn:E; [congruence| |]; simpl; rewrite E; reflexivity.
    - pose proof (rv_nonnone s (ANum x z) ltac:(discriminate)) as NN.
      destruct (rv (ANum x z)) eqn:E; [congruence| |]; simpl; rewrite E; reflexivity.
  Qed.

  Lemma tree_vars_rename' : forall n, tree_vars (rename_node s n) = map rv (tree_vars n).
  Proof.
    intros n. unfold tree_vars. rewrite nodes_of_rename', !map_map.
    apply map_ext. intros n'. apply node_var_rename.
  Qed.
End RenameNodes.

(* every node listed by nodes_of carries a variable *)
Lemma nodes_of_var : forall n n', In n' (nodes_of n) -> node_var n' <> ANone.
Proof.
  induction n as [v bs IHbs] using node_ind'. intros n' I. rewrite nodes_of_eq in I.
  assert (B : In n' (nodes_bs bs) -> node_var n' <> ANone).
  { clear I. induction IHbs as [|[r [a|n0]] bs Hb Hbs IH]; intros I; [destruct I| |]; simpl in I.
    - apply IH. exact I.
    - apply in_app_or in I. destruct I as [I|I]; [apply Hb; exact I | apply IH; exact I]. }
  destruct v as [|t|x z]; [apply B; exact I| |]; (destruct I as [<-|I]; [discriminate | apply B; exact I]).
Qed.

Section ResetTwice.
  Variable is_alpha : N -> bool.
  Variable lower : N -> str.
  Notation nprefix := (node_prefix is_alpha lower).

  (* the prefix comes from the CONCEPT, which renaming does not touch *)
  Lemma concept_prefix_rename : forall s bs,
    default_variable_prefix is_alpha lower (concept_of (map (rename_branch s) bs)) =
    default_variable_prefix is_alpha lower (concept_of bs).
  Proof.
    intros s bs. induction bs as [|[r t] bs IH]; [reflexivity|].
    simpl map. unfold rename_branch at 1. simpl fst. simpl snd. simpl concept_of.
    destruct (str_eqb r SLASHS) eqn:SL; [|exact IH].
    destruct t as [a|n]; [|reflexivity].
    unfold rename_atom, ref_target. destruct a; try reflexivity. rewrite SL. reflexivity.
  Qed.

  Lemma node_prefix_rename : forall s n, nprefix (rename_node s n) = nprefix n.
  Proof. intros s [v bs]. unfold node_prefix. rewrite rename_node_eq. apply concept_prefix_rename. Qed.

  (* the names depend on the first definitions through their prefixes only *)
  Lemma spec_names_from_prefix_ext : forall ps defs defs' earlier,
    map nprefix defs = map nprefix defs' ->
    spec_names_from is_alpha lower ps defs earlier = spec_names_from is_alpha lower ps defs' earlier.
  Proof.
    intros ps defs. induction defs as [|d defs IH]; intros [|d' defs'] earlier E; try discriminate; [reflexivity|].
    simpl in E. injection E as E1 E2. simpl. rewrite E1. f_equal. apply IH. exact E2.
  Qed.

  Section Inj.
    Variable s : sigma.
    Hypothesis NDV : NoDup (map snd s).
    Notation rv := (rename_var s).

    Lemma mem_rv_dom : forall a seen, dmem atom_eqb a s = true ->
      (forall b, In b seen -> dmem atom_eqb b s = true) ->
      mem atom_eqb (rv a) (map rv seen) = mem atom_eqb a seen.
    Proof.
      intros a seen Da Ds. induction seen as [|b seen IH]; [reflexivity|].
      simpl. rewrite IH by (intros c I; apply Ds; right; exact I). f_equal.
      destruct (atom_eqb a b) eqn:E.
      - apply rv_congr. exact E.
      - destruct (atom_eqb (rv a) (rv b)) eqn:E2; [|reflexivity].
        rewrite (rv_inj_dom s NDV a b Da (Ds b (or_introl eq_refl)) E2) in E. discriminate.
    Qed.

    (* an injective renaming keeps the first definitions, in order *)
    Lemma first_defs_rename : forall ns seen,
      (forall n, In n ns -> dmem atom_eqb (node_var n) s = true) ->
      (forall b, In b seen -> dmem atom_eqb b s = true) ->
      first_defs (map (rename_node s) ns) (map rv seen) = map (rename_node s) (first_defs ns seen).
    Proof.
      induction ns as [|n ns IH]; intros seen Dn Ds; [reflexivity|].
      simpl map. cbn [first_defs]. rewrite node_var_rename.
      rewrite (mem_rv_dom (node_var n) seen (Dn n (or_introl eq_refl)) Ds).
      destruct (mem atom_eqb (node_var n) seen).
      - apply IH; [intros n' I; apply Dn; right; exact I | exact Ds].
      - simpl map. f_equal. change (rv (node_var n) :: map rv seen) with (map rv (node_var n :: seen)).
        apply IH; [intros n' I; apply Dn; right; exact I|].
        intros b [<-|I]; [apply Dn; left; reflexivity | apply Ds; exact I].
    Qed.
  End Inj.

  Variable ps : list piece.
  Hypothesis U : uses_index ps = true.
  Notation SN := (spec_names is_alpha lower ps).

  Lemma spec_names_facts : forall t,
    NoDup (map snd (SN t)) /\ keys_nodup atom_eqb (dkeys (SN t)) /\
    (forall n, In n (nodes_of (troot t)) -> dmem atom_eqb (node_var n) (SN t) = true) /\
    sig_get (SN t) ANone = None /\
    map fst (SN t) = map node_var (spec_defs t) /\
    map snd (SN t) = spec_name_list is_alpha lower ps t.
  Proof.
    intros t.
    destruct (reset_map_facts is_alpha lower ps t (SN t) (reset_map_spec is_alpha lower ps t U))
      as (NDV & NDK & D1 & D2).
    split; [exact NDV|]. split; [exact NDK|]. split; [exact D1|].
    assert (L : length (map node_var (spec_defs t)) = length (spec_name_list is_alpha lower ps t)).
    { unfold spec_name_list. rewrite spec_names_from_length, map_length. reflexivity. }
    split; [|split].
    - unfold sig_get. destruct (dget atom_eqb ANone (SN t)) as [nv|] eqn:G; [|reflexivity]. exfalso.
      assert (DM : dmem atom_eqb ANone (SN t) = true) by (unfold dmem; rewrite G; reflexivity).
      destruct (D2 ANone DM) as (n & I & E). apply (nodes_of_var _ _ I).
      destruct (node_var n); simpl in E; try discriminate. reflexivity.
    - unfold spec_names. clear - L. revert L.
      generalize (map node_var (spec_defs t)), (spec_name_list is_alpha lower ps t).
      induction l as [|a l IH]; intros [|b l0] L; try discriminate; [reflexivity|].
      simpl. f_equal. apply IH. simpl in L. lia.
    - unfold spec_names. clear - L. revert L.
      generalize (map node_var (spec_defs t)), (spec_name_list is_alpha lower ps t).
      induction l as [|a l IH]; intros [|b l0] L; try discriminate; [reflexivity|].
      simpl. f_equal. apply IH. simpl in L. lia.
  Qed.

  Lemma rv_keys_values : forall (d : sigma), keys_nodup atom_eqb (dkeys d) ->
    map (rename_var d) (map fst d) = map AStr (map snd d).
  Proof.
    intros d ND. rewrite !map_map. apply map_ext_in. intros [k v] I. simpl.
    unfold rename_var, sig_get. rewrite (in_dget atom_eqb atom_equiv d k v ND I). reflexivity.
  Qed.

  (* the map of the relabelled tree: the same names, attached to themselves *)
  Theorem spec_names_of_renamed : forall t,
    SN (mkTree (rename_node (SN t) (troot t)) (tmeta t)) =
    combine (map AStr (spec_name_list is_alpha lower ps t)) (spec_name_list is_alpha lower ps t).
  Proof.
    intros t. destruct (spec_names_facts t) as (NDV & NDK & D1 & NF & KS & VS).
    set (s := SN t) in *.
    assert (DEFS : spec_defs (mkTree (rename_node s (troot t)) (tmeta t)) = map (rename_node s) (spec_defs t)).
    { unfold spec_defs. simpl troot. rewrite (nodes_of_rename' s NF).
      exact (first_defs_rename s NDV (nodes_of (troot t)) [] D1 (fun b (F : In b []) => match F with end)). }
    assert (NAMES : spec_name_list is_alpha lower ps (mkTree (rename_node s (troot t)) (tmeta t)) =
                    spec_name_list is_alpha lower ps t).
    { unfold spec_name_list. rewrite DEFS. apply spec_names_from_prefix_ext.
      rewrite map_map. apply map_ext. intros n. apply node_prefix_rename. }
    unfold spec_names at 1. rewrite NAMES, DEFS. f_equal.
    rewrite map_map. rewrite (map_ext _ _ (node_var_rename s)). rewrite <- map_map.
    rewrite <- KS, <- VS. apply rv_keys_values. exact NDK.
  Qed.

  Lemma all_vars_rename : forall s n, all_vars n = true -> all_vars (rename_node s n) = true.
  Proof.
    intros s. induction n as [v bs IHbs] using node_ind'. intros H.
    rewrite rename_node_eq, all_vars_eq. rewrite all_vars_eq in H.
    apply andb_true_iff in H. destruct H as [H1 H2]. apply andb_true_iff. split.
    - apply negb_true_iff. apply negb_true_iff in H1.
      destruct (atom_eqb (rename_var s v) ANone) eqn:E; [|reflexivity]. exfalso.
      apply (rv_nonnone s v).
      + intros ->. discriminate.
      + destruct (rename_var s v); simpl in E; try discriminate. reflexivity.
    - induction IHbs as [|[r [a|n']] bs Hb Hbs IH]; [reflexivity| |]; simpl in H2 |- *.
      + apply IH. exact H2.
      + apply andb_true_iff in H2. destruct H2 as [A B]. rewrite (Hb A). apply IH. exact B.
  Qed.

  (* relabelling twice = relabelling once: no hypothesis beyond C10_terminates' *)
  Theorem reset_twice : forall t t1, all_vars (troot t) = true ->
    reset_variables is_alpha lower ps t = Ok t1 ->
    reset_variables is_alpha lower ps t1 = Ok t1.
  Proof.
    intros t t1 AV R. rewrite (reset_variables_spec is_alpha lower ps t U AV) in R.
    inversion R; subst t1. clear R.
    rewrite (reset_variables_spec is_alpha lower ps _ U); [|simpl; apply all_vars_rename; exact AV].
    rewrite spec_names_of_renamed. simpl troot. simpl tmeta.
    rewrite (rename_node_id _ _ (idmap_id_like _)). reflexivity.
  Qed.
End ResetTwice.

(* ================================================================== *)
(** * Part 7: renaming by an injective map with plain new names preserves
      well-formedness of the layout (C02), the C01 well-formedness when the new
      names are Symbols, and the normal form *)

Lemma rename_atom_slash : forall s a, rename_atom s SLASHS a = a.
Proof. intros s a. unfold rename_atom, ref_target. destruct a; reflexivity. Qed.

Lemma rename_atom_slash' : forall s r a, str_eqb r SLASHS = true -> rename_atom s r a = a.
Proof. intros s r a H. apply str_eqb_eq in H. subst r. apply rename_atom_slash. Qed.

Lemma startswith_quote_tilde : forall v aln, startswith v [QUOTE] = false ->
  startswith (v ++ [TILDE] ++ aln) [QUOTE] = false.
Proof.
  intros [|c v] aln H; [reflexivity|]. rewrite startswith_quote_app by discriminate. exact H.
Qed.

Lemma atom_text_ok_tilde : forall v aln, plain_name v ->
  atom_text_ok (AStr (v ++ [TILDE] ++ aln)) = aln_nf (TILDE :: aln).
Proof.
  intros v aln [NT NQ]. unfold atom_text_ok.
  assert (C : contains_char TILDE (v ++ [TILDE] ++ aln) = true).
  { rewrite has_tilde_app. apply orb_true_iff. right. unfold contains_char, isin. simpl. reflexivity. }
  rewrite C. simpl negb. cbv iota. rewrite (startswith_quote_tilde v aln NQ).
  rewrite (partition_build v true aln NT) by (intros; discriminate). reflexivity.
Qed.

Lemma wf_all_vars : forall m vars n, WfLayout.wf_node m vars n = true -> all_vars n = true.
Proof.
  intros m vars. induction n as [v bs IHbs] using node_ind'. intros W.
  rewrite wf_node_eq in W. apply andb_true_iff in W. destruct W as [VO W].
  rewrite all_vars_eq. apply andb_true_iff. split.
  - destruct v as [|[|c x]|]; try discriminate. reflexivity.
  - assert (G : forall first, wf_bs m vars v first bs = true ->
                forallb (fun b : branch => match snd b with TAtom _ => true | TNode n' => all_vars n' end) bs = true);
      [|exact (G _ W)]. clear W.
    induction IHbs as [|[r [a|n']] bs Hb Hbs IH]; intros first W; [reflexivity| |];
      rewrite wf_bs_cons in W; apply andb_true_iff in W; destruct W as [W1 W2]; simpl.
    + apply (IH false). exact W2.
    + rewrite (IH false W2), andb_true_r. unfold Configure_fast.wf_branch in W1.
      destruct (str_eqb r SLASHS); [rewrite andb_false_r in W1; discriminate|].
      apply andb_true_iff in W1. destruct W1 as [_ W1]. apply andb_true_iff in W1. destruct W1 as [W1 _].
      apply Hb. exact W1.
Qed.

Definition in_dom (s : sigma) (n : node) : Prop :=
  forall n', In n' (nodes_of n) -> dmem atom_eqb (node_var n') s = true.

Lemma in_dom_node : forall s v bs, var_ok v = true -> in_dom s (Node v bs) ->
  dmem atom_eqb v s = true /\ (forall n', In n' (nodes_bs bs) -> dmem atom_eqb (node_var n') s = true).
Proof.
  intros s v bs VO D. unfold in_dom in D. rewrite nodes_of_eq in D.
  destruct v as [|[|c x]|]; try discriminate. split.
  - apply (D (Node (AStr (c :: x)) bs)). left. reflexivity.
  - intros n' I. apply D. right. exact I.
Qed.

Section RenameLayout.
  Variable m : model.
  Variable s : sigma.
  Hypothesis NOK : names_ok s.
  Hypothesis NDV : NoDup (map snd s).
  Hypothesis VNE : forall a nv, sig_get s a = Some nv -> nv <> [].
  Variable vars : list atom.
  Hypothesis DOMV : forall a, mem atom_eqb a vars = dmem atom_eqb a s.
  Notation rv := (rename_var s).
  Notation R := (rename_triple s).

  Lemma atom_text_ok_rename : forall role a, atom_text_ok (rename_atom s role a) = atom_text_ok a.
  Proof.
    intros role a. unfold rename_atom, ref_target, ref_parts. destruct a as [|t|x z]; try reflexivity.
    destruct (str_eqb role SLASHS); [reflexivity|].
    destruct (partition [TILDE] t) as [[v f] aln] eqn:P.
    destruct (sig_get s (AStr v)) as [nv|] eqn:G; [|reflexivity].
    destruct (key_is_plain s NOK _ _ G) as (t' & E & PK). inversion E; subst t'.
    pose proof (val_is_plain s NOK _ _ G) as PV.
    destruct (partition_spec _ _ _ _ P) as (ET & _ & FA). subst t.
    destruct f.
    - rewrite !atom_text_ok_tilde by assumption. reflexivity.
    - rewrite (FA eq_refl). simpl. rewrite !app_nil_r. unfold atom_text_ok.
      destruct PK as [NT _]. destruct PV as [NT' _]. unfold notilde in *. rewrite NT, NT'. reflexivity.
  Qed.

  Lemma proc_atom_rename : forall role a, str_eqb role SLASHS = false -> atom_text_ok a = true ->
    proc_atom (rename_atom s role a) = (rv (atom_name a), snd (proc_atom a)).
  Proof.
    intros role a NS AT. destruct (atom_text_ok_spec a AT) as (a' & tepis & PA & _).
    unfold atom_name, proc_atom. rewrite (process_atomic_rename s NOK role a a' tepis NS PA), PA. reflexivity.
  Qed.

  Lemma branch_free_name : forall role a, str_eqb role SLASHS = false -> atom_text_ok a = true ->
    branch_free s role a = true -> atom_free s (atom_name a) = true.
  Proof.
    intros role a NS AT BF. destruct (atom_text_ok_spec a AT) as (a' & tepis & PA & _).
    unfold branch_free in BF. rewrite NS, PA in BF. unfold atom_name, proc_atom. rewrite PA. exact BF.
  Qed.

  Lemma var_ok_rv : forall v, var_ok v = true -> var_ok (rv v) = true.
  Proof.
    intros v H. unfold rename_var. destruct (sig_get s v) as [nv|] eqn:G; [|exact H].
    simpl. destruct nv as [|c nv]; [|reflexivity]. exfalso. exact (VNE _ _ G eq_refl).
  Qed.

  Lemma rv_eqb_dom : forall a b, dmem atom_eqb a s = true -> dmem atom_eqb b s = true ->
    atom_eqb (rv a) (rv b) = atom_eqb a b.
  Proof.
    intros a b Da Db. destruct (atom_eqb a b) eqn:E.
    - apply rv_congr. exact E.
    - destruct (atom_eqb (rv a) (rv b)) eqn:E2; [|reflexivity].
      rewrite (rv_inj_dom s NDV a b Da Db E2) in E. discriminate.
  Qed.

  Lemma wf_bs_rename : forall var bs,
    Forall (branch_ok (fun n => WfLayout.wf_node m vars n = true -> no_collision s n = true -> in_dom s n ->
                                WfLayout.wf_node m (map rv vars) (rename_node s n) = true)) bs ->
    dmem atom_eqb var s = true ->
    forall first, wf_bs m vars var first bs = true -> no_collision_bs s bs = true ->
    (forall n', In n' (nodes_bs bs) -> dmem atom_eqb (node_var n') s = true) ->
    wf_bs m (map rv vars) (rv var) first (map (rename_branch s) bs) = true.
  Proof.
    intros var bs F DV. induction F as [|[r [a|n']] bs Hb F IH]; intros first W NC DN; [reflexivity| |];
      rewrite wf_bs_cons in W; apply andb_true_iff in W; destruct W as [W1 W2];
      simpl in NC; apply andb_true_iff in NC; destruct NC as [NC1 NC2]; simpl in DN;
      simpl map; rewrite wf_bs_cons.
    - rewrite (IH false W2 NC2 DN), andb_true_r.
      unfold rename_branch. simpl fst. simpl snd. unfold Configure_fast.wf_branch in *.
      destruct (str_eqb r SLASHS) eqn:SL.
      + rewrite (rename_atom_slash' s r a SL). exact W1.
      + apply andb_true_iff in W1. destruct W1 as [RT W1]. rewrite RT. simpl.
        apply andb_true_iff in W1. destruct W1 as [AT W1].
        rewrite atom_text_ok_rename, AT. simpl.
        assert (AN : atom_name (rename_atom s r a) = rv (atom_name a)).
        { unfold atom_name at 1. rewrite (proc_atom_rename r a SL AT). reflexivity. }
        rewrite AN. rewrite (mem_vars_rename s vars DOMV _ (branch_free_name r a SL AT NC1)).
        destruct (deinverts m && is_role_inverted m (role_name r) && mem atom_eqb (atom_name a) vars) eqn:C;
          [|reflexivity].
        apply andb_true_iff in C. destruct C as [_ C]. rewrite DOMV in C.
        rewrite (rv_eqb_dom _ _ C DV). exact W1.
    - rewrite (IH false W2 NC2); [|intros n0 I; apply DN; apply in_or_app; right; exact I].
      rewrite andb_true_r.
      unfold rename_branch. simpl fst. simpl snd. unfold Configure_fast.wf_branch in *.
      destruct (str_eqb r SLASHS) eqn:SL; [exact W1|].
      apply andb_true_iff in W1. destruct W1 as [RT W1]. rewrite RT. simpl.
      apply andb_true_iff in W1. destruct W1 as [WN DO]. rewrite DO, andb_true_r.
      unfold branch_ok in Hb. simpl in Hb. apply Hb; [exact WN | exact NC1|].
      intros n0 I. apply DN. apply in_or_app. left. exact I.
  Qed.

  Theorem rename_wf_layout_node : forall n, WfLayout.wf_node m vars n = true -> no_collision s n = true ->
    in_dom s n -> WfLayout.wf_node m (map rv vars) (rename_node s n) = true.
  Proof.
    induction n as [v bs IHbs] using node_ind'. intros W NC DN.
    rewrite wf_node_eq in W. apply andb_true_iff in W. destruct W as [VO W].
    rewrite no_collision_eq in NC. destruct (in_dom_node s v bs VO DN) as [DV DB].
    rewrite rename_node_eq, wf_node_eq, (var_ok_rv v VO). simpl.
    apply (wf_bs_rename v bs IHbs DV true W NC DB).
  Qed.

  Lemma nodup_rv : forall l, (forall a, In a l -> dmem atom_eqb a s = true) ->
    nodup_b atom_eqb l = true -> nodup_b atom_eqb (map rv l) = true.
  Proof.
    induction l as [|a l IH]; intros D H; [reflexivity|].
    simpl in H. apply andb_true_iff in H. destruct H as [H1 H2]. simpl.
    rewrite (mem_rv_dom s NDV a l (D a (or_introl eq_refl)) (fun b I => D b (or_intror I))), H1. simpl.
    apply IH; [intros b I; apply D; right; exact I | exact H2].
  Qed.

  (* ---- the denoted triples of the renamed tree ---- *)
  Lemma ensure_colon_id : forall r, startswith r [COLON] = true -> ensure_colon r = r.
  Proof. intros r H. unfold ensure_colon. rewrite H. reflexivity. Qed.

  Lemma not_instance_role : forall r, startswith r [COLON] = true -> str_eqb r INSTANCE = false ->
    is_instance_role r = false.
  Proof. intros r C NI. unfold is_instance_role. rewrite (ensure_colon_id r C). exact NI. Qed.

  Lemma R_deinvert_wf : forall a r b, startswith r [COLON] = true -> str_eqb r INSTANCE = false ->
    (deinverts m && is_role_inverted m r = true -> deinv_ok m r = true) ->
    R (deinvert m (a, r, b)) = deinvert m (rv a, r, rv b).
  Proof.
    intros a r b C NI D. pose proof (not_instance_role r C NI) as I1.
    destruct (deinverts m && is_role_inverted m r) eqn:DI.
    - apply andb_true_iff in DI. destruct DI as [D1 D2]. specialize (D eq_refl).
      apply R_deinvert; [exact I1|]. unfold invert_role. rewrite D2.
      unfold deinv_ok in D. apply andb_true_iff in D. destruct D as [_ D]. apply negb_true_iff in D.
      apply not_instance_role; [apply (colon_drop_of m r C D2) | exact D].
    - unfold deinvert. change (trole (a, r, b)) with r. change (trole (rv a, r, rv b)) with r.
      destruct (deinverts m); [|apply R_plain; exact I1].
      simpl in DI. rewrite DI. apply R_plain. exact I1.
  Qed.

  Lemma has_concept_rename : forall bs, has_concept (map (rename_branch s) bs) = has_concept bs.
  Proof.
    induction bs as [|b bs IH]; [reflexivity|]. simpl map. rewrite !has_concept_cons, IH. reflexivity.
  Qed.

  Lemma entries_bs_rename : forall var bs,
    Forall (branch_ok (fun n => WfLayout.wf_node m vars n = true -> no_collision s n = true -> in_dom s n ->
              map fst (entries m (map rv vars) (rename_node s n)) = map R (map fst (entries m vars n)))) bs ->
    forall first, wf_bs m vars var first bs = true -> no_collision_bs s bs = true ->
    (forall n', In n' (nodes_bs bs) -> dmem atom_eqb (node_var n') s = true) ->
    map fst (entries_bs m (map rv vars) (rv var) (map (rename_branch s) bs)) =
    map R (map fst (entries_bs m vars var bs)).
  Proof.
    intros var bs F. induction F as [|[r [a|n']] bs Hb F IH]; intros first W NC DN; [reflexivity| |];
      rewrite wf_bs_cons in W; apply andb_true_iff in W; destruct W as [W1 W2];
      simpl in NC; apply andb_true_iff in NC; destruct NC as [NC1 NC2]; simpl in DN; rewrite map_cons.
    - unfold rename_branch at 1. simpl fst. simpl snd.
      rewrite !entries_bs_atom. rewrite !map_cons. simpl fst. rewrite (IH false W2 NC2 DN). f_equal.
      unfold Configure_fast.wf_branch in W1. destruct (str_eqb r SLASHS) eqn:SL.
      + rewrite (rename_atom_slash' s r a SL). apply str_eqb_eq in SL. subst r.
        change (role_name SLASHS) with INSTANCE. unfold atom_triple.
        rewrite instance_not_inverted. reflexivity.
      + apply andb_true_iff in W1. destruct W1 as [RT W1].
        apply andb_true_iff in W1. destruct W1 as [AT W1].
        destruct (role_text_ok_spec r SL RT) as (rn & repis & PR & CO & NI & _).
        assert (RN : role_name r = rn) by (unfold role_name, proc_role; rewrite PR; reflexivity).
        rewrite RN in *.
        assert (AN : atom_name (rename_atom s r a) = rv (atom_name a)).
        { unfold atom_name at 1. rewrite (proc_atom_rename r a SL AT). reflexivity. }
        rewrite AN. unfold atom_triple.
        rewrite (mem_vars_rename s vars DOMV _ (branch_free_name r a SL AT NC1)).
        destruct (is_role_inverted m rn && mem atom_eqb (atom_name a) vars) eqn:C.
        * symmetry. apply R_deinvert_wf; [exact CO | exact NI|]. intros DI.
          apply andb_true_iff in C. destruct C as [C1 C2].
          apply andb_true_iff in DI. destruct DI as [D1 D2]. rewrite D1, D2, C2 in W1. simpl in W1.
          apply andb_true_iff in W1. tauto.
        * symmetry. apply R_plain. apply not_instance_role; assumption.
    - unfold rename_branch at 1. simpl fst. simpl snd.
      rewrite !entries_bs_node. rewrite !map_cons. simpl fst. rewrite !map_app, !map_fst_add_pop_last.
      unfold Configure_fast.wf_branch in W1. destruct (str_eqb r SLASHS) eqn:SL; [rewrite andb_false_r in W1; discriminate|].
      apply andb_true_iff in W1. destruct W1 as [RT W1].
      apply andb_true_iff in W1. destruct W1 as [WN DO].
      destruct (role_text_ok_spec r SL RT) as (rn & repis & PR & CO & NI & _).
      assert (RN : role_name r = rn) by (unfold role_name, proc_role; rewrite PR; reflexivity).
      rewrite RN in *. rewrite node_var_rename.
      unfold branch_ok in Hb. simpl in Hb.
      apply (f_equal2 (@cons triple)).
      { symmetry. apply R_deinvert_wf; [exact CO | exact NI|]. intros DI. rewrite DI in DO. exact DO. }
      apply (f_equal2 (@app triple)).
      { apply (Hb WN NC1). intros n0 I. apply DN. apply in_or_app. left. exact I. }
      apply (IH false W2 NC2). intros n0 I. apply DN. apply in_or_app. right. exact I.
  Qed.

  Theorem entries_rename : forall n, WfLayout.wf_node m vars n = true -> no_collision s n = true ->
    in_dom s n ->
    map fst (entries m (map rv vars) (rename_node s n)) = map R (map fst (entries m vars n)).
  Proof.
    induction n as [v bs IHbs] using node_ind'. intros W NC DN.
    rewrite wf_node_eq in W. apply andb_true_iff in W. destruct W as [VO W].
    rewrite no_collision_eq in NC. destruct (in_dom_node s v bs VO DN) as [DV DB].
    rewrite rename_node_eq, !entries_eq, has_concept_rename.
    pose proof (entries_bs_rename v bs IHbs true W NC DB) as E.
    destruct (has_concept bs); [exact E|]. rewrite !map_cons. simpl fst.
    apply (f_equal2 (@cons triple)); [reflexivity | exact E].
  Qed.

  Lemma nodup_R : forall l, (forall t, In t l -> triple_safe s t) ->
    nodup_b triple_eqb l = true -> nodup_b triple_eqb (map R l) = true.
  Proof.
    induction l as [|t l IH]; intros S H; [reflexivity|].
    simpl in H. apply andb_true_iff in H. destruct H as [H1 H2]. simpl.
    rewrite (IH (fun x I => S x (or_intror I)) H2), andb_true_r. apply negb_true_iff.
    destruct (mem triple_eqb (R t) (map R l)) eqn:M; [|reflexivity]. exfalso.
    unfold mem in M. apply existsb_exists in M. destruct M as (y & Iy & Ey).
    apply in_map_iff in Iy. destruct Iy as (u & <- & Iu).
    pose proof (R_inj_safe s NDV t u (S t (or_introl eq_refl)) (S u (or_intror Iu)) Ey) as E.
    apply negb_true_iff in H1.
    assert (T : mem triple_eqb t l = true); [|congruence].
    unfold mem. apply existsb_exists. exists u. split; assumption.
  Qed.

  Lemma entries_safe : forall n, WfLayout.wf_node m vars n = true -> no_collision s n = true ->
    in_dom s n -> forall t, In t (map fst (entries m vars n)) -> triple_safe s t.
  Proof.
    intros n W NC DN.
    destruct (interp_node_spec m vars n) as [S1 _]. specialize (S1 (wf_node_ok m vars n W)).
    destruct (node_safe_all m s vars DOMV n _ _ (wf_all_vars m vars n W) DN NC S1) as [ST _]. exact ST.
  Qed.
End RenameLayout.

Theorem rename_wf_layout : forall m s t,
  names_ok s -> NoDup (map snd s) -> (forall a nv, sig_get s a = Some nv -> nv <> []) ->
  (forall a, mem atom_eqb a (tree_vars (troot t)) = dmem atom_eqb a s) ->
  wf_layout_tree m t = true -> no_collision s (troot t) = true ->
  wf_layout_tree m (mkTree (rename_node s (troot t)) (tmeta t)) = true.
Proof.
  intros m s t NOK NDV VNE DOMV W NC. unfold wf_layout_tree, denoted in *. simpl troot.
  set (vars := tree_vars (troot t)) in *.
  apply andb_true_iff in W. destruct W as [W W3]. apply andb_true_iff in W. destruct W as [W1 W2].
  assert (DN : in_dom s (troot t)).
  { intros n' I. rewrite <- DOMV. unfold mem. apply existsb_exists. exists (node_var n').
    split; [unfold vars, tree_vars; apply in_map; exact I | apply atom_eqb_refl]. }
  assert (DV : forall a, In a vars -> dmem atom_eqb a s = true).
  { intros a I. rewrite <- DOMV. unfold mem. apply existsb_exists. exists a. split; [exact I | apply atom_eqb_refl]. }
  rewrite (tree_vars_rename s NOK). fold vars.
  apply andb_true_iff. split; [apply andb_true_iff; split|].
  - apply nodup_rv; assumption.
  - apply rename_wf_layout_node; assumption.
  - erewrite entries_rename; try eassumption.
    apply nodup_R; try assumption. eapply entries_safe; eassumption.
Qed.

(* ---- C01 well-formedness of the relabelled tree: the new names must be Symbols ---- *)
Lemma notilde_forallb : forall v, notilde v -> forallb (fun c => negb (eqc c 126)) v = true.
Proof.
  induction v as [|c v IH]; intros H; [reflexivity|].
  apply notilde_cons in H. destruct H as [H1 H2]. simpl. rewrite (IH H2), andb_true_r.
  unfold eqc in *. rewrite N.eqb_sym. change 126%N with TILDE. rewrite H1. reflexivity.
Qed.

Lemma m_string_noquote : forall c, startswith c [QUOTE] = false -> m_string c = None.
Proof.
  intros [|x c] H; [reflexivity|]. rewrite startswith_cons1 in H. unfold m_string.
  unfold eqc in *. rewrite N.eqb_sym. change 34%N with QUOTE. rewrite H. reflexivity.
Qed.

Definition suffix_shape (suf : str) : Prop := match suf with [] => True | c :: _ => c = TILDE end.

Lemma startswith_quote_suffix : forall v suf, startswith v [QUOTE] = false -> suffix_shape suf ->
  startswith (v ++ suf) [QUOTE] = false.
Proof.
  intros [|c v] suf H S.
  - simpl. destruct suf as [|d suf]; [reflexivity|]. simpl in S. subst d. reflexivity.
  - rewrite startswith_quote_app by discriminate. exact H.
Qed.

Lemma wf_atom_text_plain : forall v suf, plain_name v -> suffix_shape suf ->
  wf_atom_text (v ++ suf) = wf_symbol v && opt_align suf.
Proof.
  intros v suf [NT NQ] S. unfold wf_atom_text.
  rewrite (m_string_noquote _ (startswith_quote_suffix v suf NQ S)). unfold split_tilde.
  rewrite (Rearrange_lemmas.span_all _ v (notilde_forallb v NT) suf); [reflexivity|].
  destruct suf as [|d suf]; [exact I|]. simpl in S. subst d. reflexivity.
Qed.

Lemma symbol_plain : forall v, wf_symbol v = true -> plain_name v.
Proof.
  intros [|c v] H; [discriminate|]. unfold wf_symbol in H. apply andb_true_iff in H. destruct H as [_ N].
  split; [exact (proj2 (names_no_tilde _ N))|].
  simpl in N. apply andb_true_iff in N. destruct N as [Nc _].
  destruct (is_name_chars c Nc) as (Q & _). rewrite startswith_cons1. unfold eqc in *. rewrite N.eqb_sym. exact Q.
Qed.

Lemma slash_only_first_map : forall (f : branch -> branch) bs, (forall b, fst (f b) = fst b) ->
  slash_only_first (map f bs) = slash_only_first bs.
Proof.
  intros f [|b bs] H; [reflexivity|]. simpl. induction bs as [|c bs IH]; [reflexivity|].
  simpl. rewrite IH. unfold not_slash. rewrite H. reflexivity.
Qed.

Section RenameC01.
  Variable s : sigma.
  Hypothesis NOK : names_ok s.
  Hypothesis SYMV : forall a nv, sig_get s a = Some nv -> wf_symbol nv = true.
  Notation rv := (rename_var s).

  Lemma wf_atom_target_rename : forall role a, wf_atom_target (TAtom a) = true ->
    wf_atom_target (TAtom (rename_atom s role a)) = true.
  Proof.
    intros role a H. destruct a as [|c|x z]; [exact H| |discriminate].
    unfold rename_atom, ref_target, ref_parts.
    destruct (str_eqb role SLASHS); [exact H|].
    destruct (partition [TILDE] c) as [[v f] aln] eqn:P.
    destruct (sig_get s (AStr v)) as [nv|] eqn:G; [|exact H].
    destruct (key_is_plain s NOK _ _ G) as (t' & E & PK). inversion E; subst t'.
    destruct (partition_spec _ _ _ _ P) as (ET & _ & FA). subst c.
    assert (S : suffix_shape ((if f then [TILDE] else []) ++ aln)).
    { destruct f; [reflexivity|]. rewrite (FA eq_refl). exact I. }
    simpl in H |- *. rewrite (wf_atom_text_plain v _ PK S) in H.
    apply andb_true_iff in H. destruct H as [_ H].
    rewrite (wf_atom_text_plain nv _ (symbol_plain nv (SYMV _ _ G)) S), (SYMV _ _ G), H. reflexivity.
  Qed.

  Theorem rename_wf_c01 : forall n, WellFormed.wf_node n = true -> WellFormed.wf_node (rename_node s n) = true.
  Proof.
    induction n as [v bs IHbs] using node_ind'. intros W.
    rewrite rename_node_eq. rewrite c01_wf_node_eq in W.
    destruct v as [|x|x z]; [| |discriminate].
    - destruct bs; [|discriminate]. rewrite (rv_none s NOK). reflexivity.
    - apply andb_true_iff in W. destruct W as [W W3]. apply andb_true_iff in W. destruct W as [W1 W2].
      assert (V : exists y, rv (AStr x) = AStr y /\ wf_symbol y = true).
      { unfold rename_var. destruct (sig_get s (AStr x)) as [nv|] eqn:G.
        - exists nv. split; [reflexivity | exact (SYMV _ _ G)].
        - exists x. split; [reflexivity | exact W1]. }
      destruct V as (y & EV & SY). rewrite EV, c01_wf_node_eq, SY.
      rewrite (slash_only_first_map (rename_branch s) bs (fun b => eq_refl)), W3, andb_true_r. simpl.
      clear - IHbs W2 NOK SYMV. induction IHbs as [|[r [a|n']] bs Hb Hbs IH]; [reflexivity| |];
        simpl in W2; apply andb_true_iff in W2; destruct W2 as [H1 H2]; simpl; rewrite (IH H2), andb_true_r;
        unfold rename_branch, WellFormed.wf_branch in *; simpl fst in *; simpl snd in *.
      + destruct (str_eqb r SLASHS) eqn:SL.
        * rewrite (rename_atom_slash' s r a SL). exact H1.
        * apply andb_true_iff in H1. destruct H1 as [R A]. rewrite R. simpl.
          apply wf_atom_target_rename. exact A.
      + destruct (str_eqb r SLASHS); [discriminate|].
        apply andb_true_iff in H1. destruct H1 as [R A]. rewrite R. simpl. apply Hb. exact A.
  Qed.
End RenameC01.

(* ---- the normal form of C02 under renaming ---- *)
Theorem rename_dec_fixed : forall s n, dec_node n = n -> dec_node (rename_node s n) = rename_node s n.
Proof.
  intros s. induction n as [v bs IHbs] using node_ind'. intros D.
  rewrite rename_node_eq. apply dec_fixed_iff in D. destruct D as [D1 D2]. apply dec_fixed_iff. split.
  - destruct bs as [|[r [a|n]] bs']; try reflexivity. simpl. unfold rename_branch. simpl.
    destruct (str_eqb r SLASHS) eqn:SL; [|reflexivity].
    rewrite (rename_atom_slash' s r a SL). simpl in D1. rewrite SL in D1. exact D1.
  - apply map_fixed_forall in D2. apply map_fixed_forall.
    clear D1. induction IHbs as [|[r [a|n']] bs Hb Hbs IH]; [constructor| |]; inversion D2 as [|? ? E1 E2]; subst;
      simpl; constructor; try (apply IH; assumption).
    + reflexivity.
    + unfold rename_branch, dec_branch. simpl. f_equal. f_equal. apply Hb.
      unfold dec_branch in E1. simpl in E1. injection E1 as E. exact E.
Qed.

(* ================================================================== *)
(** * Part 8: the command with --make-variables FMT (FMT has an index) *)

Lemma c01_nodes_symbols : forall n, WellFormed.wf_node n = true ->
  forall n', In n' (nodes_of n) -> exists x, node_var n' = AStr x /\ wf_symbol x = true.
Proof.
  induction n as [v bs IHbs] using node_ind'. intros W n' I.
  rewrite c01_wf_node_eq in W. rewrite nodes_of_eq in I.
  destruct v as [|x|x z]; [destruct bs; [destruct I | discriminate]| |discriminate].
  apply andb_true_iff in W. destruct W as [W _]. apply andb_true_iff in W. destruct W as [W1 W2].
  destruct I as [<-|I]; [exists x; split; [reflexivity | exact W1]|].
  clear W1. induction IHbs as [|[r [a|n0]] bs Hb Hbs IH]; [destruct I| |];
    simpl in W2; apply andb_true_iff in W2; destruct W2 as [H1 H2]; simpl in I.
  - apply IH; assumption.
  - apply in_app_or in I. destruct I as [I|I]; [|apply IH; assumption].
    unfold WellFormed.wf_branch in H1. simpl in H1. destruct (str_eqb r SLASHS); [discriminate|].
    apply andb_true_iff in H1. destruct H1 as [_ H1]. apply (Hb H1). exact I.
Qed.

Section RelabelFacts.
  Variable is_alpha : N -> bool.
  Variable lower : N -> str.
  Variable ps : list piece.
  Hypothesis U : uses_index ps = true.
  Notation SN := (spec_names is_alpha lower ps).

  (* the provisos of C10 in decidable form, for the tree that is relabelled:
     every new name is a Symbol, and no constant is spelled like a new name *)
  Definition relabel_ok (t : tree) : bool :=
    forallb wf_symbol (map snd (SN t)) && no_collision (SN t) (troot t).

  Lemma spec_names_domv : forall t a,
    mem atom_eqb a (tree_vars (troot t)) = dmem atom_eqb a (SN t).
  Proof.
    intros t a.
    destruct (reset_map_facts is_alpha lower ps t (SN t) (reset_map_spec is_alpha lower ps t U))
      as (_ & _ & D1 & D2).
    destruct (dmem atom_eqb a (SN t)) eqn:DA.
    - destruct (D2 a DA) as (n & I & E). unfold mem. apply existsb_exists.
      exists (node_var n). split; [unfold tree_vars; apply in_map; exact I | exact E].
    - destruct (mem atom_eqb a (tree_vars (troot t))) eqn:M; [|reflexivity].
      unfold mem in M. apply existsb_exists in M. destruct M as (v & Iv & Ev).
      unfold tree_vars in Iv. apply in_map_iff in Iv. destruct Iv as (n & <- & In_).
      specialize (D1 n In_). unfold dmem in *.
      rewrite (dget_congr atom_eqb atom_equiv (SN t) a (node_var n) Ev) in DA.
      destruct (dget atom_eqb (node_var n) (SN t)); discriminate.
  Qed.

  Lemma spec_names_symv : forall t, forallb wf_symbol (map snd (SN t)) = true ->
    forall a nv, sig_get (SN t) a = Some nv -> wf_symbol nv = true.
  Proof.
    intros t F a nv G. unfold sig_get in G. apply Errors_lemmas.dget_in in G. destruct G as (k0 & I & _).
    rewrite forallb_forall in F. apply F. apply in_map_iff. exists (k0, nv). split; [reflexivity | exact I].
  Qed.

  Lemma spec_names_ok : forall t, wf_tree t = true -> forallb wf_symbol (map snd (SN t)) = true ->
    names_ok (SN t).
  Proof.
    intros t W F.
    destruct (reset_map_facts is_alpha lower ps t (SN t) (reset_map_spec is_alpha lower ps t U))
      as (_ & NDK & _ & D2).
    unfold wf_tree in W. apply andb_true_iff in W. destruct W as [_ W]. split.
    - intros k v I.
      assert (DM : dmem atom_eqb k (SN t) = true).
      { unfold dmem. rewrite (in_dget atom_eqb atom_equiv (SN t) k v NDK I). reflexivity. }
      destruct (D2 k DM) as (n & In_ & E).
      destruct (c01_nodes_symbols _ W n In_) as (x & EV & SY). rewrite EV in E.
      rewrite atom_eqb_sym in E. apply atom_eqb_str in E. exists x. split; [exact E | apply symbol_plain; exact SY].
    - intros k v I. apply symbol_plain. rewrite forallb_forall in F. apply F.
      apply in_map_iff. exists (k, v). split; [reflexivity | exact I].
  Qed.

  (* the relabelled tree is again well formed in both senses, in normal form,
     and left alone by a second relabelling *)
  Theorem relabel_preserves : forall m t, wf_tree t = true -> wf_layout_tree m t = true ->
    drop_empty_concepts t = t -> relabel_ok t = true ->
    let t2 := mkTree (rename_node (SN t) (troot t)) (tmeta t) in
    reset_variables is_alpha lower ps t = Ok t2 /\
    wf_tree t2 = true /\ wf_layout_tree m t2 = true /\ drop_empty_concepts t2 = t2 /\
    reset_variables is_alpha lower ps t2 = Ok t2.
  Proof.
    intros m t Wt Wl D RO t2. unfold relabel_ok in RO. apply andb_true_iff in RO. destruct RO as [SY NC].
    assert (AV : all_vars (troot t) = true).
    { unfold wf_layout_tree in Wl. apply andb_true_iff in Wl. destruct Wl as [Wl _].
      apply andb_true_iff in Wl. destruct Wl as [_ Wl]. exact (wf_all_vars _ _ _ Wl). }
    pose proof (reset_variables_spec is_alpha lower ps t U AV) as R1. fold t2 in R1.
    pose proof (spec_names_ok t Wt SY) as NOK.
    pose proof (spec_names_symv t SY) as SYMV.
    destruct (spec_names_facts is_alpha lower ps U t) as (NDV & _).
    split; [exact R1|]. split; [|split; [|split]].
    - unfold wf_tree in *. apply andb_true_iff in Wt. destruct Wt as [W1 W2]. simpl. rewrite W1. simpl.
      apply (rename_wf_c01 _ NOK SYMV). exact W2.
    - apply rename_wf_layout; try assumption.
      + intros a nv G E. subst nv. pose proof (SYMV a [] G). discriminate.
      + apply spec_names_domv.
    - unfold drop_empty_concepts, t2. simpl. f_equal. apply rename_dec_fixed.
      unfold drop_empty_concepts in D. destruct t as [n md]. simpl in *. injection D as E. exact E.
    - apply (reset_twice is_alpha lower ps U t t2 AV R1).
  Qed.
End RelabelFacts.

(* the relabel stage of the command *)
Definition relabel_only (o : cli_opts) : bool :=
  tree_opts_only o && match given (o_rearrange o) with None => true | _ => false end.
Definition cli_relabel_ok (o : cli_opts) (fmt : list piece) (t : tree) : bool :=
  relabel_ok (ov_is_alpha (o_ov o)) (ov_lower (o_ov o)) fmt t.
Definition cli_relabelled (o : cli_opts) (fmt : list piece) (t : tree) : tree :=
  mkTree (rename_node (spec_names (ov_is_alpha (o_ov o)) (ov_lower (o_ov o)) fmt t) (troot t)) (tmeta t).

Lemma relabel_is_reset : forall o fmt, o_make_variables o = Some fmt -> uses_index fmt = true ->
  relabel o = reset_variables (ov_is_alpha (o_ov o)) (ov_lower (o_ov o)) fmt.
Proof.
  intros o fmt E U. unfold relabel. rewrite E. destruct fmt as [|p ps]; [discriminate | reflexivity].
Qed.

(* per-tree fixed point for --rearrange (possibly absent) followed by --make-variables,
   given that the relabelled tree is left alone by the rearrange stage *)
Theorem relabel_tree_fixed_gen : forall o fmt t, tree_opts_only o = true ->
  o_make_variables o = Some fmt -> uses_index fmt = true ->
  wf_tree t = true -> wf_layout_tree (o_model o) t = true ->
  let t1 := RA o (drop_empty_concepts t) in
  cli_relabel_ok o fmt t1 = true ->
  let t2 := cli_relabelled o fmt t1 in
  RA o t2 = t2 ->
  pre_format o t = Ok t2 /\ wf_tree t2 = true /\ wf_layout_tree (o_model o) t2 = true /\
  pipeline o t2 = Ok (format (o_indent o) (o_compact o) t2).
Proof.
  intros o fmt t P E U Wt Wl t1 RO t2 FX.
  destruct (tree_opts_fields o P) as [_ [_ [_ [_ [_ [_ [Tr _]]]]]]].
  pose proof (dec_wf_tree t Wt) as Wt0. pose proof (dec_wf_layout _ t Wl) as Wl0.
  pose proof (dec_idem_tree t Wt) as D0.
  assert (Wt1 : wf_tree t1 = true) by (apply RA_wf_tree; exact Wt0).
  assert (Wl1 : wf_layout_tree (o_model o) t1 = true) by (apply RA_wf_layout; exact Wl0).
  assert (D1 : drop_empty_concepts t1 = t1) by (apply RA_dec_fixed; assumption).
  destruct (relabel_preserves _ _ fmt U (o_model o) t1 Wt1 Wl1 D1 RO) as (R1 & Wt2 & Wl2 & D2 & R2).
  fold (cli_relabelled o fmt t1) in R1, Wt2, Wl2, D2, R2. fold t2 in R1, Wt2, Wl2, D2, R2.
  split; [rewrite (tree_opts_pre_format o t P Wl), (relabel_is_reset o fmt E U); exact R1|].
  split; [exact Wt2|]. split; [exact Wl2|].
  rewrite (pipeline_tree o t2 Tr), (tree_opts_pre_format o t2 P Wl2), D2, FX, (relabel_is_reset o fmt E U), R2.
  reflexivity.
Qed.

Lemma relabel_only_RA : forall o t, relabel_only o = true -> RA o t = t.
Proof.
  intros o t H. unfold relabel_only in H. apply andb_true_iff in H. destruct H as [_ H].
  unfold RA. destruct (given (o_rearrange o)); [discriminate | reflexivity].
Qed.

(* TARGET 2: --make-variables FMT alone, any --indent / --compact, any model *)
Theorem make_variables_idempotent : forall o fmt s out code, relabel_only o = true ->
  o_make_variables o = Some fmt -> uses_index fmt = true ->
  Forall (fun t => wf_tree t = true /\ wf_layout_tree (o_model o) t = true /\
                   cli_relabel_ok o fmt (drop_empty_concepts t) = true) (fst (iterparse_str s)) ->
  run o [] s = Ok (out, code) -> run o [] out = Ok (out, code).
Proof.
  intros o fmt s out code P E U F R. pose proof P as P'. unfold relabel_only in P'.
  apply andb_true_iff in P'. destruct P' as [P1 _].
  destruct (tree_opts_fields o P1) as [_ [_ [_ [_ [_ [_ [Tr Ck]]]]]]].
  apply (stream_idempotent_from_trees o s out code Tr Ck); [|exact R].
  eapply Forall_impl; [|exact F]. intros t (Wt & Wl & RO).
  rewrite <- (relabel_only_RA o (drop_empty_concepts t) P) in RO.
  destruct (relabel_tree_fixed_gen o fmt t P1 E U Wt Wl RO (relabel_only_RA o _ P)) as (Q1 & Q2 & _ & Q3).
  eexists. split; [exact Q1|]. split; [exact Q2 | exact Q3].
Qed.

(* ================================================================== *)
(** * Part 9: --rearrange KEYS and --make-variables FMT together: relabelling a
      sorted tree keeps it sorted (the keys look at roles, and at whether a target
      is a variable, which an injective collision-free renaming does not change) *)

Lemma StronglySorted_map_keys : forall {A K} (leb : K -> K -> bool) (key1 key2 : A -> K) (f : A -> A) l,
  StronglySorted (key_le leb key1) l -> (forall b, In b l -> key2 (f b) = key1 b) ->
  StronglySorted (key_le leb key2) (map f l).
Proof.
  intros A K leb key1 key2 f l S. induction S as [|a l S IH F]; intros H; [constructor|].
  simpl. constructor; [apply IH; intros b I; apply H; right; exact I|].
  apply Forall_forall. intros y Iy. apply in_map_iff in Iy. destruct Iy as (b & <- & Ib).
  unfold key_le. rewrite (H a (or_introl eq_refl)), (H b (or_intror Ib)).
  exact (proj1 (Forall_forall _ _) F b Ib).
Qed.

Section SortedRename.
  Variable m : model.
  Variable s : sigma.
  Hypothesis NOK : names_ok s.
  Hypothesis NDV : NoDup (map snd s).
  Variable vars : list atom.
  Hypothesis DOMV : forall a, mem atom_eqb a vars = dmem atom_eqb a s.
  Context {K : Type}.
  Variable leb : K -> K -> bool.
  Variable k : str -> K.
  Variables cv cv' : list atom.
  Hypothesis CV : (cv = vars /\ cv' = map (rename_var s) vars) \/ (cv = [] /\ cv' = []).
  Notation rv := (rename_var s).
  Notation rb := (rename_branch s).

  Definition good_b (b : branch) : Prop :=
    str_eqb (fst b) SLASHS = false /\
    match snd b with
    | TAtom a => branch_free s (fst b) a = true
    | TNode n' => dmem atom_eqb (node_var n') s = true
    end.

  Lemma atom_free_nonstr : forall a, (forall t, a <> AStr t) -> atom_free s a = true /\ rv a = a.
  Proof.
    intros a H. split.
    - unfold atom_free. apply orb_true_iff. right. apply negb_true_iff.
      assert (G : forall l : list str, existsb (fun nv => atom_eqb a (AStr nv)) l = false); [|apply G].
      induction l as [|nv l IH]; [reflexivity|]. simpl. rewrite IH, orb_false_r.
      destruct a as [|t0|]; try reflexivity. exfalso. apply (H t0). reflexivity.
    - unfold rename_var. destruct (sig_get s a) as [nv|] eqn:G; [|reflexivity].
      destruct (key_is_plain s NOK _ _ G) as (t & E & _). exfalso. exact (H t E).
  Qed.

  Lemma mem_tilde_false : forall x, contains_char TILDE x = true ->
    mem atom_eqb (AStr x) (map rv vars) = false.
  Proof.
    intros x C. destruct (mem atom_eqb (AStr x) (map rv vars)) eqn:M; [|reflexivity]. exfalso.
    unfold mem in M. apply existsb_exists in M. destruct M as (y & Iy & Ey).
    apply in_map_iff in Iy. destruct Iy as (u & <- & Iu).
    assert (Du : dmem atom_eqb u s = true).
    { rewrite <- DOMV. unfold mem. apply existsb_exists. exists u. split; [exact Iu | apply atom_eqb_refl]. }
    unfold rename_var, dmem, sig_get in *. destruct (dget atom_eqb u s) as [nv|] eqn:G; [|discriminate].
    destruct (val_is_plain s NOK u nv G) as [NT _]. simpl in Ey. apply str_eqb_eq in Ey. subst x.
    unfold notilde in NT. congruence.
  Qed.

  Lemma crit1_rename : forall b, good_b b -> crit1 cv' (rb b) = crit1 cv b.
  Proof.
    intros [r tgt] [SL G]. simpl in SL, G.
    destruct CV as [[-> ->]|[-> ->]]; [|destruct tgt; reflexivity].
    unfold rename_branch, crit1. simpl fst. simpl snd. destruct tgt as [a|n'].
    - destruct a as [|t|x z].
      + destruct (atom_free_nonstr ANone) as [AF RV]; [intros t; discriminate|].
        change (rename_atom s r ANone) with ANone. rewrite <- RV at 1. apply (mem_vars_rename s vars DOMV _ AF).
      + destruct (contains_char TILDE t) eqn:CT.
        * assert (M1 : mem atom_eqb (AStr t) vars = false).
          { rewrite DOMV. unfold dmem. destruct (dget atom_eqb (AStr t) s) as [nv|] eqn:G1; [|reflexivity]. exfalso.
            destruct (key_is_plain s NOK _ _ G1) as (t' & E & NT & _). inversion E; subst t'.
            unfold notilde in NT. congruence. }
          rewrite M1. unfold rename_atom, ref_target, ref_parts. rewrite SL.
          destruct (partition [TILDE] t) as [[v f] aln] eqn:P.
          destruct (sig_get s (AStr v)) as [nv|]; [|apply mem_tilde_false; exact CT].
          apply mem_tilde_false. rewrite (partition_found _ _ _ _ CT P).
          rewrite has_tilde_app. apply orb_true_iff. right. reflexivity.
        * assert (RA' : rename_atom s r (AStr t) = rv (AStr t)).
          { unfold rename_atom, ref_target, ref_parts. rewrite SL, (partition_notilde t CT). simpl.
            unfold rename_var. destruct (sig_get s (AStr t)); [rewrite app_nil_r|]; reflexivity. }
          rewrite RA'. apply (mem_vars_rename s vars DOMV).
          unfold branch_free in G. rewrite SL in G. unfold process_atomic in G. rewrite CT in G. exact G.
      + destruct (atom_free_nonstr (ANum x z)) as [AF RV]; [intros t; discriminate|].
        change (rename_atom s r (ANum x z)) with (ANum x z). rewrite <- RV at 1.
        apply (mem_vars_rename s vars DOMV _ AF).
    - rewrite node_var_rename. apply (mem_vars_rename s vars DOMV). apply dmem_free. exact G.
  Qed.

  Lemma bkey_rename : forall b, good_b b -> bkey k cv' (rb b) = bkey k cv b.
  Proof. intros b G. unfold bkey. rewrite (crit1_rename b G). reflexivity. Qed.

  Lemma good_all : forall var l, wf_bs m vars var false l = true -> no_collision_bs s l = true ->
    (forall n', In n' (nodes_bs l) -> dmem atom_eqb (node_var n') s = true) -> Forall good_b l.
  Proof.
    intros var l. induction l as [|[r [a|n']] l IH]; intros W NC DN; [constructor| |];
      rewrite wf_bs_cons in W; apply andb_true_iff in W; destruct W as [W1 W2];
      simpl in NC; apply andb_true_iff in NC; destruct NC as [NC1 NC2]; simpl in DN;
      pose proof (wf_branch_false_noslash _ _ _ _ _ W1) as SL.
    - constructor; [split; [exact SL | exact NC1] | apply IH; assumption].
    - constructor; [split; [exact SL|] | apply IH; try assumption; intros n0 I; apply DN; apply in_or_app; right; exact I].
      simpl. apply DN. apply in_or_app. left.
      unfold Configure_fast.wf_branch in W1. rewrite SL in W1.
      apply andb_true_iff in W1. destruct W1 as [_ W1]. apply andb_true_iff in W1. destruct W1 as [WN _].
      pose proof (wf_node_var_ok _ _ _ WN) as VO. destruct n' as [v' bs']. simpl in VO. rewrite nodes_of_eq.
      destruct v' as [|[|c x]|]; try discriminate. left. reflexivity.
  Qed.

  Definition sorted_rename (n : node) : Prop :=
    WfLayout.wf_node m vars n = true -> no_collision s n = true -> in_dom s n ->
    all_sorted leb k cv n -> all_sorted leb k cv' (rename_node s n).

  Lemma go_sorted_rename : forall var l, Forall (branch_ok sorted_rename) l ->
    wf_bs m vars var false l = true -> no_collision_bs s l = true ->
    (forall n', In n' (nodes_bs l) -> dmem atom_eqb (node_var n') s = true) ->
    go_sorted leb k cv false l -> go_sorted leb k cv' false (map rb l).
  Proof.
    intros var l F. induction F as [|[r [a|n']] l Hb F IH]; intros W NC DN GS; [exact I| |];
      rewrite wf_bs_cons in W; apply andb_true_iff in W; destruct W as [W1 W2];
      simpl in NC; apply andb_true_iff in NC; destruct NC as [NC1 NC2]; simpl in DN;
      cbn [go_sorted andb] in GS; destruct GS as [G1 G2]; rewrite map_cons; cbn [go_sorted andb].
    - split; [exact I | apply IH; assumption].
    - split; [|apply IH; try assumption; intros n0 I0; apply DN; apply in_or_app; right; exact I0].
      unfold rename_branch, nested_sorted. simpl. unfold nested_sorted in G1. simpl in G1.
      pose proof (wf_branch_false_noslash _ _ _ _ _ W1) as SL.
      unfold Configure_fast.wf_branch in W1. rewrite SL in W1.
      apply andb_true_iff in W1. destruct W1 as [_ W1]. apply andb_true_iff in W1. destruct W1 as [WN _].
      unfold branch_ok in Hb. simpl in Hb. apply Hb; try assumption.
      intros n0 I0. apply DN. apply in_or_app. left. exact I0.
  Qed.

  Theorem all_sorted_rename : forall n, sorted_rename n.
  Proof.
    induction n as [v bs IHbs] using node_ind'. intros W NC DN AS.
    rewrite wf_node_eq in W. apply andb_true_iff in W. destruct W as [VO W].
    rewrite no_collision_eq in NC. destruct (in_dom_node s v bs VO DN) as [DV DB].
    apply (proj1 (all_sorted_eq leb k cv v bs)) in AS. destruct AS as [RS GS].
    rewrite rename_node_eq. apply (proj2 (all_sorted_eq leb k cv' _ _)).
    destruct (wf_bs_true_cases m vars v bs W) as [[a [bs' [EB [AT [CO W']]]]]|W'].
    - subst bs. inversion IHbs as [|? ? _ IH']; subst.
      assert (NC2 : no_collision_bs s bs' = true).
      { change (no_collision_bs s ((SLASHS, TAtom a) :: bs'))
          with (branch_free s SLASHS a && no_collision_bs s bs') in NC.
        apply andb_true_iff in NC. tauto. }
      simpl in DB.
      rewrite map_cons. change (rb (SLASHS, TAtom a)) with (SLASHS, TAtom (rename_atom s SLASHS a)).
      rewrite rename_atom_slash.
      unfold rest_sorted, split_concept in *.
      replace (str_eqb SLASHS SLASHS) with true in * by reflexivity. simpl snd in *.
      cbn [go_sorted andb] in GS. destruct GS as [_ GS].
      split.
      + apply (StronglySorted_map_keys _ (bkey k cv) (bkey k cv') rb bs' RS).
        intros b Ib. apply bkey_rename.
        exact (proj1 (Forall_forall _ _) (good_all v bs' W' NC2 DB) b Ib).
      + cbn [go_sorted andb]. replace (str_eqb SLASHS SLASHS) with true by reflexivity.
        split; [exact I|]. apply (go_sorted_rename v bs' IH' W' NC2 DB GS).
    - assert (SP : forall l, wf_bs m vars v false l = true ->
                   snd (split_concept (map rb l)) = map rb l /\ snd (split_concept l) = l).
      { intros [|[r t] l] Wl; [split; reflexivity|]. rewrite wf_bs_cons in Wl.
        apply andb_true_iff in Wl. destruct Wl as [W1 _].
        pose proof (wf_branch_false_noslash _ _ _ _ _ W1) as SL.
        rewrite map_cons. unfold rename_branch at 1. simpl fst. unfold split_concept. rewrite SL. split; reflexivity. }
      destruct (SP bs W') as [SP1 SP2]. unfold rest_sorted in *. rewrite SP1. rewrite SP2 in RS.
      split.
      + apply (StronglySorted_map_keys _ (bkey k cv) (bkey k cv') rb bs RS).
        intros b Ib. apply bkey_rename.
        exact (proj1 (Forall_forall _ _) (good_all v bs W' NC DB) b Ib).
      + assert (GF : forall l, go_sorted leb k cv true l -> wf_bs m vars v false l = true -> go_sorted leb k cv false l).
        { intros [|[r t] l] G Wl; [exact I|]. rewrite wf_bs_cons in Wl.
          apply andb_true_iff in Wl. destruct Wl as [W1 _].
          pose proof (wf_branch_false_noslash _ _ _ _ _ W1) as SL.
          cbn [go_sorted] in G |- *. rewrite SL in G. rewrite andb_false_r in G. exact G. }
        pose proof (go_sorted_rename v bs IHbs W' NC DB (GF bs GS W')) as G2.
        destruct bs as [|[r t] bs0]; [exact I|].
        rewrite map_cons in *.
        change (rb (r, t)) with (r, snd (rb (r, t))) in *.
        cbn [go_sorted andb] in G2 |- *. destruct G2 as [G2a G2b]. split; [|exact G2b].
        destruct (str_eqb r SLASHS); [exact I | exact G2a].
  Qed.
End SortedRename.

Lemma RA_some : forall o keys t, given (o_rearrange o) = Some keys ->
  RA o t = rearrange sk_leb2 (Some (sort_key (o_model o) (key_methods keys))) (attributes_first keys) t.
Proof. intros o keys t H. unfold RA. rewrite H. apply rearrange_cli_leb. Qed.

(* the relabelled sorted tree is left alone by the rearrange stage *)
Theorem RA_relabelled_fixed : forall o fmt t0, uses_index fmt = true ->
  wf_tree t0 = true -> wf_layout_tree (o_model o) t0 = true ->
  cli_relabel_ok o fmt (RA o t0) = true ->
  RA o (cli_relabelled o fmt (RA o t0)) = cli_relabelled o fmt (RA o t0).
Proof.
  intros o fmt t0 U Wt0 Wl0 RO.
  destruct (given (o_rearrange o)) as [keys|] eqn:GK; [|unfold RA at 1; rewrite GK; reflexivity].
  pose proof (RA_wf_tree o t0 Wt0) as Wt1. pose proof (RA_wf_layout o _ t0 Wl0) as Wl1.
  rewrite (RA_some o keys _ GK). pose proof (RA_some o keys t0 GK) as E1. rewrite rearrange_eq in E1.
  set (t1 := RA o t0) in *.
  set (k := sort_key (o_model o) (key_methods keys)) in *. set (af := attributes_first keys) in *.
  set (ia := ov_is_alpha (o_ov o)) in *. set (lo := ov_lower (o_ov o)) in *.
  unfold cli_relabel_ok, relabel_ok in RO. fold ia lo in RO.
  apply andb_true_iff in RO. destruct RO as [SY NC].
  unfold cli_relabelled. fold ia lo. set (s := spec_names ia lo fmt t1) in *.
  pose proof (spec_names_ok ia lo fmt U t1 Wt1 SY) as NOK.
  destruct (spec_names_facts ia lo fmt U t1) as (NDV & _). fold s in NDV.
  pose proof (spec_names_domv ia lo fmt U t1) as DOMV1. fold s in DOMV1.
  assert (DN : in_dom s (troot t1)).
  { intros n' I. rewrite <- DOMV1. unfold mem. apply existsb_exists. exists (node_var n').
    split; [unfold tree_vars; apply in_map; exact I | apply atom_eqb_refl]. }
  assert (W2 : WfLayout.wf_node (o_model o) (tree_vars (troot t1)) (troot t1) = true).
  { unfold wf_layout_tree in Wl1. apply andb_true_iff in Wl1. destruct Wl1 as [Wl1 _].
    apply andb_true_iff in Wl1. tauto. }
  assert (AS : all_sorted sk_leb2 k (if af then tree_vars (troot t0) else []) (troot t1)).
  { rewrite E1. simpl troot. apply rearrange_all_sorted; [exact sk_leb2_total | exact sk_leb2_transitive]. }
  rewrite rearrange_eq. simpl troot. simpl tmeta. f_equal.
  destruct af.
  - set (V0 := tree_vars (troot t0)) in *.
    assert (PV : Permutation (tree_vars (troot t1)) V0).
    { rewrite E1. simpl troot.
      destruct (rearranged_same_content _ _ (rn_rearranged sk_leb2 k V0 (troot t0))) as (_ & _ & P & _). exact P. }
    assert (DOMV0 : forall a, mem atom_eqb a V0 = dmem atom_eqb a s).
    { intros a. rewrite <- (mem_perm a _ _ PV). apply DOMV1. }
    rewrite (tree_vars_rename s NOK).
    rewrite (rn_vars_ext sk_leb2 k (map (rename_var s) (tree_vars (troot t1))) (map (rename_var s) V0));
      [|intros a; apply mem_perm; apply Permutation_map; exact PV].
    apply rn_fixed; [exact sk_leb2_total | exact sk_leb2_transitive|].
    apply (all_sorted_rename (o_model o) s NOK V0 DOMV0 sk_leb2 k V0 (map (rename_var s) V0)
             (or_introl (conj eq_refl eq_refl))); try assumption.
    rewrite (wf_node_vars_ext (o_model o) V0 (tree_vars (troot t1))); [exact W2|].
    intros a. symmetry. apply mem_perm. exact PV.
  - apply rn_fixed; [exact sk_leb2_total | exact sk_leb2_transitive|].
    apply (all_sorted_rename (o_model o) s NOK (tree_vars (troot t1)) DOMV1 sk_leb2 k [] []
             (or_intror (conj eq_refl eq_refl))); assumption.
Qed.

(* per-tree fixed point for --rearrange KEYS --make-variables FMT *)
Theorem rearrange_relabel_tree_fixed : forall o fmt t, tree_opts_only o = true ->
  o_make_variables o = Some fmt -> uses_index fmt = true ->
  wf_tree t = true -> wf_layout_tree (o_model o) t = true ->
  cli_relabel_ok o fmt (RA o (drop_empty_concepts t)) = true ->
  let t2 := cli_relabelled o fmt (RA o (drop_empty_concepts t)) in
  pre_format o t = Ok t2 /\ wf_tree t2 = true /\ wf_layout_tree (o_model o) t2 = true /\
  pipeline o t2 = Ok (format (o_indent o) (o_compact o) t2).
Proof.
  intros o fmt t P E U Wt Wl RO t2.
  apply (relabel_tree_fixed_gen o fmt t P E U Wt Wl RO).
  apply RA_relabelled_fixed; [exact U | apply dec_wf_tree; exact Wt | apply dec_wf_layout; exact Wl | exact RO].
Qed.

(* TARGET 3: --rearrange KEYS (possibly absent) and --make-variables FMT together *)
Theorem rearrange_make_variables_idempotent : forall o fmt s out code, tree_opts_only o = true ->
  o_make_variables o = Some fmt -> uses_index fmt = true ->
  Forall (fun t => wf_tree t = true /\ wf_layout_tree (o_model o) t = true /\
                   cli_relabel_ok o fmt (RA o (drop_empty_concepts t)) = true) (fst (iterparse_str s)) ->
  run o [] s = Ok (out, code) -> run o [] out = Ok (out, code).
Proof.
  intros o fmt s out code P E U F R.
  destruct (tree_opts_fields o P) as [_ [_ [_ [_ [_ [_ [Tr Ck]]]]]]].
  apply (stream_idempotent_from_trees o s out code Tr Ck); [|exact R].
  eapply Forall_impl; [|exact F]. intros t (Wt & Wl & RO).
  destruct (rearrange_relabel_tree_fixed o fmt t P E U Wt Wl RO) as (Q1 & Q2 & _ & Q3).
  eexists. split; [exact Q1|]. split; [exact Q2 | exact Q3].
Qed.

(* ================================================================== *)
(** * Non-vacuity: real runs of the tool (texts recorded from /repo)

    input (two graphs, metadata, an empty concept slot, an inverted re-entrancy,
    attributes between edges):
      # ::id 1
      (a / alpha :op10 (b / beta :mod 7 :ARG1-of a :ARG0 (c /)) :op2 b :polarity - :ARG0-of (d / delta))

      (x / xx :b (y / yy) :a 1) *)
Definition ex20b_in : str := [35;32;58;58;105;100;32;49;10;40;97;32;47;32;97;108;112;104;97;32;58;111;112;49;48;32;40;98;32;47;32;98;101;116;97;32;58;109;111;100;32;55;32;58;65;82;71;49;45;111;102;32;97;32;58;65;82;71;48;32;40;99;32;47;41;41;32;58;111;112;50;32;98;32;58;112;111;108;97;114;105;116;121;32;45;32;58;65;82;71;48;45;111;102;32;40;100;32;47;32;100;101;108;116;97;41;41;10;10;40;120;32;47;32;120;120;32;58;98;32;40;121;32;47;32;121;121;41;32;58;97;32;49;41]%N.
Definition ex20b_ra_out : str := [35;32;58;58;105;100;32;49;10;40;97;32;47;32;97;108;112;104;97;10;32;32;32;58;112;111;108;97;114;105;116;121;32;45;10;32;32;32;58;111;112;50;32;98;10;32;32;32;58;111;112;49;48;32;40;98;32;47;32;98;101;116;97;10;32;32;32;32;32;32;32;32;32;32;32;32;58;109;111;100;32;55;10;32;32;32;32;32;32;32;32;32;32;32;32;58;65;82;71;48;32;40;99;41;10;32;32;32;32;32;32;32;32;32;32;32;32;58;65;82;71;49;45;111;102;32;97;41;10;32;32;32;58;65;82;71;48;45;111;102;32;40;100;32;47;32;100;101;108;116;97;41;41;10;10;40;120;32;47;32;120;120;10;32;32;32;58;97;32;49;10;32;32;32;58;98;32;40;121;32;47;32;121;121;41;41;10]%N.
Definition ex20b_mv_out : str := [35;32;58;58;105;100;32;49;10;40;97;32;47;32;97;108;112;104;97;10;32;32;32;58;111;112;49;48;32;40;98;32;47;32;98;101;116;97;10;32;32;32;32;32;32;32;32;32;32;32;32;58;109;111;100;32;55;10;32;32;32;32;32;32;32;32;32;32;32;32;58;65;82;71;49;45;111;102;32;97;10;32;32;32;32;32;32;32;32;32;32;32;32;58;65;82;71;48;32;40;95;41;41;10;32;32;32;58;111;112;50;32;98;10;32;32;32;58;112;111;108;97;114;105;116;121;32;45;10;32;32;32;58;65;82;71;48;45;111;102;32;40;100;32;47;32;100;101;108;116;97;41;41;10;10;40;120;32;47;32;120;120;10;32;32;32;58;98;32;40;121;32;47;32;121;121;41;10;32;32;32;58;97;32;49;41;10]%N.
Definition ex20b_rm_out : str := [35;32;58;58;105;100;32;49;10;40;120;48;32;47;32;97;108;112;104;97;32;58;112;111;108;97;114;105;116;121;32;45;32;58;65;82;71;48;45;111;102;32;40;120;49;32;47;32;100;101;108;116;97;41;32;58;111;112;50;32;120;50;32;58;111;112;49;48;32;40;120;50;32;47;32;98;101;116;97;32;58;109;111;100;32;55;32;58;65;82;71;48;32;40;120;51;41;32;58;65;82;71;49;45;111;102;32;120;48;41;41;10;10;40;120;48;32;47;32;120;120;32;58;97;32;49;32;58;98;32;40;120;49;32;47;32;121;121;41;41;10]%N.

(* --rearrange attributes-first,canonical,inverted-last *)
Definition ex20b_ra : cli_opts :=
  mkOpts default_model false false false false false None
         (Some [UAttributesFirst; UCanonical; UInvertedLast]) None (Some (-1)%Z) false false false [].
(* --make-variables {prefix}{j} *)
Definition ex20b_mv : cli_opts :=
  mkOpts default_model false false false false false None None (Some [Prefix; Jdx]) (Some (-1)%Z) false false false [].
(* --indent no --compact --rearrange attributes-first,alphanumeric --make-variables x{i} *)
Definition ex20b_rm : cli_opts :=
  mkOpts default_model false false false false false None
         (Some [UAttributesFirst; UAlphanumeric]) (Some [Lit [120%N]; Idx]) None true false false [].

Example rearrange_nonvacuous :
  rearrange_only ex20b_ra = true /\
  forallb (fun t => wf_tree t && wf_layout_tree (o_model ex20b_ra) t) (fst (iterparse_str ex20b_in)) = true /\
  length (fst (iterparse_str ex20b_in)) = 2 /\
  run ex20b_ra [] ex20b_in = Ok (ex20b_ra_out, false) /\
  run ex20b_ra [] ex20b_ra_out = Ok (ex20b_ra_out, false) /\
  ex20b_in <> ex20b_ra_out.
Proof. repeat split; try (vm_compute; reflexivity). vm_compute. discriminate. Qed.

Example make_variables_nonvacuous :
  relabel_only ex20b_mv = true /\ o_make_variables ex20b_mv = Some [Prefix; Jdx] /\
  uses_index [Prefix; Jdx] = true /\
  forallb (fun t => wf_tree t && wf_layout_tree (o_model ex20b_mv) t &&
                    cli_relabel_ok ex20b_mv [Prefix; Jdx] (drop_empty_concepts t))
          (fst (iterparse_str ex20b_in)) = true /\
  run ex20b_mv [] ex20b_in = Ok (ex20b_mv_out, false) /\
  run ex20b_mv [] ex20b_mv_out = Ok (ex20b_mv_out, false) /\
  ex20b_in <> ex20b_mv_out.
Proof. repeat split; try (vm_compute; reflexivity). vm_compute. discriminate. Qed.

Example rearrange_make_variables_nonvacuous :
  tree_opts_only ex20b_rm = true /\ o_make_variables ex20b_rm = Some [Lit [120%N]; Idx] /\
  uses_index [Lit [120%N]; Idx] = true /\
  forallb (fun t => wf_tree t && wf_layout_tree (o_model ex20b_rm) t &&
                    cli_relabel_ok ex20b_rm [Lit [120%N]; Idx] (RA ex20b_rm (drop_empty_concepts t)))
          (fst (iterparse_str ex20b_in)) = true /\
  run ex20b_rm [] ex20b_in = Ok (ex20b_rm_out, false) /\
  run ex20b_rm [] ex20b_rm_out = Ok (ex20b_rm_out, false) /\
  ex20b_mv_out <> ex20b_rm_out.
Proof. repeat split; try (vm_compute; reflexivity). vm_compute. discriminate. Qed.

(* relabelling twice, on the tree of C10b's example *)
Example reset_twice_nonvacuous :
  all_vars (troot tree_bark) = true /\
  reset_variables latin1_is_alpha latin1_lower fmt_prefix_j tree_bark = Ok tree_bark_reset /\
  reset_variables latin1_is_alpha latin1_lower fmt_prefix_j tree_bark_reset = Ok tree_bark_reset /\
  tree_bark <> tree_bark_reset.
Proof. repeat split; try (vm_compute; reflexivity). vm_compute. discriminate. Qed.
