(** Vocabulary of the GENERAL idempotence certificate of C20 (Properties/C20c.v):
    the reify / dereify options together with --rearrange and --make-variables.
    Definitions only (extracted for the harness in ExtractCert/ExCert.v; it lives
    under Proofs/ because RA and cli_relabel_ok are defined in
    Proofs/CliIdem_lemmas.v); the theorems are in Proofs/NormIdem_lemmas.v. *)
From PM Require Export Spec.Idle Proofs.CliIdem_lemmas.

(* no node starts with an empty concept slot: drop_empty_concepts is the identity *)
Fixpoint concepts_written (n : node) : bool :=
  match n with
  | Node v bs =>
      let fix go (bs : list branch) : bool :=
        match bs with
        | [] => true
        | (r, TAtom a) :: bs' => go bs'
        | (r, TNode n') :: bs' => concepts_written n' && go bs'
        end in
      match bs with
      | (r, TAtom a) :: _ => negb (str_eqb r SLASHS && missing_concept a)
      | _ => true
      end && go bs
  end.

(* the tree the layout stage returns, before --rearrange / --make-variables *)
Definition layout_tree_of (o : cli_opts) : stage tree tree :=
  normalise o >=> annotate o >=> layout o.

Definition relabel_certified (o : cli_opts) (t0 : tree) : bool :=
  match o_make_variables o with
  | Some (p :: ps) => uses_index (p :: ps) && cli_relabel_ok o (p :: ps) (RA o t0)
  | _ => true
  end.

(* per input tree: the layout output t0 is a well-formed layout tree without empty
   concept slots, C10's provisos hold for the names --make-variables gives it, and
   what is finally written (t1) leaves the reify / dereify options nothing to do *)
Definition general_idle (o : cli_opts) (t : tree) : bool :=
  match layout_tree_of o t with
  | Ok t0 =>
      wf_tree t0 && wf_layout_tree (o_model o) t0 && concepts_written (troot t0) &&
      relabel_certified o t0 &&
      match pre_format o t with
      | Ok t1 =>
          root_has_var t1 &&
          match interpret (o_model o) t1 with Ok g1 => idle_on o g1 | _ => false end
      | _ => false
      end
  | _ => false
  end.

Definition general_certificate (o : cli_opts) (s : str) : bool :=
  tree_opts_only (strip_reify o) && forallb (general_idle o) (fst (iterparse_str s)).

(* either certificate *)
Definition any_certificate (o : cli_opts) (s : str) : bool :=
  idempotence_certificate o s || general_certificate o s.
