(** Proofs for C16 (model checking: Model.errors, _dfs, --check). *)
From PM Require Import Spec.Connectivity Impl.Errors Impl.Interpret Proofs.Model_lemmas.
From Coq Require Import Lia Arith.

(* ------------------------------------------------------------------ *)
(** * Key equalities are equivalences *)

Lemma atom_eqb_refl : forall a, atom_eqb a a = true.
Proof. destruct a; simpl; auto using str_eqb_refl. Qed.

Lemma atom_eqb_sym : forall a b, atom_eqb a b = atom_eqb b a.
Proof.
  assert (S : forall x y, str_eqb x y = str_eqb y x).
  { intros x y. destruct (str_eqb x y) eqn:E.
    - apply str_eqb_eq in E. subst. symmetry. apply str_eqb_refl.
    - destruct (str_eqb y x) eqn:E2; [|reflexivity].
      apply str_eqb_eq in E2. subst. rewrite str_eqb_refl in E. discriminate. }
  destruct a, b; simpl; auto.
Qed.

Lemma atom_eqb_trans : forall a b c,
  atom_eqb a b = true -> atom_eqb b c = true -> atom_eqb a c = true.
Proof.
  destruct a, b, c; simpl; intros H1 H2; try discriminate; auto;
    apply str_eqb_eq in H1; apply str_eqb_eq in H2; subst; apply str_eqb_refl.
Qed.

Lemma atom_eqb_str : forall s b, atom_eqb (AStr s) b = true -> b = AStr s.
Proof. intros s [|x|x z]; simpl; intro H; try discriminate. apply str_eqb_eq in H. subst. reflexivity. Qed.

Lemma triple_eqb_refl : forall t, triple_eqb t t = true.
Proof. intros t. unfold triple_eqb. rewrite !atom_eqb_refl, str_eqb_refl. reflexivity. Qed.

Lemma triple_eqb_sym : forall a b, triple_eqb a b = triple_eqb b a.
Proof.
  intros a b. unfold triple_eqb.
  rewrite (atom_eqb_sym (tsrc a)), (atom_eqb_sym (ttgt a)).
  f_equal. f_equal. destruct (str_eqb (trole a) (trole b)) eqn:E.
  - apply str_eqb_eq in E. rewrite E. symmetry. apply str_eqb_refl.
  - destruct (str_eqb (trole b) (trole a)) eqn:E2; [|reflexivity].
    apply str_eqb_eq in E2. rewrite E2, str_eqb_refl in E. discriminate.
Qed.

Lemma triple_eqb_parts : forall a b, triple_eqb a b = true <->
  atom_eqb (tsrc a) (tsrc b) = true /\ trole a = trole b /\ atom_eqb (ttgt a) (ttgt b) = true.
Proof.
  intros a b. unfold triple_eqb. rewrite !andb_true_iff, str_eqb_eq. tauto.
Qed.

Lemma triple_eqb_trans : forall a b c,
  triple_eqb a b = true -> triple_eqb b c = true -> triple_eqb a c = true.
Proof.
  intros a b c H1 H2. apply triple_eqb_parts in H1. apply triple_eqb_parts in H2.
  apply triple_eqb_parts. destruct H1 as (A1 & B1 & C1), H2 as (A2 & B2 & C2).
  repeat split; [eapply atom_eqb_trans; eauto | congruence | eapply atom_eqb_trans; eauto].
Qed.

Lemma ctx_eqb_refl : forall k, ctx_eqb k k = true.
Proof. destruct k; simpl; auto using triple_eqb_refl. Qed.
Lemma ctx_eqb_sym : forall a b, ctx_eqb a b = ctx_eqb b a.
Proof. destruct a, b; simpl; auto using triple_eqb_sym. Qed.
Lemma ctx_eqb_trans : forall a b c,
  ctx_eqb a b = true -> ctx_eqb b c = true -> ctx_eqb a c = true.
Proof. destruct a, b, c; simpl; intros; try discriminate; eauto using triple_eqb_trans. Qed.

(* ------------------------------------------------------------------ *)
(** * Generic facts about insertion-ordered dictionaries keyed up to an equivalence *)

Definition is_equiv {K : Type} (keq : K -> K -> bool) : Prop :=
  (forall k, keq k k = true) /\ (forall a b, keq a b = keq b a) /\
  (forall a b c, keq a b = true -> keq b c = true -> keq a c = true).

Lemma atom_equiv : is_equiv atom_eqb.
Proof. repeat split; [apply atom_eqb_refl|apply atom_eqb_sym|apply atom_eqb_trans]. Qed.
Lemma triple_equiv : is_equiv triple_eqb.
Proof. repeat split; [apply triple_eqb_refl|apply triple_eqb_sym|apply triple_eqb_trans]. Qed.
Lemma ctx_equiv : is_equiv ctx_eqb.
Proof. repeat split; [apply ctx_eqb_refl|apply ctx_eqb_sym|apply ctx_eqb_trans]. Qed.

Section DictFacts.
  Context {K V : Type} (keq : K -> K -> bool).
  Hypothesis HE : is_equiv keq.
  Let keq_refl : forall k, keq k k = true := proj1 HE.
  Let keq_sym : forall a b, keq a b = keq b a := proj1 (proj2 HE).
  Let keq_trans : forall a b c, keq a b = true -> keq b c = true -> keq a c = true := proj2 (proj2 HE).

  Lemma keq_congr : forall a b c, keq a b = true -> keq a c = keq b c.
  Proof.
    intros a b c H. destruct (keq b c) eqn:E.
    - eapply keq_trans; eauto.
    - destruct (keq a c) eqn:E2; [|reflexivity].
      rewrite keq_sym in H. rewrite (keq_trans _ _ _ H E2) in E. discriminate.
  Qed.

  Lemma dget_congr : forall (d : dict K V) a b, keq a b = true -> dget keq a d = dget keq b d.
  Proof.
    induction d as [|[k v] d IH]; intros a b H; simpl; [reflexivity|].
    rewrite (keq_congr a b k H). destruct (keq b k); [reflexivity|]. apply IH; exact H.
  Qed.

  Lemma dget_dset_same : forall (d : dict K V) k k' v, keq k' k = true ->
    dget keq k' (dset keq k v d) = Some v.
  Proof.
    induction d as [|[k0 v0] d IH]; intros k k' v H; simpl.
    - rewrite H. reflexivity.
    - destruct (keq k k0) eqn:E; simpl.
      + rewrite (keq_trans _ _ _ H E). reflexivity.
      + assert (E2 : keq k' k0 = false).
        { rewrite (keq_congr k' k k0 H). exact E. }
        rewrite E2. apply IH. exact H.
  Qed.

  Lemma dget_dset_other : forall (d : dict K V) k k' v, keq k' k = false ->
    dget keq k' (dset keq k v d) = dget keq k' d.
  Proof.
    induction d as [|[k0 v0] d IH]; intros k k' v H; simpl.
    - rewrite H. reflexivity.
    - destruct (keq k k0) eqn:E; simpl.
      + assert (E2 : keq k' k0 = false).
        { destruct (keq k' k0) eqn:E3; [|reflexivity].
          rewrite keq_sym in E. rewrite (keq_trans _ _ _ E3 E) in H. discriminate. }
        rewrite E2. reflexivity.
      + destruct (keq k' k0); [reflexivity|]. apply IH. exact H.
  Qed.

  Lemma dkeys_dset_mem : forall (d : dict K V) k v,
    dmem keq k d = true -> dkeys (dset keq k v d) = dkeys d.
  Proof.
    induction d as [|[k0 v0] d IH]; intros k v H; unfold dmem in *; simpl in *.
    - discriminate.
    - destruct (keq k k0) eqn:E; simpl; [reflexivity|]. f_equal. apply IH. exact H.
  Qed.

  Lemma dkeys_dset_new : forall (d : dict K V) k v,
    dmem keq k d = false -> dkeys (dset keq k v d) = dkeys d ++ [k].
  Proof.
    induction d as [|[k0 v0] d IH]; intros k v H; unfold dmem in *; simpl in *.
    - reflexivity.
    - destruct (keq k k0) eqn:E; simpl; [discriminate|]. f_equal. apply IH. exact H.
  Qed.

  Lemma dmem_iff_keys : forall (d : dict K V) k, dmem keq k d = mem keq k (dkeys d).
  Proof.
    induction d as [|[k0 v0] d IH]; intros k; unfold dmem in *; simpl; [reflexivity|].
    destruct (keq k k0); simpl; [reflexivity|]. apply IH.
  Qed.

  Lemma dget_in : forall (d : dict K V) k v, dget keq k d = Some v ->
    exists k0, In (k0, v) d /\ keq k k0 = true.
  Proof.
    induction d as [|[k0 v0] d IH]; intros k v H; simpl in H; [discriminate|].
    destruct (keq k k0) eqn:E.
    - inversion H; subst. exists k0. split; [left; reflexivity|exact E].
    - destruct (IH _ _ H) as (k1 & I1 & E1). exists k1. split; [right; exact I1|exact E1].
  Qed.

  (* keys pairwise inequivalent *)
  Fixpoint keys_nodup (l : list K) : Prop :=
    match l with
    | [] => True
    | k :: l' => mem keq k l' = false /\ keys_nodup l'
    end.

  Lemma in_dget : forall (d : dict K V) k v, keys_nodup (dkeys d) -> In (k, v) d ->
    dget keq k d = Some v.
  Proof.
    induction d as [|[k0 v0] d IH]; intros k v ND I; simpl in *; [contradiction|].
    destruct ND as [N1 N2]. destruct I as [I|I].
    - inversion I; subst. rewrite keq_refl. reflexivity.
    - destruct (keq k k0) eqn:E.
      + exfalso. assert (M : mem keq k0 (dkeys d) = true).
        { unfold mem. apply existsb_exists. exists k. split.
          - apply in_map_iff. exists (k, v). split; [reflexivity|exact I].
          - rewrite keq_sym. exact E. }
        rewrite M in N1. discriminate.
      + apply IH; assumption.
  Qed.

  Lemma mem_app : forall k (a b : list K), mem keq k (a ++ b) = mem keq k a || mem keq k b.
  Proof. intros. unfold mem. apply existsb_app. Qed.

  Lemma mem_congr : forall (l : list K) a b, keq a b = true -> mem keq a l = mem keq b l.
  Proof.
    induction l as [|x l IH]; intros a b H; simpl; [reflexivity|].
    rewrite (keq_congr a b x H). f_equal. apply IH. exact H.
  Qed.

  Lemma keys_nodup_snoc : forall (l : list K) k, keys_nodup l -> mem keq k l = false ->
    keys_nodup (l ++ [k]).
  Proof.
    induction l as [|x l IH]; intros k ND M; simpl in *.
    - split; [reflexivity|exact I].
    - destruct ND as [N1 N2]. destruct (keq k x) eqn:E; [discriminate|]. simpl in M.
      split.
      + rewrite mem_app, N1. simpl. rewrite keq_sym, E. reflexivity.
      + apply IH; assumption.
  Qed.

  Lemma keys_nodup_dset : forall (d : dict K V) k v, keys_nodup (dkeys d) ->
    keys_nodup (dkeys (dset keq k v d)).
  Proof.
    intros d k v ND. destruct (dmem keq k d) eqn:M.
    - rewrite dkeys_dset_mem; assumption.
    - rewrite dkeys_dset_new by assumption. apply keys_nodup_snoc; [exact ND|].
      rewrite <- dmem_iff_keys. exact M.
  Qed.
End DictFacts.

(* messages appended under a key by a run of [dappend] *)
Section AppendFacts.
  Context {K V : Type} (keq : K -> K -> bool).
  Hypothesis HE : is_equiv keq.
  Let keq_refl : forall k, keq k k = true := proj1 HE.
  Let keq_sym : forall a b, keq a b = keq b a := proj1 (proj2 HE).
  Let keq_trans : forall a b c, keq a b = true -> keq b c = true -> keq a c = true := proj2 (proj2 HE).

  Definition appended (k : K) (ps : list (K * V)) : list V :=
    map snd (filter (fun p => keq k (fst p)) ps).
  Definition run_append (ps : list (K * V)) (d : dict K (list V)) : dict K (list V) :=
    fold_left (fun d p => dappend keq (fst p) (snd p) d) ps d.
  Definition opt_app (o : option (list V)) (l : list V) : option (list V) :=
    match o, l with
    | None, [] => None
    | None, _ => Some l
    | Some x, _ => Some (x ++ l)
    end.

  Lemma dget_dappend : forall (d : dict K (list V)) k v k',
    dget keq k' (dappend keq k v d) =
    if keq k' k then Some (match dget keq k' d with Some l => l ++ [v] | None => [v] end)
    else dget keq k' d.
  Proof.
    intros d k v k'. unfold dappend. destruct (keq k' k) eqn:E.
    - rewrite (dget_congr keq HE d k' k E).
      destruct (dget keq k d); apply dget_dset_same; auto.
    - destruct (dget keq k d); apply dget_dset_other; auto.
  Qed.

  Lemma dget_run_append : forall ps (d : dict K (list V)) k,
    dget keq k (run_append ps d) = opt_app (dget keq k d) (appended k ps).
  Proof.
    induction ps as [|[k0 v0] ps IH]; intros d k; unfold run_append in *; simpl.
    - unfold appended. simpl. destruct (dget keq k d); simpl; [rewrite app_nil_r|]; reflexivity.
    - rewrite IH. rewrite dget_dappend. unfold appended. simpl.
      destruct (keq k k0) eqn:E; simpl; [|reflexivity].
      destruct (dget keq k d) as [l|]; simpl.
      + rewrite <- app_assoc. reflexivity.
      + reflexivity.
  Qed.

  Lemma keys_nodup_dappend : forall (d : dict K (list V)) k v, keys_nodup keq (dkeys d) ->
    keys_nodup keq (dkeys (dappend keq k v d)).
  Proof.
    intros d k v ND. unfold dappend. destruct (dget keq k d); apply keys_nodup_dset; auto.
  Qed.

  Lemma keys_nodup_run : forall ps (d : dict K (list V)), keys_nodup keq (dkeys d) ->
    keys_nodup keq (dkeys (run_append ps d)).
  Proof.
    induction ps as [|p ps IH]; intros d ND; unfold run_append in *; simpl; [exact ND|].
    apply IH. apply keys_nodup_dappend. exact ND.
  Qed.

  Lemma dmem_dappend : forall (d : dict K (list V)) k v k',
    dmem keq k' (dappend keq k v d) = keq k' k || dmem keq k' d.
  Proof.
    intros. unfold dmem. rewrite dget_dappend. destruct (keq k' k); reflexivity.
  Qed.

  (* every value stays non-empty *)
  Definition vals_nonempty (d : dict K (list V)) : Prop := forall k l, In (k, l) d -> l <> [].

  Lemma vals_nonempty_dset : forall (d : dict K (list V)) k l, vals_nonempty d -> l <> [] ->
    vals_nonempty (dset keq k l d).
  Proof.
    induction d as [|[k0 l0] d IH]; intros k l NE HL k1 l1 I; simpl in I.
    - destruct I as [I|[]]. inversion I; subst. exact HL.
    - destruct (keq k k0).
      + destruct I as [I|I]; [inversion I; subst; exact HL|]. apply (NE k1). right. exact I.
      + destruct I as [I|I]; [apply (NE k1); left; exact I|].
        apply (IH k l) with (k := k1); auto. intros k2 l2 I2. apply (NE k2). right. exact I2.
  Qed.

  Lemma vals_nonempty_dappend : forall (d : dict K (list V)) k v, vals_nonempty d ->
    vals_nonempty (dappend keq k v d).
  Proof.
    intros d k v NE. unfold dappend. destruct (dget keq k d) as [l|];
      apply vals_nonempty_dset; auto; try discriminate. destruct l; discriminate.
  Qed.

  Lemma vals_nonempty_run : forall ps (d : dict K (list V)), vals_nonempty d ->
    vals_nonempty (run_append ps d).
  Proof.
    induction ps as [|p ps IH]; intros d NE; unfold run_append in *; simpl; [exact NE|].
    apply IH. apply vals_nonempty_dappend. exact NE.
  Qed.
End AppendFacts.

Local Arguments N.add : simpl never.
Local Arguments N.mul : simpl never.
Local Arguments N.sub : simpl never.
Local Arguments N.div : simpl never.
Local Arguments N.modulo : simpl never.
Local Arguments N.pow : simpl never.
Local Arguments N.of_nat : simpl never.

(* ------------------------------------------------------------------ *)
(** * Decimal rendering: [N_to_str] is injective and its length is monotone *)

Lemma nts_fuel_app : forall f n acc, N_to_str_fuel f n acc = N_to_str_fuel f n [] ++ acc.
Proof.
  induction f as [|f IH]; intros n acc; simpl; [reflexivity|].
  destruct (N.eqb (n / 10) 0); [reflexivity|].
  rewrite IH. rewrite (IH _ [digit_char (n mod 10)]). rewrite <- app_assoc. reflexivity.
Qed.

Lemma digits_to_N_snoc : forall s c, digits_to_N (s ++ [c]) = (digits_to_N s * 10 + (c - 48))%N.
Proof. intros. unfold digits_to_N. rewrite fold_left_app. reflexivity. Qed.

Lemma nts_spec : forall f n, (n < 2 ^ N.of_nat f)%N -> f <> O ->
  let s := N_to_str_fuel f n [] in
  digits_to_N s = n /\ (n < 10 ^ N.of_nat (length s))%N /\
  (n <> 0%N -> 10 ^ (N.of_nat (length s) - 1) <= n)%N /\ (1 <= length s).
Proof.
  induction f as [|f IH]; intros n Hn Hf; [congruence|]. simpl.
  assert (DM := N.div_mod n 10 ltac:(lia)).
  assert (ML := N.mod_lt n 10 ltac:(lia)).
  destruct (N.eqb (n / 10) 0) eqn:Q.
  - apply N.eqb_eq in Q. simpl. unfold digits_to_N, digit_char. simpl.
    rewrite Q in DM. repeat split; try lia.
    intros NZ. change (N.of_nat 1 - 1)%N with 0%N. rewrite N.pow_0_r. lia.
  - apply N.eqb_neq in Q.
    assert (Hq : (n / 10 < 2 ^ N.of_nat f)%N).
    { apply N.div_lt_upper_bound; [lia|].
      rewrite Nat2N.inj_succ, N.pow_succ_r' in Hn. lia. }
    assert (Hf' : f <> O).
    { intro Z. subst f. simpl in Hq. lia. }
    destruct (IH (n / 10)%N Hq Hf') as (A & B & C & D).
    rewrite nts_fuel_app.
    set (s := N_to_str_fuel f (n / 10) []) in *. clearbody s.
    set (q := (n / 10)%N) in *. set (r := (n mod 10)%N) in *. clearbody q r.
    rewrite digits_to_N_snoc, app_length. simpl length.
    replace (N.of_nat (length s + 1)) with (N.succ (N.of_nat (length s))) by lia.
    rewrite N.pow_succ_r'. unfold digit_char.
    repeat split; try lia.
    intros _. specialize (C Q).
    replace (N.succ (N.of_nat (length s)) - 1)%N with (N.succ (N.of_nat (length s) - 1))%N by lia.
    rewrite N.pow_succ_r'. lia.
Qed.

Lemma N_to_str_spec : forall n,
  let s := N_to_str n in
  digits_to_N s = n /\ (n < 10 ^ N.of_nat (length s))%N /\
  (n <> 0%N -> 10 ^ (N.of_nat (length s) - 1) <= n)%N /\ (1 <= length s).
Proof.
  intros n. unfold N_to_str. apply nts_spec; [|discriminate].
  rewrite Nat2N.inj_succ, N2Nat.id.
  destruct n as [|p]; [reflexivity|]. apply N.log2_spec. lia.
Qed.

Lemma N_to_str_inj : forall a b, N_to_str a = N_to_str b -> a = b.
Proof.
  intros a b E. destruct (N_to_str_spec a) as (A & _). destruct (N_to_str_spec b) as (B & _).
  simpl in *. rewrite <- A, <- B, E. reflexivity.
Qed.

Lemma N_to_str_len_mono : forall a b, (a <= b)%N -> length (N_to_str a) <= length (N_to_str b).
Proof.
  intros a b L.
  destruct (N_to_str_spec a) as (_ & _ & A3 & A4).
  destruct (N_to_str_spec b) as (_ & B2 & _ & B4). simpl in *.
  destruct (N.eq_dec a 0) as [Z|NZ].
  - subst a. change (length (N_to_str 0)) with 1. exact B4.
  - specialize (A3 NZ).
    destruct (le_lt_dec (length (N_to_str a)) (length (N_to_str b))) as [H|H]; [exact H|exfalso].
    assert (P : (10 ^ N.of_nat (length (N_to_str b)) <= 10 ^ (N.of_nat (length (N_to_str a)) - 1))%N).
    { apply N.pow_le_mono_r; lia. }
    lia.
Qed.

Lemma N_to_str_nonempty : forall n, N_to_str n <> [].
Proof. intros n E. destruct (N_to_str_spec n) as (_ & _ & _ & D). simpl in D. rewrite E in D. simpl in D. lia. Qed.

(* ------------------------------------------------------------------ *)
(** * The first pass of [errors]: role messages and the source dictionary *)

Notation A_refl := atom_eqb_refl.
Notation A_sym := atom_eqb_sym.
Notation A_trans := atom_eqb_trans.
Notation C_refl := ctx_eqb_refl.
Notation C_sym := ctx_eqb_sym.
Notation C_trans := ctx_eqb_trans.

Definition bad_role_pairs (m : model) (ts : list triple) : list (ctx * emsg) :=
  map (fun t => (Some t, InvalidRole)) (filter (fun t => negb (has_role m (trole t))) ts).
Definition src_pairs (ts : list triple) : list (atom * triple) := map (fun t => (tsrc t, t)) ts.

Lemma run_append_app : forall {K V} (keq : K -> K -> bool) (a b : list (K * V)) d,
  run_append keq (a ++ b) d = run_append keq b (run_append keq a d).
Proof. intros. unfold run_append. apply fold_left_app. Qed.

Lemma first_pass_gen : forall m ts e g,
  fold_left (fun (st : errdict * gdict) t =>
               let e := if has_role m (trole t) then fst st
                        else err_append (Some t) InvalidRole (fst st) in
               (e, g_add t (snd st))) ts (e, g) =
  (run_append ctx_eqb (bad_role_pairs m ts) e, run_append atom_eqb (src_pairs ts) g).
Proof.
  induction ts as [|t ts IH]; intros e g; simpl; [reflexivity|].
  rewrite IH. unfold bad_role_pairs, src_pairs. simpl.
  destruct (has_role m (trole t)); simpl; reflexivity.
Qed.

Lemma first_pass_eq : forall m ts,
  first_pass m ts = (run_append ctx_eqb (bad_role_pairs m ts) [],
                     run_append atom_eqb (src_pairs ts) []).
Proof. intros. unfold first_pass. apply first_pass_gen. Qed.

Definition gof (ts : list triple) : gdict := run_append atom_eqb (src_pairs ts) [].

Lemma appended_src_pairs : forall v ts,
  appended atom_eqb v (src_pairs ts) = filter (fun t => atom_eqb v (tsrc t)) ts.
Proof.
  intros v ts. unfold appended, src_pairs. induction ts as [|t ts IH]; simpl; [reflexivity|].
  destruct (atom_eqb v (tsrc t)); simpl; rewrite IH; reflexivity.
Qed.

Lemma g_get_gof : forall ts v, g_get (gof ts) v = filter (fun t => atom_eqb v (tsrc t)) ts.
Proof.
  intros ts v. unfold g_get, gof.
  rewrite (dget_run_append atom_eqb atom_equiv). simpl.
  rewrite appended_src_pairs. destruct (filter _ ts); reflexivity.
Qed.

Lemma dmem_gof : forall ts v, dmem atom_eqb v (gof ts) = mem atom_eqb v (map tsrc ts).
Proof.
  intros ts v. unfold dmem, gof.
  rewrite (dget_run_append atom_eqb atom_equiv). simpl.
  rewrite appended_src_pairs.
  induction ts as [|t ts IH]; simpl; [reflexivity|].
  destruct (atom_eqb v (tsrc t)); simpl; [reflexivity|exact IH].
Qed.

Lemma keys_nodup_gof : forall ts, keys_nodup atom_eqb (dkeys (gof ts)).
Proof. intros. unfold gof. apply keys_nodup_run; [exact atom_equiv|exact I]. Qed.

(* ------------------------------------------------------------------ *)
(** * Adjacency *)

Lemma mem_set_add : forall u x s, mem atom_eqb u (set_add x s) = atom_eqb u x || mem atom_eqb u s.
Proof.
  intros u x s. unfold set_add. destruct (mem atom_eqb x s) eqn:M.
  - destruct (atom_eqb u x) eqn:E; [|reflexivity]. simpl.
    rewrite (mem_congr atom_eqb atom_equiv s u x E). exact M.
  - rewrite (mem_app atom_eqb). simpl. rewrite orb_false_r. apply orb_comm.
Qed.

Definition is_edge_triple (g : gdict) (t : triple) : bool :=
  negb (str_eqb (trole t) INSTANCE) && dmem atom_eqb (ttgt t) g.

Lemma mem_edge_targets_gen : forall g ts s u,
  mem atom_eqb u (fold_left (fun s t => if is_edge_triple g t then set_add (ttgt t) s else s) ts s) =
  mem atom_eqb u s || existsb (fun t => is_edge_triple g t && atom_eqb u (ttgt t)) ts.
Proof.
  induction ts as [|t ts IH]; intros s u; simpl; [rewrite orb_false_r; reflexivity|].
  rewrite IH. destruct (is_edge_triple g t); simpl; [|reflexivity].
  rewrite mem_set_add. destruct (atom_eqb u (ttgt t)), (mem atom_eqb u s); reflexivity.
Qed.

Lemma mem_edge_targets : forall g ts u,
  mem atom_eqb u (edge_targets g ts) =
  existsb (fun t => is_edge_triple g t && atom_eqb u (ttgt t)) ts.
Proof. intros. unfold edge_targets. apply (mem_edge_targets_gen g ts [] u). Qed.

Lemma dget_map_vals : forall {V W} (f : V -> W) (d : dict atom V) k,
  dget atom_eqb k (map (fun kv : atom * V => (fst kv, f (snd kv))) d) =
  match dget atom_eqb k d with Some v => Some (f v) | None => None end.
Proof.
  induction d as [|[k0 v0] d IH]; intros k; simpl; [reflexivity|].
  destruct (atom_eqb k k0); [reflexivity|apply IH].
Qed.

Definition nb (q : adjacency) (v u : atom) : Prop := mem atom_eqb u (q_get q v) = true.

Lemma q_get_congr : forall q a b, atom_eqb a b = true -> q_get q a = q_get q b.
Proof. intros. unfold q_get. rewrite (dget_congr atom_eqb atom_equiv q a b H). reflexivity. Qed.

Lemma nb_congr : forall q v v' u u', atom_eqb v v' = true -> atom_eqb u u' = true ->
  nb q v u -> nb q v' u'.
Proof.
  intros q v v' u u' E1 E2 H. unfold nb in *.
  rewrite <- (q_get_congr q v v' E1).
  rewrite <- (mem_congr atom_eqb atom_equiv _ u u' E2). exact H.
Qed.

Lemma q_get_adjacency_of : forall g v,
  q_get (adjacency_of g) v = edge_targets g (g_get g v).
Proof.
  intros g v. unfold q_get, adjacency_of, g_get.
  rewrite (dget_map_vals (edge_targets g)). destruct (dget atom_eqb v g); reflexivity.
Qed.

Lemma dkeys_adjacency_of : forall g, dkeys (adjacency_of g) = dkeys g.
Proof. intros g. unfold adjacency_of, dkeys. rewrite map_map. reflexivity. Qed.

(* the directed adjacency is the [link] relation of the spec *)
Lemma nb_adjacency_link : forall gr v u,
  nb (adjacency_of (gof (triples gr))) v u <-> link gr v u.
Proof.
  intros gr v u. unfold nb. rewrite q_get_adjacency_of, mem_edge_targets, g_get_gof.
  rewrite existsb_exists. unfold link, is_source. split.
  - intros (t & I & H). apply filter_In in I. destruct I as [I S].
    apply andb_true_iff in H. destruct H as [H1 H2].
    unfold is_edge_triple in H1. apply andb_true_iff in H1. destruct H1 as [R D].
    rewrite dmem_gof in D. exists t. repeat split; auto.
    + apply negb_true_iff in R. exact R.
    + rewrite A_sym. exact S.
    + rewrite A_sym. exact H2.
    + rewrite (mem_congr atom_eqb atom_equiv _ u (ttgt t) H2). exact D.
  - intros (t & I & R & S & T & D). exists t. split.
    + apply filter_In. split; [exact I|]. rewrite A_sym. exact S.
    + apply andb_true_iff. split; [|rewrite A_sym; exact T].
      unfold is_edge_triple. rewrite R. simpl. rewrite dmem_gof.
      rewrite (mem_congr atom_eqb atom_equiv _ (ttgt t) u T). exact D.
Qed.

(* q_add *)
Lemma nb_q_add : forall q tgt var v u,
  nb (q_add tgt var q) v u <-> nb q v u \/ (atom_eqb v tgt = true /\ atom_eqb u var = true).
Proof.
  intros q tgt var v u. unfold nb, q_add, q_get.
  destruct (atom_eqb v tgt) eqn:E.
  - rewrite (dget_congr atom_eqb atom_equiv q v tgt E).
    destruct (dget atom_eqb tgt q) as [s|] eqn:G.
    + rewrite (dget_dset_same atom_eqb atom_equiv) by exact E.
      rewrite mem_set_add. rewrite orb_true_iff. tauto.
    + rewrite (dget_dset_same atom_eqb atom_equiv) by exact E.
      simpl. rewrite orb_false_r. split; [intro H; right; auto|intros [H|[_ H]]; [discriminate|exact H]].
  - destruct (dget atom_eqb tgt q) as [s|] eqn:G;
      rewrite (dget_dset_other atom_eqb atom_equiv) by exact E;
      split; auto; intros [H|[H _]]; auto; discriminate.
Qed.

Lemma nb_inner_fold : forall l q var v u,
  nb (fold_left (fun q tgt => q_add tgt var q) l q) v u <->
  nb q v u \/ (mem atom_eqb v l = true /\ atom_eqb u var = true).
Proof.
  induction l as [|x l IH]; intros q var v u; simpl.
  - split; auto. intros [H|[H _]]; [exact H|discriminate].
  - rewrite IH, nb_q_add, orb_true_iff. tauto.
Qed.

Definition bidir_step (q : adjacency) (var : atom) : adjacency :=
  fold_left (fun q tgt => q_add tgt var q) (q_get q var) q.

Lemma nb_bidir_step : forall q var v u,
  nb (bidir_step q var) v u <-> nb q v u \/ (nb q var v /\ atom_eqb u var = true).
Proof. intros. unfold bidir_step. rewrite nb_inner_fold. unfold nb. tauto. Qed.

Section Bidir.
  Variable q0 : adjacency.
  Definition S0 (v u : atom) : Prop := nb q0 v u \/ nb q0 u v.

  Definition bidir_inv (processed : list atom) (q : adjacency) : Prop :=
    (forall v u, nb q0 v u -> nb q v u) /\
    (forall v u, nb q v u -> S0 v u) /\
    (forall p u, mem atom_eqb p processed = true -> nb q0 p u -> nb q u p).

  Lemma bidir_fold_inv : forall ks processed q, bidir_inv processed q ->
    bidir_inv (processed ++ ks) (fold_left bidir_step ks q).
  Proof.
    induction ks as [|k ks IH]; intros processed q Inv; simpl.
    - rewrite app_nil_r. exact Inv.
    - replace (processed ++ k :: ks) with ((processed ++ [k]) ++ ks)
        by (rewrite <- app_assoc; reflexivity).
      apply IH. destruct Inv as (I1 & I2 & I3). repeat split.
      + intros v u H. apply nb_bidir_step. left. apply I1. exact H.
      + intros v u H. apply nb_bidir_step in H. destruct H as [H|[H E]]; [apply I2; exact H|].
        apply I2 in H. unfold S0 in *.
        rewrite A_sym in E.
        destruct H as [H|H]; [right|left]; eapply nb_congr; try exact H; auto using A_refl.
      + intros p u M H. rewrite (mem_app atom_eqb) in M. apply orb_true_iff in M.
        apply nb_bidir_step. destruct M as [M|M].
        * left. apply I3; assumption.
        * simpl in M. rewrite orb_false_r in M. right. split; [|exact M].
          apply I1. eapply nb_congr; try exact H; auto using A_refl.
  Qed.

  Lemma nb_key : forall v u, nb q0 v u -> mem atom_eqb v (dkeys q0) = true.
  Proof.
    intros v u H. unfold nb, q_get in H. rewrite <- (dmem_iff_keys atom_eqb). unfold dmem.
    destruct (dget atom_eqb v q0); [reflexivity|discriminate].
  Qed.

  Lemma nb_make_bidirectional : forall v u,
    nb (make_bidirectional q0) v u <-> S0 v u.
  Proof.
    intros v u.
    assert (Inv : bidir_inv ([] ++ dkeys q0) (fold_left bidir_step (dkeys q0) q0)).
    { apply bidir_fold_inv. repeat split; auto.
      - intros ? ? H. left. exact H.
      - intros ? ? M. discriminate. }
    destruct Inv as (I1 & I2 & I3). simpl in I3.
    change (make_bidirectional q0) with (fold_left bidir_step (dkeys q0) q0).
    split; [apply I2|]. intros [H|H]; [apply I1; exact H|].
    apply I3; [|exact H]. eapply nb_key; eauto.
  Qed.
End Bidir.

(* ------------------------------------------------------------------ *)
(** * The work-list search *)

Lemma mem_filter_congr : forall (f : atom -> bool) l u,
  (forall a b, atom_eqb a b = true -> f a = f b) ->
  mem atom_eqb u (filter f l) = mem atom_eqb u l && f u.
Proof.
  intros f l u Hf. induction l as [|x l IH]; simpl; [reflexivity|].
  destruct (f x) eqn:Fx; simpl.
  - rewrite IH. destruct (atom_eqb u x) eqn:E; simpl; [|reflexivity].
    rewrite (Hf u x E), Fx. reflexivity.
  - rewrite IH. destruct (atom_eqb u x) eqn:E; simpl; [|reflexivity].
    rewrite (Hf u x E), Fx. rewrite andb_false_r. reflexivity.
Qed.

Lemma mem_rev : forall l u, mem atom_eqb u (rev l) = mem atom_eqb u l.
Proof.
  induction l as [|x l IH]; intros u; simpl; [reflexivity|].
  rewrite (mem_app atom_eqb). simpl. rewrite IH, orb_false_r. apply orb_comm.
Qed.

Lemma notin_congr : forall vis a b, atom_eqb a b = true ->
  negb (mem atom_eqb a vis) = negb (mem atom_eqb b vis).
Proof. intros. f_equal. apply (mem_congr atom_eqb atom_equiv). exact H. Qed.

Lemma filter_len_le : forall {A} (f : A -> bool) l, length (filter f l) <= length l.
Proof. induction l as [|x l IH]; simpl; [lia|]. destruct (f x); simpl; lia. Qed.

Section Search.
  Variable q : adjacency.

  Definition closed_inv (visited agenda : list atom) : Prop :=
    forall x y, mem atom_eqb x visited = true -> nb q x y ->
                mem atom_eqb y visited = true \/ mem atom_eqb y agenda = true.

  Lemma dfs_loop_spec : forall fuel visited agenda res,
    dfs_loop fuel q visited agenda = Some res ->
    (forall x, mem atom_eqb x visited = true \/ mem atom_eqb x agenda = true ->
               mem atom_eqb x res = true) /\
    (closed_inv visited agenda ->
     forall x y, mem atom_eqb x res = true -> nb q x y -> mem atom_eqb y res = true) /\
    (forall P : atom -> Prop,
       (forall a b, atom_eqb a b = true -> P a -> P b) ->
       (forall x y, P x -> nb q x y -> P y) ->
       (forall x, mem atom_eqb x visited = true \/ mem atom_eqb x agenda = true -> P x) ->
       forall x, mem atom_eqb x res = true -> P x).
  Proof.
    induction fuel as [|f IH]; intros visited agenda res H; simpl in H; [discriminate|].
    destruct agenda as [|cur rest].
    - inversion H; subst res. repeat split.
      + intros x [M|M]; [exact M|discriminate].
      + intros CI x y Mx N. destruct (CI x y Mx N) as [M|M]; [exact M|discriminate].
      + intros P _ _ HP x M. apply HP. left. exact M.
    - destruct (mem atom_eqb cur visited) eqn:MC.
      + destruct (IH _ _ _ H) as (R1 & R2 & R3). repeat split.
        * intros x [M|M]; [apply R1; left; exact M|]. simpl in M.
          destruct (atom_eqb x cur) eqn:E.
          -- apply R1. left. rewrite (mem_congr atom_eqb atom_equiv _ x cur E). exact MC.
          -- apply R1. right. exact M.
        * intros CI. apply R2. intros x y Mx N.
          destruct (CI x y Mx N) as [M|M]; [left; exact M|]. simpl in M.
          destruct (atom_eqb y cur) eqn:E.
          -- left. rewrite (mem_congr atom_eqb atom_equiv _ y cur E). exact MC.
          -- right. exact M.
        * intros P PC PS HP. apply R3; auto. intros x [M|M]; apply HP; [left; exact M|].
          right. simpl. rewrite M. apply orb_true_r.
      + set (visited' := visited ++ [cur]) in *.
        set (new := filter (fun t => negb (mem atom_eqb t visited')) (q_get q cur)) in *.
        destruct (IH _ _ _ H) as (R1 & R2 & R3).
        assert (Mnew : forall y, mem atom_eqb y new =
                                 mem atom_eqb y (q_get q cur) && negb (mem atom_eqb y visited')).
        { intros y. unfold new. apply mem_filter_congr. intros a b E. apply notin_congr. exact E. }
        assert (Mv' : forall y, mem atom_eqb y visited' = mem atom_eqb y visited || atom_eqb y cur).
        { intros y. unfold visited'. rewrite (mem_app atom_eqb). simpl. rewrite orb_false_r. reflexivity. }
        repeat split.
        * intros x [M|M].
          -- apply R1. left. rewrite Mv', M. reflexivity.
          -- simpl in M. destruct (atom_eqb x cur) eqn:E.
             ++ apply R1. left. rewrite Mv', E. apply orb_true_r.
             ++ simpl in M. apply R1. right. rewrite (mem_app atom_eqb). rewrite M. apply orb_true_r.
        * intros CI. apply R2. intros x y Mx N. rewrite Mv' in Mx.
          destruct (mem atom_eqb y visited') eqn:MY; [left; reflexivity|right].
          rewrite (mem_app atom_eqb), mem_rev, Mnew, MY. simpl. rewrite andb_true_r.
          apply orb_true_iff in Mx. destruct Mx as [Mx|Mx].
          -- destruct (CI x y Mx N) as [M|M].
             ++ rewrite Mv', M in MY. discriminate.
             ++ simpl in M. rewrite Mv' in MY. apply orb_false_iff in MY. destruct MY as [_ MY].
                rewrite MY in M. simpl in M. rewrite M. apply orb_true_r.
          -- assert (N' : nb q cur y) by (eapply nb_congr; try exact N; auto using atom_eqb_refl).
             unfold nb in N'. rewrite N'. reflexivity.
        * intros P PC PS HP. apply R3; auto. intros x [M|M].
          -- rewrite Mv' in M. apply orb_true_iff in M. destruct M as [M|M].
             ++ apply HP. left. exact M.
             ++ apply (PC cur x); [rewrite atom_eqb_sym; exact M|]. apply HP. right.
                simpl. rewrite atom_eqb_refl. reflexivity.
          -- rewrite (mem_app atom_eqb), mem_rev, Mnew in M. apply orb_true_iff in M.
             destruct M as [M|M].
             ++ apply andb_true_iff in M. destruct M as [M _].
                apply (PS cur x); [|exact M]. apply HP. right. simpl. rewrite atom_eqb_refl. reflexivity.
             ++ apply HP. right. simpl. rewrite M. apply orb_true_r.
  Qed.

  (* fuel: the potential |agenda| + total degree of the unvisited keys *)
  Definition weight (visited : list atom) (d : adjacency) : nat :=
    list_sum (map (fun kv : atom * list atom =>
                     if mem atom_eqb (fst kv) visited then 0 else length (snd kv)) d).

  Lemma weight_mono : forall d visited cur, weight (visited ++ [cur]) d <= weight visited d.
  Proof.
    induction d as [|[k l] d IH]; intros visited cur; unfold weight in *; simpl; [lia|].
    rewrite (mem_app atom_eqb). specialize (IH visited cur).
    destruct (mem atom_eqb k visited); simpl; [lia|].
    destruct (atom_eqb k cur); simpl; lia.
  Qed.

  Lemma weight_step : forall d visited cur, mem atom_eqb cur visited = false ->
    weight (visited ++ [cur]) d + length (q_get d cur) <= weight visited d.
  Proof.
    induction d as [|[k l] d IH]; intros visited cur M; unfold weight, q_get in *; simpl; [lia|].
    rewrite (mem_app atom_eqb). simpl. rewrite orb_false_r.
    destruct (atom_eqb cur k) eqn:E.
    - rewrite <- (mem_congr atom_eqb atom_equiv visited cur k E), M. simpl.
      rewrite atom_eqb_sym, E. simpl.
      assert (W := weight_mono d visited cur). unfold weight in W. lia.
    - specialize (IH visited cur M). rewrite atom_eqb_sym, E, orb_false_r.
      destruct (mem atom_eqb k visited); simpl; lia.
  Qed.

  Lemma dfs_loop_fuel : forall fuel visited agenda,
    length agenda + weight visited q < fuel ->
    exists res, dfs_loop fuel q visited agenda = Some res.
  Proof.
    induction fuel as [|f IH]; intros visited agenda H; [lia|]. simpl.
    destruct agenda as [|cur rest]; [eexists; reflexivity|].
    destruct (mem atom_eqb cur visited) eqn:MC.
    - apply IH. simpl in H. lia.
    - apply IH. rewrite app_length, rev_length.
      assert (F : length (filter (fun t => negb (mem atom_eqb t (visited ++ [cur]))) (q_get q cur))
                  <= length (q_get q cur)) by apply filter_len_le.
      assert (W := weight_step q visited cur MC). simpl in H. lia.
  Qed.

  Lemma weight_nil : weight [] q = length (flat_map snd q).
  Proof.
    unfold weight. induction q as [|[k l] d IH]; simpl; [reflexivity|].
    rewrite app_length. f_equal. exact IH.
  Qed.

  Lemma dfs_loop_total : forall top, exists res, dfs_loop (dfs_fuel q) q [] [top] = Some res.
  Proof. intros top. apply dfs_loop_fuel. rewrite weight_nil. unfold dfs_fuel. simpl. lia. Qed.
End Search.

(* ------------------------------------------------------------------ *)
(** * [_dfs] computes the weakly connected component of the top *)

Lemma reachable_congr_r : forall gr u v v', atom_eqb v v' = true ->
  reachable gr u v -> reachable gr u v'.
Proof. intros. eapply reach_trans; [eassumption|]. apply reach_refl. assumption. Qed.

Lemma nb_final_link : forall gr v u,
  nb (make_bidirectional (adjacency_of (gof (triples gr)))) v u <-> link gr v u \/ link gr u v.
Proof.
  intros. rewrite nb_make_bidirectional. unfold S0. rewrite !nb_adjacency_link. tauto.
Qed.

Lemma dfs_total : forall gr top, exists res, dfs (gof (triples gr)) top = Some res.
Proof. intros. unfold dfs. apply dfs_loop_total. Qed.

Lemma dfs_component : forall gr top res,
  dfs (gof (triples gr)) top = Some res ->
  forall v, mem atom_eqb v res = true <-> reachable gr top v.
Proof.
  intros gr top res H v. unfold dfs in H.
  destruct (dfs_loop_spec _ _ _ _ _ H) as (R1 & R2 & R3).
  split.
  - apply (R3 (reachable gr top)).
    + intros a b E Ra. eapply reachable_congr_r; eauto.
    + intros x y Rx N. apply nb_final_link in N. eapply reach_trans; [exact Rx|].
      destruct N as [N|N]; [apply reach_edge; exact N|apply reach_sym, reach_edge; exact N].
    + intros x [M|M]; [discriminate|]. simpl in M. rewrite orb_false_r in M.
      apply reach_refl. rewrite atom_eqb_sym. exact M.
  - intros Rv.
    assert (CI : closed_inv (make_bidirectional (adjacency_of (gof (triples gr)))) [] [top]).
    { intros x y M. discriminate. }
    specialize (R2 CI).
    assert (T : mem atom_eqb top res = true).
    { apply R1. right. simpl. rewrite atom_eqb_refl. reflexivity. }
    assert (G : forall a b, reachable gr a b ->
                            (mem atom_eqb a res = true <-> mem atom_eqb b res = true)).
    { intros a b Rab. induction Rab as [a b E|a b L|a b _ IH|a b c _ IH1 _ IH2].
      - rewrite (mem_congr atom_eqb atom_equiv res a b E). tauto.
      - split; intro M.
        + apply (R2 a b M). apply nb_final_link. left. exact L.
        + apply (R2 b a M). apply nb_final_link. right. exact L.
      - tauto.
      - tauto. }
    apply (G top v Rv). exact T.
Qed.

(* ------------------------------------------------------------------ *)
(** * The report as a run of appends *)

Lemma unreach_inner : forall ts e,
  fold_left (fun e t => err_append (Some t) Unreachable e) ts e =
  run_append ctx_eqb (map (fun t => (Some t, Unreachable)) ts) e.
Proof. induction ts as [|t ts IH]; intros e; simpl; [reflexivity|]. rewrite IH. reflexivity. Qed.

Lemma unreach_fold : forall g l e,
  fold_left (fun e uvar =>
               fold_left (fun e t => err_append (Some t) Unreachable e) (g_get g uvar) e) l e =
  run_append ctx_eqb (map (fun t => (Some t, Unreachable)) (flat_map (g_get g) l)) e.
Proof.
  induction l as [|v l IH]; intros e; simpl; [reflexivity|].
  rewrite IH, unreach_inner, map_app, run_append_app. reflexivity.
Qed.

Lemma in_insert_sorted : forall x y l, In x (insert_sorted y l) <-> x = y \/ In x l.
Proof.
  induction l as [|z l IH]; simpl; [intuition congruence|].
  destruct (atom_ltb y z); simpl; [intuition congruence|]. rewrite IH. intuition congruence.
Qed.

Lemma in_sort_atoms : forall x l, In x (sort_atoms l) <-> In x l.
Proof.
  induction l as [|y l IH]; simpl; [tauto|]. rewrite in_insert_sorted, IH.
  intuition congruence.
Qed.

(* what each message means *)
Definition msg_spec (m : model) (gr : graph) (k : ctx) (msg : emsg) : Prop :=
  match msg with
  | Empty => k = None /\ triples gr = []
  | NoTop => k = None /\ triples gr <> [] /\ top_falsy (graph_top gr) = true
  | TopNotVar => k = None /\ triples gr <> [] /\
                 exists top, graph_top gr = Some top /\ falsy top = false /\ ~ is_source gr top
  | InvalidRole => exists t, k = Some t /\ In t (triples gr) /\ has_role m (trole t) = false
  | Unreachable => exists t top, k = Some t /\ In t (triples gr) /\ graph_top gr = Some top /\
                   falsy top = false /\ is_source gr top /\ ~ reachable gr top (tsrc t)
  end.

Lemma in_bad_role_pairs : forall m ts k msg,
  In (k, msg) (bad_role_pairs m ts) <->
  msg = InvalidRole /\ exists t, k = Some t /\ In t ts /\ has_role m (trole t) = false.
Proof.
  intros m ts k msg. unfold bad_role_pairs. rewrite in_map_iff. split.
  - intros (t & E & I). apply filter_In in I. destruct I as [I H]. inversion E; subst.
    split; [reflexivity|]. exists t. repeat split; auto. apply negb_true_iff in H. exact H.
  - intros (E & t & E2 & I & H). subst. exists t. split; [reflexivity|].
    apply filter_In. split; [exact I|]. rewrite H. reflexivity.
Qed.

Lemma in_unreach_pairs : forall gr top res k msg,
  dfs (gof (triples gr)) top = Some res ->
  In (k, msg) (map (fun t => (Some t, Unreachable))
                   (flat_map (g_get (gof (triples gr)))
                      (sort_atoms (filter (fun v => negb (mem atom_eqb v res))
                                          (dkeys (gof (triples gr))))))) <->
  msg = Unreachable /\ exists t, k = Some t /\ In t (triples gr) /\ ~ reachable gr top (tsrc t).
Proof.
  intros gr top res k msg D. rewrite in_map_iff. split.
  - intros (t & E & I). inversion E; subst. split; [reflexivity|]. exists t.
    apply in_flat_map in I. destruct I as (uv & Iu & It).
    apply in_sort_atoms, filter_In in Iu. destruct Iu as [Iu Nu].
    rewrite g_get_gof in It. apply filter_In in It. destruct It as [It Es].
    repeat split; auto. intro R. apply negb_true_iff in Nu.
    assert (M : mem atom_eqb uv res = true).
    { apply (dfs_component gr top res D). eapply reachable_congr_r; [|exact R].
      rewrite atom_eqb_sym. exact Es. }
    rewrite M in Nu. discriminate.
  - intros (E & t & E2 & It & NR). subst. exists t. split; [reflexivity|].
    assert (M : mem atom_eqb (tsrc t) (dkeys (gof (triples gr))) = true).
    { rewrite <- (dmem_iff_keys atom_eqb), dmem_gof. unfold mem. apply existsb_exists.
      exists (tsrc t). split; [apply in_map; exact It|apply atom_eqb_refl]. }
    unfold mem in M. apply existsb_exists in M. destruct M as (uv & Iu & Eu).
    apply in_flat_map. exists uv. split.
    + apply in_sort_atoms, filter_In. split; [exact Iu|]. apply negb_true_iff.
      destruct (mem atom_eqb uv res) eqn:M; [|reflexivity]. exfalso. apply NR.
      apply (dfs_component gr top res D) in M. eapply reachable_congr_r; [|exact M].
      rewrite atom_eqb_sym. exact Eu.
    + rewrite g_get_gof. apply filter_In. split; [exact It|]. rewrite atom_eqb_sym. exact Eu.
Qed.

Lemma is_source_dmem : forall gr top,
  dmem atom_eqb top (gof (triples gr)) = true <-> is_source gr top.
Proof. intros. rewrite dmem_gof. unfold is_source. tauto. Qed.

Lemma errors_pairs : forall m gr, exists ps,
  errors_opt m gr = Some (run_append ctx_eqb ps []) /\
  forall k msg, In (k, msg) ps <-> msg_spec m gr k msg.
Proof.
  intros m gr. unfold errors_opt.
  destruct (triples gr) as [|t0 ts0] eqn:TS.
  - exists [(None, Empty)]. split; [reflexivity|].
    intros k msg. simpl. split.
    + intros [E|[]]. inversion E; subst. simpl. rewrite TS. auto.
    + destruct msg; simpl; rewrite TS.
      * intros [E _]. subst. left. reflexivity.
      * intros (_ & N & _). congruence.
      * intros (_ & N & _). congruence.
      * intros (t & _ & [] & _).
      * intros (t & top & _ & [] & _).
  - rewrite <- TS. rewrite first_pass_eq. fold (gof (triples gr)).
    assert (NE : triples gr <> []) by (rewrite TS; discriminate).
    set (g := gof (triples gr)).
    assert (GEN : forall extra : list (ctx * emsg),
              (forall k msg, In (k, msg) extra <->
                 msg <> InvalidRole /\ msg_spec m gr k msg) ->
              forall k msg, In (k, msg) (bad_role_pairs m (triples gr) ++ extra) <-> msg_spec m gr k msg).
    { intros extra HX k msg. rewrite in_app_iff, in_bad_role_pairs, HX. split.
      - intros [[E S]|[_ S]]; [subst; exact S|exact S].
      - intro S. destruct msg; try (right; split; [discriminate|exact S]).
        left. split; [reflexivity|exact S]. }
    destruct (graph_top gr) as [top|] eqn:GT.
    + destruct (falsy top) eqn:FT.
      * exists (bad_role_pairs m (triples gr) ++ [(None, NoTop)]). split.
        { rewrite run_append_app. reflexivity. }
        apply GEN. intros k msg. unfold msg_spec. rewrite GT. simpl. split.
        -- intros [E|[]]. inversion E; subst. split; [discriminate|]. simpl. rewrite FT. auto.
        -- intros [N S]. destruct msg; simpl in S.
           ++ destruct S as [_ S]. congruence.
           ++ destruct S as [S _]. subst. left. reflexivity.
           ++ destruct S as (_ & _ & top' & E & F & _). inversion E; subst. congruence.
           ++ congruence.
           ++ destruct S as (t & top' & _ & _ & E & F & _). inversion E; subst. congruence.
      * destruct (dmem atom_eqb top g) eqn:DM; simpl.
        -- destruct (dfs_total gr top) as [res D]. fold g in D. rewrite D.
           eexists. split.
           { rewrite unreach_fold. rewrite <- run_append_app. reflexivity. }
           apply GEN. intros k msg. unfold g. rewrite (in_unreach_pairs gr top res k msg D). unfold msg_spec. rewrite GT.
           apply is_source_dmem in DM. split.
           ++ intros (E & t & E2 & It & NR). subst. split; [discriminate|]. simpl.
              exists t, top. repeat split; auto.
           ++ intros [N S]. destruct msg; simpl in S.
              ** destruct S as [_ S]. congruence.
              ** destruct S as (_ & _ & S). simpl in S. congruence.
              ** destruct S as (_ & _ & top' & E & _ & NS). inversion E; subst. contradiction.
              ** congruence.
              ** destruct S as (t & top' & E1 & It & E & _ & _ & NR). inversion E; subst.
                 split; [reflexivity|]. exists t. auto.
        -- exists (bad_role_pairs m (triples gr) ++ [(None, TopNotVar)]). split.
           { rewrite run_append_app. reflexivity. }
           assert (NS : ~ is_source gr top).
           { intro S. apply is_source_dmem in S. fold g in S. congruence. }
           apply GEN. intros k msg. unfold msg_spec. rewrite GT. simpl. split.
           ++ intros [E|[]]. inversion E; subst. split; [discriminate|]. simpl.
              repeat split; auto. exists top. auto.
           ++ intros [N S]. destruct msg; simpl in S.
              ** destruct S as [_ S]. congruence.
              ** destruct S as (_ & _ & S). simpl in S. congruence.
              ** destruct S as [S _]. subst. left. reflexivity.
              ** congruence.
              ** destruct S as (t & top' & _ & _ & E & _ & SS & _). inversion E; subst. contradiction.
    + exists (bad_role_pairs m (triples gr) ++ [(None, NoTop)]). split.
      { rewrite run_append_app. reflexivity. }
      apply GEN. intros k msg. unfold msg_spec. rewrite GT. simpl. split.
      * intros [E|[]]. inversion E; subst. split; [discriminate|]. simpl. auto.
      * intros [N S]. destruct msg; simpl in S.
        -- destruct S as [_ S]. congruence.
        -- destruct S as [S _]. subst. left. reflexivity.
        -- destruct S as (_ & _ & top' & E & _). discriminate.
        -- congruence.
        -- destruct S as (t & top' & _ & _ & E & _). discriminate.
Qed.

(* ------------------------------------------------------------------ *)
(** * Reading the report *)

Lemma in_appended : forall {K V} (keq : K -> K -> bool) (k : K) (ps : list (K * V)) v,
  In v (appended keq k ps) <-> exists k', In (k', v) ps /\ keq k k' = true.
Proof.
  intros K V keq k ps v. unfold appended. rewrite in_map_iff. split.
  - intros ([k' v'] & E & I). simpl in E. subst v'. apply filter_In in I. destruct I as [I H].
    exists k'. auto.
  - intros (k' & I & H). exists (k', v). split; [reflexivity|]. apply filter_In. auto.
Qed.

Lemma reported_run_append : forall ps k msg,
  reported (run_append ctx_eqb ps []) k msg <->
  exists k', In (k', msg) ps /\ ctx_eqb k k' = true.
Proof.
  intros ps k msg. unfold reported. rewrite (dget_run_append ctx_eqb ctx_equiv). simpl.
  rewrite <- in_appended. destruct (appended ctx_eqb k ps) as [|x l]; simpl.
  - split; [intros (l & E & _); discriminate|intros []].
  - split.
    + intros (l' & E & I). inversion E; subst. exact I.
    + intros I. eexists. split; [reflexivity|exact I].
Qed.

Lemma errors_run : forall m gr, exists ps,
  errors m gr = run_append ctx_eqb ps [] /\
  forall k msg, In (k, msg) ps <-> msg_spec m gr k msg.
Proof.
  intros m gr. destruct (errors_pairs m gr) as (ps & E & S). exists ps.
  split; [|exact S]. unfold errors. rewrite E. reflexivity.
Qed.

Lemma errors_opt_total : forall m gr, errors_opt m gr = Some (errors m gr).
Proof.
  intros m gr. destruct (errors_pairs m gr) as (ps & E & _). unfold errors. rewrite E. reflexivity.
Qed.

Lemma reported_spec : forall m gr k msg,
  reported (errors m gr) k msg <-> exists k', ctx_eqb k k' = true /\ msg_spec m gr k' msg.
Proof.
  intros m gr k msg. destruct (errors_run m gr) as (ps & E & S). rewrite E, reported_run_append.
  split; intros (k' & A & B); exists k'; [apply S in A|apply S in B]; auto.
Qed.

Lemma ctx_eqb_none : forall k, ctx_eqb k None = true <-> k = None.
Proof. destruct k; simpl; split; intro H; congruence. Qed.

Lemma tmem_iff : forall t ts, tmem t ts = true <-> exists t', In t' ts /\ triple_eqb t t' = true.
Proof. intros. unfold tmem. apply existsb_exists. Qed.

Lemma has_role_defined : forall m r, has_role m r = true <-> role_defined m r.
Proof.
  intros m r. unfold has_role, role_defined. rewrite orb_true_iff, andb_true_iff. split.
  - intros [H|[E H]]; [left; exact H|right]. exists (drop_last 3 r). split; [|exact H].
    apply endswith_OF_split. exact E.
  - intros [H|(r0 & E & H)]; [left; exact H|right]. subst r.
    rewrite drop_last_OF. split; [apply endswith_app|exact H].
Qed.

Lemma invalid_role_iff : forall m gr t,
  reported (errors m gr) (Some t) InvalidRole <->
  tmem t (triples gr) = true /\ ~ role_defined m (trole t).
Proof.
  intros m gr t. rewrite reported_spec, tmem_iff, <- has_role_defined. split.
  - intros (k' & E & t' & K & I & H). subst k'. simpl in E. split; [exists t'; auto|].
    apply triple_eqb_parts in E. destruct E as (_ & R & _). rewrite R, H. discriminate.
  - intros [(t' & I & E) H]. exists (Some t'). split; [exact E|]. exists t'. repeat split; auto.
    apply triple_eqb_parts in E. destruct E as (_ & R & _). rewrite <- R.
    destruct (has_role m (trole t)); congruence.
Qed.

Lemma invalid_role_only_triples : forall m gr k,
  reported (errors m gr) k InvalidRole -> exists t, k = Some t.
Proof.
  intros m gr k H. apply reported_spec in H. destruct H as (k' & E & t' & K & _). subst.
  destruct k as [t|]; [eauto|discriminate].
Qed.

Lemma unreachable_iff : forall m gr t,
  reported (errors m gr) (Some t) Unreachable <->
  tmem t (triples gr) = true /\
  exists top, graph_top gr = Some top /\ falsy top = false /\ is_source gr top /\
              ~ reachable gr top (tsrc t).
Proof.
  intros m gr t. rewrite reported_spec, tmem_iff. split.
  - intros (k' & E & t' & top & K & I & GT & F & S & NR). subst k'. simpl in E.
    split; [exists t'; auto|]. exists top. repeat split; auto. intro R. apply NR.
    apply triple_eqb_parts in E. destruct E as (E & _). eapply reachable_congr_r; eauto.
  - intros [(t' & I & E) (top & GT & F & S & NR)]. exists (Some t'). split; [exact E|].
    exists t', top. repeat split; auto. intro R. apply NR.
    apply triple_eqb_parts in E. destruct E as (E & _). rewrite atom_eqb_sym in E.
    eapply reachable_congr_r; eauto.
Qed.

Lemma general_messages_iff : forall m gr k,
  (reported (errors m gr) k Empty <-> k = None /\ triples gr = []) /\
  (reported (errors m gr) k NoTop <->
     k = None /\ triples gr <> [] /\ top_falsy (graph_top gr) = true) /\
  (reported (errors m gr) k TopNotVar <->
     k = None /\ triples gr <> [] /\
     exists top, graph_top gr = Some top /\ falsy top = false /\ ~ is_source gr top).
Proof.
  intros m gr k. rewrite !reported_spec. simpl. split; [|split].
  - split.
    + intros (k' & E & K & T). subst. apply ctx_eqb_none in E. auto.
    + intros [K T]. subst. exists None. auto.
  - split.
    + intros (k' & E & K & T). subst. apply ctx_eqb_none in E. auto.
    + intros [K T]. subst. exists None. auto.
  - split.
    + intros (k' & E & K & T). subst. apply ctx_eqb_none in E. auto.
    + intros [K T]. subst. exists None. auto.
Qed.

Lemma dfs_is_component : forall m gr top,
  exists res, dfs (snd (first_pass m (triples gr))) top = Some res /\
              forall v, mem atom_eqb v res = true <-> reachable gr top v.
Proof.
  intros m gr top. rewrite first_pass_eq. simpl. fold (gof (triples gr)).
  destruct (dfs_total gr top) as [res D]. exists res. split; [exact D|].
  apply dfs_component. exact D.
Qed.

(* ------------------------------------------------------------------ *)
(** * --check : exit status and error-N metadata *)

Lemma fold_orb : forall {A} (p : A -> bool) l b,
  fold_left (fun acc x => acc || p x) l b = b || existsb p l.
Proof.
  induction l as [|x l IH]; intros b; simpl; [rewrite orb_false_r; reflexivity|].
  rewrite IH. rewrite orb_assoc. reflexivity.
Qed.

Lemma check_status : forall m g, fst (check_graph m g) = negb (match errors m g with [] => true | _ => false end).
Proof. intros m g. unfold check_graph. destruct (errors m g); reflexivity. Qed.

Lemma check_status_true : forall m g, fst (check_graph m g) = true <-> errors m g <> [].
Proof.
  intros m g. rewrite check_status. destruct (errors m g); simpl; split; intro H; congruence.
Qed.

Lemma process_exit_iff : forall m gs,
  process_exit m gs = true <-> exists g, In g gs /\ errors m g <> [].
Proof.
  intros m gs. unfold process_exit. rewrite fold_orb. simpl. rewrite existsb_exists.
  split; intros (g & I & H); exists g; (split; [exact I|]); apply check_status_true; exact H.
Qed.

Lemma exit_code_iff : forall m files,
  cli_exit_code m files = true <->
  exists f, In f files /\ exists g, In g f /\ errors m g <> [].
Proof.
  intros m files. unfold cli_exit_code. rewrite fold_orb. simpl. rewrite existsb_exists.
  split; intros (f & I & H); exists f; (split; [exact I|]); apply process_exit_iff; exact H.
Qed.

Lemma error_key_inj : forall i j, error_key i = error_key j -> i = j.
Proof.
  intros i j E. unfold error_key in E. apply app_inv_head in E. apply N_to_str_inj. exact E.
Qed.

Lemma str_equiv : is_equiv str_eqb.
Proof.
  repeat split.
  - apply str_eqb_refl.
  - intros a b. destruct (str_eqb a b) eqn:E.
    + apply str_eqb_eq in E. subst. symmetry. apply str_eqb_refl.
    + destruct (str_eqb b a) eqn:E2; [|reflexivity]. apply str_eqb_eq in E2. subst.
      rewrite str_eqb_refl in E. discriminate.
  - intros a b c H1 H2. apply str_eqb_eq in H1. apply str_eqb_eq in H2. subst. apply str_eqb_refl.
Qed.

Lemma inner_set_last : forall key pre (msgs : list emsg) md, msgs <> [] ->
  dget str_eqb key (fold_left (fun md msg => dset str_eqb key (pre ++ emsg_text msg) md) msgs md)
  = Some (pre ++ emsg_text (last msgs Empty)).
Proof.
  intros key pre msgs. induction msgs as [|x msgs IH]; intros md NE; [congruence|].
  simpl fold_left. destruct msgs as [|y msgs'].
  - simpl. apply (dget_dset_same str_eqb str_equiv). apply str_eqb_refl.
  - rewrite IH by discriminate. reflexivity.
Qed.

Lemma inner_set_other : forall key key' pre (msgs : list emsg) md, key' <> key ->
  dget str_eqb key' (fold_left (fun md msg => dset str_eqb key (pre ++ emsg_text msg) md) msgs md)
  = dget str_eqb key' md.
Proof.
  intros key key' pre msgs. induction msgs as [|x msgs IH]; intros md NE; simpl; [reflexivity|].
  rewrite IH by exact NE. apply (dget_dset_other str_eqb str_equiv). apply str_eqb_neq. exact NE.
Qed.

Lemma check_fold : forall (e : errdict) i0 md,
  (forall k msgs, In (k, msgs) e -> msgs <> []) ->
  forall j k msgs, nth_error e j = Some (k, msgs) ->
  dget str_eqb (error_key (i0 + N.of_nat j)) (snd (fold_left check_step e (i0, md)))
  = Some (ctx_text k ++ emsg_text (last msgs Empty)).
Proof.
  assert (OTHER : forall (e : errdict) i0 md key,
            (forall j, key <> error_key (i0 + N.of_nat j)) ->
            dget str_eqb key (snd (fold_left check_step e (i0, md))) = dget str_eqb key md).
  { induction e as [|[k msgs] e IH]; intros i0 md key H; simpl; [reflexivity|].
    unfold check_step at 2. simpl. rewrite IH.
    - apply inner_set_other. specialize (H 0). rewrite N.add_0_r in H. exact H.
    - intros j. specialize (H (S j)). replace (i0 + 1 + N.of_nat j)%N with (i0 + N.of_nat (S j))%N by lia.
      exact H. }
  induction e as [|[k0 msgs0] e IH]; intros i0 md NE j k msgs H.
  - destruct j; discriminate.
  - simpl fold_left. unfold check_step at 2. simpl fst. simpl snd.
    destruct j as [|j].
    + simpl in H. inversion H; subst. rewrite N.add_0_r. rewrite OTHER.
      * apply inner_set_last. apply (NE k). left. reflexivity.
      * intros j E. apply error_key_inj in E. lia.
    + simpl in H. replace (i0 + N.of_nat (S j))%N with (i0 + 1 + N.of_nat j)%N by lia.
      apply IH; [|exact H]. intros k' msgs' I. apply (NE k'). right. exact I.
Qed.

Lemma errors_vals_nonempty : forall m gr k msgs, In (k, msgs) (errors m gr) -> msgs <> [].
Proof.
  intros m gr. destruct (errors_run m gr) as (ps & E & _). rewrite E.
  apply (vals_nonempty_run ctx_eqb). intros k l [].
Qed.

Lemma errors_keys_nodup : forall m gr, keys_nodup ctx_eqb (dkeys (errors m gr)).
Proof.
  intros m gr. destruct (errors_run m gr) as (ps & E & _). rewrite E.
  apply (keys_nodup_run ctx_eqb ctx_equiv). exact I.
Qed.

Lemma check_graph_md : forall m gr, errors m gr <> [] ->
  snd (check_graph m gr) = snd (fold_left check_step (errors m gr) (1%N, gmeta gr)).
Proof. intros m gr H. unfold check_graph. destruct (errors m gr); [congruence|reflexivity]. Qed.

Lemma check_records_all : forall m gr,
  let e := errors m gr in
  let md := snd (check_graph m gr) in
  (fst (check_graph m gr) = true <-> e <> []) /\
  keys_nodup ctx_eqb (dkeys e) /\
  (forall k msg, reported e k msg ->
     exists i k' msgs, nth_error e i = Some (k', msgs) /\ ctx_eqb k k' = true /\ In msg msgs) /\
  (forall i k msgs, nth_error e i = Some (k, msgs) ->
     msgs <> [] /\
     dget str_eqb (error_key (N.of_nat i + 1)) md
     = Some (ctx_text k ++ emsg_text (last msgs Empty))).
Proof.
  intros m gr e md. split; [apply check_status_true|]. split; [apply errors_keys_nodup|]. split.
  - intros k msg (l & G & I). apply Errors_lemmas.dget_in in G. destruct G as (k0 & I0 & E0).
    apply In_nth_error in I0. destruct I0 as [i Hi]. exists i, k0, l. auto.
  - intros i k msgs H.
    assert (NE : msgs <> []).
    { apply (errors_vals_nonempty m gr k). eapply nth_error_In. exact H. }
    split; [exact NE|]. unfold md. rewrite check_graph_md.
    + fold e. replace (N.of_nat i + 1)%N with (1 + N.of_nat i)%N by lia.
      apply check_fold; [|exact H]. apply errors_vals_nonempty.
    + fold e. intro Z. rewrite Z in H. destruct i; discriminate.
Qed.

(* ------------------------------------------------------------------ *)
(** * Graphs decoded from a tree: every source hangs off the root *)

Fixpoint interp_bs (m : model) (vars : list atom) (var : atom) (bs : list branch)
  (hc : bool) (ts : list triple) (es : list epientry)
  : outcome (bool * list triple * list epientry) :=
  match bs with
  | [] => Ok (hc, ts, es)
  | (role, tgt) :: bs' =>
      '(role', repis) <- process_role role ;;
      let hc' := hc || str_eqb role' INSTANCE in
      match tgt with
      | TAtom a =>
          '(a', tepis) <- process_atomic a ;;
          let tr0 : triple := (var, role', a') in
          let tr := if is_role_inverted m role' && mem atom_eqb a' vars
                    then deinvert m tr0 else tr0 in
          interp_bs m vars var bs' hc' (ts ++ [tr]) (es ++ [(tr, repis ++ tepis)])
      | TNode n' =>
          let v' := node_var n' in
          let tr := deinvert m (var, role', v') in
          '(ts2, es2) <- interp_node m vars n' ;;
          interp_bs m vars var bs' hc' (ts ++ tr :: ts2)
             (es ++ (tr, repis ++ [Push v']) :: add_pop_last es2)
      end
  end.

Lemma interp_node_eq : forall m vars var bs,
  interp_node m vars (Node var bs) =
  ('(hc, ts, es) <- interp_bs m vars var bs false [] [] ;;
   if hc then Ok (ts, es)
   else let inst : triple := (var, INSTANCE, ANone) in Ok (inst :: ts, (inst, []) :: es)).
Proof.
  intros m vars var bs. simpl.
  match goal with
  | |- bind (?g bs false [] []) _ = _ =>
      assert (E : forall l hc ts es, g l hc ts es = interp_bs m vars var l hc ts es)
  end.
  { induction l as [|[role tgt] l IH]; intros hc ts es; [reflexivity|].
    simpl. destruct (process_role role) as [[role' repis]| | | | | | | |]; simpl; try reflexivity.
    destruct tgt as [a|n'].
    - destruct (process_atomic a) as [[a' tepis]| | | | | | | |]; simpl; try reflexivity. apply IH.
    - destruct (interp_node m vars n') as [[ts2 es2]| | | | | | | |]; simpl; try reflexivity. apply IH. }
  rewrite E. reflexivity.
Qed.

Fixpoint nodes_bs (bs : list branch) : list node :=
  match bs with
  | [] => []
  | (_, TAtom _) :: bs' => nodes_bs bs'
  | (_, TNode n') :: bs' => nodes_of n' ++ nodes_bs bs'
  end.

Lemma nodes_of_eq : forall v bs,
  nodes_of (Node v bs) = match v with ANone => nodes_bs bs | _ => Node v bs :: nodes_bs bs end.
Proof.
  intros v bs. simpl.
  match goal with
  | |- match v with ANone => ?g bs | _ => _ end = _ => assert (E : forall l, g l = nodes_bs l)
  end.
  { induction l as [|[role [a|n']] l IH]; simpl; [reflexivity|exact IH|rewrite IH; reflexivity]. }
  rewrite E. reflexivity.
Qed.

Fixpoint edges_ok_bs (m : model) (bs : list branch) : bool :=
  match bs with
  | [] => true
  | (role, TAtom _) :: bs' => edges_ok_bs m bs'
  | (role, TNode n') :: bs' => node_role_ok m role && edges_not_instance m n' && edges_ok_bs m bs'
  end.
Lemma edges_not_instance_eq : forall m v bs, edges_not_instance m (Node v bs) = edges_ok_bs m bs.
Proof.
  intros m v bs. simpl. induction bs as [|[role [a|n']] bs IH]; simpl; [reflexivity|exact IH|].
  rewrite IH. reflexivity.
Qed.

Definition fixt (t : triple) : triple := (tsrc t, ensure_colon (trole t), ttgt t).

Lemma deinvert_cases : forall m s r t,
  deinvert m (s, r, t) = (s, r, t) \/
  deinvert m (s, r, t) = (t, invert_role m r, s).
Proof.
  intros. unfold deinvert. destruct (deinverts m); auto.
  destruct (is_role_inverted m (trole (s, r, t))); auto.
Qed.

Lemma trole_deinvert : forall m s r t s' t',
  trole (deinvert m (s, r, t)) = trole (deinvert m (s', r, t')).
Proof.
  intros. unfold deinvert. destruct (deinverts m); [|reflexivity].
  unfold trole at 2 4. simpl fst. simpl snd.
  destruct (is_role_inverted m r); reflexivity.
Qed.

Lemma instance_not_inverted : forall m, is_role_inverted m INSTANCE = false.
Proof. intros m. unfold is_role_inverted. rewrite andb_false_iff. right. vm_compute. reflexivity. Qed.

Lemma interp_bs_incl : forall m vars var bs hc ts es hc' ts' es',
  interp_bs m vars var bs hc ts es = Ok (hc', ts', es') -> incl ts ts'.
Proof.
  induction bs as [|[role tgt] bs IH]; intros hc ts es hc' ts' es' H; simpl in H.
  - inversion H; subst. apply incl_refl.
  - destruct (process_role role) as [[role' repis]| | | | | | | |]; simpl in H; try discriminate.
    destruct tgt as [a|n'].
    + destruct (process_atomic a) as [[a' tepis]| | | | | | | |]; simpl in H; try discriminate.
      apply IH in H. intros x I. apply H. apply in_or_app. left. exact I.
    + destruct (interp_node m vars n') as [[ts2 es2]| | | | | | | |]; simpl in H; try discriminate.
      apply IH in H. intros x I. apply H. apply in_or_app. left. exact I.
Qed.

(* Lemma A: the variable of a node is the source of one of its own triples *)
Lemma interp_bs_hc : forall m vars var bs hc ts es hc' ts' es',
  interp_bs m vars var bs hc ts es = Ok (hc', ts', es') ->
  edges_ok_bs m bs = true ->
  (hc = true -> exists t, In t ts /\ tsrc t = var) ->
  (hc' = true -> exists t, In t ts' /\ tsrc t = var).
Proof.
  induction bs as [|[role tgt] bs IH]; intros hc ts es hc' ts' es' H G Inv; simpl in H.
  - inversion H; subst. exact Inv.
  - destruct (process_role role) as [[role' repis]| | | | | | | |] eqn:PR; simpl in H; try discriminate.
    destruct tgt as [a|n'].
    + destruct (process_atomic a) as [[a' tepis]| | | | | | | |]; simpl in H; try discriminate.
      simpl in G. eapply IH; [exact H|exact G|]. intros HC.
      apply orb_true_iff in HC. destruct HC as [HC|HC].
      * destruct (Inv HC) as (t & I & S). exists t. split; [apply in_or_app; left; exact I|exact S].
      * apply str_eqb_eq in HC. subst role'. rewrite instance_not_inverted. simpl.
        exists (var, INSTANCE, a'). split; [apply in_or_app; right; left; reflexivity|reflexivity].
    + destruct (interp_node m vars n') as [[ts2 es2]| | | | | | | |]; simpl in H; try discriminate.
      simpl in G. apply andb_true_iff in G. destruct G as [G G3].
      apply andb_true_iff in G. destruct G as [G1 G2].
      eapply IH; [exact H|exact G3|]. intros HC.
      apply orb_true_iff in HC. destruct HC as [HC|HC].
      * destruct (Inv HC) as (t & I & S). exists t. split; [apply in_or_app; left; exact I|exact S].
      * exfalso. apply str_eqb_eq in HC. subst role'. unfold node_role_ok in G1. rewrite PR in G1.
        unfold final_role, deinvert in G1. simpl trole in G1. rewrite instance_not_inverted in G1.
        destruct (deinverts m); vm_compute in G1; discriminate.
Qed.

Lemma interp_node_src : forall m vars n ts es,
  interp_node m vars n = Ok (ts, es) -> edges_not_instance m n = true ->
  exists t, In t ts /\ tsrc t = node_var n.
Proof.
  intros m vars [var bs] ts es H G. rewrite interp_node_eq in H. rewrite edges_not_instance_eq in G.
  destruct (interp_bs m vars var bs false [] []) as [[[hc ts0] es0]| | | | | | | |] eqn:B;
    simpl in H; try discriminate.
  destruct hc.
  - inversion H; subst. eapply interp_bs_hc; eauto. discriminate.
  - inversion H; subst. exists (var, INSTANCE, ANone). split; [left; reflexivity|reflexivity].
Qed.

Section Decoded.
  Variable m : model.
  Variable vars : list atom.
  Variable gr : graph.

  Definition within (ts : list triple) : Prop := forall t, In t ts -> In (fixt t) (triples gr).

  Lemma within_source : forall ts t, within ts -> In t ts -> is_source gr (tsrc t).
  Proof.
    intros ts t W I. unfold is_source, mem. apply existsb_exists. exists (tsrc t). split.
    - apply in_map_iff. exists (fixt t). split; [reflexivity|apply W; exact I].
    - apply atom_eqb_refl.
  Qed.

  Definition hangs (var : atom) (t : triple) : Prop :=
    reachable gr var (tsrc t) \/ mem atom_eqb (tsrc t) vars = true.

  Definition node_good (n : node) : Prop :=
    forall ts es, interp_node m vars n = Ok (ts, es) -> edges_not_instance m n = true ->
      within ts ->
      (forall n'', In n'' (nodes_of n) -> reachable gr (node_var n) (node_var n'')) /\
      (forall t, In t ts -> hangs (node_var n) t).

  Lemma hangs_trans : forall var v' t, reachable gr var v' -> hangs v' t -> hangs var t.
  Proof. intros var v' t R [H|H]; [left; eapply reach_trans; eauto|right; exact H]. Qed.

  Lemma interp_bs_good : forall var bs, Forall (branch_ok node_good) bs ->
    is_source gr var ->
    forall hc ts es hc' ts' es',
    interp_bs m vars var bs hc ts es = Ok (hc', ts', es') ->
    edges_ok_bs m bs = true -> within ts' ->
    (forall t, In t ts -> hangs var t) ->
    (forall n'', In n'' (nodes_bs bs) -> reachable gr var (node_var n'')) /\
    (forall t, In t ts' -> hangs var t).
  Proof.
    intros var bs FB SV. induction FB as [|[role tgt] bs Hb Hbs IH];
      intros hc ts es hc' ts' es' H G W Inv; simpl in H.
    - inversion H; subst. split; [intros n'' []|exact Inv].
    - destruct (process_role role) as [[role' repis]| | | | | | | |] eqn:PR; simpl in H; try discriminate.
      destruct tgt as [a|n'].
      + destruct (process_atomic a) as [[a' tepis]| | | | | | | |]; simpl in H; try discriminate.
        simpl in G. simpl nodes_bs. eapply IH; [exact H|exact G|exact W|].
        intros t I. apply in_app_or in I. destruct I as [I|[I|[]]]; [apply Inv; exact I|]. subst t.
        destruct (is_role_inverted m role' && mem atom_eqb a' vars) eqn:C.
        * apply andb_true_iff in C. destruct C as [_ C].
          destruct (deinvert_cases m var role' a') as [E|E]; rewrite E.
          -- left. apply reach_refl. apply atom_eqb_refl.
          -- right. exact C.
        * left. apply reach_refl. apply atom_eqb_refl.
      + destruct (interp_node m vars n') as [[ts2 es2]| | | | | | | |] eqn:IN; simpl in H; try discriminate.
        simpl in G. apply andb_true_iff in G. destruct G as [G G3].
        apply andb_true_iff in G. destruct G as [G1 G2].
        assert (INC := interp_bs_incl _ _ _ _ _ _ _ _ _ _ H).
        set (tr := deinvert m (var, role', node_var n')) in *.
        assert (W2 : within ts2).
        { intros t I. apply W, INC. apply in_or_app. right. right. exact I. }
        assert (Wtr : In (fixt tr) (triples gr)).
        { apply W, INC. apply in_or_app. right. left. reflexivity. }
        assert (SV' : is_source gr (node_var n')).
        { destruct (interp_node_src _ _ _ _ _ IN G2) as (t & I & S). rewrite <- S.
          eapply within_source; eauto. }
        assert (NI : str_eqb (trole (fixt tr)) INSTANCE = false).
        { unfold node_role_ok in G1. rewrite PR in G1. apply negb_true_iff in G1.
          unfold final_role in G1. unfold fixt, tr. simpl.
          rewrite (trole_deinvert m var role' (node_var n') ANone ANone). exact G1. }
        assert (R : reachable gr var (node_var n')).
        { destruct (deinvert_cases m var role' (node_var n')) as [E|E].
          - apply reach_edge. exists (fixt tr). repeat split; auto; unfold tr; rewrite E; simpl;
              apply atom_eqb_refl.
          - apply reach_sym, reach_edge. exists (fixt tr). repeat split; auto; unfold tr; rewrite E; simpl;
              apply atom_eqb_refl. }
        unfold branch_ok in Hb. simpl in Hb.
        destruct (Hb ts2 es2 IN G2 W2) as [N2 T2].
        assert (REST : (forall n'', In n'' (nodes_bs bs) -> reachable gr var (node_var n'')) /\
                       (forall t, In t ts' -> hangs var t)).
        { eapply IH; [exact H|exact G3|exact W|].
          intros t I. apply in_app_or in I. destruct I as [I|[I|I]].
          - apply Inv. exact I.
          - subst t. destruct (deinvert_cases m var role' (node_var n')) as [E|E];
              unfold tr; rewrite E; left; simpl; [apply reach_refl, atom_eqb_refl|exact R].
          - eapply hangs_trans; [exact R|]. apply T2. exact I. }
        destruct REST as [RN RT]. split; [|exact RT].
        intros n'' I. simpl in I. apply in_app_or in I. destruct I as [I|I].
        * eapply reach_trans; [exact R|]. apply N2. exact I.
        * apply RN. exact I.
  Qed.

  Lemma node_good_all : forall n, node_good n.
  Proof.
    induction n as [var bs IHbs] using node_ind'. intros ts es H G W.
    assert (SV : is_source gr var).
    { destruct (interp_node_src _ _ _ _ _ H G) as (t & I & S). simpl in S. rewrite <- S.
      eapply within_source; eauto. }
    rewrite interp_node_eq in H. rewrite edges_not_instance_eq in G.
    destruct (interp_bs m vars var bs false [] []) as [[[hc ts0] es0]| | | | | | | |] eqn:B;
      simpl in H; try discriminate.
    assert (W0 : within ts0).
    { destruct hc; inversion H; subst; [exact W|]. intros t I. apply W. right. exact I. }
    destruct (interp_bs_good var bs IHbs SV _ _ _ _ _ _ B G W0) as [RN RT]; [intros t []|].
    simpl node_var. split.
    - intros n'' I. rewrite nodes_of_eq in I.
      assert (C : n'' = Node var bs \/ In n'' (nodes_bs bs)).
      { destruct var; simpl in I; [right; exact I| |];
          (destruct I as [I|I]; [left; symmetry; exact I|right; exact I]). }
      destruct C as [C|C]; [subst; apply reach_refl, atom_eqb_refl|apply RN; exact C].
    - intros t I. destruct hc; inversion H; subst.
      + apply RT. exact I.
      + destruct I as [I|I]; [subst; left; apply reach_refl, atom_eqb_refl|apply RT; exact I].
  Qed.
End Decoded.

Lemma triples_mk_graph : forall ts top ed meta,
  triples (mk_graph ts top ed meta) = map fixt ts.
Proof. reflexivity. Qed.

Lemma decoded_connected : forall m t g,
  interpret m t = Ok g -> edges_not_instance m (troot t) = true ->
  is_source g (node_var (troot t)) /\
  forall x, In x (triples g) -> reachable g (node_var (troot t)) (tsrc x).
Proof.
  intros m t g H G. unfold interpret in H.
  destruct (interp_node m (tree_vars (troot t)) (troot t)) as [[ts es]| | | | | | | |] eqn:IN;
    simpl in H; try discriminate.
  inversion H; subst g. clear H.
  set (gr := mk_graph ts _ _ _).
  assert (W : within gr ts).
  { intros x I. unfold gr. rewrite triples_mk_graph. apply in_map. exact I. }
  destruct (node_good_all m (tree_vars (troot t)) gr (troot t) ts es IN G W) as [RN RT].
  split.
  - destruct (interp_node_src _ _ _ _ _ IN G) as (x & I & S). rewrite <- S.
    eapply within_source; eauto.
  - intros x I. unfold gr in I. rewrite triples_mk_graph in I. apply in_map_iff in I.
    destruct I as (x0 & E & I). subst x. simpl.
    destruct (RT x0 I) as [R|M]; [exact R|].
    unfold mem, tree_vars in M. apply existsb_exists in M. destruct M as (v & Iv & Ev).
    apply in_map_iff in Iv. destruct Iv as (n'' & En & In'').
    subst v. eapply reachable_congr_r; [rewrite atom_eqb_sym; exact Ev|]. apply RN. exact In''.
Qed.

Lemma decoded_only_role_errors : forall m t g,
  interpret m t = Ok g -> falsy (node_var (troot t)) = false ->
  edges_not_instance m (troot t) = true ->
  forall k msg, reported (errors m g) k msg -> msg = InvalidRole.
Proof.
  intros m t g H F G k msg R.
  destruct (decoded_connected m t g H G) as [SV RT].
  assert (GT : graph_top g = Some (node_var (troot t))).
  { unfold interpret in H.
    destruct (interp_node m (tree_vars (troot t)) (troot t)) as [[ts es]| | | | | | | |];
      simpl in H; try discriminate.
    inversion H; subst g. unfold graph_top. simpl.
    destruct (node_var (troot t)); [discriminate|reflexivity|reflexivity]. }
  apply reported_spec in R. destruct R as (k' & _ & S).
  destruct msg; simpl in S; try reflexivity; exfalso.
  - destruct S as [_ E]. unfold is_source in SV. rewrite E in SV. discriminate.
  - destruct S as (_ & _ & S). rewrite GT in S. simpl in S. congruence.
  - destruct S as (_ & _ & top & E & _ & NS). rewrite GT in E. inversion E; subst. contradiction.
  - destruct S as (x & top & _ & I & E & _ & _ & NR). rewrite GT in E. inversion E; subst.
    apply NR. apply RT. exact I.
Qed.

(* ------------------------------------------------------------------ *)
(** * Statements as used by Properties/C16.v (with the domain guard) *)

Lemma invalid_role_iff_guarded : forall m gr, str_sources gr -> forall t,
  reported (errors m gr) (Some t) InvalidRole <->
  tmem t (triples gr) = true /\ ~ role_defined m (trole t).
Proof. intros m gr _ t. apply invalid_role_iff. Qed.

Lemma unreachable_iff_guarded : forall m gr, str_sources gr -> forall t,
  reported (errors m gr) (Some t) Unreachable <->
  tmem t (triples gr) = true /\
  exists top, graph_top gr = Some top /\ falsy top = false /\ is_source gr top /\
              ~ reachable gr top (tsrc t).
Proof. intros m gr _ t. apply unreachable_iff. Qed.

Lemma general_messages_iff_guarded : forall m gr, str_sources gr -> forall k,
  (reported (errors m gr) k Empty <-> k = None /\ triples gr = []) /\
  (reported (errors m gr) k NoTop <->
     k = None /\ triples gr <> [] /\ top_falsy (graph_top gr) = true) /\
  (reported (errors m gr) k TopNotVar <->
     k = None /\ triples gr <> [] /\
     exists top, graph_top gr = Some top /\ falsy top = false /\ ~ is_source gr top).
Proof. intros m gr _ k. apply general_messages_iff. Qed.

Lemma exit_code_stdin_iff : forall m gs,
  cli_exit_code_stdin m gs = true <-> exists g, In g gs /\ errors m g <> [].
Proof. intros. apply process_exit_iff. Qed.

(* witnesses *)
Definition s_a : str := [97]%N.
Definition s_b : str := [98]%N.
Definition s_x : str := [120]%N.
Definition s_y : str := [121]%N.
Definition ARG0 : str := [58;65;82;71;48]%N.
(* (a :instance (b / x)) *)
Definition tree_instance_edge : tree :=
  mkTree (Node (AStr s_a) [(INSTANCE, TNode (Node (AStr s_b) [(SLASHS, TAtom (AStr s_x))]))]) [].
(* (a / x :ARG0 (b / y :ARG0-of a)) *)
Definition tree_plain : tree :=
  mkTree (Node (AStr s_a) [(SLASHS, TAtom (AStr s_x));
                           (ARG0, TNode (Node (AStr s_b) [(SLASHS, TAtom (AStr s_y));
                                                          (ARG0 ++ OF, TAtom (AStr s_a))]))]) [].

Lemma decoded_guard_is_needed :
  exists g, interpret default_model tree_instance_edge = Ok g /\
            falsy (node_var (troot tree_instance_edge)) = false /\
            edges_not_instance default_model (troot tree_instance_edge) = false /\
            reported (errors default_model g) (Some (AStr s_b, INSTANCE, AStr s_x)) Unreachable.
Proof.
  eexists. split; [vm_compute; reflexivity|]. split; [reflexivity|]. split; [vm_compute; reflexivity|].
  eexists. split; [vm_compute; reflexivity|]. left. reflexivity.
Qed.

Lemma decoded_nonvacuous :
  exists g, interpret default_model tree_plain = Ok g /\
            falsy (node_var (troot tree_plain)) = false /\
            edges_not_instance default_model (troot tree_plain) = true /\
            length (triples g) = 4 /\
            reported (errors default_model g) (Some (AStr s_a, ARG0, AStr s_b)) InvalidRole.
Proof.
  eexists. split; [vm_compute; reflexivity|]. split; [reflexivity|]. split; [vm_compute; reflexivity|].
  split; [reflexivity|]. eexists. split; [vm_compute; reflexivity|]. left. reflexivity.
Qed.

(* a two-component graph with string sources: b is not connected to the top a *)
Definition graph_two_components : graph :=
  mkGraph [(AStr s_a, INSTANCE, AStr s_b); (AStr s_b, INSTANCE, AStr s_x)] (Some (AStr s_a)) [] [].
Lemma general_nonvacuous :
  str_sources graph_two_components /\
  reported (errors default_model graph_two_components) (Some (AStr s_b, INSTANCE, AStr s_x)) Unreachable.
Proof.
  split.
  - intros t [E|[E|[]]]; subst; eexists; reflexivity.
  - eexists. split; [vm_compute; reflexivity|]. left. reflexivity.
Qed.
