(** Proofs for C16 (model checking: Model.errors, _dfs, --check). *)
From PM Require Import Spec.Connectivity Impl.Errors Impl.Interpret Proofs.Model_lemmas.
From Coq Require Import Lia Arith.

(* ------------------------------------------------------------------ *)
(** * Key equalities are equivalences *)

Lemma atom_eqb_refl : forall a, atom_eqb a a = true.
Proof. destruct a; simpl; auto using str_eqb_refl. Qed.

Lemma atom_eqb_sym : forall a b, atom_eqb a b = atom_eqb b a.
Proof.
  assert (S : forall x y, str_eqb x y = str_eqb y x).
  { intros x y. destruct (str_eqb x y) eqn:E.
    - apply str_eqb_eq in E. subst. symmetry. apply str_eqb_refl.
    - destruct (str_eqb y x) eqn:E2; [|reflexivity].
      apply str_eqb_eq in E2. subst. rewrite str_eqb_refl in E. discriminate. }
  destruct a, b; simpl; auto.
Qed.

Lemma atom_eqb_trans : forall a b c,
  atom_eqb a b = true -> atom_eqb b c = true -> atom_eqb a c = true.
Proof.
  destruct a, b, c; simpl; intros H1 H2; try discriminate; auto;
    apply str_eqb_eq in H1; apply str_eqb_eq in H2; subst; apply str_eqb_refl.
Qed.

Lemma atom_eqb_str : forall s b, atom_eqb (AStr s) b = true -> b = AStr s.
Proof. intros s [|x|x z]; simpl; intro H; try discriminate. apply str_eqb_eq in H. subst. reflexivity. Qed.

Lemma triple_eqb_refl : forall t, triple_eqb t t = true.
Proof. intros t. unfold triple_eqb. rewrite !atom_eqb_refl, str_eqb_refl. reflexivity. Qed.

Lemma triple_eqb_sym : forall a b, triple_eqb a b = triple_eqb b a.
Proof.
  intros a b. unfold triple_eqb.
  rewrite (atom_eqb_sym (tsrc a)), (atom_eqb_sym (ttgt a)).
  f_equal. f_equal. destruct (str_eqb (trole a) (trole b)) eqn:E.
  - apply str_eqb_eq in E. rewrite E. symmetry. apply str_eqb_refl.
  - destruct (str_eqb (trole b) (trole a)) eqn:E2; [|reflexivity].
    apply str_eqb_eq in E2. rewrite E2, str_eqb_refl in E. discriminate.
Qed.

Lemma triple_eqb_parts : forall a b, triple_eqb a b = true <->
  atom_eqb (tsrc a) (tsrc b) = true /\ trole a = trole b /\ atom_eqb (ttgt a) (ttgt b) = true.
Proof.
  intros a b. unfold triple_eqb. rewrite !andb_true_iff, str_eqb_eq. tauto.
Qed.

Lemma triple_eqb_trans : forall a b c,
  triple_eqb a b = true -> triple_eqb b c = true -> triple_eqb a c = true.
Proof.
  intros a b c H1 H2. apply triple_eqb_parts in H1. apply triple_eqb_parts in H2.
  apply triple_eqb_parts. destruct H1 as (A1 & B1 & C1), H2 as (A2 & B2 & C2).
  repeat split; [eapply atom_eqb_trans; eauto | congruence | eapply atom_eqb_trans; eauto].
Qed.

Lemma ctx_eqb_refl : forall k, ctx_eqb k k = true.
Proof. destruct k; simpl; auto using triple_eqb_refl. Qed.
Lemma ctx_eqb_sym : forall a b, ctx_eqb a b = ctx_eqb b a.
Proof. destruct a, b; simpl; auto using triple_eqb_sym. Qed.
Lemma ctx_eqb_trans : forall a b c,
  ctx_eqb a b = true -> ctx_eqb b c = true -> ctx_eqb a c = true.
Proof. destruct a, b, c; simpl; intros; try discriminate; eauto using triple_eqb_trans. Qed.

(* ------------------------------------------------------------------ *)
(** * Generic facts about insertion-ordered dictionaries keyed up to an equivalence *)

Definition is_equiv {K : Type} (keq : K -> K -> bool) : Prop :=
  (forall k, keq k k = true) /\ (forall a b, keq a b = keq b a) /\
  (forall a b c, keq a b = true -> keq b c = true -> keq a c = true).

Lemma atom_equiv : is_equiv atom_eqb.
Proof. repeat split; [apply atom_eqb_refl|apply atom_eqb_sym|apply atom_eqb_trans]. Qed.
Lemma triple_equiv : is_equiv triple_eqb.
Proof. repeat split; [apply triple_eqb_refl|apply triple_eqb_sym|apply triple_eqb_trans]. Qed.
Lemma ctx_equiv : is_equiv ctx_eqb.
Proof. repeat split; [apply ctx_eqb_refl|apply ctx_eqb_sym|apply ctx_eqb_trans]. Qed.

Section DictFacts.
  Context {K V : Type} (keq : K -> K -> bool).
  Hypothesis HE : is_equiv keq.
  Let keq_refl : forall k, keq k k = true := proj1 HE.
  Let keq_sym : forall a b, keq a b = keq b a := proj1 (proj2 HE).
  Let keq_trans : forall a b c, keq a b = true -> keq b c = true -> keq a c = true := proj2 (proj2 HE).

  Lemma keq_congr : forall a b c, keq a b = true -> keq a c = keq b c.
  Proof.
    intros a b c H. destruct (keq b c) eqn:E.
    - eapply keq_trans; eauto.
    - destruct (keq a c) eqn:E2; [|reflexivity].
      rewrite keq_sym in H. rewrite (keq_trans _ _ _ H E2) in E. discriminate.
  Qed.

  Lemma dget_congr : forall (d : dict K V) a b, keq a b = true -> dget keq a d = dget keq b d.
  Proof.
    induction d as [|[k v] d IH]; intros a b H; simpl; [reflexivity|].
    rewrite (keq_congr a b k H). destruct (keq b k); [reflexivity|]. apply IH; exact H.
  Qed.

  Lemma dget_dset_same : forall (d : dict K V) k k' v, keq k' k = true ->
    dget keq k' (dset keq k v d) = Some v.
  Proof.
    induction d as [|[k0 v0] d IH]; intros k k' v H; simpl.
    - rewrite H. reflexivity.
    - destruct (keq k k0) eqn:E; simpl.
      + rewrite (keq_trans _ _ _ H E). reflexivity.
      + assert (E2 : keq k' k0 = false).
        { rewrite (keq_congr k' k k0 H). exact E. }
        rewrite E2. apply IH. exact H.
  Qed.

  Lemma dget_dset_other : forall (d : dict K V) k k' v, keq k' k = false ->
    dget keq k' (dset keq k v d) = dget keq k' d.
  Proof.
    induction d as [|[k0 v0] d IH]; intros k k' v H; simpl.
    - rewrite H. reflexivity.
    - destruct (keq k k0) eqn:E; simpl.
      + assert (E2 : keq k' k0 = false).
        { destruct (keq k' k0) eqn:E3; [|reflexivity].
          rewrite keq_sym in E. rewrite (keq_trans _ _ _ E3 E) in H. discriminate. }
        rewrite E2. reflexivity.
      + destruct (keq k' k0); [reflexivity|]. apply IH. exact H.
  Qed.

  Lemma dkeys_dset_mem : forall (d : dict K V) k v,
    dmem keq k d = true -> dkeys (dset keq k v d) = dkeys d.
  Proof.
    induction d as [|[k0 v0] d IH]; intros k v H; unfold dmem in *; simpl in *.
    - discriminate.
    - destruct (keq k k0) eqn:E; simpl; [reflexivity|]. f_equal. apply IH. exact H.
  Qed.

  Lemma dkeys_dset_new : forall (d : dict K V) k v,
    dmem keq k d = false -> dkeys (dset keq k v d) = dkeys d ++ [k].
  Proof.
    induction d as [|[k0 v0] d IH]; intros k v H; unfold dmem in *; simpl in *.
    - reflexivity.
    - destruct (keq k k0) eqn:E; simpl; [discriminate|]. f_equal. apply IH. exact H.
  Qed.

  Lemma dmem_iff_keys : forall (d : dict K V) k, dmem keq k d = mem keq k (dkeys d).
  Proof.
    induction d as [|[k0 v0] d IH]; intros k; unfold dmem in *; simpl; [reflexivity|].
    destruct (keq k k0); simpl; [reflexivity|]. apply IH.
  Qed.

  Lemma dget_in : forall (d : dict K V) k v, dget keq k d = Some v ->
    exists k0, In (k0, v) d /\ keq k k0 = true.
  Proof.
    induction d as [|[k0 v0] d IH]; intros k v H; simpl in H; [discriminate|].
    destruct (keq k k0) eqn:E.
    - inversion H; subst. exists k0. split; [left; reflexivity|exact E].
    - destruct (IH _ _ H) as (k1 & I1 & E1). exists k1. split; [right; exact I1|exact E1].
  Qed.

  (* keys pairwise inequivalent *)
  Fixpoint keys_nodup (l : list K) : Prop :=
    match l with
    | [] => True
    | k :: l' => mem keq k l' = false /\ keys_nodup l'
    end.

  Lemma in_dget : forall (d : dict K V) k v, keys_nodup (dkeys d) -> In (k, v) d ->
    dget keq k d = Some v.
  Proof.
    induction d as [|[k0 v0] d IH]; intros k v ND I; simpl in *; [contradiction|].
    destruct ND as [N1 N2]. destruct I as [I|I].
    - inversion I; subst. rewrite keq_refl. reflexivity.
    - destruct (keq k k0) eqn:E.
      + exfalso. assert (M : mem keq k0 (dkeys d) = true).
        { unfold mem. apply existsb_exists. exists k. split.
          - apply in_map_iff. exists (k, v). split; [reflexivity|exact I].
          - rewrite keq_sym. exact E. }
        rewrite M in N1. discriminate.
      + apply IH; assumption.
  Qed.

  Lemma mem_app : forall k (a b : list K), mem keq k (a ++ b) = mem keq k a || mem keq k b.
  Proof. intros. unfold mem. apply existsb_app. Qed.

  Lemma mem_congr : forall (l : list K) a b, keq a b = true -> mem keq a l = mem keq b l.
  Proof.
    induction l as [|x l IH]; intros a b H; simpl; [reflexivity|].
    rewrite (keq_congr a b x H). f_equal. apply IH. exact H.
  Qed.

  Lemma keys_nodup_snoc : forall (l : list K) k, keys_nodup l -> mem keq k l = false ->
    keys_nodup (l ++ [k]).
  Proof.
    induction l as [|x l IH]; intros k ND M; simpl in *.
    - split; [reflexivity|exact I].
    - destruct ND as [N1 N2]. destruct (keq k x) eqn:E; [discriminate|]. simpl in M.
      split.
      + rewrite mem_app, N1. simpl. rewrite keq_sym, E. reflexivity.
      + apply IH; assumption.
  Qed.

  Lemma keys_nodup_dset : forall (d : dict K V) k v, keys_nodup (dkeys d) ->
    keys_nodup (dkeys (dset keq k v d)).
  Proof.
    intros d k v ND. destruct (dmem keq k d) eqn:M.
    - rewrite dkeys_dset_mem; assumption.
    - rewrite dkeys_dset_new by assumption. apply keys_nodup_snoc; [exact ND|].
      rewrite <- dmem_iff_keys. exact M.
  Qed.
End DictFacts.

(* messages appended under a key by a run of [dappend] *)
Section AppendFacts.
  Context {K V : Type} (keq : K -> K -> bool).
  Hypothesis HE : is_equiv keq.
  Let keq_refl : forall k, keq k k = true := proj1 HE.
  Let keq_sym : forall a b, keq a b = keq b a := proj1 (proj2 HE).
  Let keq_trans : forall a b c, keq a b = true -> keq b c = true -> keq a c = true := proj2 (proj2 HE).

  Definition appended (k : K) (ps : list (K * V)) : list V :=
    map snd (filter (fun p => keq k (fst p)) ps).
  Definition run_append (ps : list (K * V)) (d : dict K (list V)) : dict K (list V) :=
    fold_left (fun d p => dappend keq (fst p) (snd p) d) ps d.
  Definition opt_app (o : option (list V)) (l : list V) : option (list V) :=
    match o, l with
    | None, [] => None
    | None, _ => Some l
    | Some x, _ => Some (x ++ l)
    end.

  Lemma dget_dappend : forall (d : dict K (list V)) k v k',
    dget keq k' (dappend keq k v d) =
    if keq k' k then Some (match dget keq k' d with Some l => l ++ [v] | None => [v] end)
    else dget keq k' d.
  Proof.
    intros d k v k'. unfold dappend. destruct (keq k' k) eqn:E.
    - rewrite (dget_congr keq HE d k' k E).
      destruct (dget keq k d); apply dget_dset_same; auto.
    - destruct (dget keq k d); apply dget_dset_other; auto.
  Qed.

  Lemma dget_run_append : forall ps (d : dict K (list V)) k,
    dget keq k (run_append ps d) = opt_app (dget keq k d) (appended k ps).
  Proof.
    induction ps as [|[k0 v0] ps IH]; intros d k; unfold run_append in *; simpl.
    - unfold appended. simpl. destruct (dget keq k d); simpl; [rewrite app_nil_r|]; reflexivity.
    - rewrite IH. rewrite dget_dappend. unfold appended. simpl.
      destruct (keq k k0) eqn:E; simpl; [|reflexivity].
      destruct (dget keq k d) as [l|]; simpl.
      + rewrite <- app_assoc. reflexivity.
      + reflexivity.
  Qed.

  Lemma keys_nodup_dappend : forall (d : dict K (list V)) k v, keys_nodup keq (dkeys d) ->
    keys_nodup keq (dkeys (dappend keq k v d)).
  Proof.
    intros d k v ND. unfold dappend. destruct (dget keq k d); apply keys_nodup_dset; auto.
  Qed.

  Lemma keys_nodup_run : forall ps (d : dict K (list V)), keys_nodup keq (dkeys d) ->
    keys_nodup keq (dkeys (run_append ps d)).
  Proof.
    induction ps as [|p ps IH]; intros d ND; unfold run_append in *; simpl; [exact ND|].
    apply IH. apply keys_nodup_dappend. exact ND.
  Qed.

  Lemma dmem_dappend : forall (d : dict K (list V)) k v k',
    dmem keq k' (dappend keq k v d) = keq k' k || dmem keq k' d.
  Proof.
    intros. unfold dmem. rewrite dget_dappend. destruct (keq k' k); reflexivity.
  Qed.

  (* every value stays non-empty *)
  Definition vals_nonempty (d : dict K (list V)) : Prop := forall k l, In (k, l) d -> l <> [].

  Lemma vals_nonempty_dset : forall (d : dict K (list V)) k l, vals_nonempty d -> l <> [] ->
    vals_nonempty (dset keq k l d).
  Proof.
    induction d as [|[k0 l0] d IH]; intros k l NE HL k1 l1 I; simpl in I.
    - destruct I as [I|[]]. inversion I; subst. exact HL.
    - destruct (keq k k0).
      + destruct I as [I|I]; [inversion I; subst; exact HL|]. apply (NE k1). right. exact I.
      + destruct I as [I|I]; [apply (NE k1); left; exact I|].
        apply (IH k l) with (k := k1); auto. intros k2 l2 I2. apply (NE k2). right. exact I2.
  Qed.

  Lemma vals_nonempty_dappend : forall (d : dict K (list V)) k v, vals_nonempty d ->
    vals_nonempty (dappend keq k v d).
  Proof.
    intros d k v NE. unfold dappend. destruct (dget keq k d) as [l|];
      apply vals_nonempty_dset; auto; try discriminate. destruct l; discriminate.
  Qed.

  Lemma vals_nonempty_run : forall ps (d : dict K (list V)), vals_nonempty d ->
    vals_nonempty (run_append ps d).
  Proof.
    induction ps as [|p ps IH]; intros d NE; unfold run_append in *; simpl; [exact NE|].
    apply IH. apply vals_nonempty_dappend. exact NE.
  Qed.
End AppendFacts.

Local Arguments N.add : simpl never.
Local Arguments N.mul : simpl never.
Local Arguments N.sub : simpl never.
Local Arguments N.div : simpl never.
Local Arguments N.modulo : simpl never.
Local Arguments N.pow : simpl never.
Local Arguments N.of_nat : simpl never.

(* ------------------------------------------------------------------ *)
(** * Decimal rendering: [N_to_str] is injective and its length is monotone *)

Lemma nts_fuel_app : forall f n acc, N_to_str_fuel f n acc = N_to_str_fuel f n [] ++ acc.
Proof.
  induction f as [|f IH]; intros n acc; simpl; [reflexivity|].
  destruct (N.eqb (n / 10) 0); [reflexivity|].
  rewrite IH. rewrite (IH _ [digit_char (n mod 10)]). rewrite <- app_assoc. reflexivity.
Qed.

Lemma digits_to_N_snoc : forall s c, digits_to_N (s ++ [c]) = (digits_to_N s * 10 + (c - 48))%N.
Proof. intros. unfold digits_to_N. rewrite fold_left_app. reflexivity. Qed.

Lemma nts_spec : forall f n, (n < 2 ^ N.of_nat f)%N -> f <> O ->
  let s := N_to_str_fuel f n [] in
  digits_to_N s = n /\ (n < 10 ^ N.of_nat (length s))%N /\
  (n <> 0%N -> 10 ^ (N.of_nat (length s) - 1) <= n)%N /\ (1 <= length s).
Proof.
  induction f as [|f IH]; intros n Hn Hf; [congruence|]. simpl.
  assert (DM := N.div_mod n 10 ltac:(lia)).
  assert (ML := N.mod_lt n 10 ltac:(lia)).
  destruct (N.eqb (n / 10) 0) eqn:Q.
  - apply N.eqb_eq in Q. simpl. unfold digits_to_N, digit_char. simpl.
    rewrite Q in DM. repeat split; try lia.
    intros NZ. change (N.of_nat 1 - 1)%N with 0%N. rewrite N.pow_0_r. lia.
  - apply N.eqb_neq in Q.
    assert (Hq : (n / 10 < 2 ^ N.of_nat f)%N).
    { apply N.div_lt_upper_bound; [lia|].
      rewrite Nat2N.inj_succ, N.pow_succ_r' in Hn. lia. }
    assert (Hf' : f <> O).
    { intro Z. subst f. simpl in Hq. lia. }
    destruct (IH (n / 10)%N Hq Hf') as (A & B & C & D).
    rewrite nts_fuel_app.
    set (s := N_to_str_fuel f (n / 10) []) in *. clearbody s.
    set (q := (n / 10)%N) in *. set (r := (n mod 10)%N) in *. clearbody q r.
    rewrite digits_to_N_snoc, app_length. simpl length.
    replace (N.of_nat (length s + 1)) with (N.succ (N.of_nat (length s))) by lia.
    rewrite N.pow_succ_r'. unfold digit_char.
    repeat split; try lia.
    intros _. specialize (C Q).
    replace (N.succ (N.of_nat (length s)) - 1)%N with (N.succ (N.of_nat (length s) - 1))%N by lia.
    rewrite N.pow_succ_r'. lia.
Qed.

Lemma N_to_str_spec : forall n,
  let s := N_to_str n in
  digits_to_N s = n /\ (n < 10 ^ N.of_nat (length s))%N /\
  (n <> 0%N -> 10 ^ (N.of_nat (length s) - 1) <= n)%N /\ (1 <= length s).
Proof.
  intros n. unfold N_to_str. apply nts_spec; [|discriminate].
  rewrite Nat2N.inj_succ, N2Nat.id.
  destruct n as [|p]; [reflexivity|]. apply N.log2_spec. lia.
Qed.

Lemma N_to_str_inj : forall a b, N_to_str a = N_to_str b -> a = b.
Proof.
  intros a b E. destruct (N_to_str_spec a) as (A & _). destruct (N_to_str_spec b) as (B & _).
  simpl in *. rewrite <- A, <- B, E. reflexivity.
Qed.

Lemma N_to_str_len_mono : forall a b, (a <= b)%N -> length (N_to_str a) <= length (N_to_str b).
Proof.
  intros a b L.
  destruct (N_to_str_spec a) as (_ & _ & A3 & A4).
  destruct (N_to_str_spec b) as (_ & B2 & _ & B4). simpl in *.
  destruct (N.eq_dec a 0) as [Z|NZ].
  - subst a. change (length (N_to_str 0)) with 1. exact B4.
  - specialize (A3 NZ).
    destruct (le_lt_dec (length (N_to_str a)) (length (N_to_str b))) as [H|H]; [exact H|exfalso].
    assert (P : (10 ^ N.of_nat (length (N_to_str b)) <= 10 ^ (N.of_nat (length (N_to_str a)) - 1))%N).
    { apply N.pow_le_mono_r; lia. }
    lia.
Qed.

Lemma N_to_str_nonempty : forall n, N_to_str n <> [].
Proof. intros n E. destruct (N_to_str_spec n) as (_ & _ & _ & D). simpl in D. rewrite E in D. simpl in D. lia. Qed.
