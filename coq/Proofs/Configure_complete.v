(** T3 -- completeness of [configure] (C03, C05, C06): on a graph whose
    variables are all weakly connected to the requested top, configure
    succeeds -- whatever layout markers the graph carries, provided Push
    markers name variables of the graph (DESIGN.md N3).

    Follows DESIGN.md 9.1.  The invariants of the while loop talk about the
    nodemap only ("sited" = the nodemap sends the variable to some node):
    (PA) a non-instance triple between variables is either still waiting in
         data/skipped or has both ends sited;
    (SK) a skipped item has an unsited source, and a sited target only if it
         is an instance triple (its concept is spelled like a variable);
    so an unsited variable always leaves a waiting triple with one sited end
    in [data], which [find_next] finds and [cnode] places. *)
From PM Require Import Spec.GraphEq Impl.Configure Proofs.Configure_term Proofs.Configure_content
  Proofs.Model_lemmas.
From Coq Require Import Lia.

Definition sitedb (nm : nmap) (v : atom) : bool :=
  match dget atom_eqb v nm with Some (Some _) => true | _ => false end.

Lemma sitedb_cong : forall nm a b, atom_eqb a b = true -> sitedb nm a = sitedb nm b.
Proof. intros nm a b E. unfold sitedb. rewrite (dget_cong _ _ _ E). reflexivity. Qed.

Lemma sitedb_dset : forall nm k i v,
  sitedb (dset atom_eqb k (Some i) nm) v = if atom_eqb v k then true else sitedb nm v.
Proof.
  intros nm k i v. unfold sitedb. destruct (atom_eqb v k) eqn:E.
  - rewrite dget_dset_eq by exact E. reflexivity.
  - rewrite dget_dset_other by exact E. reflexivity.
Qed.

Lemma dmem_dset : forall {V} nm k (x : V) v,
  dmem atom_eqb v (dset atom_eqb k x nm) = dmem atom_eqb v nm || atom_eqb v k.
Proof.
  intros V nm k x v. unfold dmem. destruct (atom_eqb v k) eqn:E.
  - rewrite dget_dset_eq by exact E. rewrite orb_true_r. reflexivity.
  - rewrite dget_dset_other by exact E. rewrite orb_false_r. reflexivity.
Qed.

Lemma sitedb_dmem : forall nm v, sitedb nm v = true -> dmem atom_eqb v nm = true.
Proof. intros nm v. unfold sitedb, dmem. destruct (dget atom_eqb v nm) as [[i|]|]; auto; discriminate. Qed.

Lemma is_var_cong : forall g a b, atom_eqb a b = true -> is_var g a = is_var g b.
Proof. intros g a b E. unfold is_var. apply mem_cong. exact E. Qed.

Section Complete.
  Variable m : model.
  Variable g : graph.

  Definition keysV (nm : nmap) : Prop := forall v, is_var g v = true -> dmem atom_eqb v nm = true.
  Definition keysK (nm : nmap) : Prop := forall v, dmem atom_eqb v nm = true -> is_var g v = true.
  Definition pushN (data : list datum) : Prop :=
    forall t es, In (DT t true es) data -> is_var g (ttgt t) = true.

  Lemma pushN_tail : forall d data, pushN (d :: data) -> pushN data.
  Proof. intros d data H t es I. apply (H t es). right. exact I. Qed.

  Lemma pushN_app : forall a b, pushN (a ++ b) <-> pushN a /\ pushN b.
  Proof.
    intros a b. unfold pushN. split.
    - intros H. split; intros t es I; apply (H t es); apply in_or_app; auto.
    - intros [Ha Hb] t es I. apply in_app_or in I. destruct I; eauto.
  Qed.

  (* what placing one oriented triple at node [id] does to the nodemap *)
  Definition ref_nm (nm : nmap) (target : atom) (id : nat) : nmap :=
    match dget atom_eqb target nm with
    | Some None => dset atom_eqb target (Some id) nm
    | _ => nm
    end.

  Lemma ref_nm_spec : forall nm target id,
    keysV nm -> keysK nm ->
    keysV (ref_nm nm target id) /\ keysK (ref_nm nm target id) /\
    (forall v, sitedb nm v = true -> sitedb (ref_nm nm target id) v = true) /\
    (is_var g target = true -> sitedb (ref_nm nm target id) target = true).
  Proof.
    intros nm target id KV KK. unfold ref_nm.
    destruct (dget atom_eqb target nm) as [[i|]|] eqn:D.
    - repeat split; auto. intros _. unfold sitedb. rewrite D. reflexivity.
    - assert (Dm : dmem atom_eqb target nm = true) by (unfold dmem; rewrite D; reflexivity).
      split; [|split; [|split]].
      + intros v Hv. rewrite dmem_dset. rewrite (KV v Hv). reflexivity.
      + intros v Hv. rewrite dmem_dset in Hv. apply orb_true_iff in Hv. destruct Hv as [Hv|Hv].
        * apply KK. exact Hv.
        * rewrite (is_var_cong g _ _ Hv). apply KK. exact Dm.
      + intros v Hv. rewrite sitedb_dset. rewrite Hv. destruct (atom_eqb v target); reflexivity.
      + intros _. rewrite sitedb_dset, atom_eqb_refl. reflexivity.
    - repeat split; auto. intros Hv. apply KV in Hv. unfold dmem in Hv. rewrite D in Hv. discriminate.
  Qed.

  (* ---------------------------------------------------------------- *)
  (** [cnode]: what it does to the nodemap; when it makes no progress *)

  Definition ends_sited (nm : nmap) (o : triple) : Prop :=
    (is_var g (tsrc o) = true -> sitedb nm (tsrc o) = true) /\
    (is_var g (ttgt o) = true -> sitedb nm (ttgt o) = true).

  Lemma ends_sited_mono : forall nm nm' o,
    (forall v, sitedb nm v = true -> sitedb nm' v = true) -> ends_sited nm o -> ends_sited nm' o.
  Proof. intros nm nm' o M [A B]. split; intro H; apply M; auto. Qed.

  Definition placed_sited (nm : nmap) (o : triple) : Prop :=
    (is_instance o = true -> sitedb nm (tsrc o) = true) /\
    (is_instance o = false -> is_instance (invert m o) = false -> ends_sited nm o).

  Lemma placed_sited_mono : forall nm nm' o,
    (forall v, sitedb nm v = true -> sitedb nm' v = true) -> placed_sited nm o -> placed_sited nm' o.
  Proof.
    intros nm nm' o M [A B]. split; [intro H; apply M; auto|].
    intros H1 H2. eapply ends_sited_mono; [exact M|]. auto.
  Qed.

  Definition stuck_at (var : atom) (data : list datum) (s' : bool) : Prop :=
    match data with
    | [] => True
    | DPop :: _ => False
    | DT t _ _ :: _ => s' = true /\ atom_eqb (tsrc t) var = false /\
                       (atom_eqb (ttgt t) var = true -> is_instance t = true)
    end.

  Lemma cnode_sites : forall f var id surp data st nm s' data' st' nm',
    cnode f m var id surp data st nm = Ok (s', data', st', nm') ->
    keysV nm -> keysK nm -> pushN data -> sitedb nm var = true ->
    keysV nm' /\ keysK nm' /\
    (forall v, sitedb nm v = true -> sitedb nm' v = true) /\
    exists used, data = used ++ data' /\
      (forall o, In o (data_triples used) -> placed_sited nm' o) /\
      (used = [] -> st' = st /\ nm' = nm /\ stuck_at var data s').
  Proof.
    induction f as [|f IH]; intros var id surp data st nm s' data' st' nm' E KV KK PN SV; [discriminate|].
    destruct data as [|d data0].
    { simpl in E. inversion E; subst. split; [exact KV|]. split; [exact KK|]. split; [auto|].
      exists []. split; [reflexivity|]. split; [intros o []|]. intros _. simpl. auto. }
    destruct d as [t push es|].
    2:{ simpl in E. inversion E; subst. split; [exact KV|]. split; [exact KK|]. split; [auto|].
        exists [DPop]. split; [reflexivity|]. split; [intros o []|discriminate]. }
    pose proof (pushN_tail _ _ PN) as PN0.
    (* continuation after one placement that sited the ends of [t] *)
    assert (K : forall surp1 st_a nm_a,
      cnode f m var id surp1 data0 st_a nm_a = Ok (s', data', st', nm') ->
      keysV nm_a -> keysK nm_a -> (forall v, sitedb nm v = true -> sitedb nm_a v = true) ->
      placed_sited nm_a t ->
      keysV nm' /\ keysK nm' /\
      (forall v, sitedb nm v = true -> sitedb nm' v = true) /\
      exists used, DT t push es :: data0 = used ++ data' /\
        (forall o, In o (data_triples used) -> placed_sited nm' o) /\
        (used = [] -> st' = st /\ nm' = nm /\ stuck_at var (DT t push es :: data0) s')).
    { intros surp1 st_a nm_a E1 KVa KKa Ma Ha.
      destruct (IH _ _ _ _ _ _ _ _ _ _ E1 KVa KKa PN0 (Ma _ SV)) as (KV' & KK' & M' & used & Eu & Hu & _).
      split; [exact KV'|]. split; [exact KK'|]. split; [intros v Hv; apply M', Ma, Hv|].
      exists (DT t push es :: used). split; [rewrite Eu; reflexivity|]. split; [|discriminate].
      intros o Io. simpl in Io. destruct Io as [<-|Io]; [|apply Hu; assumption].
      eapply placed_sited_mono; [exact M'|]. exact Ha. }
    cbn [cnode] in E.
    destruct (atom_eqb (tsrc t) var) eqn:Esv.
    - (* as written *)
      assert (Ssrc : forall nm_a, (forall v, sitedb nm v = true -> sitedb nm_a v = true) ->
                       sitedb nm_a (tsrc t) = true).
      { intros nm_a Ma. rewrite (sitedb_cong _ _ _ Esv). apply Ma. exact SV. }
      destruct (str_eqb (trole t) INSTANCE) eqn:Hi.
      + assert (Hinst : placed_sited nm t).
        { split; [intros _; apply (Ssrc nm); auto|]. intros F. unfold is_instance in F. congruence. }
        destruct (missing_concept (ttgt t)); eapply K; eauto.
      + destruct (push && negb (has_node (ttgt t) st nm)) eqn:Hp.
        * apply andb_true_iff in Hp. destruct Hp as [Hpush _]. subst push.
          destruct (cnode f m (ttgt t) (length st) false data0 (st ++ [(ttgt t, [])])
                      (dset atom_eqb (ttgt t) (Some (length st)) nm))
            as [[[[s2 data2] st2] nm2]| | | | | | | |] eqn:E1; try discriminate.
          assert (Vt : is_var g (ttgt t) = true) by (apply (PN t es); left; reflexivity).
          set (nm1 := dset atom_eqb (ttgt t) (Some (length st)) nm) in *.
          assert (KV1 : keysV nm1).
          { intros v Hv. unfold nm1. rewrite dmem_dset, (KV v Hv). reflexivity. }
          assert (KK1 : keysK nm1).
          { intros v Hv. unfold nm1 in Hv. rewrite dmem_dset in Hv. apply orb_true_iff in Hv.
            destruct Hv as [Hv|Hv]; [apply KK; exact Hv|]. rewrite (is_var_cong g _ _ Hv). exact Vt. }
          assert (M1 : forall v, sitedb nm v = true -> sitedb nm1 v = true).
          { intros v Hv. unfold nm1. rewrite sitedb_dset, Hv. destruct (atom_eqb v (ttgt t)); reflexivity. }
          assert (S1 : sitedb nm1 (ttgt t) = true).
          { unfold nm1. rewrite sitedb_dset, atom_eqb_refl. reflexivity. }
          destruct (IH _ _ _ _ _ _ _ _ _ _ E1 KV1 KK1 PN0 S1) as (KV2 & KK2 & M2 & used1 & Eu1 & Hu1 & _).
          assert (PN2 : pushN data2).
          { rewrite Eu1 in PN0. apply pushN_app in PN0. tauto. }
          assert (SV2 : sitedb nm2 var = true) by (apply M2, M1, SV).
          destruct (IH _ _ _ _ _ _ _ _ _ _ E KV2 KK2 PN2 SV2) as (KV' & KK' & M' & used2 & Eu2 & Hu2 & _).
          split; [exact KV'|]. split; [exact KK'|].
          split; [intros v Hv; apply M', M2, M1, Hv|].
          exists (DT t true es :: used1 ++ used2).
          split; [rewrite Eu1, Eu2; simpl; rewrite <- app_assoc; reflexivity|].
          split; [|discriminate].
          intros o Io. simpl in Io. rewrite data_triples_app in Io.
          destruct Io as [<-|Io].
          -- split; [intros F; unfold is_instance in F; congruence|]. intros _ _. split; intros _.
             ++ apply M', M2. apply (Ssrc nm1 M1).
             ++ apply M', M2. exact S1.
          -- apply in_app_or in Io. destruct Io as [Io|Io].
             ++ eapply placed_sited_mono; [exact M'|]. apply Hu1; assumption.
             ++ apply Hu2; assumption.
        * destruct (ref_nm_spec nm (ttgt t) id KV KK) as (KVa & KKa & Ma & Sa).
          eapply K; [exact E|exact KVa|exact KKa|exact Ma|].
          split; [intros F; unfold is_instance in F; congruence|].
          intros _ _. split; [intros _; apply (Ssrc _ Ma)|exact Sa].
    - destruct (atom_eqb (ttgt t) var && negb (str_eqb (trole t) INSTANCE)) eqn:Hinv.
      + apply andb_true_iff in Hinv. destruct Hinv as [Etv Hni].
        assert (Stgt : forall nm_a, (forall v, sitedb nm v = true -> sitedb nm_a v = true) ->
                         sitedb nm_a (ttgt t) = true).
        { intros nm_a Ma. rewrite (sitedb_cong _ _ _ Etv). apply Ma. exact SV. }
        destruct (str_eqb (trole (invert m t)) INSTANCE) eqn:Hi.
        * assert (Hinst : placed_sited nm t).
          { split; [intros F; unfold is_instance in F; apply negb_true_iff in Hni; congruence|].
            intros _ F. unfold is_instance in F. congruence. }
          destruct (missing_concept (ttgt (invert m t))); eapply K; eauto.
        * cbn [andb] in E.
          change (ttgt (invert m t)) with (tsrc t) in E.
          destruct (ref_nm_spec nm (tsrc t) id KV KK) as (KVa & KKa & Ma & Sa).
          eapply K; [exact E|exact KVa|exact KKa|exact Ma|].
          split; [intros F; unfold is_instance in F; apply negb_true_iff in Hni; congruence|].
          intros _ _. split; [exact Sa|intros _; apply (Stgt _ Ma)].
      + inversion E; subst. split; [exact KV|]. split; [exact KK|]. split; [auto|].
        exists []. split; [reflexivity|]. split; [intros o []|].
        intros _. split; [reflexivity|]. split; [reflexivity|].
        simpl. split; [reflexivity|]. split; [exact Esv|].
        intros Etv. rewrite Etv in Hinv. simpl in Hinv. apply negb_false_iff in Hinv. exact Hinv.
  Qed.

  (* ---------------------------------------------------------------- *)
  (** [find_next] *)

  Lemma dmem_cong : forall (nm : nmap) a b, atom_eqb a b = true ->
    dmem atom_eqb a nm = dmem atom_eqb b nm.
  Proof. intros nm a b E. unfold dmem. rewrite (dget_cong _ _ _ E). reflexivity. Qed.

  Lemma gsite_sites : forall P v st nm ok st1 nm1,
    WF P st nm ->
    (if dmem atom_eqb v nm then site v st nm else (false, st, nm)) = (ok, st1, nm1) ->
    (ok = false -> sitedb nm v = false) /\
    (ok = true -> sitedb nm v = true /\ (forall u, sitedb nm1 u = sitedb nm u) /\
                  (forall u, dmem atom_eqb u nm1 = dmem atom_eqb u nm)).
  Proof.
    intros P v st nm ok st1 nm1 W E.
    destruct (dmem atom_eqb v nm) eqn:Dm.
    2:{ injection E as <- <- <-. split; [|discriminate]. intros _. unfold sitedb. unfold dmem in Dm.
        destruct (dget atom_eqb v nm); [discriminate|reflexivity]. }
    unfold site in E. unfold sitedb.
    destruct (dget atom_eqb v nm) as [[id|]|] eqn:D.
    - pose proof (wf_valid _ _ _ W _ _ D) as L.
      destruct (nth_error st id) as [[v' es]|] eqn:G; [|apply nth_error_None in G; lia].
      destruct (atom_eqb v v'); injection E as <- <- <-; (split; [discriminate|]); intros _.
      + auto.
      + split; [reflexivity|]. split; intros u.
        * fold (sitedb (dset atom_eqb v (Some (length st)) nm) u). rewrite sitedb_dset.
          destruct (atom_eqb u v) eqn:Euv; [|reflexivity].
          unfold sitedb. rewrite (dget_cong _ _ _ Euv), D. reflexivity.
        * rewrite dmem_dset. destruct (atom_eqb u v) eqn:Euv; [|apply orb_false_r].
          rewrite (dmem_cong _ _ _ Euv), Dm. reflexivity.
    - injection E as <- <- <-. split; [reflexivity|discriminate].
    - injection E as <- <- <-. split; [reflexivity|discriminate].
  Qed.

  Lemma find_next_sites : forall data acc st nm sk var data1 st1 nm1 P,
    find_next data acc st nm = (sk, var, data1, st1, nm1) -> WF P st nm ->
    (forall v, sitedb nm1 v = sitedb nm v) /\
    (forall v, dmem atom_eqb v nm1 = dmem atom_eqb v nm) /\
    (forall o, In o (data_triples sk) ->
       In o (data_triples acc) \/ (sitedb nm (tsrc o) = false /\ sitedb nm (ttgt o) = false)) /\
    match var with
    | None => forall o, In o (data_triples data1) ->
                sitedb nm (tsrc o) = false /\ sitedb nm (ttgt o) = false
    | Some v => exists t p e rest, data1 = DT t p e :: rest /\ sitedb nm v = true /\
                  (v = tsrc t \/ (v = ttgt t /\ sitedb nm (tsrc t) = false))
    end.
  Proof.
    induction data as [|d data IH]; intros acc st nm sk var data1 st1 nm1 P E W.
    - simpl in E. inversion E; subst. split; [auto|]. split; [auto|]. split; [auto|]. intros o [].
    - destruct d as [t push es|].
      + cbn [find_next] in E.
        destruct (if dmem atom_eqb (tsrc t) nm then site (tsrc t) st nm else (false, st, nm))
          as [[ok1 sa] na] eqn:S1.
        destruct (gsite_sites _ _ _ _ _ _ _ W S1) as [F1 T1].
        destruct ok1.
        { destruct (T1 eq_refl) as (A & B & C). inversion E; subst.
          split; [exact B|]. split; [exact C|]. split; [auto|].
          exists t, push, es, data. auto. }
        specialize (F1 eq_refl).
        destruct (if dmem atom_eqb (ttgt t) nm then site (ttgt t) st nm else (false, st, nm))
          as [[ok2 sb] nb] eqn:S2.
        destruct (gsite_sites _ _ _ _ _ _ _ W S2) as [F2 T2].
        destruct ok2.
        { destruct (T2 eq_refl) as (A & B & C). inversion E; subst.
          split; [exact B|]. split; [exact C|]. split; [auto|].
          exists t, push, es, data. auto. }
        specialize (F2 eq_refl).
        destruct data as [|d' data'].
        { inversion E; subst. split; [auto|]. split; [auto|]. split; [auto|].
          intros o Io. simpl in Io. destruct Io as [<-|[]]. auto. }
        destruct (IH _ _ _ _ _ _ _ _ _ E W) as (A & B & C & D).
        split; [exact A|]. split; [exact B|]. split; [|exact D].
        intros o Io. destruct (C o Io) as [Ia|Hu]; [|auto].
        simpl in Ia. destruct Ia as [<-|Ia]; auto.
      + cbn [find_next] in E.
        destruct data as [|d' data'].
        { inversion E; subst. split; [auto|]. split; [auto|]. split; [auto|]. intros o []. }
        destruct (IH _ _ _ _ _ _ _ _ _ E W) as (A & B & C & D).
        split; [exact A|]. split; [exact B|]. split; [|exact D].
        intros o Io. destruct (C o Io) as [Ia|Hu]; auto.
  Qed.
  (* ---------------------------------------------------------------- *)
  (** Variables of the graph *)

  Lemma mem_rev : forall a (l : list atom), mem atom_eqb a (rev l) = mem atom_eqb a l.
  Proof.
    intros a l. unfold mem. induction l as [|x l IH]; simpl; [reflexivity|].
    rewrite existsb_app, IH. simpl. rewrite orb_false_r. apply orb_comm.
  Qed.

  Lemma mem_dedup_acc : forall a l acc,
    mem atom_eqb a (dedup_acc atom_eqb l acc) = mem atom_eqb a l || mem atom_eqb a acc.
  Proof.
    intros a. induction l as [|x l IH]; intros acc.
    - simpl. apply mem_rev.
    - cbn [dedup_acc].
      change (mem atom_eqb a (x :: l)) with (atom_eqb a x || mem atom_eqb a l).
      destruct (mem atom_eqb x acc) eqn:Mx.
      + rewrite IH. destruct (atom_eqb a x) eqn:Eax; [|reflexivity].
        rewrite (mem_cong _ _ acc Eax), Mx. rewrite orb_true_r. reflexivity.
      + rewrite IH.
        change (mem atom_eqb a (x :: acc)) with (atom_eqb a x || mem atom_eqb a acc).
        destruct (atom_eqb a x), (mem atom_eqb a l), (mem atom_eqb a acc); reflexivity.
  Qed.

  Lemma src_is_var : forall x, In x (triples g) -> is_var g (tsrc x) = true.
  Proof.
    intros x Ix. unfold is_var, variables, dedup. rewrite mem_dedup_acc. simpl. rewrite orb_false_r.
    unfold mem. rewrite existsb_app. apply orb_true_iff. left.
    apply existsb_exists. exists (tsrc x). split; [apply in_map; exact Ix|apply atom_eqb_refl].
  Qed.

  Lemma dmem_map_none : forall v (l : list atom),
    dmem atom_eqb v (map (fun x => (x, @None nat)) l) = mem atom_eqb v l.
  Proof.
    intros v l. unfold dmem, mem. induction l as [|x l IH]; simpl; [reflexivity|].
    destruct (atom_eqb v x); [reflexivity|exact IH].
  Qed.

  (* ---------------------------------------------------------------- *)
  (** The loop invariant *)

  Variable tp : atom.
  Hypothesis Hconn : connected g tp.
  Hypothesis Hnamed : forall v, is_var g v = true -> atom_eqb v ANone = false.
  Hypothesis Hroles : roles_invertible m g.

  Definition origin (o : triple) : Prop :=
    exists x, In x (triples g) /\ (o = x \/ (o = invert m x /\ is_instance x = false)).

  Definition PA (nm : nmap) (rest : list triple) : Prop :=
    forall x, In x (triples g) -> is_instance x = false -> is_var g (ttgt x) = true ->
      (sitedb nm (tsrc x) = true /\ sitedb nm (ttgt x) = true) \/
      (exists o, In o rest /\ (o = x \/ o = invert m x)).

  Definition SK (nm : nmap) (sk : list triple) : Prop :=
    forall o, In o sk -> sitedb nm (tsrc o) = false /\ (sitedb nm (ttgt o) = true -> is_instance o = true).

  Definition headed (data : list datum) : Prop :=
    match data with DPop :: _ => False | _ => True end.

  Lemma drop_pops_headed : forall d, headed (drop_pops d).
  Proof. induction d as [|[t p e|] d IH]; simpl; auto. Qed.

  Record LInv (data skipped : list datum) (st : store) (nm : nmap) : Prop := {
    li_wf : WF [] st nm;
    li_kv : keysV nm;
    li_kk : keysK nm;
    li_top : sitedb nm tp = true;
    li_push : pushN (data ++ skipped);
    li_colon : colon_ok (data_triples data ++ data_triples skipped);
    li_orig : forall o, In o (data_triples data ++ data_triples skipped) -> origin o;
    li_pa : PA nm (data_triples data ++ data_triples skipped);
    li_sk : SK nm (data_triples skipped);
    li_skd : skipped = [] \/ data_triples skipped <> [];
    li_head : headed data
  }.

  Lemma invert_x_not_instance : forall x, In x (triples g) -> is_instance x = false ->
    is_instance (invert m x) = false.
  Proof.
    intros x Ix Hi. destruct (Hroles x Ix Hi) as (_ & _ & R2). exact R2.
  Qed.

  Lemma invert_invert_x : forall x, In x (triples g) -> is_instance x = false ->
    invert m (invert m x) = x.
  Proof.
    intros x Ix Hi. destruct (Hroles x Ix Hi) as (R1 & _ & _). apply invert_invert. exact R1.
  Qed.

  (* a path from a sited variable to an unsited one crosses a link *)
  Lemma reach_crossing : forall nm a v, reach g a v -> sitedb nm a = true -> sitedb nm v = false ->
    exists b c, link g b c /\ sitedb nm b = true /\ sitedb nm c = false.
  Proof.
    intros nm a v R Sa. induction R as [b E|b c R IH L]; intros Sv.
    - rewrite (sitedb_cong _ _ _ E) in Sa. congruence.
    - destruct (sitedb nm b) eqn:Sb.
      + exists b, c. auto.
      + apply IH. reflexivity.
  Qed.

  Lemma crossing : forall data skipped st nm v, LInv data skipped st nm ->
    is_var g v = true -> sitedb nm v = false ->
    exists o, In o (data_triples data) /\ (sitedb nm (tsrc o) = true \/ sitedb nm (ttgt o) = true).
  Proof.
    intros data skipped st nm v I Vv Sv.
    destruct Hconn as [_ Hreach].
    destruct (reach_crossing nm tp v (Hreach v Vv) (li_top _ _ _ _ I) Sv) as (b & c & L & Sb & Sc).
    destruct L as (x & Ix & Hi & Vt & Ends).
    destruct (li_pa _ _ _ _ I x Ix Hi Vt) as [[S1 S2]|(o & Io & Ho)].
    { destruct Ends as [[E1 E2]|[E1 E2]].
      - rewrite (sitedb_cong _ _ _ E2) in S2. congruence.
      - rewrite (sitedb_cong _ _ _ E1) in S1. congruence. }
    (* one end of o is b, sited *)
    assert (Oend : sitedb nm (tsrc o) = true \/ sitedb nm (ttgt o) = true).
    { destruct Ho as [->| ->]; destruct Ends as [[E1 E2]|[E1 E2]].
      - left. rewrite (sitedb_cong _ _ _ E1). exact Sb.
      - right. rewrite (sitedb_cong _ _ _ E2). exact Sb.
      - right. change (ttgt (invert m x)) with (tsrc x). rewrite (sitedb_cong _ _ _ E1). exact Sb.
      - left. change (tsrc (invert m x)) with (ttgt x). rewrite (sitedb_cong _ _ _ E2). exact Sb. }
    apply in_app_or in Io. destruct Io as [Io|Io]; [exists o; auto|].
    exfalso. destruct (li_sk _ _ _ _ I o Io) as [K1 K2].
    destruct Oend as [Oe|Oe]; [congruence|].
    specialize (K2 Oe).
    destruct Ho as [->| ->]; [congruence|].
    rewrite (invert_x_not_instance x Ix Hi) in K2. discriminate.
  Qed.

  (* a skipped item witnesses an unsited variable *)
  Lemma skipped_unsited_var : forall data skipped st nm o, LInv data skipped st nm ->
    In o (data_triples skipped) -> exists v, is_var g v = true /\ sitedb nm v = false.
  Proof.
    intros data skipped st nm o I Io.
    destruct (li_sk _ _ _ _ I o Io) as [K1 K2].
    destruct (li_orig _ _ _ _ I o (in_or_app _ _ _ (or_intror Io))) as (x & Ix & [->|[-> Hi]]).
    - exists (tsrc x). split; [apply src_is_var; exact Ix|exact K1].
    - exists (tsrc x). split; [apply src_is_var; exact Ix|].
      change (ttgt (invert m x)) with (tsrc x) in K2.
      destruct (sitedb nm (tsrc x)); [|reflexivity].
      specialize (K2 eq_refl). rewrite (invert_x_not_instance x Ix Hi) in K2. discriminate.
  Qed.

  (* a waiting item whose ends are both unsited witnesses an unsited variable *)
  Lemma unsited_item_var : forall o, origin o ->
    forall nm, sitedb nm (tsrc o) = false -> sitedb nm (ttgt o) = false ->
    exists v, is_var g v = true /\ sitedb nm v = false.
  Proof.
    intros o (x & Ix & [->|[-> Hi]]) nm S1 S2.
    - exists (tsrc x). split; [apply src_is_var; exact Ix|exact S1].
    - exists (tsrc x). split; [apply src_is_var; exact Ix|exact S2].
  Qed.
  (* ---------------------------------------------------------------- *)
  (** Small bookkeeping facts *)

  Lemma in_dt_app : forall o a b, In o (data_triples (a ++ b)) <-> In o (data_triples a) \/ In o (data_triples b).
  Proof. intros. rewrite data_triples_app. apply in_app_iff. Qed.

  Lemma in_dt_rev : forall o a, In o (data_triples (rev a)) <-> In o (data_triples a).
  Proof.
    intros o a. split; intro H.
    - eapply Permutation_in; [apply data_triples_rev|exact H].
    - eapply Permutation_in; [apply Permutation_sym, data_triples_rev|exact H].
  Qed.

  Lemma pushN_incl : forall a b, (forall d, In d a -> In d b) -> pushN b -> pushN a.
  Proof. intros a b H P t es I. apply (P t es). apply H. exact I. Qed.

  Lemma in_drop_pops : forall d data, In d (drop_pops data) -> In d data.
  Proof.
    intros d. induction data as [|[t p e|] data IH]; simpl; auto.
  Qed.

  Lemma colon_ok_incl : forall a b, (forall o, In o a -> In o b) -> colon_ok b -> colon_ok a.
  Proof.
    intros a b H C. unfold colon_ok in *. rewrite Forall_forall in *. intros o Io. apply C, H, Io.
  Qed.

  Lemma PA_mono : forall nm nm' rest rest',
    (forall v, sitedb nm v = true -> sitedb nm' v = true) ->
    (forall o, In o rest -> In o rest' \/
       (is_instance o = false -> is_instance (invert m o) = false -> ends_sited nm' o)) ->
    PA nm rest -> PA nm' rest'.
  Proof.
    intros nm nm' rest rest' M R P x Ix Hi Vt.
    destruct (P x Ix Hi Vt) as [[S1 S2]|(o & Io & Ho)]; [left; auto|].
    destruct (R o Io) as [Io'|Hs]; [right; exists o; auto|].
    left.
    pose proof (src_is_var x Ix) as Vs.
    pose proof (invert_x_not_instance x Ix Hi) as Hii.
    destruct Ho as [->| ->].
    - destruct (Hs Hi Hii) as [A B]. auto.
    - rewrite (invert_invert_x x Ix Hi) in Hs. destruct (Hs Hii Hi) as [A B].
      change (tsrc (invert m x)) with (ttgt x) in A. change (ttgt (invert m x)) with (tsrc x) in B. auto.
  Qed.

  (* ---------------------------------------------------------------- *)
  (** The loop never fails *)

  Lemma cloop_complete : forall f T data skipped st nm,
    LInv data skipped st nm ->
    length data + length skipped <= T -> T * (T + 1) + length data < f ->
    exists st', cloop f m data skipped st nm = Ok st'.
  Proof.
    induction f as [|f IH]; intros T data skipped st nm I HT Hf; [lia|].
    rewrite cloop_S.
    destruct data as [|d0 data0].
    { destruct skipped as [|s0 skipped0]; [eauto|]. exfalso.
      destruct (li_skd _ _ _ _ I) as [F|NE]; [discriminate|].
      destruct (data_triples (s0 :: skipped0)) as [|o os] eqn:Eo; [congruence|].
      destruct (skipped_unsited_var _ _ _ _ o I) as (v & Vv & Sv); [rewrite Eo; left; reflexivity|].
      destruct (crossing _ _ _ _ v I Vv Sv) as (o' & [] & _). }
    remember (d0 :: data0) as data eqn:Hdata.
    destruct (find_next data [] st nm) as [[[[sk var] data1] st1] nm1] eqn:FN.
    pose proof (li_wf _ _ _ _ I) as W.
    destruct (find_next_content _ _ _ _ _ _ _ _ _ [] FN W) as (Esplit & W1 & X1 & T1 & Hv).
    destruct (find_next_sites _ _ _ _ _ _ _ _ _ [] FN W) as (Ssame & Dsame & Hsk & Hvar).
    simpl in Esplit.
    assert (Lsplit : length sk + length data1 = length data).
    { rewrite <- Esplit, app_length, rev_length. reflexivity. }
    cbv zeta.
    (* membership in the old data *)
    assert (Idata : forall o, In o (data_triples data) <-> In o (data_triples sk) \/ In o (data_triples data1)).
    { intros o. rewrite <- Esplit, in_dt_app, in_dt_rev. reflexivity. }
    destruct var as [v|].
    2:{ (* find_next found nothing: impossible *)
      exfalso.
      assert (Uall : forall o, In o (data_triples data) ->
                sitedb nm (tsrc o) = false /\ sitedb nm (ttgt o) = false).
      { intros o Io. apply Idata in Io. destruct Io as [Io|Io]; [|apply Hvar; exact Io].
        destruct (Hsk o Io) as [[]|H]; exact H. }
      pose proof (li_head _ _ _ _ I) as Hh. rewrite Hdata in Hh.
      destruct d0 as [t0 p0 e0|]; [|contradiction].
      assert (I0 : In t0 (data_triples data)) by (rewrite Hdata; left; reflexivity).
      destruct (Uall t0 I0) as [U1 U2].
      destruct (unsited_item_var t0 (li_orig _ _ _ _ I t0 (in_or_app _ _ _ (or_introl I0))) nm U1 U2)
        as (v & Vv & Sv).
      destruct (crossing _ _ _ _ v I Vv Sv) as (o' & Io' & [S'|S']);
        destruct (Uall o' Io'); congruence. }
    destruct Hvar as (t & p & e & rest & Ed1 & Sv & Hwhich).
    destruct (Hv v eq_refl) as (id & w & es & D & G & Evw).
    assert (Vv : is_var g v = true) by (apply (li_kk _ _ _ _ I), sitedb_dmem, Sv).
    assert (Goal : exists st',
      (if Nat.eqb (length data1) 0 then LayoutErr 1
       else match dget atom_eqb v nm1 with
            | Some (Some id) =>
                r <- cnode (S (length data1)) m v id false data1 st1 nm1 ;;
                let '(surp, data2, st2, nm2) := r in
                if Nat.eqb (length data2) (length data1) && surp then
                  match data2 with
                  | d :: data3 => cloop f m (drop_pops data3) (d :: skipped ++ sk) st2 nm2
                  | [] => Other 3
                  end
                else if Nat.leb (length data1) (length data2) then LayoutErr 2
                else cloop f m (drop_pops (data2 ++ rev (skipped ++ sk))) [] st2 nm2
            | _ => Other 2
            end) = Ok st').
    2:{ destruct Goal as [st' Eg]. exists st'.
        pose proof (Hnamed v Vv) as Nn. destruct v; [discriminate|exact Eg|exact Eg]. }
    destruct (Nat.eqb (length data1) 0) eqn:Z;
      [apply Nat.eqb_eq in Z; rewrite Ed1 in Z; discriminate|].
    rewrite D.
    destruct (cnode_ok (S (length data1)) m v id false data1 st1 nm1 (Nat.lt_succ_diag_r _))
      as (surp & data2 & st2 & nm2 & EC & LC).
    rewrite EC. cbn [bind].
    (* invariants transported to (st1, nm1) *)
    assert (KV1 : keysV nm1) by (intros u Hu; rewrite Dsame; apply (li_kv _ _ _ _ I); exact Hu).
    assert (KK1 : keysK nm1) by (intros u Hu; rewrite Dsame in Hu; apply (li_kk _ _ _ _ I); exact Hu).
    assert (Sv1 : sitedb nm1 v = true) by (rewrite Ssame; exact Sv).
    pose proof (li_push _ _ _ _ I) as PNall.
    assert (PN1 : pushN data1).
    { eapply pushN_incl; [|exact PNall]. intros d Id. apply in_or_app. left.
      rewrite <- Esplit. apply in_or_app. right. exact Id. }
    pose proof (li_colon _ _ _ _ I) as Call.
    assert (C1 : colon_ok (data_triples data1)).
    { eapply colon_ok_incl; [|exact Call]. intros o Io. apply in_or_app. left. apply Idata. auto. }
    destruct (cnode_spec _ _ _ _ _ _ _ _ [] _ _ _ _ EC W1 C1) as (W2 & X2 & used & Eu & Au); [eauto|].
    destruct (cnode_sites _ _ _ _ _ _ _ _ _ _ _ EC KV1 KK1 PN1 Sv1)
      as (KV2 & KK2 & M2 & used' & Eu' & Hused & Hstuck).
    assert (used' = used) by (apply (app_inv_tail data2); rewrite <- Eu, <- Eu'; reflexivity).
    subst used'.
    assert (Mall : forall u, sitedb nm u = true -> sitedb nm2 u = true).
    { intros u Hu. apply M2. rewrite Ssame. exact Hu. }
    destruct (Nat.eqb (length data2) (length data1) && surp) eqn:NP.
    - (* no progress *)
      apply andb_true_iff in NP. destruct NP as [NP _]. apply Nat.eqb_eq in NP.
      assert (used = []).
      { apply (f_equal (@length _)) in Eu. rewrite app_length in Eu. destruct used; [reflexivity|simpl in Eu; lia]. }
      subst used. simpl in Eu. subst data2.
      destruct (Hstuck eq_refl) as (-> & -> & Hst).
      rewrite Ed1. rewrite Ed1 in Hst. simpl in Hst. destruct Hst as (_ & Nsrc & Htgt).
      apply (IH T).
      2:{ pose proof (drop_pops_length rest). rewrite Ed1 in Lsplit. simpl in *. rewrite app_length. lia. }
      2:{ pose proof (drop_pops_length rest). rewrite Ed1 in Lsplit. simpl in *. lia. }
      assert (Usrc : sitedb nm (tsrc t) = false /\ (sitedb nm (ttgt t) = true -> is_instance t = true)).
      { destruct Hwhich as [->|[-> Us]].
        - rewrite atom_eqb_refl in Nsrc. discriminate.
        - split; [exact Us|]. intros _. apply Htgt. apply atom_eqb_refl. }
      assert (Inew : forall o, In o (data_triples (drop_pops rest) ++ data_triples (DT t p e :: skipped ++ sk)) ->
                       In o (data_triples data ++ data_triples skipped)).
      { intros o Io. rewrite data_triples_drop_pops in Io. apply in_app_or in Io.
        apply in_or_app. destruct Io as [Io|Io].
        - left. apply Idata. right. rewrite Ed1. right. exact Io.
        - simpl in Io. destruct Io as [<-|Io].
          + left. apply Idata. right. rewrite Ed1. left. reflexivity.
          + apply in_dt_app in Io. destruct Io as [Io|Io]; [right; exact Io|left; apply Idata; left; exact Io]. }
      assert (Iold : forall o, In o (data_triples data ++ data_triples skipped) ->
                       In o (data_triples (drop_pops rest) ++ data_triples (DT t p e :: skipped ++ sk))).
      { intros o Io. rewrite data_triples_drop_pops. apply in_app_or in Io. apply in_or_app.
        destruct Io as [Io|Io].
        - apply Idata in Io. destruct Io as [Io|Io].
          + right. right. apply in_dt_app. right. exact Io.
          + rewrite Ed1 in Io. simpl in Io. destruct Io as [<-|Io]; [right; left; reflexivity|left; exact Io].
        - right. right. apply in_dt_app. left. exact Io. }
      constructor.
      + exact W1.
      + exact KV1.
      + exact KK1.
      + rewrite Ssame. apply (li_top _ _ _ _ I).
      + eapply pushN_incl; [|exact PNall]. intros d Id. apply in_app_or in Id. apply in_or_app.
        destruct Id as [Id|Id].
        * left. rewrite <- Esplit. apply in_or_app. right. rewrite Ed1. right. apply in_drop_pops. exact Id.
        * simpl in Id. destruct Id as [<-|Id].
          -- left. rewrite <- Esplit. apply in_or_app. right. rewrite Ed1. left. reflexivity.
          -- apply in_app_or in Id. destruct Id as [Id|Id]; [right; exact Id|].
             left. rewrite <- Esplit. apply in_or_app. left. apply in_rev in Id. exact Id.
      + eapply colon_ok_incl; [exact Inew|exact Call].
      + intros o Io. apply (li_orig _ _ _ _ I). apply Inew. exact Io.
      + eapply PA_mono; [| |exact (li_pa _ _ _ _ I)].
        * intros u Hu. rewrite Ssame. exact Hu.
        * intros o Io. left. apply Iold. exact Io.
      + intros o Io. simpl in Io.
        assert (Ssk : forall u, sitedb nm1 u = sitedb nm u) by exact Ssame.
        destruct Io as [<-|Io]; [rewrite !Ssk; exact Usrc|].
        apply in_dt_app in Io. destruct Io as [Io|Io].
        * rewrite !Ssk. apply (li_sk _ _ _ _ I). exact Io.
        * destruct (Hsk o Io) as [[]|[U1 U2]]. rewrite !Ssk. split; [exact U1|]. congruence.
      + right. simpl. discriminate.
      + apply drop_pops_headed.
    - destruct (Nat.leb (length data1) (length data2)) eqn:LE.
      { (* unknown configuration error: impossible *)
        exfalso. apply Nat.leb_le in LE.
        assert (used = []).
        { apply (f_equal (@length _)) in Eu. rewrite app_length in Eu. destruct used; [reflexivity|simpl in Eu; lia]. }
        subst used. simpl in Eu. subst data2.
        destruct (Hstuck eq_refl) as (_ & _ & Hst). rewrite Ed1 in Hst. simpl in Hst.
        destruct Hst as (-> & _). rewrite Nat.eqb_refl in NP. discriminate. }
      apply Nat.leb_gt in LE.
      apply (IH (T - 1)).
      2:{ pose proof (drop_pops_length (data2 ++ rev (skipped ++ sk))) as DL.
          rewrite app_length, rev_length, app_length in DL. simpl. lia. }
      2:{ pose proof (drop_pops_length (data2 ++ rev (skipped ++ sk))) as DL.
          rewrite app_length, rev_length, app_length in DL.
          assert (T >= 1) by lia.
          assert (length (drop_pops (data2 ++ rev (skipped ++ sk))) <= T - 1) by lia.
          nia. }
      (* membership: the old items are the consumed ones plus the new data *)
      assert (Inew : forall o, In o (data_triples (drop_pops (data2 ++ rev (skipped ++ sk))) ++ data_triples []) ->
                       In o (data_triples data ++ data_triples skipped)).
      { intros o Io. rewrite data_triples_drop_pops in Io. simpl in Io. rewrite app_nil_r in Io.
        apply in_dt_app in Io. apply in_or_app. destruct Io as [Io|Io].
        - left. apply Idata. right. rewrite Eu. apply in_dt_app. right. exact Io.
        - apply in_dt_rev, in_dt_app in Io. destruct Io as [Io|Io]; [right; exact Io|left; apply Idata; left; exact Io]. }
      assert (Iold : forall o, In o (data_triples data ++ data_triples skipped) ->
                       In o (data_triples (drop_pops (data2 ++ rev (skipped ++ sk))) ++ data_triples []) \/
                       In o (data_triples used)).
      { intros o Io. rewrite data_triples_drop_pops. simpl. rewrite app_nil_r.
        apply in_app_or in Io. destruct Io as [Io|Io].
        - apply Idata in Io. destruct Io as [Io|Io].
          + left. apply in_dt_app. right. apply in_dt_rev, in_dt_app. right. exact Io.
          + rewrite Eu in Io. apply in_dt_app in Io. destruct Io as [Io|Io]; [right; exact Io|].
            left. apply in_dt_app. left. exact Io.
        - left. apply in_dt_app. right. apply in_dt_rev, in_dt_app. left. exact Io. }
      constructor.
      + exact W2.
      + exact KV2.
      + exact KK2.
      + apply Mall. apply (li_top _ _ _ _ I).
      + rewrite app_nil_r. eapply pushN_incl; [|exact PNall].
        intros d Id. apply in_drop_pops in Id. apply in_app_or in Id. apply in_or_app.
        destruct Id as [Id|Id].
        * left. rewrite <- Esplit. apply in_or_app. right. rewrite Eu. apply in_or_app. right. exact Id.
        * apply in_rev in Id. apply in_app_or in Id. destruct Id as [Id|Id]; [right; exact Id|].
          left. rewrite <- Esplit. apply in_or_app. left. apply in_rev in Id. exact Id.
      + eapply colon_ok_incl; [exact Inew|exact Call].
      + intros o Io. apply (li_orig _ _ _ _ I). apply Inew. exact Io.
      + eapply PA_mono; [exact Mall| |exact (li_pa _ _ _ _ I)].
        intros o Io. destruct (Iold o Io) as [Io'|Io']; [left; exact Io'|].
        right. intros H1 H2. apply (Hused o Io'); assumption.
      + intros o [].
      + left. reflexivity.
      + apply drop_pops_headed.
  Qed.
End Complete.

(* ------------------------------------------------------------------ *)
(** * [preconf]: a kept Push names a variable *)

Lemma pstep_push : forall m g t es t0 push0 keep0 pops0 pushed0 t' push keep pops pushed,
  fold_left (pstep m t) es (t0, push0, keep0, pops0, pushed0) = (t', push, keep, pops, pushed) ->
  is_var g (tsrc t) = true ->
  (forall pv, In (Push pv) es -> is_var g pv = true) ->
  ((t0 = t /\ (push0 = true -> is_var g (ttgt t) = true)) \/
   (t0 = invert m t /\ mem atom_eqb (tsrc t) pushed0 = true)) ->
  push = true -> is_var g (ttgt t') = true.
Proof.
  intros m g t. induction es as [|e es IH];
    intros t0 push0 keep0 pops0 pushed0 t' push keep pops pushed E Vs N H Hp.
  - simpl in E. inversion E; subst. destruct H as [[-> H]|[-> _]]; [auto|exact Vs].
  - assert (N' : forall pv, In (Push pv) es -> is_var g pv = true) by (intros pv I; apply N; right; exact I).
    simpl in E. destruct e as [pv| |i p|i p]; try (eapply IH; eassumption).
    destruct (mem atom_eqb pv pushed0) eqn:M; [eapply IH; eassumption|].
    destruct (negb (atom_eqb pv (tsrc t) || atom_eqb pv (ttgt t)) || str_eqb (trole t) INSTANCE) eqn:Cnd;
      [eapply IH; eassumption|].
    apply orb_false_iff in Cnd. destruct Cnd as [Cnd _]. apply negb_false_iff in Cnd.
    assert (Vpv : is_var g pv = true) by (apply N; left; reflexivity).
    eapply IH; [exact E|exact Vs|exact N'| |exact Hp].
    destruct (atom_eqb pv (tsrc t)) eqn:Ev.
    + destruct H as [[-> _]|[_ Hm]].
      * right. split; [reflexivity|]. unfold mem. simpl. rewrite atom_eqb_sym, Ev. reflexivity.
      * rewrite (mem_cong _ _ _ Ev), Hm in M. discriminate.
    + simpl in Cnd. destruct H as [[-> _]|[-> Hm]].
      * left. split; [reflexivity|]. intros _. rewrite <- (is_var_cong g _ _ Cnd). exact Vpv.
      * right. split; [reflexivity|]. unfold mem in *. simpl. rewrite Hm. apply orb_true_r.
Qed.

Lemma preconf_pushN : forall m g ts ed pushed,
  (forall t, In t ts -> is_var g (tsrc t) = true) ->
  (forall t es pv, In (t, es) ed -> In (Push pv) es -> is_var g pv = true) ->
  pushN g (preconf m ts ed pushed).
Proof.
  intros m g. induction ts as [|t ts IH]; intros ed pushed Hs N tt es I; [contradiction|].
  simpl in I.
  destruct (preconf_one m t (match dget triple_eqb t ed with Some l => l | None => [] end) pushed)
    as [[[[t' push] keep] pops] pushed'] eqn:E.
  simpl in I. destruct I as [I|I].
  - inversion I; subst. rewrite preconf_one_fold in E.
    eapply pstep_push; [exact E|apply Hs; left; reflexivity| | |reflexivity].
    + intros pv Ip. destruct (dget triple_eqb t ed) as [l|] eqn:D; [|contradiction].
      destruct (dget_In _ _ _ _ D) as [k' Ik]. eapply N; eassumption.
    + left. split; [reflexivity|discriminate].
  - apply in_app_or in I. destruct I as [I|I].
    + apply repeat_spec in I. discriminate.
    + eapply IH; [|exact N|exact I]. intros x Ix. apply Hs. right. exact Ix.
Qed.

Lemma Forall2_in_r : forall {A B} (R : A -> B -> Prop) l l' y,
  Forall2 R l l' -> In y l' -> exists x, In x l /\ R x y.
Proof.
  intros A B R l l' y F. induction F as [|a b l l' Rab F IH]; intros I; [contradiction|].
  destruct I as [<-|I]; [exists a; split; [left; reflexivity|exact Rab]|].
  destruct (IH I) as (x & Ix & Rx). exists x. split; [right; exact Ix|exact Rx].
Qed.

Lemma Forall2_in_l : forall {A B} (R : A -> B -> Prop) l l' x,
  Forall2 R l l' -> In x l -> exists y, In y l' /\ R x y.
Proof.
  intros A B R l l' x F. induction F as [|a b l l' Rab F IH]; intros I; [contradiction|].
  destruct I as [<-|I]; [exists b; split; [left; reflexivity|exact Rab]|].
  destruct (IH I) as (y & Iy & Ry). exists y. split; [right; exact Iy|exact Ry].
Qed.

(* ------------------------------------------------------------------ *)
(** * T3 *)

Theorem configure_complete : forall m g top tp,
  requested_top g top = Some tp -> connected g tp ->
  variables_named g -> roles_invertible m g -> roles_have_colon g ->
  pushes_name_variables g ->
  exists t, configure m g top = Ok t.
Proof.
  intros m g top tp Htop Hconn Hnamed Hroles Hcolon Hpush.
  unfold configure.
  destruct (triples g) as [|t0 ts] eqn:TS; [eauto|]. rewrite <- TS in *.
  fold (requested_top g top). rewrite Htop.
  destruct Hconn as [Vtp Hreach]. pose proof (conj Vtp Hreach : connected g tp) as Hconn.
  unfold is_var in Vtp. rewrite Vtp. cbn [negb]. cbv zeta.
  remember (dset atom_eqb tp (Some O) (map (fun v => (v, @None nat)) (variables g))) as nm0 eqn:Hnm0.
  remember (preconf m (triples g) (epidata g) []) as data0 eqn:Hd0.
  destruct (cnode_ok (S (length data0)) m tp O false data0 [(tp, [])] nm0 (Nat.lt_succ_diag_r _))
    as (s1 & data1 & st1 & nm1 & E1 & L1).
  rewrite E1. cbn [bind].
  pose proof (preconf_triples m (triples g) (epidata g) []) as Fpre. rewrite <- Hd0 in Fpre.
  pose proof (pre_as_colon _ _ _ Fpre Hcolon) as C0.
  assert (W0 : WF [] [(tp, [])] nm0) by (rewrite Hnm0; apply WF_init).
  destruct (cnode_spec _ _ _ _ _ _ _ _ [] _ _ _ _ E1 W0 C0) as (W1 & X1 & used & Eu & A1).
  { exists tp, []. split; [reflexivity|apply atom_eqb_refl]. }
  assert (KV0 : keysV g nm0).
  { intros v Hv. rewrite Hnm0, dmem_dset, dmem_map_none. unfold is_var in Hv. rewrite Hv. reflexivity. }
  assert (KK0 : keysK g nm0).
  { intros v Hv. rewrite Hnm0, dmem_dset, dmem_map_none in Hv. apply orb_true_iff in Hv.
    destruct Hv as [Hv|Hv]; [exact Hv|]. rewrite (is_var_cong g _ _ Hv). exact Vtp. }
  assert (S0 : sitedb nm0 tp = true).
  { rewrite Hnm0, sitedb_dset, atom_eqb_refl. reflexivity. }
  assert (PN0 : pushN g data0).
  { rewrite Hd0. apply preconf_pushN; [intros t It; apply src_is_var; exact It|exact Hpush]. }
  destruct (cnode_sites m g _ _ _ _ _ _ _ _ _ _ _ E1 KV0 KK0 PN0 S0)
    as (KV1 & KK1 & M1 & used' & Eu' & Hused & _).
  assert (used' = used) by (apply (app_inv_tail data1); rewrite <- Eu, <- Eu'; reflexivity).
  subst used'.
  assert (I : LInv m g tp (drop_pops data1) [] st1 nm1).
  { assert (Isub : forall o, In o (data_triples (drop_pops data1) ++ data_triples []) ->
                     In o (data_triples data0)).
    { intros o Io. simpl in Io. rewrite app_nil_r, data_triples_drop_pops in Io.
      rewrite Eu. apply in_dt_app. right. exact Io. }
    constructor.
    - exact W1.
    - exact KV1.
    - exact KK1.
    - apply M1. exact S0.
    - rewrite app_nil_r. eapply pushN_incl; [|exact PN0]. intros d Id. apply in_drop_pops in Id.
      rewrite Eu. apply in_or_app. right. exact Id.
    - eapply colon_ok_incl; [exact Isub|exact C0].
    - intros o Io. apply Isub in Io. destruct (Forall2_in_r _ _ _ _ Fpre Io) as (x & Ix & Hx).
      exists x. split; [exact Ix|exact Hx].
    - eapply (PA_mono m g Hroles nm0 nm1 (data_triples data0)); [exact M1| |].
      + intros o Io. rewrite Eu in Io. apply in_dt_app in Io. destruct Io as [Io|Io].
        * right. intros H1 H2. apply (Hused o Io); assumption.
        * left. simpl. rewrite app_nil_r, data_triples_drop_pops. exact Io.
      + intros x Ix Hi Vt. right. destruct (Forall2_in_l _ _ _ _ Fpre Ix) as (o & Io & Ho).
        exists o. split; [exact Io|]. destruct Ho as [->|[-> _]]; auto.
    - intros o [].
    - left. reflexivity.
    - apply drop_pops_headed. }
  destruct (cloop_complete m g tp Hconn Hnamed Hroles (configure_fuel (length data1)) (length data1)
              (drop_pops data1) [] st1 nm1 I) as [st2 E2].
  - simpl. pose proof (drop_pops_length data1). lia.
  - unfold configure_fuel. pose proof (drop_pops_length data1). nia.
  - rewrite E2. cbn [bind]. eauto.
Qed.

(* ------------------------------------------------------------------ *)
(** * Consequences: encoding a connected graph is total and faithful; a layout
      error means the graph is not connected to the requested top *)

Theorem configure_total_and_faithful : forall m g top tp,
  wf_graph m g -> requested_top g top = Some tp -> connected g tp ->
  layout_only g -> pushes_name_variables g -> deinverts m = true ->
  exists t, configure m g top = Ok t /\
    node_var (troot t) = tp /\
    NoDup (map akey (tree_node_vars t)) /\
    Permutation (tree_content m (tree_triples t)) (graph_content m g).
Proof.
  intros m g top tp WFg Htop Hconn LO Hpush Hd.
  destruct (configure_complete m g top tp Htop Hconn (wf_named _ _ WFg) (wf_invertible _ _ WFg)
              (wf_roles _ _ WFg) Hpush) as [t E].
  exists t. split; [exact E|].
  destruct (configure_places_each_triple_once_spec m g top t E (wf_nonempty _ _ WFg) (wf_roles _ _ WFg) LO)
    as (tp' & Htop' & Hroot & Hnd & _).
  rewrite Htop in Htop'. injection Htop' as Heq. subst tp'.
  split; [exact Hroot|]. split; [exact Hnd|].
  apply (configure_content_deinverted_spec m g top t E (wf_nonempty _ _ WFg) (wf_roles _ _ WFg) LO Hd
           (wf_invertible _ _ WFg)).
Qed.

Theorem layout_error_implies_disconnected : forall m g top tp k,
  configure m g top = LayoutErr k -> requested_top g top = Some tp ->
  variables_named g -> roles_invertible m g -> roles_have_colon g -> pushes_name_variables g ->
  ~ connected g tp.
Proof.
  intros m g top tp k E Htop H1 H2 H3 H4 Hc.
  destruct (configure_complete m g top tp Htop Hc H1 H2 H3 H4) as [t Et]. congruence.
Qed.

(* top is not a variable: the layout error of kind 4, and only then *)
Theorem bad_top_is_layout_error : forall m g top tp,
  triples g <> [] -> requested_top g top = Some tp -> is_var g tp = false ->
  configure m g top = LayoutErr 4.
Proof.
  intros m g top tp NE Htop Hv. unfold configure.
  destruct (triples g) as [|t0 ts]; [contradiction|].
  fold (requested_top g top). rewrite Htop. unfold is_var in Hv. rewrite Hv. reflexivity.
Qed.

(* helpers to discharge the hypotheses on concrete graphs *)
Lemma is_var_exists : forall g v, is_var g v = true ->
  exists u, In u (variables g) /\ atom_eqb v u = true.
Proof. intros g v H. unfold is_var, mem in H. apply existsb_exists in H. exact H. Qed.

Lemma instances_of_cong : forall g v u, atom_eqb v u = true -> instances_of g v = instances_of g u.
Proof.
  intros g v u E. unfold instances_of. apply filter_ext. intros t.
  rewrite (atom_eqb_cong_r _ _ (tsrc t) E). reflexivity.
Qed.

Lemma link_cong_r : forall g b u v, link g b u -> atom_eqb u v = true -> link g b v.
Proof.
  intros g b u v (x & Ix & Hi & Vt & Ends) E. exists x. repeat split; auto.
  destruct Ends as [[E1 E2]|[E1 E2]]; [left|right]; split; auto; eapply atom_eqb_trans; eassumption.
Qed.

Lemma reach_cong_r : forall g a u v, reach g a u -> atom_eqb u v = true -> reach g a v.
Proof.
  intros g a u v R E. destruct R as [u E0|b u R L].
  - apply reach_refl. eapply atom_eqb_trans; eassumption.
  - eapply reach_step; [exact R|]. eapply link_cong_r; eassumption.
Qed.

(* ------------------------------------------------------------------ *)
(** * The converse: whatever configure places is connected to the top *)

Section Reach.
  Variable m : model.
  Variable g : graph.
  Variable tp : atom.

  (* every sited variable is reachable from the top *)
  Definition RS (nm : nmap) : Prop := forall v, sitedb nm v = true -> reach g tp v.

  Definition origins (data : list datum) : Prop :=
    forall o, In o (data_triples data) -> origin m g o.

  Lemma link_sym : forall a b, link g a b -> link g b a.
  Proof.
    intros a b (x & Ix & Hi & Vt & Ends). exists x. repeat split; auto. tauto.
  Qed.

  Lemma link_cong_l : forall a b c, link g a c -> atom_eqb a b = true -> link g b c.
  Proof. intros a b c L E. apply link_sym. eapply link_cong_r; [apply link_sym; exact L|exact E]. Qed.

  Lemma item_link : forall t, origin m g t -> is_instance t = false ->
    is_var g (tsrc t) = true -> is_var g (ttgt t) = true -> link g (tsrc t) (ttgt t).
  Proof.
    intros t (x & Ix & [->|[-> Hx]]) Hi V1 V2.
    - exists x. repeat split; auto. left. split; apply atom_eqb_refl.
    - exists x. repeat split; auto. right. split; apply atom_eqb_refl.
  Qed.

  Lemma RS_dset : forall nm target i a,
    RS nm -> sitedb nm a = true -> link g a target ->
    RS (dset atom_eqb target (Some i) nm).
  Proof.
    intros nm target i a R Sa L v Hv. rewrite sitedb_dset in Hv.
    destruct (atom_eqb v target) eqn:E; [|apply R; exact Hv].
    eapply reach_cong_r; [|rewrite atom_eqb_sym; exact E].
    eapply reach_step; [apply R; exact Sa|exact L].
  Qed.

  Lemma RS_ref : forall nm target id a,
    RS nm -> keysK g nm -> sitedb nm a = true ->
    (is_var g target = true -> link g a target) ->
    RS (ref_nm nm target id).
  Proof.
    intros nm target id a R KK Sa L. unfold ref_nm.
    destruct (dget atom_eqb target nm) as [[i|]|] eqn:D; try exact R.
    eapply RS_dset; [exact R|exact Sa|]. apply L. apply KK. unfold dmem. rewrite D. reflexivity.
  Qed.

  Lemma cnode_reach : forall f var id surp data st nm s' data' st' nm',
    cnode f m var id surp data st nm = Ok (s', data', st', nm') ->
    keysV g nm -> keysK g nm -> pushN g data -> origins data -> sitedb nm var = true ->
    RS nm -> RS nm'.
  Proof.
    induction f as [|f IH]; intros var id surp data st nm s' data' st' nm' E KV KK PN OR SV R; [discriminate|].
    destruct data as [|d data0]; [simpl in E; inversion E; subst; exact R|].
    destruct d as [t push es|]; [|simpl in E; inversion E; subst; exact R].
    pose proof (pushN_tail g _ _ PN) as PN0.
    assert (OR0 : origins data0) by (intros o Io; apply OR; right; exact Io).
    assert (Ot : origin m g t) by (apply OR; left; reflexivity).
    assert (Vvar : is_var g var = true) by (apply KK, sitedb_dmem, SV).
    cbn [cnode] in E.
    destruct (atom_eqb (tsrc t) var) eqn:Esv.
    - assert (Vsrc : is_var g (tsrc t) = true) by (rewrite (is_var_cong g _ _ Esv); exact Vvar).
      destruct (str_eqb (trole t) INSTANCE) eqn:Hi.
      + destruct (missing_concept (ttgt t)); eapply IH; eauto.
      + assert (Lk : is_var g (ttgt t) = true -> link g var (ttgt t)).
        { intros Vt. eapply link_cong_l; [apply item_link; eauto|exact Esv]. }
        destruct (push && negb (has_node (ttgt t) st nm)) eqn:Hp.
        * apply andb_true_iff in Hp. destruct Hp as [Hpush _]. subst push.
          destruct (cnode f m (ttgt t) (length st) false data0 (st ++ [(ttgt t, [])])
                      (dset atom_eqb (ttgt t) (Some (length st)) nm))
            as [[[[s2 data2] st2] nm2]| | | | | | | |] eqn:E1; try discriminate.
          assert (Vt : is_var g (ttgt t) = true) by (apply (PN t es); left; reflexivity).
          set (nm1 := dset atom_eqb (ttgt t) (Some (length st)) nm) in *.
          assert (KV1 : keysV g nm1).
          { intros v Hv. unfold nm1. rewrite dmem_dset, (KV v Hv). reflexivity. }
          assert (KK1 : keysK g nm1).
          { intros v Hv. unfold nm1 in Hv. rewrite dmem_dset in Hv. apply orb_true_iff in Hv.
            destruct Hv as [Hv|Hv]; [apply KK; exact Hv|]. rewrite (is_var_cong g _ _ Hv). exact Vt. }
          assert (S1 : sitedb nm1 (ttgt t) = true).
          { unfold nm1. rewrite sitedb_dset, atom_eqb_refl. reflexivity. }
          assert (R1 : RS nm1) by (eapply RS_dset; [exact R|exact SV|apply Lk; exact Vt]).
          pose proof (IH _ _ _ _ _ _ _ _ _ _ E1 KV1 KK1 PN0 OR0 S1 R1) as R2.
          destruct (cnode_sites m g _ _ _ _ _ _ _ _ _ _ _ E1 KV1 KK1 PN0 S1)
            as (KV2 & KK2 & M2 & used1 & Eu1 & _ & _).
          assert (PN2 : pushN g data2) by (rewrite Eu1 in PN0; apply pushN_app in PN0; tauto).
          assert (OR2 : origins data2).
          { intros o Io. apply OR0. rewrite Eu1, data_triples_app. apply in_or_app. right. exact Io. }
          eapply IH; [exact E|exact KV2|exact KK2|exact PN2|exact OR2| |exact R2].
          apply M2. unfold nm1. rewrite sitedb_dset, SV. destruct (atom_eqb var (ttgt t)); reflexivity.
        * destruct (ref_nm_spec g nm (ttgt t) id KV KK) as (KVa & KKa & Ma & _).
          eapply IH; [exact E|exact KVa|exact KKa|exact PN0|exact OR0|apply Ma; exact SV|].
          eapply RS_ref; eauto.
    - destruct (atom_eqb (ttgt t) var && negb (str_eqb (trole t) INSTANCE)) eqn:Hinv.
      + apply andb_true_iff in Hinv. destruct Hinv as [Etv Hni]. apply negb_true_iff in Hni.
        assert (Vtgt : is_var g (ttgt t) = true) by (rewrite (is_var_cong g _ _ Etv); exact Vvar).
        destruct (str_eqb (trole (invert m t)) INSTANCE) eqn:Hi.
        * destruct (missing_concept (ttgt (invert m t))); eapply IH; eauto.
        * cbn [andb] in E. change (ttgt (invert m t)) with (tsrc t) in E.
          destruct (ref_nm_spec g nm (tsrc t) id KV KK) as (KVa & KKa & Ma & _).
          eapply IH; [exact E|exact KVa|exact KKa|exact PN0|exact OR0|apply Ma; exact SV|].
          eapply RS_ref; [exact R|exact KK|exact SV|].
          intros Vs. eapply link_cong_l; [apply link_sym, item_link; eauto|exact Etv].
      + inversion E; subst. exact R.
  Qed.
  Lemma origins_incl : forall a b,
    (forall o, In o (data_triples a) -> In o (data_triples b)) -> origins b -> origins a.
  Proof. intros a b H O o Io. apply O, H, Io. Qed.

  Lemma cloop_reach : forall f data skipped st nm st',
    cloop f m data skipped st nm = Ok st' ->
    WF [] st nm -> colon_ok (data_triples data ++ data_triples skipped) ->
    keysV g nm -> keysK g nm -> pushN g (data ++ skipped) -> origins (data ++ skipped) -> RS nm ->
    exists nm', RS nm' /\ (forall v, sitedb nm v = true -> sitedb nm' v = true) /\
      forall o, In o (data_triples data ++ data_triples skipped) -> placed_sited m g nm' o.
  Proof.
    induction f as [|f IH]; intros data skipped st nm st' E W Call KV KK PNall ORall R; [discriminate|].
    rewrite cloop_S in E.
    destruct data as [|d0 data0].
    { destruct skipped; [|discriminate]. exists nm. split; [exact R|]. split; [auto|]. intros o []. }
    remember (d0 :: data0) as data eqn:Hdata.
    destruct (find_next data [] st nm) as [[[[sk var] data1] st1] nm1] eqn:FN.
    destruct (find_next_content _ _ _ _ _ _ _ _ _ [] FN W) as (Esplit & W1 & X1 & T1 & Hv).
    destruct (find_next_sites _ _ _ _ _ _ _ _ _ [] FN W) as (Ssame & Dsame & _ & _).
    simpl in Esplit.
    assert (Idata : forall o, In o (data_triples data) <-> In o (data_triples sk) \/ In o (data_triples data1)).
    { intros o. rewrite <- Esplit, in_dt_app, in_dt_rev. reflexivity. }
    cbv zeta in E.
    destruct var as [v|]; [|discriminate].
    destruct (Hv v eq_refl) as (id & w & es & D & G & Evw).
    assert (E' :
      (if Nat.eqb (length data1) 0 then LayoutErr 1
       else match dget atom_eqb v nm1 with
            | Some (Some id) =>
                r <- cnode (S (length data1)) m v id false data1 st1 nm1 ;;
                let '(surp, data2, st2, nm2) := r in
                if Nat.eqb (length data2) (length data1) && surp then
                  match data2 with
                  | d :: data3 => cloop f m (drop_pops data3) (d :: skipped ++ sk) st2 nm2
                  | [] => Other 3
                  end
                else if Nat.leb (length data1) (length data2) then LayoutErr 2
                else cloop f m (drop_pops (data2 ++ rev (skipped ++ sk))) [] st2 nm2
            | _ => Other 2
            end) = Ok st').
    { destruct v; [discriminate|exact E|exact E]. }
    clear E.
    destruct (Nat.eqb (length data1) 0); [discriminate|].
    rewrite D in E'.
    destruct (cnode (S (length data1)) m v id false data1 st1 nm1)
      as [[[[surp data2] st2] nm2]| | | | | | | |] eqn:EC; try discriminate.
    cbn [bind] in E'.
    assert (KV1 : keysV g nm1) by (intros u Hu; rewrite Dsame; apply KV; exact Hu).
    assert (KK1 : keysK g nm1) by (intros u Hu; rewrite Dsame in Hu; apply KK; exact Hu).
    assert (Sv1 : sitedb nm1 v = true) by (unfold sitedb; rewrite D; reflexivity).
    assert (R1 : RS nm1) by (intros u Hu; apply R; rewrite <- Ssame; exact Hu).
    assert (PN1 : pushN g data1).
    { eapply pushN_incl; [|exact PNall]. intros d Id. apply in_or_app. left.
      rewrite <- Esplit. apply in_or_app. right. exact Id. }
    assert (OR1 : origins data1).
    { intros o Io. apply ORall. rewrite data_triples_app. apply in_or_app. left. apply Idata. auto. }
    assert (C1 : colon_ok (data_triples data1)).
    { eapply colon_ok_incl; [|exact Call]. intros o Io. apply in_or_app. left. apply Idata. auto. }
    destruct (cnode_spec _ _ _ _ _ _ _ _ [] _ _ _ _ EC W1 C1) as (W2 & X2 & used & Eu & Au); [eauto|].
    destruct (cnode_sites m g _ _ _ _ _ _ _ _ _ _ _ EC KV1 KK1 PN1 Sv1)
      as (KV2 & KK2 & M2 & used' & Eu' & Hused & _).
    assert (used' = used) by (apply (app_inv_tail data2); rewrite <- Eu, <- Eu'; reflexivity).
    subst used'.
    pose proof (cnode_reach _ _ _ _ _ _ _ _ _ _ _ EC KV1 KK1 PN1 OR1 Sv1 R1) as R2.
    assert (Mall : forall u, sitedb nm u = true -> sitedb nm2 u = true).
    { intros u Hu. apply M2. rewrite Ssame. exact Hu. }
    (* the recursive call covers everything but the consumed items *)
    assert (Fin : forall data' skipped',
      cloop f m data' skipped' st2 nm2 = Ok st' ->
      (forall d, In d (data' ++ skipped') -> In d (data ++ skipped)) ->
      (forall o, In o (data_triples data ++ data_triples skipped) ->
                 In o (data_triples data' ++ data_triples skipped') \/ In o (data_triples used)) ->
      exists nm', RS nm' /\ (forall v, sitedb nm v = true -> sitedb nm' v = true) /\
        forall o, In o (data_triples data ++ data_triples skipped) -> placed_sited m g nm' o).
    { intros data' skipped' Ec Hsub Hcov.
      assert (Hsubt : forall o, In o (data_triples data' ++ data_triples skipped') ->
                        In o (data_triples data ++ data_triples skipped)).
      { intros o Io. rewrite <- data_triples_app in *. unfold data_triples in *.
        apply in_flat_map in Io. destruct Io as (d & Id & Io). apply in_flat_map.
        exists d. split; [apply Hsub; exact Id|exact Io]. }
      destruct (IH _ _ _ _ _ Ec W2) as (nm' & R' & M' & P').
      - eapply colon_ok_incl; [exact Hsubt|exact Call].
      - exact KV2.
      - exact KK2.
      - eapply pushN_incl; [exact Hsub|exact PNall].
      - intros o Io. apply ORall. rewrite data_triples_app in *. apply Hsubt. exact Io.
      - exact R2.
      - exists nm'. split; [exact R'|]. split; [intros u Hu; apply M', Mall, Hu|].
        intros o Io. destruct (Hcov o Io) as [Io'|Io'].
        + apply P'. exact Io'.
        + eapply placed_sited_mono; [exact M'|]. apply Hused. exact Io'. }
    destruct (Nat.eqb (length data2) (length data1) && surp).
    - destruct data2 as [|d data3]; [discriminate|].
      apply (Fin _ _ E').
      + intros x Ix. apply in_app_or in Ix. apply in_or_app. destruct Ix as [Ix|Ix].
        * left. rewrite <- Esplit. apply in_or_app. right. rewrite Eu. apply in_or_app. right.
          right. apply in_drop_pops. exact Ix.
        * simpl in Ix. destruct Ix as [<-|Ix].
          -- left. rewrite <- Esplit. apply in_or_app. right. rewrite Eu. apply in_or_app. right.
             left. reflexivity.
          -- apply in_app_or in Ix. destruct Ix as [Ix|Ix]; [right; exact Ix|].
             left. rewrite <- Esplit. apply in_or_app. left. apply in_rev in Ix. exact Ix.
      + intros o Io. rewrite data_triples_drop_pops.
        assert (Hd : forall y, In y (data_triples (d :: skipped ++ sk)) <->
                               In y (data_triples [d]) \/ In y (data_triples skipped) \/ In y (data_triples sk)).
        { intros y. change (d :: skipped ++ sk) with ([d] ++ skipped ++ sk).
          rewrite !in_dt_app. reflexivity. }
        apply in_app_or in Io. destruct Io as [Io|Io].
        * apply Idata in Io. destruct Io as [Io|Io].
          -- left. apply in_or_app. right. apply Hd. auto.
          -- rewrite Eu in Io. apply in_dt_app in Io. destruct Io as [Io|Io]; [right; exact Io|].
             left. change (d :: data3) with ([d] ++ data3) in Io. apply in_dt_app in Io.
             apply in_or_app. destruct Io as [Io|Io]; [right; apply Hd; auto|left; exact Io].
        * left. apply in_or_app. right. apply Hd. auto.
    - destruct (Nat.leb (length data1) (length data2)); [discriminate|].
      apply (Fin _ _ E').
      + intros x Ix. rewrite app_nil_r in Ix. apply in_drop_pops in Ix.
        apply in_app_or in Ix. apply in_or_app. destruct Ix as [Ix|Ix].
        * left. rewrite <- Esplit. apply in_or_app. right. rewrite Eu. apply in_or_app. right. exact Ix.
        * apply in_rev in Ix. apply in_app_or in Ix. destruct Ix as [Ix|Ix]; [right; exact Ix|].
          left. rewrite <- Esplit. apply in_or_app. left. apply in_rev in Ix. exact Ix.
      + intros o Io. rewrite data_triples_drop_pops. simpl. rewrite app_nil_r.
        apply in_app_or in Io. destruct Io as [Io|Io].
        * apply Idata in Io. destruct Io as [Io|Io].
          -- left. apply in_dt_app. right. apply in_dt_rev, in_dt_app. right. exact Io.
          -- rewrite Eu in Io. apply in_dt_app in Io. destruct Io as [Io|Io]; [right; exact Io|].
             left. apply in_dt_app. left. exact Io.
        * left. apply in_dt_app. right. apply in_dt_rev, in_dt_app. left. exact Io.
  Qed.
End Reach.

(** success implies connected: the source of every triple is reachable from
    the requested top *)
Theorem configure_success_implies_connected : forall m g top tp t,
  configure m g top = Ok t -> triples g <> [] -> requested_top g top = Some tp ->
  roles_invertible m g -> roles_have_colon g -> pushes_name_variables g ->
  forall x, In x (triples g) -> reach g tp (tsrc x).
Proof.
  intros m g top tp t E NE Htop Hroles Hcolon Hpush x Ix.
  unfold configure in E.
  destruct (triples g) as [|t0 ts] eqn:TS; [contradiction|]. rewrite <- TS in *. clear NE.
  fold (requested_top g top) in E. rewrite Htop in E.
  destruct (mem atom_eqb tp (variables g)) eqn:Vtp; [|discriminate].
  cbn [negb] in E. cbv zeta in E.
  remember (dset atom_eqb tp (Some O) (map (fun v => (v, @None nat)) (variables g))) as nm0 eqn:Hnm0.
  remember (preconf m (triples g) (epidata g) []) as data0 eqn:Hd0.
  destruct (cnode (S (length data0)) m tp O false data0 [(tp, [])] nm0)
    as [[[[s1 data1] st1] nm1]| | | | | | | |] eqn:E1; try discriminate.
  cbn [bind] in E.
  destruct (cloop (configure_fuel (length data1)) m (drop_pops data1) [] st1 nm1)
    as [st2| | | | | | | |] eqn:E2; try discriminate.
  clear E.
  pose proof (preconf_triples m (triples g) (epidata g) []) as Fpre. rewrite <- Hd0 in Fpre.
  pose proof (pre_as_colon _ _ _ Fpre Hcolon) as C0.
  assert (W0 : WF [] [(tp, [])] nm0) by (rewrite Hnm0; apply WF_init).
  destruct (cnode_spec _ _ _ _ _ _ _ _ [] _ _ _ _ E1 W0 C0) as (W1 & X1 & used & Eu & A1).
  { exists tp, []. split; [reflexivity|apply atom_eqb_refl]. }
  assert (KV0 : keysV g nm0).
  { intros v Hv. rewrite Hnm0, dmem_dset, dmem_map_none. unfold is_var in Hv. rewrite Hv. reflexivity. }
  assert (KK0 : keysK g nm0).
  { intros v Hv. rewrite Hnm0, dmem_dset, dmem_map_none in Hv. apply orb_true_iff in Hv.
    destruct Hv as [Hv|Hv]; [exact Hv|]. rewrite (is_var_cong g _ _ Hv). exact Vtp. }
  assert (S0 : sitedb nm0 tp = true).
  { rewrite Hnm0, sitedb_dset, atom_eqb_refl. reflexivity. }
  assert (PN0 : pushN g data0).
  { rewrite Hd0. apply preconf_pushN; [intros y Iy; apply src_is_var; exact Iy|exact Hpush]. }
  assert (OR0 : origins m g data0).
  { intros o Io. destruct (Forall2_in_r _ _ _ _ Fpre Io) as (y & Iy & Hy). exists y. auto. }
  assert (R0 : RS g tp nm0).
  { intros v Hv. rewrite Hnm0, sitedb_dset in Hv. destruct (atom_eqb v tp) eqn:Ev.
    - apply reach_refl. rewrite atom_eqb_sym. exact Ev.
    - unfold sitedb in Hv. destruct (dget atom_eqb v _) as [[i|]|] eqn:D; try discriminate.
      apply dget_map_none in D. contradiction. }
  destruct (cnode_sites m g _ _ _ _ _ _ _ _ _ _ _ E1 KV0 KK0 PN0 S0)
    as (KV1 & KK1 & M1 & used' & Eu' & Hused & _).
  assert (used' = used) by (apply (app_inv_tail data1); rewrite <- Eu, <- Eu'; reflexivity).
  subst used'.
  pose proof (cnode_reach m g tp _ _ _ _ _ _ _ _ _ _ _ E1 KV0 KK0 PN0 OR0 S0 R0) as R1.
  assert (C1 : colon_ok (data_triples data1)).
  { rewrite Eu, data_triples_app in C0. apply colon_ok_app in C0. tauto. }
  destruct (cloop_reach m g tp _ _ _ _ _ _ E2 W1) as (nm2 & R2 & M2 & P2).
  - simpl. rewrite app_nil_r, data_triples_drop_pops. exact C1.
  - exact KV1.
  - exact KK1.
  - rewrite app_nil_r. eapply pushN_incl; [|exact PN0]. intros d Id. apply in_drop_pops in Id.
    rewrite Eu. apply in_or_app. right. exact Id.
  - intros o Io. apply OR0. rewrite app_nil_r, data_triples_drop_pops in Io.
    rewrite Eu, data_triples_app. apply in_or_app. right. exact Io.
  - exact R1.
  - (* every item of data0 was consumed with its ends sited in nm2 *)
    assert (Pall : forall o, In o (data_triples data0) -> placed_sited m g nm2 o).
    { intros o Io. rewrite Eu, data_triples_app in Io. apply in_app_or in Io. destruct Io as [Io|Io].
      - eapply placed_sited_mono; [exact M2|]. apply Hused. exact Io.
      - apply P2. simpl. rewrite app_nil_r, data_triples_drop_pops. exact Io. }
    destruct (Forall2_in_l _ _ _ _ Fpre Ix) as (o & Io & Ho).
    apply R2.
    pose proof (src_is_var g x Ix) as Vs.
    destruct (Pall o Io) as [Pi Pn].
    destruct (is_instance x) eqn:Hi.
    + destruct Ho as [->|[_ F]]; [|congruence]. apply Pi. exact Hi.
    + destruct (Hroles x Ix Hi) as (R1' & _ & R2').
      destruct Ho as [->|[-> _]].
      * destruct (Pn Hi R2') as [A _]. apply A. exact Vs.
      * assert (Hii : is_instance (invert m (invert m x)) = false)
          by (rewrite (invert_invert m x R1'); exact Hi).
        destruct (Pn R2' Hii) as [_ B]. apply B. exact Vs.
Qed.
(* a graph with a triple whose source is not connected to the requested top
   is rejected, and only with the layout error *)
Theorem disconnected_implies_layout_error : forall m g top tp,
  triples g <> [] -> requested_top g top = Some tp ->
  roles_invertible m g -> roles_have_colon g -> pushes_name_variables g ->
  (exists x, In x (triples g) /\ ~ reach g tp (tsrc x)) ->
  exists k, configure m g top = LayoutErr k.
Proof.
  intros m g top tp NE Htop H1 H2 H3 (x & Ix & Nx).
  destruct (configure_only_layout_error m g top) as [[t E]|[E|[E|[E|E]]]]; eauto.
  exfalso. apply Nx. eapply configure_success_implies_connected; eassumption.
Qed.

(* a connected example satisfying every hypothesis (the F14 witness, top b) *)
Require Import Coq.Strings.String.
Example f14_connected_wf :
  wf_graph default_model f14_graph /\ connected f14_graph (sym "b") /\
  layout_only f14_graph /\ pushes_name_variables f14_graph.
Proof.
  destruct f14_graph_hypotheses as (H1 & H2 & H3 & H4 & H5).
  assert (Vars : forall v, is_var f14_graph v = true ->
            atom_eqb v (sym "a") = true \/ atom_eqb v (sym "b") = true).
  { intros v Hv. destruct (is_var_exists _ _ Hv) as (u & Iu & E). vm_compute in Iu.
    destruct Iu as [<-|[<-|[]]]; auto. }
  split; [|split; [|split]].
  - constructor; try assumption.
    + intros v Hv. destruct (Vars v Hv) as [E|E]; destruct v; try discriminate; reflexivity.
    + intros v Hv. destruct (Vars v Hv) as [E|E]; rewrite (instances_of_cong _ _ _ E); reflexivity.
    + vm_compute. repeat constructor; simpl; intuition discriminate.
  - split; [reflexivity|]. intros v Hv.
    assert (L : link f14_graph (sym "b") (sym "a")).
    { exists (tr "a" ":op2" "b"). split; [simpl; auto|]. split; [reflexivity|]. split; [reflexivity|].
      right. split; reflexivity. }
    destruct (Vars v Hv) as [E|E]; rewrite atom_eqb_sym in E.
    + apply (reach_cong_r _ _ (sym "a")); [|exact E].
      apply (reach_step _ _ (sym "b") (sym "a")); [apply reach_refl; reflexivity|exact L].
    + apply reach_refl. exact E.
  - exact H3.
  - intros t es pv I Ip. simpl in I.
    repeat (destruct I as [I|I]; [inversion I; subst; simpl in Ip;
            repeat (destruct Ip as [Ip|Ip]; [inversion Ip; reflexivity|]); try contradiction|]).
    contradiction.
Qed.

