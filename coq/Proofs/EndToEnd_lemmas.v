(** End-to-end compositions (C02 / C03 / C06): the string-level statements,
    assembled from C01 (parse / format), C02 (configure after interpret),
    C04 / Configure_fast (interpret without accumulators) and T2 / T3
    (Configure_content / Configure_complete). *)
From PM Require Import Spec.WellFormed Spec.WfLayout Spec.GraphEq Spec.Reading Impl.Codec.
From PM Require Import Proofs.Model_lemmas Proofs.Roundtrip_lemmas Proofs.Configure_fast
  Proofs.Configure_term Proofs.Configure_content Proofs.Configure_complete Proofs.Interpret_lemmas.
From Coq Require Import Lia.

(* ------------------------------------------------------------------ *)
(** * Part 1 (C02): decode then encode is the normal-form text *)

Theorem e2e_c02_encode_decode : forall m i c s t,
  parse s = Ok t -> WfLayout.wf_layout_tree m t = true ->
  exists g, decode m s = Ok g /\
            encode m i c g = Ok (format i c (drop_empty_concepts t)).
Proof.
  intros m i c s t P W.
  destruct (wf_interpret_ok m t W) as [g G].
  exists g. split.
  - unfold decode. rewrite P. exact G.
  - unfold encode, encode_top. rewrite (configure_interpret_wf m t g W G). reflexivity.
Qed.

(* ---- the normalisation [dec_node] on C01-well-formed trees ---- *)

Lemma dec_branch_fst : forall b, fst (dec_branch b) = fst b.
Proof. intros [r [a|n]]; reflexivity. Qed.

Lemma not_slash_dec : forall bs, forallb not_slash (map dec_branch bs) = forallb not_slash bs.
Proof.
  induction bs as [|b bs IH]; [reflexivity|]. simpl. rewrite IH. unfold not_slash.
  rewrite dec_branch_fst. reflexivity.
Qed.

Lemma slash_only_first_dec : forall bs, slash_only_first (map dec_branch bs) = slash_only_first bs.
Proof. intros [|b bs]; [reflexivity|]. simpl. apply not_slash_dec. Qed.

Lemma not_slash_only_first : forall bs, forallb not_slash bs = true -> slash_only_first bs = true.
Proof. intros [|b bs] H; [reflexivity|]. simpl in *. apply andb_true_iff in H. tauto. Qed.

Lemma c01_wf_node_eq : forall v bs,
  WellFormed.wf_node (Node v bs) =
  match v with
  | ANone => match bs with [] => true | _ => false end
  | AStr s => wf_symbol s && forallb (WellFormed.wf_branch WellFormed.wf_node) bs && slash_only_first bs
  | ANum _ _ => false
  end.
Proof. reflexivity. Qed.

Definition DecWf (n : node) : Prop :=
  WellFormed.wf_node n = true ->
  WellFormed.wf_node (dec_node n) = true /\ dec_node (dec_node n) = dec_node n.

Lemma dec_branches_wf : forall bs, Forall (branch_ok DecWf) bs ->
  forallb (WellFormed.wf_branch WellFormed.wf_node) bs = true ->
  forallb (WellFormed.wf_branch WellFormed.wf_node) (map dec_branch bs) = true /\
  map dec_branch (map dec_branch bs) = map dec_branch bs.
Proof.
  intros bs F. induction F as [|[r tgt] bs Hb F IH]; intros H; [split; reflexivity|].
  simpl in H. apply andb_true_iff in H. destruct H as [H1 H2].
  destruct (IH H2) as [I1 I2]. simpl map.
  destruct tgt as [a|n'].
  - change (dec_branch (r, TAtom a)) with (r, TAtom a).
    change (dec_branch (r, TAtom a)) with (r, TAtom a).
    simpl forallb. rewrite H1, I1, I2. split; reflexivity.
  - unfold WellFormed.wf_branch in H1. simpl fst in H1. simpl snd in H1.
    destruct (str_eqb r SLASHS) eqn:SL; [discriminate|].
    apply andb_true_iff in H1. destruct H1 as [R N].
    unfold branch_ok in Hb. simpl in Hb. destruct (Hb N) as [N1 N2].
    change (dec_branch (r, TNode n')) with (r, TNode (dec_node n')).
    change (dec_branch (r, TNode (dec_node n'))) with (r, TNode (dec_node (dec_node n'))).
    simpl forallb.
    unfold WellFormed.wf_branch at 1. simpl fst. simpl snd. rewrite SL, R, N1, I1, I2, N2.
    split; reflexivity.
Qed.

Theorem dec_wf_all : forall n, DecWf n.
Proof.
  induction n as [v bs IHbs] using node_ind'. intros W.
  rewrite c01_wf_node_eq in W.
  destruct v as [|s|t z]; [|.. |discriminate].
  - destruct bs; [|discriminate]. split; reflexivity.
  - apply andb_true_iff in W. destruct W as [W W3]. apply andb_true_iff in W. destruct W as [W1 W2].
    destruct (dec_branches_wf bs IHbs W2) as [D1 D2].
    assert (Keep : WellFormed.wf_node (Node (AStr s) (map dec_branch bs)) = true).
    { rewrite c01_wf_node_eq, W1, D1, slash_only_first_dec, W3. reflexivity. }
    rewrite dec_node_eq.
    destruct bs as [|[r [a|n']] bs'].
    + split; [exact Keep|reflexivity].
    + destruct (str_eqb r SLASHS && missing_concept a) eqn:C.
      * simpl in W2. apply andb_true_iff in W2. destruct W2 as [_ W2'].
        inversion IHbs as [|? ? _ IH']; subst.
        destruct (dec_branches_wf bs' IH' W2') as [E1 E2].
        simpl in W3.
        split.
        -- rewrite c01_wf_node_eq, W1, E1. simpl.
           apply not_slash_only_first. rewrite not_slash_dec. exact W3.
        -- rewrite dec_node_eq.
           destruct bs' as [|[r2 [a2|n2]] bs2]; [reflexivity| |].
           ++ change (map dec_branch ((r2, TAtom a2) :: bs2)) with ((r2, TAtom a2) :: map dec_branch bs2) at 1.
              cbv iota beta.
              simpl in W3. apply andb_true_iff in W3. destruct W3 as [NS _].
              unfold not_slash in NS. simpl in NS. apply negb_true_iff in NS. rewrite NS. simpl andb.
              cbv iota. exact (f_equal (Node (AStr s)) E2).
           ++ change (map dec_branch ((r2, TNode n2) :: bs2)) with ((r2, TNode (dec_node n2)) :: map dec_branch bs2) at 1.
              cbv iota beta. exact (f_equal (Node (AStr s)) E2).
      * split; [exact Keep|].
        change (map dec_branch ((r, TAtom a) :: bs')) with ((r, TAtom a) :: map dec_branch bs').
        rewrite dec_node_eq. rewrite C. exact (f_equal (Node (AStr s)) D2).
    + split; [exact Keep|].
      change (map dec_branch ((r, TNode n') :: bs')) with ((r, TNode (dec_node n')) :: map dec_branch bs').
      rewrite dec_node_eq. exact (f_equal (Node (AStr s)) D2).
Qed.

Lemma dec_wf_tree : forall t, WellFormed.wf_tree t = true -> WellFormed.wf_tree (drop_empty_concepts t) = true.
Proof.
  intros t H. unfold WellFormed.wf_tree in *. apply andb_true_iff in H. destruct H as [H1 H2].
  simpl. rewrite H1. simpl. apply dec_wf_all. exact H2.
Qed.

Lemma dec_idem_tree : forall t, WellFormed.wf_tree t = true ->
  drop_empty_concepts (drop_empty_concepts t) = drop_empty_concepts t.
Proof.
  intros t H. unfold WellFormed.wf_tree in H. apply andb_true_iff in H. destruct H as [H1 H2].
  unfold drop_empty_concepts. simpl. f_equal. apply dec_wf_all. exact H2.
Qed.

(* ---- the normalisation on layout-well-formed trees (C02) ---- *)

Lemma node_var_dec : forall n, node_var (dec_node n) = node_var n.
Proof.
  intros [v bs]. rewrite dec_node_eq.
  destruct bs as [|[r [a|n']] bs']; try reflexivity.
  destruct (str_eqb r SLASHS && missing_concept a); reflexivity.
Qed.

Lemma bs_vars_dec : forall bs,
  Forall (branch_ok (fun n => tree_vars (dec_node n) = tree_vars n)) bs ->
  bs_vars (map dec_branch bs) = bs_vars bs.
Proof.
  intros bs F. induction F as [|[r [a|n']] bs Hb F IH]; [reflexivity| |].
  - exact IH.
  - unfold bs_vars in *. simpl. rewrite IH. unfold branch_ok in Hb. simpl in Hb. rewrite Hb. reflexivity.
Qed.

Lemma tree_vars_dec : forall n, tree_vars (dec_node n) = tree_vars n.
Proof.
  induction n as [v bs IHbs] using node_ind'.
  pose proof (bs_vars_dec bs IHbs) as B.
  rewrite dec_node_eq.
  destruct bs as [|[r [a|n']] bs'].
  - reflexivity.
  - destruct (str_eqb r SLASHS && missing_concept a).
    + rewrite !tree_vars_eq. f_equal. inversion IHbs; subst.
      change (bs_vars ((r, TAtom a) :: bs')) with (bs_vars bs'). apply bs_vars_dec. assumption.
    + rewrite !tree_vars_eq. f_equal. exact B.
  - rewrite !tree_vars_eq. f_equal. exact B.
Qed.

Definition Rinst (x y : triple) : Prop :=
  y = x \/ (is_instance x = true /\ is_instance y = true /\ tsrc y = tsrc x).
Definition inst_srcs (l : list triple) : list atom := map tsrc (filter is_instance l).

Lemma inst_srcs_app : forall a b, inst_srcs (a ++ b) = inst_srcs a ++ inst_srcs b.
Proof. intros. unfold inst_srcs. rewrite filter_app, map_app. reflexivity. Qed.

Lemma inst_srcs_cons : forall x l,
  inst_srcs (x :: l) = if is_instance x then tsrc x :: inst_srcs l else inst_srcs l.
Proof. intros. unfold inst_srcs. simpl. destruct (is_instance x); reflexivity. Qed.

Lemma Forall2_Rinst_refl : forall l, Forall2 Rinst l l.
Proof. induction l; constructor; [left; reflexivity|assumption]. Qed.

Lemma deinvert_not_instance : forall m v r x,
  str_eqb r INSTANCE = false ->
  (deinverts m && is_role_inverted m r = true -> deinv_ok m r = true) ->
  is_instance (deinvert m (v, r, x)) = false.
Proof.
  intros m v r x NI D. unfold deinvert. change (trole (v, r, x)) with r.
  destruct (deinverts m); [|exact NI].
  destruct (is_role_inverted m r) eqn:I; [|exact NI].
  specialize (D eq_refl). unfold deinv_ok in D. apply andb_true_iff in D. destruct D as [_ D].
  apply negb_true_iff in D. unfold is_instance, invert.
  change (str_eqb (invert_role m r) INSTANCE = false).
  unfold invert_role. rewrite I. exact D.
Qed.

Lemma atom_triple_not_instance : forall m vars v r a,
  str_eqb r INSTANCE = false ->
  (deinverts m && is_role_inverted m r && mem atom_eqb a vars = true -> deinv_ok m r = true) ->
  is_instance (atom_triple m vars v r a) = false.
Proof.
  intros m vars v r a NI D. unfold atom_triple.
  destruct (is_role_inverted m r && mem atom_eqb a vars) eqn:C; [|exact NI].
  apply andb_true_iff in C. destruct C as [C1 C2].
  apply deinvert_not_instance; [exact NI|]. intros H. apply D.
  apply andb_true_iff in H. destruct H as [H1 H2]. rewrite H1, C1, C2. reflexivity.
Qed.

Definition DecL (m : model) (vars : list atom) (n : node) : Prop :=
  WfLayout.wf_node m vars n = true ->
  WfLayout.wf_node m vars (dec_node n) = true /\
  Forall2 Rinst (map fst (entries m vars n)) (map fst (entries m vars (dec_node n))) /\
  inst_srcs (map fst (entries m vars n)) = tree_vars n.

Lemma has_concept_dec : forall bs, has_concept (map dec_branch bs) = has_concept bs.
Proof.
  induction bs as [|b bs IH]; [reflexivity|]. simpl map. rewrite !has_concept_cons, IH, dec_branch_fst.
  reflexivity.
Qed.

Lemma wf_bs_false_true : forall m vars var bs,
  wf_bs m vars var false bs = true -> wf_bs m vars var true bs = true.
Proof.
  intros m vars var [|[r t] bs] H; [reflexivity|].
  rewrite wf_bs_cons in *. apply andb_true_iff in H. destruct H as [H1 H2].
  rewrite (wf_branch_first_irrelevant m vars var true r t (wf_branch_false_noslash _ _ _ _ _ H1)), H1, H2.
  reflexivity.
Qed.

Lemma dec_bs_layout : forall m vars var bs, Forall (branch_ok (DecL m vars)) bs ->
  wf_bs m vars var false bs = true ->
  wf_bs m vars var false (map dec_branch bs) = true /\
  Forall2 Rinst (map fst (entries_bs m vars var bs)) (map fst (entries_bs m vars var (map dec_branch bs))) /\
  inst_srcs (map fst (entries_bs m vars var bs)) = bs_vars bs.
Proof.
  intros m vars var bs F. induction F as [|[role tgt] bs Hb F IH]; intros W.
  { split; [reflexivity|]. split; [constructor|reflexivity]. }
  rewrite wf_bs_cons in W. apply andb_true_iff in W. destruct W as [W1 W2].
  destruct (IH W2) as (I1 & I2 & I3).
  pose proof (wf_branch_false_noslash _ _ _ _ _ W1) as NS.
  assert (W1' := W1). unfold wf_branch in W1'. rewrite NS in W1'.
  apply andb_true_iff in W1'. destruct W1' as [RT W1'].
  destruct (role_text_ok_spec role NS RT) as [r [repis [PR [_ [NI _]]]]].
  assert (RN : role_name role = r) by (unfold role_name, proc_role; rewrite PR; reflexivity).
  destruct tgt as [a|n'].
  - change (map dec_branch ((role, TAtom a) :: bs)) with ((role, TAtom a) :: map dec_branch bs).
    rewrite wf_bs_cons, W1, I1. split; [reflexivity|].
    rewrite !entries_bs_atom. simpl map. split; [constructor; [left; reflexivity|exact I2]|].
    rewrite inst_srcs_cons.
    rewrite atom_triple_not_instance; [exact I3|rewrite RN; exact NI|].
    intros H. apply andb_true_iff in W1'. destruct W1' as [_ W1'].
    rewrite H in W1'. apply andb_true_iff in W1'. tauto.
  - apply andb_true_iff in W1'. destruct W1' as [WN DO].
    unfold branch_ok in Hb. simpl in Hb. destruct (Hb WN) as (N1 & N2 & N3).
    change (map dec_branch ((role, TNode n') :: bs)) with ((role, TNode (dec_node n')) :: map dec_branch bs).
    split.
    { rewrite wf_bs_cons, I1. unfold wf_branch. rewrite NS, RT, N1, DO. reflexivity. }
    rewrite !entries_bs_node. simpl map. rewrite !map_app, !map_fst_add_pop_last, node_var_dec.
    split.
    { constructor; [left; reflexivity|]. apply Forall2_app; assumption. }
    rewrite inst_srcs_cons.
    rewrite deinvert_not_instance; [|rewrite RN; exact NI|].
    2:{ intros H. rewrite H in DO. exact DO. }
    rewrite inst_srcs_app. rewrite N3. etransitivity; [apply f_equal; exact I3|reflexivity].
Qed.

Lemma dec_node_noslash : forall m vars v bs, wf_bs m vars v false bs = true ->
  dec_node (Node v bs) = Node v (map dec_branch bs).
Proof.
  intros m vars v bs W'. rewrite dec_node_eq.
  destruct bs as [|[r [a|n']] bs']; try reflexivity.
  rewrite wf_bs_cons in W'. apply andb_true_iff in W'. destruct W' as [W1 _].
  rewrite (wf_branch_false_noslash _ _ _ _ _ W1). reflexivity.
Qed.

Theorem dec_layout_all : forall m vars n, DecL m vars n.
Proof.
  intros m vars. induction n as [v bs IHbs] using node_ind'. intros W.
  rewrite wf_node_eq in W. apply andb_true_iff in W. destruct W as [VO W].
  assert (TV : forall l, tree_vars (Node v l) = v :: bs_vars l).
  { intros l. rewrite tree_vars_eq. destruct v as [|[|c s]|]; try discriminate. reflexivity. }
  destruct (wf_bs_true_cases m vars v bs W) as [[a [bs' [EB [AT [CO W']]]]]|W'].
  - subst bs. inversion IHbs as [|? ? _ IHbs']; subst. rewrite dec_node_eq.
    destruct (dec_bs_layout m vars v bs' IHbs' W') as (D1 & D2 & D3).
    replace (str_eqb SLASHS SLASHS) with true by reflexivity. rewrite andb_true_l.
    assert (HD : atom_triple m vars v (role_name SLASHS) (atom_name a) = (v, INSTANCE, atom_name a)).
    { unfold atom_triple. change (role_name SLASHS) with INSTANCE.
      rewrite instance_not_inverted. reflexivity. }
    assert (E0 : map fst (entries m vars (Node v ((SLASHS, TAtom a) :: bs'))) =
                 (v, INSTANCE, atom_name a) :: map fst (entries_bs m vars v bs')).
    { rewrite entries_eq, has_concept_cons. change (role_name (fst (SLASHS, TAtom a))) with INSTANCE.
      replace (str_eqb INSTANCE INSTANCE) with true by reflexivity. simpl orb. cbv iota.
      rewrite entries_bs_atom. simpl map. rewrite HD. reflexivity. }
    assert (S0 : inst_srcs (map fst (entries m vars (Node v ((SLASHS, TAtom a) :: bs')))) =
                 tree_vars (Node v ((SLASHS, TAtom a) :: bs'))).
    { rewrite E0, TV, inst_srcs_cons. change (is_instance (v, INSTANCE, atom_name a)) with true.
      cbv iota. rewrite D3. reflexivity. }
    destruct (missing_concept a) eqn:MA.
    + split; [rewrite wf_node_eq, VO; apply wf_bs_false_true; exact D1|].
      split; [|exact S0].
      rewrite E0, entries_eq, has_concept_dec, (wf_bs_no_concept _ _ _ _ W'). simpl map.
      constructor; [|exact D2]. right. repeat split; reflexivity.
    + change (map dec_branch ((SLASHS, TAtom a) :: bs')) with ((SLASHS, TAtom a) :: map dec_branch bs').
      split.
      { rewrite wf_node_eq, VO. rewrite wf_bs_cons, D1.
        unfold wf_branch. replace (str_eqb SLASHS SLASHS) with true by reflexivity.
        rewrite AT, CO. reflexivity. }
      split; [|exact S0].
      rewrite E0, entries_eq, has_concept_cons. change (role_name (fst (SLASHS, TAtom a))) with INSTANCE.
      replace (str_eqb INSTANCE INSTANCE) with true by reflexivity. simpl orb. cbv iota.
      rewrite entries_bs_atom. simpl map. rewrite HD.
      constructor; [left; reflexivity|exact D2].
  - destruct (dec_bs_layout m vars v bs IHbs W') as (D1 & D2 & D3).
    rewrite (dec_node_noslash m vars v bs W').
    split; [rewrite wf_node_eq, VO; apply wf_bs_false_true; exact D1|].
    rewrite !entries_eq, has_concept_dec, (wf_bs_no_concept _ _ _ _ W'). simpl map.
    split; [constructor; [left; reflexivity|exact D2]|].
    rewrite TV, inst_srcs_cons. change (is_instance (v, INSTANCE, ANone)) with true.
    cbv iota. rewrite D3. reflexivity.
Qed.

Lemma mem_exists : forall {A} (eqb : A -> A -> bool) y l,
  mem eqb y l = true <-> exists y', In y' l /\ eqb y y' = true.
Proof. intros. unfold mem. apply existsb_exists. Qed.

Lemma Forall2_in_right : forall {A B} (R : A -> B -> Prop) l l' y,
  Forall2 R l l' -> In y l' -> exists x, In x l /\ R x y.
Proof.
  intros A B R l l' y F. induction F as [|a b l l' Rab F IH]; intros I; [contradiction|].
  destruct I as [<-|I].
  - exists a. split; [left; reflexivity|exact Rab].
  - destruct (IH I) as (x & Ix & Rx). exists x. split; [right; exact Ix|exact Rx].
Qed.

Lemma triple_eqb_parts' : forall a b, triple_eqb a b = true ->
  atom_eqb (tsrc a) (tsrc b) = true /\ trole a = trole b /\ atom_eqb (ttgt a) (ttgt b) = true.
Proof.
  intros a b H. unfold triple_eqb in H. apply andb_true_iff in H. destruct H as [H H3].
  apply andb_true_iff in H. destruct H as [H1 H2]. apply str_eqb_eq in H2. auto.
Qed.

Lemma nodup_transfer : forall l l', Forall2 Rinst l l' ->
  nodup_b triple_eqb l = true -> nodup_b atom_eqb (inst_srcs l) = true ->
  nodup_b triple_eqb l' = true.
Proof.
  intros l l' F. induction F as [|x y l l' Rxy F IH]; intros N S; [reflexivity|].
  simpl in N. apply andb_true_iff in N. destruct N as [N1 N2].
  assert (S2 : nodup_b atom_eqb (inst_srcs l) = true).
  { rewrite inst_srcs_cons in S. destruct (is_instance x); [|exact S].
    simpl in S. apply andb_true_iff in S. tauto. }
  simpl. rewrite (IH N2 S2), andb_true_r. apply negb_true_iff.
  destruct (mem triple_eqb y l') eqn:M; [exfalso|reflexivity].
  apply mem_exists in M. destruct M as (y' & Iy' & Eyy').
  destruct (Forall2_in_right _ _ _ _ F Iy') as (x' & Ix' & Rx').
  destruct (triple_eqb_parts' _ _ Eyy') as (E1 & E2 & E3).
  assert (K : is_instance x = true -> is_instance x' = true ->
              atom_eqb (tsrc x) (tsrc x') = true -> False).
  { intros Hx Hx' E. rewrite inst_srcs_cons, Hx in S. simpl in S.
    apply andb_true_iff in S. destruct S as [S _]. apply negb_true_iff in S.
    assert (T : mem atom_eqb (tsrc x) (inst_srcs l) = true); [|congruence].
    apply mem_exists. exists (tsrc x'). split; [|exact E].
    unfold inst_srcs. apply in_map. apply filter_In. split; assumption. }
  destruct Rxy as [->|(Hx & Hy & Sy)]; destruct Rx' as [->|(Hx' & Hy' & Sy')].
  - apply negb_true_iff in N1.
    assert (T : mem triple_eqb x l = true); [|congruence].
    apply mem_exists. exists x'. split; assumption.
  - apply K; [|exact Hx'|rewrite <- Sy'; exact E1].
    unfold is_instance in *. rewrite E2. exact Hy'.
  - apply K; [exact Hx| |rewrite <- Sy; exact E1].
    unfold is_instance in *. rewrite <- E2. exact Hy.
  - apply K; [exact Hx|exact Hx'|rewrite <- Sy, <- Sy'; exact E1].
Qed.

Lemma dec_wf_layout : forall m t, WfLayout.wf_layout_tree m t = true ->
  WfLayout.wf_layout_tree m (drop_empty_concepts t) = true.
Proof.
  intros m t H. unfold WfLayout.wf_layout_tree in *. unfold denoted in *.
  change (troot (drop_empty_concepts t)) with (dec_node (troot t)).
  rewrite tree_vars_dec.
  apply andb_true_iff in H. destruct H as [H H3]. apply andb_true_iff in H. destruct H as [H1 H2].
  destruct (dec_layout_all m (tree_vars (troot t)) (troot t) H2) as (D1 & D2 & D3).
  rewrite H1, D1. simpl.
  eapply nodup_transfer; [exact D2|exact H3|]. rewrite D3. exact H1.
Qed.

(* the normal form is again well formed (C01 and C02), and normalising is idempotent *)
Theorem e2e_c02_normal_form_wf : forall m s t,
  parse s = Ok t -> WfLayout.wf_layout_tree m t = true ->
  WellFormed.wf_tree (drop_empty_concepts t) = true /\
  WfLayout.wf_layout_tree m (drop_empty_concepts t) = true /\
  drop_empty_concepts (drop_empty_concepts t) = drop_empty_concepts t.
Proof.
  intros m s t P W. pose proof (parse_wf s t P) as WT.
  split; [exact (dec_wf_tree t WT)|]. split; [exact (dec_wf_layout m t W)|exact (dec_idem_tree t WT)].
Qed.

(* encode (decode s) is a fixed point: decoding it again and encoding gives the same text *)
Theorem e2e_c02_text_fixpoint : forall m i c s t,
  parse s = Ok t -> WfLayout.wf_layout_tree m t = true ->
  let s' := format i c (drop_empty_concepts t) in
  exists g', decode m s' = Ok g' /\ encode m i c g' = Ok s'.
Proof.
  intros m i c s t P W s'.
  pose proof (parse_wf s t P) as WT.
  pose proof (dec_wf_tree t WT) as WT'.
  pose proof (parse_format_roundtrip (drop_empty_concepts t) i c WT') as P'.
  destruct (e2e_c02_encode_decode m i c s' _ P' (dec_wf_layout m t W)) as (g' & D & E).
  exists g'. split; [exact D|]. rewrite E. rewrite (dec_idem_tree t WT). reflexivity.
Qed.


(* ------------------------------------------------------------------ *)
(** * Part 3 (C06): the layout error, exactly when the graph is not connected *)

(* every variable of a well-formed graph is the source of a triple (its instance triple) *)
Lemma wf_var_is_source : forall m g v, wf_graph m g -> is_var g v = true ->
  exists x, In x (triples g) /\ is_instance x = true /\ atom_eqb (tsrc x) v = true.
Proof.
  intros m g v W Hv. pose proof (wf_one_instance m g W v Hv) as L.
  unfold instances_of in L.
  destruct (filter (fun t => is_instance t && atom_eqb (tsrc t) v) (triples g)) as [|x l] eqn:F;
    [discriminate|].
  assert (I : In x (filter (fun t => is_instance t && atom_eqb (tsrc t) v) (triples g)))
    by (rewrite F; left; reflexivity).
  apply filter_In in I. destruct I as [I1 I2]. apply andb_true_iff in I2.
  exists x. tauto.
Qed.

Lemma sources_reach_connected : forall m g tp, wf_graph m g -> is_var g tp = true ->
  (forall x, In x (triples g) -> reach g tp (tsrc x)) -> connected g tp.
Proof.
  intros m g tp W Vt H. split; [exact Vt|]. intros v Hv.
  destruct (wf_var_is_source m g v W Hv) as (x & Ix & _ & Ex).
  eapply reach_cong_r; [apply H; exact Ix|exact Ex].
Qed.

(* ---- reachability is decidable: [saturate] computes the component of [a] ---- *)
Section ReachDec.
  Variable g : graph.

  Lemma mem_iff : forall a l, mem atom_eqb a l = true <-> exists x, In x l /\ atom_eqb a x = true.
  Proof. intros. unfold mem. apply existsb_exists. Qed.

  Lemma linkb_iff : forall a b, linkb g a b = true <-> link g a b.
  Proof.
    intros a b. unfold linkb, link. rewrite existsb_exists. split.
    - intros (t & It & H). exists t. split; [exact It|].
      apply andb_true_iff in H. destruct H as [H H3]. apply andb_true_iff in H. destruct H as [H1 H2].
      apply negb_true_iff in H1. split; [exact H1|]. split; [exact H2|].
      apply orb_true_iff in H3. destruct H3 as [H3|H3]; apply andb_true_iff in H3; tauto.
    - intros (t & It & H1 & H2 & H3). exists t. split; [exact It|].
      rewrite H1, H2. simpl. apply orb_true_iff.
      destruct H3 as [[A B]|[A B]]; [left|right]; rewrite A, B; reflexivity.
  Qed.

  Lemma link_cong : forall a b a' b', link g a b -> atom_eqb a a' = true -> atom_eqb b b' = true ->
    link g a' b'.
  Proof.
    intros a b a' b' (t & It & H1 & H2 & H3) Ea Eb. exists t. split; [exact It|]. split; [exact H1|].
    split; [exact H2|].
    destruct H3 as [[A B]|[A B]]; [left|right]; split; eapply atom_eqb_trans; eassumption.
  Qed.

  Lemma link_var_r : forall a b, link g a b -> is_var g b = true.
  Proof.
    intros a b (t & It & _ & H2 & H3). destruct H3 as [[_ B]|[A _]].
    - rewrite <- (is_var_cong g _ _ B). exact H2.
    - rewrite <- (is_var_cong g _ _ A). apply src_is_var. exact It.
  Qed.

  Definition fresh (seen : list atom) : list atom :=
    filter (fun v => negb (mem atom_eqb v seen) && existsb (fun s => linkb g s v) seen) (variables g).
  Definition unseen (seen : list atom) : list atom :=
    filter (fun v => negb (mem atom_eqb v seen)) (variables g).

  Lemma grow_eq : forall seen, grow g seen = seen ++ fresh seen.
  Proof. reflexivity. Qed.

  Lemma filter_length_le : forall {A} (p : A -> bool) l, length (filter p l) <= length l.
  Proof. intros A p. induction l as [|x l IH]; simpl; [lia|]. destruct (p x); simpl; lia. Qed.

  Lemma filter_length_lt : forall {A} (p q : A -> bool) l,
    (forall x, q x = true -> p x = true) ->
    (exists x, In x l /\ p x = true /\ q x = false) ->
    length (filter q l) < length (filter p l).
  Proof.
    intros A p q. induction l as [|y l IH]; intros Hpq (x & Ix & Px & Qx); [contradiction|].
    assert (Le : length (filter q l) <= length (filter p l)).
    { clear - Hpq. induction l as [|z l IH]; simpl; [lia|].
      destruct (q z) eqn:Qz; [rewrite (Hpq z Qz); simpl; lia|]. destruct (p z); simpl; lia. }
    simpl. destruct Ix as [<-|Ix].
    - rewrite Px, Qx. simpl. lia.
    - assert (Lt : length (filter q l) < length (filter p l)) by (apply IH; [exact Hpq|eauto]).
      destruct (q y) eqn:Qy; [rewrite (Hpq y Qy); simpl; lia|]. destruct (p y); simpl; lia.
  Qed.

  Lemma mem_app_l : forall a l1 l2, mem atom_eqb a l1 = true -> mem atom_eqb a (l1 ++ l2) = true.
  Proof. intros a l1 l2 H. unfold mem in *. rewrite existsb_app, H. reflexivity. Qed.

  (* every variable linked to a seen one is seen *)
  Definition closed (S : list atom) : Prop :=
    forall v, In v (variables g) -> existsb (fun s => linkb g s v) S = true -> mem atom_eqb v S = true.

  Lemma fresh_nil_closed : forall seen, fresh seen = [] -> closed seen.
  Proof.
    intros seen F v Iv L. destruct (mem atom_eqb v seen) eqn:M; [reflexivity|exfalso].
    assert (I : In v (fresh seen)) by (apply filter_In; rewrite M, L; auto).
    rewrite F in I. contradiction.
  Qed.

  Lemma saturate_fix : forall k seen, fresh seen = [] -> saturate k g seen = seen.
  Proof.
    induction k as [|k IH]; intros seen F; [reflexivity|].
    simpl. rewrite grow_eq, F, app_nil_r. apply IH. exact F.
  Qed.

  Lemma saturate_closed : forall k seen, length (unseen seen) <= k -> closed (saturate k g seen).
  Proof.
    induction k as [|k IH]; intros seen L.
    - simpl. intros v Iv _. destruct (mem atom_eqb v seen) eqn:M; [reflexivity|exfalso].
      assert (I : In v (unseen seen)) by (apply filter_In; rewrite M; auto).
      destruct (unseen seen); [contradiction|simpl in L; lia].
    - simpl. destruct (fresh seen) as [|x fr] eqn:F.
      + rewrite grow_eq, F, app_nil_r, (saturate_fix k seen F). apply fresh_nil_closed. exact F.
      + apply IH. rewrite grow_eq.
        assert (Lt : length (unseen (seen ++ fresh seen)) < length (unseen seen)); [|lia].
        apply filter_length_lt.
        * intros v Hv. apply negb_true_iff in Hv. apply negb_true_iff.
          destruct (mem atom_eqb v seen) eqn:M; [|reflexivity].
          rewrite (mem_app_l _ _ _ M) in Hv. discriminate.
        * assert (Ix : In x (fresh seen)) by (rewrite F; left; reflexivity).
          exists x. unfold fresh in Ix. apply filter_In in Ix. destruct Ix as [Iv Hx].
          apply andb_true_iff in Hx. destruct Hx as [Hx _].
          split; [exact Iv|]. split; [exact Hx|]. apply negb_false_iff.
          unfold mem. rewrite existsb_app. apply orb_true_iff. right.
          apply existsb_exists. exists x. split; [rewrite F; left; reflexivity|apply atom_eqb_refl].
  Qed.

  Lemma saturate_incl : forall k seen a, mem atom_eqb a seen = true -> mem atom_eqb a (saturate k g seen) = true.
  Proof.
    induction k as [|k IH]; intros seen a M; [exact M|]. simpl. apply IH. rewrite grow_eq. apply mem_app_l. exact M.
  Qed.

  Lemma saturate_sound : forall a k seen, (forall s, In s seen -> reach g a s) ->
    forall s, In s (saturate k g seen) -> reach g a s.
  Proof.
    intros a. induction k as [|k IH]; intros seen H s Is; [apply H; exact Is|].
    simpl in Is. apply (IH (grow g seen)); [|exact Is].
    intros v Iv. rewrite grow_eq in Iv. apply in_app_or in Iv. destruct Iv as [Iv|Iv]; [apply H; exact Iv|].
    unfold fresh in Iv. apply filter_In in Iv. destruct Iv as [_ Hv].
    apply andb_true_iff in Hv. destruct Hv as [_ Hv]. apply existsb_exists in Hv.
    destruct Hv as (s0 & Is0 & L). apply linkb_iff in L.
    eapply reach_step; [apply H; exact Is0|exact L].
  Qed.

  Definition component (a : atom) : list atom := saturate (length (variables g)) g [a].

  Theorem reach_decided : forall a b, reach g a b <-> mem atom_eqb b (component a) = true.
  Proof.
    intros a b. unfold component. split.
    - intros R.
      assert (Cl : closed (saturate (length (variables g)) g [a])).
      { apply saturate_closed. apply filter_length_le. }
      induction R as [b E|b c R IH L].
      + rewrite <- (mem_cong _ _ _ E). apply saturate_incl. simpl. rewrite atom_eqb_refl. reflexivity.
      + pose proof (link_var_r _ _ L) as Vc.
        destruct (is_var_exists _ _ Vc) as (c' & Ic' & Ec).
        rewrite (mem_cong _ _ _ Ec). apply Cl; [exact Ic'|].
        apply mem_iff in IH. destruct IH as (b' & Ib' & Eb).
        apply existsb_exists. exists b'. split; [exact Ib'|]. apply linkb_iff.
        eapply link_cong; eassumption.
    - intros M. apply mem_iff in M. destruct M as (s & Is & E).
      apply (reach_cong_r g a s b); [|rewrite atom_eqb_sym; exact E].
      eapply saturate_sound; [|exact Is]. intros s0 [<-|[]]. apply reach_refl. apply atom_eqb_refl.
  Qed.

  Lemma not_all_exists : forall a (l : list triple),
    ~ (forall x, In x l -> reach g a (tsrc x)) -> exists x, In x l /\ ~ reach g a (tsrc x).
  Proof.
    intros a. induction l as [|y l IH]; intros H.
    - exfalso. apply H. intros x [].
    - destruct (mem atom_eqb (tsrc y) (component a)) eqn:M.
      + destruct IH as (x & Ix & Nx).
        * intros A. apply H. intros x [<-|Ix]; [apply reach_decided; exact M|apply A; exact Ix].
        * exists x. split; [right; exact Ix|exact Nx].
      + exists y. split; [left; reflexivity|]. intros R. apply reach_decided in R. congruence.
  Qed.
End ReachDec.

(* the error, exactly when the requested top is not a variable or some triple
   hangs on a variable that is not connected to it *)
Theorem e2e_c06_error_iff_notall : forall m g top tp,
  wf_graph m g -> pushes_name_variables g -> requested_top g top = Some tp ->
  ((exists k, configure m g top = LayoutErr k) <->
   (is_var g tp = false \/ ~ (forall x, In x (triples g) -> reach g tp (tsrc x)))).
Proof.
  intros m g top tp W PN RT.
  pose proof (wf_nonempty m g W) as NE. pose proof (wf_named m g W) as VN.
  pose proof (wf_roles m g W) as RC. pose proof (wf_invertible m g W) as RI.
  split.
  - intros [k E]. destruct (is_var g tp) eqn:Vt; [right|left; reflexivity].
    intros H.
    destruct (configure_complete m g top tp RT (sources_reach_connected m g tp W Vt H) VN RI RC PN)
      as [t Et].
    rewrite Et in E. discriminate.
  - intros [Vt|H].
    + exists 4%N. eapply bad_top_is_layout_error; eassumption.
    + destruct (configure_only_layout_error m g top) as [[t E]|[E|[E|[E|E]]]]; eauto.
      exfalso. apply H. intros x Ix.
      eapply configure_success_implies_connected; eassumption.
Qed.

Theorem e2e_c06_error_iff : forall m g top tp,
  wf_graph m g -> pushes_name_variables g -> requested_top g top = Some tp ->
  ((exists k, configure m g top = LayoutErr k) <->
   (is_var g tp = false \/ exists x, In x (triples g) /\ ~ reach g tp (tsrc x))).
Proof.
  intros m g top tp W PN RT. rewrite (e2e_c06_error_iff_notall m g top tp W PN RT).
  split; (intros [H|H]; [left; exact H|right]).
  - apply not_all_exists. exact H.
  - destruct H as (x & Ix & Nx). intros A. apply Nx, A, Ix.
Qed.

(* the same for the text encoder: format is total, so encode fails exactly when configure does *)
Lemma encode_top_error_iff : forall m i c g top k,
  encode_top m i c g top = LayoutErr k <-> configure m g top = LayoutErr k.
Proof.
  intros. unfold encode_top. destruct (configure m g top); simpl; split; intro H; try discriminate;
    inversion H; reflexivity.
Qed.

Theorem e2e_c06_encode_error_iff : forall m i c g top tp,
  wf_graph m g -> pushes_name_variables g -> requested_top g top = Some tp ->
  ((exists k, encode_top m i c g top = LayoutErr k) <->
   (is_var g tp = false \/ exists x, In x (triples g) /\ ~ reach g tp (tsrc x))).
Proof.
  intros m i c g top tp W PN RT.
  rewrite <- (e2e_c06_error_iff m g top tp W PN RT).
  split; intros [k E]; exists k; apply (encode_top_error_iff m i c g top k); exact E.
Qed.

(* and encode raises nothing else *)
Theorem e2e_c06_encode_outcomes : forall m i c g top,
  (exists s, encode_top m i c g top = Ok s) \/ (exists k, encode_top m i c g top = LayoutErr k).
Proof.
  intros m i c g top. unfold encode_top.
  destruct (configure_only_layout_error m g top) as [[t E]|[E|[E|[E|E]]]]; rewrite E; simpl; eauto.
Qed.

(* ------------------------------------------------------------------ *)
(** * Part 2 (C03): lexable atoms *)

(* a STRING lexeme: starts and ends with a dquote, is accepted entirely by the
   STRING scanner, holds no LF / CR *)
Definition lex_string (s : str) : bool :=
  complete_string s && no_lfcr s &&
  match m_string s with Some (w, []) => str_eqb w s | _ => false end.
(* a constant text: a Symbol (name characters, hence no tilde) or a String *)
Definition lex_text (s : str) : bool := wf_symbol s || lex_string s.
Definition lex_var (a : atom) : bool := match a with AStr s => wf_symbol s | _ => false end.
(* a role: colon and name characters (hence no tilde) *)
Definition lex_role (r : str) : bool :=
  match r with c :: r' => eqc c 58 && forallb is_name r' | [] => false end.
(* a target: None, a constant text, or a number whose text is a Symbol that is
   not also the name of a variable of the graph *)
Definition lex_target (g : graph) (a : atom) : bool :=
  match a with
  | ANone => true
  | AStr s => lex_text s
  | ANum t _ => wf_symbol t && negb (is_var g (AStr t))
  end.
Definition atoms_lexable (g : graph) : bool :=
  forallb (fun t => lex_var (tsrc t) && lex_role (trole t) && lex_target g (ttgt t)) (triples g).

(* what the text round trip does to a number: it comes back as its text *)
Definition strfy_atom (a : atom) : atom := match a with ANum t _ => AStr t | _ => a end.
Definition strfy_triple (t : triple) : triple := (strfy_atom (tsrc t), trole t, strfy_atom (ttgt t)).
Definition textual (g : graph) : graph :=
  mkGraph (map strfy_triple (triples g)) (gtop g) (epidata g) (gmeta g).

Lemma is_name_chars : forall c, is_name c = true ->
  eqc c 34 = false /\ eqc c 47 = false /\ eqc c 58 = false /\ eqc c 126 = false.
Proof.
  intros c H. unfold is_name, isin in H. simpl in H. apply negb_true_iff in H.
  repeat (apply orb_false_iff in H; destruct H as [? H]). auto.
Qed.

Lemma span_all : forall p s, forallb p s = true -> span p s = (s, []).
Proof.
  intros p. induction s as [|c s IH]; intros H; [reflexivity|].
  simpl in H. apply andb_true_iff in H. destruct H as [H1 H2].
  simpl. rewrite H1, (IH H2). reflexivity.
Qed.

Lemma names_no_tilde : forall s, forallb is_name s = true ->
  forallb (fun c => negb (eqc c 126)) s = true /\ contains_char TILDE s = false.
Proof.
  induction s as [|c s IH]; intros H; [split; reflexivity|].
  simpl in H. apply andb_true_iff in H. destruct H as [H1 H2].
  destruct (IH H2) as [I1 I2]. destruct (is_name_chars c H1) as (_ & _ & _ & T).
  split.
  - simpl. rewrite T, I1. reflexivity.
  - rewrite contains_cons, I2, orb_false_r. rewrite eqc_sym. exact T.
Qed.

Lemma symbol_atom_text : forall s, wf_symbol s = true -> wf_atom_text s = true.
Proof.
  intros s H. unfold wf_atom_text.
  destruct s as [|c s]; [discriminate|].
  assert (H' := H). unfold wf_symbol in H'. apply andb_true_iff in H'. destruct H' as [_ N].
  assert (N' := N). simpl in N'. apply andb_true_iff in N'. destruct N' as [Nc _].
  destruct (is_name_chars c Nc) as (Q & _).
  unfold m_string. rewrite Q.
  unfold split_tilde. rewrite (span_all _ _ (proj1 (names_no_tilde _ N))).
  rewrite H. reflexivity.
Qed.

Lemma symbol_process : forall s, wf_symbol s = true -> process_atomic (AStr s) = Ok (AStr s, []).
Proof.
  intros s H. unfold process_atomic.
  destruct s as [|c s]; [discriminate|].
  unfold wf_symbol in H. apply andb_true_iff in H. destruct H as [_ N].
  rewrite (proj2 (names_no_tilde _ N)). reflexivity.
Qed.

Lemma string_atom_text : forall s, lex_string s = true -> wf_atom_text s = true.
Proof.
  intros s H. unfold lex_string in H. apply andb_true_iff in H. destruct H as [H H3].
  apply andb_true_iff in H. destruct H as [_ H2].
  unfold wf_atom_text. destruct (m_string s) as [[w [|x a]]|]; try discriminate.
  apply str_eqb_eq in H3. subst w. rewrite H2. reflexivity.
Qed.

Lemma string_process : forall s, lex_string s = true -> process_atomic (AStr s) = Ok (AStr s, []).
Proof.
  intros s H. unfold lex_string in H. apply andb_true_iff in H. destruct H as [H _].
  apply andb_true_iff in H. destruct H as [H _]. apply process_string_lexeme. exact H.
Qed.

Lemma text_atom_text : forall s, lex_text s = true -> wf_atom_text s = true.
Proof.
  intros s H. unfold lex_text in H. apply orb_true_iff in H.
  destruct H; [apply symbol_atom_text|apply string_atom_text]; assumption.
Qed.
Lemma text_process : forall s, lex_text s = true -> process_atomic (AStr s) = Ok (AStr s, []).
Proof.
  intros s H. unfold lex_text in H. apply orb_true_iff in H.
  destruct H; [apply symbol_process|apply string_process]; assumption.
Qed.

Lemma lex_role_facts : forall r, lex_role r = true ->
  wf_role r = true /\ process_role r = Ok (r, []) /\ str_eqb r SLASHS = false /\
  startswith r [COLON] = true.
Proof.
  intros [|c r'] H; [discriminate|]. simpl in H. apply andb_true_iff in H. destruct H as [C N].
  apply eqc_eq in C. subst c. destruct (names_no_tilde _ N) as [N1 N2].
  split; [|split; [|split; [reflexivity|apply colon_iff; eexists; reflexivity]]].
  - unfold wf_role. unfold split_tilde. rewrite (span_all _ _ N1), N. reflexivity.
  - unfold process_role. replace (str_eqb (58%N :: r') SLASHS) with false by reflexivity.
    rewrite contains_cons, N2. reflexivity.
Qed.

Lemma lex_role_invert : forall m r, lex_role r = true -> lex_role (invert_role m r) = true.
Proof.
  intros m r H. unfold invert_role. destruct (is_role_inverted m r) eqn:I.
  - apply inverted_iff in I. destruct I as [_ [b E]]. subst r. rewrite drop_last_OF.
    destruct b as [|c b]; [discriminate|].
    simpl in H. simpl. apply andb_true_iff in H. destruct H as [C N]. rewrite C.
    rewrite forallb_app in N. apply andb_true_iff in N. tauto.
  - destruct r as [|c r']; [discriminate|]. simpl in H. simpl.
    apply andb_true_iff in H. destruct H as [C N]. rewrite C, forallb_app, N. reflexivity.
Qed.

(* ------------------------------------------------------------------ *)
(** * The shape of the store [configure] builds: the concept edge comes first
      and is atomic, node variables are variables of the graph, and the source
      of every instance triple owns a node *)

Definition is_slash_edge (e : cedge) : bool := str_eqb (fst (fst e)) SLASHS.
Definition is_ca (e : cedge) : bool := match snd (fst e) with CA _ => true | CN _ => false end.
Definition noslash (es : list cedge) : bool := forallb (fun e => negb (is_slash_edge e)) es.
Fixpoint slash_shape (es : list cedge) : bool :=
  match es with
  | [] => true
  | e :: es' => if is_slash_edge e then is_ca e && slash_shape es' else noslash es'
  end.

Lemma noslash_end : forall es e, noslash es = true -> is_slash_edge e = false -> noslash (es ++ [e]) = true.
Proof.
  intros es e H He. unfold noslash in *. rewrite forallb_app, H. simpl. rewrite He. reflexivity.
Qed.

Lemma shape_end : forall es e, slash_shape es = true -> is_slash_edge e = false ->
  slash_shape (es ++ [e]) = true.
Proof.
  induction es as [|x es IH]; intros e H He.
  - simpl. rewrite He. reflexivity.
  - simpl in *. destruct (is_slash_edge x).
    + apply andb_true_iff in H. destruct H as [H1 H2]. rewrite H1, (IH e H2 He). reflexivity.
    + apply noslash_end; assumption.
Qed.

Lemma noslash_replace : forall v nid es, noslash (replace_first v nid es) = noslash es.
Proof.
  intros v nid. induction es as [|[[r t] ep] es IH]; [reflexivity|].
  destruct t as [a|i]; simpl.
  - destruct (atom_eqb a v && negb (str_eqb r SLASHS)).
    + reflexivity.
    + unfold noslash in *. simpl. rewrite IH. reflexivity.
  - unfold noslash in *. simpl. rewrite IH. reflexivity.
Qed.

Lemma shape_replace : forall v nid es, slash_shape es = true ->
  slash_shape (replace_first v nid es) = true.
Proof.
  intros v nid. induction es as [|[[r t] ep] es IH]; intros H; [reflexivity|].
  destruct t as [a|i]; cbn [replace_first].
  - destruct (atom_eqb a v && negb (str_eqb r SLASHS)) eqn:C.
    + apply andb_true_iff in C. destruct C as [_ C]. apply negb_true_iff in C.
      cbn [slash_shape] in *.
      change (is_slash_edge (r, CN nid, ep)) with (str_eqb r SLASHS).
      change (is_slash_edge (r, CA a, ep)) with (str_eqb r SLASHS) in H.
      rewrite C in *. exact H.
    + cbn [slash_shape] in *. destruct (is_slash_edge (r, CA a, ep)).
      * apply andb_true_iff in H. destruct H as [H1 H2]. rewrite H1, (IH H2). reflexivity.
      * rewrite noslash_replace. exact H.
  - cbn [slash_shape] in *. destruct (is_slash_edge (r, CN i, ep)).
    + apply andb_true_iff in H. destruct H as [H1 _]. discriminate.
    + rewrite noslash_replace. exact H.
Qed.

Definition owns (st : store) (v : atom) : Prop :=
  exists i w es, nth_error st i = Some (w, es) /\ atom_eqb v w = true.

Lemma owns_ext : forall st st' v, ext st st' -> owns st v -> owns st' v.
Proof.
  intros st st' v X (i & w & es & G & E).
  destruct (ext_nth _ _ _ _ _ X G) as [es' G']. exists i, w, es'. auto.
Qed.

Lemma In_upd : forall {A} (l : list A) n f x, In x (upd n f l) ->
  In x l \/ exists y, In y l /\ x = f y.
Proof.
  induction l as [|a l IH]; intros [|n] f x H; simpl in H; try contradiction.
  - destruct H as [<-|H]; [right; exists a; split; [left|]; reflexivity|left; right; exact H].
  - destruct H as [<-|H]; [left; left; reflexivity|].
    destruct (IH n f x H) as [I|(y & Iy & E)]; [left; right; exact I|].
    right. exists y. split; [right; exact Iy|exact E].
Qed.

Lemma ext_upd : forall (st : store) id f, (forall ve, fst (f ve) = fst ve) -> ext st (upd id f st).
Proof. intros st id f H. exists []. rewrite app_nil_r. apply map_fst_upd. exact H. Qed.

Lemma ext_snoc : forall (st : store) v, ext st (st ++ [(v, [])]).
Proof. intros st v. exists [v]. rewrite map_app. reflexivity. Qed.

Section Trace.
  Variable m : model.
  Variable g : graph.

  Definition Vars (st : store) : Prop := forall w es, In (w, es) st -> is_var g w = true.
  Definition Shape (st : store) : Prop := forall w es, In (w, es) st -> slash_shape es = true.

  Lemma Vars_upd : forall st id f, Vars st -> (forall ve, fst (f ve) = fst ve) -> Vars (upd id f st).
  Proof.
    intros st id f V Hf w es I. destruct (In_upd _ _ _ _ I) as [I'|([w' es'] & Iy & E)].
    - eapply V; exact I'.
    - specialize (Hf (w', es')). rewrite <- E in Hf. simpl in Hf. subst w'. eapply V; exact Iy.
  Qed.

  Lemma Shape_upd : forall st id f, Shape st ->
    (forall ve, slash_shape (snd ve) = true -> slash_shape (snd (f ve)) = true) -> Shape (upd id f st).
  Proof.
    intros st id f S Hf w es I. destruct (In_upd _ _ _ _ I) as [I'|([w' es'] & Iy & E)].
    - eapply S; exact I'.
    - specialize (Hf (w', es') (S _ _ Iy)). rewrite <- E in Hf. exact Hf.
  Qed.

  Lemma Vars_snoc : forall st v, Vars st -> is_var g v = true -> Vars (st ++ [(v, [])]).
  Proof.
    intros st v V Hv w es I. apply in_app_or in I. destruct I as [I|[I|[]]].
    - eapply V; exact I.
    - inversion I; subst. exact Hv.
  Qed.

  Lemma Shape_snoc : forall st v, Shape st -> Shape (st ++ [(v, [])]).
  Proof.
    intros st v S w es I. apply in_app_or in I. destruct I as [I|[I|[]]].
    - eapply S; exact I.
    - inversion I; subst. reflexivity.
  Qed.

  Lemma front_ok : forall st id a ep, Vars st -> Shape st ->
    Vars (add_edge_front id (SLASHS, CA a, ep) st) /\ Shape (add_edge_front id (SLASHS, CA a, ep) st) /\
    ext st (add_edge_front id (SLASHS, CA a, ep) st).
  Proof.
    intros st id a ep V S. unfold add_edge_front. split; [|split].
    - apply Vars_upd; [exact V|reflexivity].
    - apply Shape_upd; [exact S|]. intros ve H. simpl. exact H.
    - apply ext_upd. reflexivity.
  Qed.

  Lemma end_ok : forall st id r t ep, Vars st -> Shape st -> str_eqb r SLASHS = false ->
    Vars (add_edge_end id (r, t, ep) st) /\ Shape (add_edge_end id (r, t, ep) st) /\
    ext st (add_edge_end id (r, t, ep) st).
  Proof.
    intros st id r t ep V S NS. unfold add_edge_end. split; [|split].
    - apply Vars_upd; [exact V|reflexivity].
    - apply Shape_upd; [exact S|]. intros ve H. simpl. apply shape_end; [exact H|exact NS].
    - apply ext_upd. reflexivity.
  Qed.

  Lemma keysK_dset_var : forall nm k i, keysK g nm -> is_var g k = true ->
    keysK g (dset atom_eqb k i nm).
  Proof.
    intros nm k i KK Hk v Hv. rewrite dmem_dset in Hv. apply orb_true_iff in Hv.
    destruct Hv as [Hv|Hv]; [apply KK; exact Hv|]. rewrite (is_var_cong g _ _ Hv). exact Hk.
  Qed.

  Lemma keysK_ref : forall nm target id, keysK g nm ->
    keysK g (match dget atom_eqb target nm with
             | Some None => dset atom_eqb target (Some id) nm
             | _ => nm
             end).
  Proof.
    intros nm target id KK. destruct (dget atom_eqb target nm) as [[i|]|] eqn:D; try exact KK.
    apply keysK_dset_var; [exact KK|]. apply KK. unfold dmem. rewrite D. reflexivity.
  Qed.

  Lemma cnode_trace : forall f var id surp data st nm s' data' st' nm',
    cnode f m var id surp data st nm = Ok (s', data', st', nm') ->
    Vars st -> Shape st -> keysK g nm -> colon_ok (data_triples data) -> pushN g data ->
    (exists w es, nth_error st id = Some (w, es) /\ atom_eqb var w = true) ->
    Vars st' /\ Shape st' /\ keysK g nm' /\ ext st st' /\
    exists used, data = used ++ data' /\
      forall t, In t (data_triples used) -> is_instance t = true -> owns st' (tsrc t).
  Proof.
    induction f as [|f IH]; intros var id surp data st nm s' data' st' nm' E V S KK C PN N; [discriminate|].
    destruct data as [|d data0].
    { simpl in E. inversion E; subst. repeat (split; [assumption|]). split; [apply ext_refl|].
      exists []. split; [reflexivity|]. intros t []. }
    destruct d as [t push es|].
    2:{ simpl in E. inversion E; subst. repeat (split; [assumption|]). split; [apply ext_refl|].
        exists [DPop]. split; [reflexivity|]. intros t []. }
    simpl in C. apply colon_ok_cons in C. destruct C as [Ct C].
    pose proof (pushN_tail _ _ _ PN) as PN0.
    destruct N as (w & es0 & G & Evw).
    assert (K : forall surp1 st_a nm_a,
      cnode f m var id surp1 data0 st_a nm_a = Ok (s', data', st', nm') ->
      Vars st_a -> Shape st_a -> keysK g nm_a -> ext st st_a ->
      (exists es1, nth_error st_a id = Some (w, es1)) ->
      (is_instance t = true -> atom_eqb (tsrc t) w = true) ->
      Vars st' /\ Shape st' /\ keysK g nm' /\ ext st st' /\
      exists used, DT t push es :: data0 = used ++ data' /\
        forall t0, In t0 (data_triples used) -> is_instance t0 = true -> owns st' (tsrc t0)).
    { intros surp1 st_a nm_a E1 Va Sa Ka Xa [es1 Ga] Hit.
      destruct (IH _ _ _ _ _ _ _ _ _ _ E1 Va Sa Ka C PN0) as (V' & S' & K' & X' & used & Eu & Hu); [eauto|].
      repeat (split; [assumption|]). split; [eapply ext_trans; eassumption|].
      exists (DT t push es :: used). split; [rewrite Eu; reflexivity|].
      intros t0 I0 H0. simpl in I0. destruct I0 as [<-|I0]; [|apply Hu; assumption].
      destruct (ext_nth _ _ _ _ _ X' Ga) as [es2 G2]. exists id, w, es2. split; [exact G2|]. apply Hit. exact H0. }
    cbn [cnode] in E.
    destruct (atom_eqb (tsrc t) var) eqn:Esv.
    - assert (Esw : atom_eqb (tsrc t) w = true) by (eapply atom_eqb_trans; eassumption).
      destruct (str_eqb (trole t) INSTANCE) eqn:Hi.
      + destruct (missing_concept (ttgt t)).
        * eapply K; [exact E|exact V|exact S|exact KK|apply ext_refl|eauto|auto].
        * destruct (front_ok st id (ttgt t) es V S) as (Va & Sa & Xa).
          eapply K; [exact E|exact Va|exact Sa|exact KK|exact Xa| |auto].
          unfold add_edge_front. rewrite (nth_error_upd_same _ _ _ _ G). simpl. eauto.
      + assert (NI : is_instance t = true -> atom_eqb (tsrc t) w = true) by (intros _; exact Esw).
        destruct (push && negb (has_node (ttgt t) st nm)) eqn:Hp.
        * apply andb_true_iff in Hp. destruct Hp as [Hpush _]. subst push.
          destruct (cnode f m (ttgt t) (length st) false data0 (st ++ [(ttgt t, [])])
                      (dset atom_eqb (ttgt t) (Some (length st)) nm))
            as [[[[s2 data2] st2] nm2]| | | | | | | |] eqn:E1; try discriminate.
          assert (Vt : is_var g (ttgt t) = true) by (apply (PN t es); left; reflexivity).
          destruct (IH _ _ _ _ _ _ _ _ _ _ E1 (Vars_snoc _ _ V Vt) (Shape_snoc _ _ S)
                      (keysK_dset_var _ _ _ KK Vt) C PN0)
            as (V2 & S2 & K2 & X2 & used1 & Eu1 & Hu1).
          { exists (ttgt t), []. split; [|apply atom_eqb_refl].
            rewrite nth_error_app2 by lia. rewrite Nat.sub_diag. reflexivity. }
          assert (X02 : ext st st2) by (eapply ext_trans; [apply ext_snoc|exact X2]).
          destruct (ext_nth _ _ _ _ _ X02 G) as [es2 G2].
          destruct (end_ok st2 id (trole t) (CN (length st)) es V2 S2 (colon_not_slash _ Ct)) as (Va & Sa & Xa).
          assert (C2 : colon_ok (data_triples data2)).
          { rewrite Eu1, data_triples_app in C. apply colon_ok_app in C. tauto. }
          assert (PN2 : pushN g data2).
          { rewrite Eu1 in PN0. apply pushN_app in PN0. tauto. }
          destruct (IH _ _ _ _ _ _ _ _ _ _ E Va Sa K2 C2 PN2) as (V' & S' & K' & X' & used2 & Eu2 & Hu2).
          { exists w, (es2 ++ [(trole t, CN (length st), es)]). split; [|exact Evw].
            unfold add_edge_end. rewrite (nth_error_upd_same _ _ _ _ G2). reflexivity. }
          repeat (split; [assumption|]).
          split; [eapply ext_trans; [exact X02|]; eapply ext_trans; eassumption|].
          exists (DT t true es :: used1 ++ used2).
          split; [rewrite Eu1, Eu2; simpl; rewrite <- app_assoc; reflexivity|].
          intros t0 I0 H0. simpl in I0. rewrite data_triples_app in I0.
          destruct I0 as [<-|I0]; [unfold is_instance in H0; congruence|].
          apply in_app_or in I0. destruct I0 as [I0|I0]; [|apply Hu2; assumption].
          eapply owns_ext; [eapply ext_trans; [exact Xa|exact X']|]. apply Hu1; assumption.
        * destruct (end_ok st id (trole t) (CA (ttgt t)) es V S (colon_not_slash _ Ct)) as (Va & Sa & Xa).
          eapply K; [exact E|exact Va|exact Sa|apply keysK_ref; exact KK|exact Xa| |exact NI].
          unfold add_edge_end. rewrite (nth_error_upd_same _ _ _ _ G). simpl. eauto.
    - destruct (atom_eqb (ttgt t) var && negb (str_eqb (trole t) INSTANCE)) eqn:Hinv.
      + apply andb_true_iff in Hinv. destruct Hinv as [Etv Hni]. apply negb_true_iff in Hni.
        assert (NI : is_instance t = true -> atom_eqb (tsrc t) w = true)
          by (intros F; unfold is_instance in F; congruence).
        assert (Co : startswith (trole (invert m t)) [COLON] = true)
          by (apply colon_invert_role; exact Ct).
        destruct (str_eqb (trole (invert m t)) INSTANCE) eqn:Hi.
        * destruct (missing_concept (ttgt (invert m t))).
          -- eapply K; [exact E|exact V|exact S|exact KK|apply ext_refl|eauto|exact NI].
          -- destruct (front_ok st id (ttgt (invert m t)) es V S) as (Va & Sa & Xa).
             eapply K; [exact E|exact Va|exact Sa|exact KK|exact Xa| |exact NI].
             unfold add_edge_front. rewrite (nth_error_upd_same _ _ _ _ G). simpl. eauto.
        * cbn [andb] in E.
          destruct (end_ok st id (trole (invert m t)) (CA (ttgt (invert m t))) es V S (colon_not_slash _ Co))
            as (Va & Sa & Xa).
          eapply K; [exact E|exact Va|exact Sa|apply keysK_ref; exact KK|exact Xa| |exact NI].
          unfold add_edge_end. rewrite (nth_error_upd_same _ _ _ _ G). simpl. eauto.
      + inversion E; subst. repeat (split; [assumption|]). split; [apply ext_refl|].
        exists []. split; [reflexivity|]. intros t0 [].
  Qed.
End Trace.

Section Trace2.
  Variable m : model.
  Variable g : graph.

  Lemma site_trace : forall v st nm ok st1 nm1,
    site v st nm = (ok, st1, nm1) -> dmem atom_eqb v nm = true ->
    Vars g st -> Shape st -> keysK g nm -> Vars g st1 /\ Shape st1 /\ keysK g nm1.
  Proof.
    intros v st nm ok st1 nm1 E D V S KK. unfold site in E.
    destruct (dget atom_eqb v nm) as [[id|]|]; try (inversion E; subst; auto).
    destruct (nth_error st id) as [[v' es]|]; try (inversion E; subst; auto).
    destruct (atom_eqb v v'); inversion E; subst; [auto|].
    pose proof (KK v D) as Hv.
    split; [|split].
    - apply Vars_snoc; [|exact Hv]. apply Vars_upd; [exact V|reflexivity].
    - apply Shape_snoc. apply Shape_upd; [exact S|]. intros ve H. simpl. apply shape_replace. exact H.
    - apply keysK_dset_var; assumption.
  Qed.

  Lemma gsite_trace : forall v st nm ok st1 nm1,
    (if dmem atom_eqb v nm then site v st nm else (false, st, nm)) = (ok, st1, nm1) ->
    Vars g st -> Shape st -> keysK g nm -> Vars g st1 /\ Shape st1 /\ keysK g nm1.
  Proof.
    intros v st nm ok st1 nm1 E V S KK. destruct (dmem atom_eqb v nm) eqn:D.
    - eapply site_trace; eassumption.
    - inversion E; subst. auto.
  Qed.

  Lemma find_next_trace : forall data acc st nm sk var data1 st1 nm1,
    find_next data acc st nm = (sk, var, data1, st1, nm1) ->
    Vars g st -> Shape st -> keysK g nm -> Vars g st1 /\ Shape st1 /\ keysK g nm1.
  Proof.
    induction data as [|d data IH]; intros acc st nm sk var data1 st1 nm1 E V S KK.
    - simpl in E. inversion E; subst. auto.
    - destruct d as [t push es|]; cbn [find_next] in E.
      + destruct (if dmem atom_eqb (tsrc t) nm then site (tsrc t) st nm else (false, st, nm))
          as [[ok1 sa] na] eqn:S1.
        pose proof (gsite_trace _ _ _ _ _ _ S1 V S KK) as Ha.
        destruct ok1; [inversion E; subst; exact Ha|].
        destruct (if dmem atom_eqb (ttgt t) nm then site (ttgt t) st nm else (false, st, nm))
          as [[ok2 sb] nb] eqn:S2.
        pose proof (gsite_trace _ _ _ _ _ _ S2 V S KK) as Hb.
        destruct ok2; [inversion E; subst; exact Hb|].
        destruct data as [|d' data']; [inversion E; subst; auto|].
        eapply IH; eassumption.
      + destruct data as [|d' data']; [inversion E; subst; auto|].
        eapply IH; eassumption.
  Qed.

  Lemma pushN_rev : forall a, pushN g (rev a) -> pushN g a.
  Proof. intros a H. eapply pushN_incl; [|exact H]. intros d I. apply in_rev in I. exact I. Qed.
  Lemma pushN_rev' : forall a, pushN g a -> pushN g (rev a).
  Proof. intros a H. eapply pushN_incl; [|exact H]. intros d I. apply in_rev. exact I. Qed.
  Lemma colon_ok_rev : forall a, colon_ok (data_triples (rev a)) <-> colon_ok (data_triples a).
  Proof.
    intros a. split; intros H; eapply colon_ok_incl; try exact H; intros o I; apply in_dt_rev; exact I.
  Qed.
  Lemma pushN_drop_pops : forall a, pushN g a -> pushN g (drop_pops a).
  Proof. intros a H. eapply pushN_incl; [|exact H]. intros d I. apply in_drop_pops. exact I. Qed.
  Lemma pushN_cons : forall d a, pushN g [d] -> pushN g a -> pushN g (d :: a).
  Proof. intros d a H1 H2. change (d :: a) with ([d] ++ a). apply pushN_app. auto. Qed.

  Lemma cloop_trace : forall f data skipped st nm st',
    cloop f m data skipped st nm = Ok st' ->
    WF [] st nm -> Vars g st -> Shape st -> keysK g nm ->
    colon_ok (data_triples data) -> colon_ok (data_triples skipped) ->
    pushN g data -> pushN g skipped ->
    Vars g st' /\ Shape st' /\ ext st st' /\
    forall t, In t (data_triples data) \/ In t (data_triples skipped) ->
              is_instance t = true -> owns st' (tsrc t).
  Proof.
    induction f as [|f IH]; intros data skipped st nm st' E W V Sh KK Cd Cs Pd Ps; [discriminate|].
    rewrite cloop_S in E.
    destruct data as [|d0 data0].
    { destruct skipped; [|discriminate]. inversion E; subst.
      repeat (split; [assumption|]). split; [apply ext_refl|]. intros t [[]|[]]. }
    remember (d0 :: data0) as data eqn:Hdata.
    destruct (find_next data [] st nm) as [[[[sk var] data1] st1] nm1] eqn:FN.
    destruct (find_next_content _ _ _ _ _ _ _ _ _ [] FN W) as (Esplit & W1 & X1 & _ & Hv).
    destruct (find_next_trace _ _ _ _ _ _ _ _ _ FN V Sh KK) as (V1 & S1 & K1).
    simpl in Esplit.
    cbv zeta in E.
    destruct var as [v|]; [|discriminate].
    destruct (Hv v eq_refl) as (id & w & es & D & G & Evw).
    assert (E' :
      (if Nat.eqb (length data1) 0 then LayoutErr 1
       else match dget atom_eqb v nm1 with
            | Some (Some id) =>
                r <- cnode (S (length data1)) m v id false data1 st1 nm1 ;;
                let '(surp, data2, st2, nm2) := r in
                if Nat.eqb (length data2) (length data1) && surp then
                  match data2 with
                  | d :: data3 => cloop f m (drop_pops data3) (d :: skipped ++ sk) st2 nm2
                  | [] => Other 3
                  end
                else if Nat.leb (length data1) (length data2) then LayoutErr 2
                else cloop f m (drop_pops (data2 ++ rev (skipped ++ sk))) [] st2 nm2
            | _ => Other 2
            end) = Ok st').
    { destruct v; [discriminate|exact E|exact E]. }
    clear E.
    destruct (Nat.eqb (length data1) 0); [discriminate|].
    rewrite D in E'.
    destruct (cnode (S (length data1)) m v id false data1 st1 nm1)
      as [[[[surp data2] st2] nm2]| | | | | | | |] eqn:EC; try discriminate.
    cbn [bind] in E'.
    assert (Call : colon_ok (data_triples (rev sk ++ data1))) by (rewrite Esplit; exact Cd).
    rewrite data_triples_app in Call. apply colon_ok_app in Call. destruct Call as [Crsk Cd1].
    apply (proj1 (colon_ok_rev sk)) in Crsk.
    assert (Pall : pushN g (rev sk ++ data1)) by (rewrite Esplit; exact Pd).
    apply pushN_app in Pall. destruct Pall as [Prsk Pd1]. apply pushN_rev in Prsk.
    destruct (cnode_spec _ _ _ _ _ _ _ _ [] _ _ _ _ EC W1 Cd1) as (W2 & _ & _); [eauto|].
    destruct (cnode_trace m g _ _ _ _ _ _ _ _ _ _ _ EC V1 S1 K1 Cd1 Pd1)
      as (V2 & S2 & K2 & X2 & used & Eu & Hu); [eauto|].
    assert (Cd1' := Cd1). rewrite Eu, data_triples_app in Cd1'. apply colon_ok_app in Cd1'.
    destruct Cd1' as [_ Cd2].
    assert (Pd1' := Pd1). rewrite Eu in Pd1'. apply pushN_app in Pd1'. destruct Pd1' as [_ Pd2].
    assert (Idata : forall t, In t (data_triples data) ->
              In t (data_triples sk) \/ In t (data_triples used) \/ In t (data_triples data2)).
    { intros t I. rewrite <- Esplit in I. apply in_dt_app in I. destruct I as [I|I].
      - left. apply in_dt_rev. exact I.
      - right. rewrite Eu in I. apply in_dt_app in I. exact I. }
    destruct (Nat.eqb (length data2) (length data1) && surp).
    - destruct data2 as [|d data3]; [discriminate|].
      change (d :: data3) with ([d] ++ data3) in Cd2, Pd2.
      rewrite data_triples_app in Cd2. apply colon_ok_app in Cd2. destruct Cd2 as [Cdd Cd3].
      apply pushN_app in Pd2. destruct Pd2 as [Pdd Pd3].
      destruct (IH _ _ _ _ _ E' W2 V2 S2 K2) as (V' & S' & X' & H').
      + rewrite data_triples_drop_pops. exact Cd3.
      + change (d :: skipped ++ sk) with ([d] ++ skipped ++ sk). rewrite !data_triples_app.
        apply colon_ok_app; split; [exact Cdd|]. apply colon_ok_app; split; assumption.
      + apply pushN_drop_pops. exact Pd3.
      + apply pushN_cons; [exact Pdd|]. apply pushN_app. split; assumption.
      + repeat (split; [assumption|]).
        split; [eapply ext_trans; [exact X1|]; eapply ext_trans; eassumption|].
        intros t It Hi.
        assert (New : forall y, In y (data_triples [d]) \/ In y (data_triples skipped) \/ In y (data_triples sk) ->
                                In y (data_triples (d :: skipped ++ sk))).
        { intros y Hy. change (d :: skipped ++ sk) with ([d] ++ skipped ++ sk).
          apply in_dt_app. destruct Hy as [Hy|Hy]; [left; exact Hy|right]. apply in_dt_app. exact Hy. }
        destruct It as [It|It].
        * destruct (Idata t It) as [I|[I|I]].
          -- apply H'; [right; apply New; auto|exact Hi].
          -- eapply owns_ext; [exact X'|]. apply Hu; assumption.
          -- change (d :: data3) with ([d] ++ data3) in I. apply in_dt_app in I. destruct I as [I|I].
             ++ apply H'; [right; apply New; auto|exact Hi].
             ++ apply H'; [left; rewrite data_triples_drop_pops; exact I|exact Hi].
        * apply H'; [right; apply New; auto|exact Hi].
    - destruct (Nat.leb (length data1) (length data2)); [discriminate|].
      destruct (IH _ _ _ _ _ E' W2 V2 S2 K2) as (V' & S' & X' & H').
      + rewrite data_triples_drop_pops, data_triples_app.
        apply colon_ok_app; split; [exact Cd2|]. apply (proj2 (colon_ok_rev (skipped ++ sk))).
        rewrite data_triples_app. apply colon_ok_app; split; assumption.
      + constructor.
      + apply pushN_drop_pops. apply pushN_app. split; [exact Pd2|].
        apply pushN_rev'. apply pushN_app. split; assumption.
      + intros t0 es0 [].
      + repeat (split; [assumption|]).
        split; [eapply ext_trans; [exact X1|]; eapply ext_trans; eassumption|].
        intros t It Hi.
        assert (New : forall y, In y (data_triples data2) \/ In y (data_triples skipped) \/ In y (data_triples sk) ->
                                In y (data_triples (drop_pops (data2 ++ rev (skipped ++ sk))))).
        { intros y Hy. rewrite data_triples_drop_pops. apply in_dt_app.
          destruct Hy as [Hy|Hy]; [left; exact Hy|right]. apply in_dt_rev, in_dt_app. exact Hy. }
        destruct It as [It|It].
        * destruct (Idata t It) as [I|[I|I]].
          -- apply H'; [left; apply New; auto|exact Hi].
          -- eapply owns_ext; [exact X'|]. apply Hu; assumption.
          -- apply H'; [left; apply New; auto|exact Hi].
        * apply H'; [left; apply New; auto|exact Hi].
  Qed.

  (* the store behind a successful [configure], with everything known about it *)
  Theorem configure_structure : forall top t,
    configure m g top = Ok t -> triples g <> [] -> roles_have_colon g ->
    layout_only g -> pushes_name_variables g ->
    exists tp st nm,
      requested_top g top = Some tp /\
      t = mkTree (build (S (length st)) st 0) (gmeta g) /\
      WF [] st nm /\ node_var_at st 0 = tp /\ eps_store st /\
      Vars g st /\ Shape st /\
      (forall x, In x (triples g) -> is_instance x = true -> owns st (tsrc x)) /\
      exists os, Forall2 (expressed m) (triples g) os /\
                 Permutation (store_triples st) (concat os).
  Proof.
    intros top t E NE C LO PV. unfold configure in E.
    destruct (triples g) as [|t0 ts] eqn:TS; [contradiction|]. rewrite <- TS in *. clear NE.
    fold (requested_top g top) in E.
    destruct (requested_top g top) as [tp|]; [|discriminate].
    destruct (mem atom_eqb tp (variables g)) eqn:Vtp; [|discriminate].
    cbn [negb] in E. cbv zeta in E.
    remember (dset atom_eqb tp (Some O) (map (fun v => (v, @None nat)) (variables g))) as nm0 eqn:Hnm0.
    remember (preconf m (triples g) (epidata g) []) as data0 eqn:Hd0.
    destruct (cnode (S (length data0)) m tp O false data0 [(tp, [])] nm0)
      as [[[[s1 data1] st1] nm1]| | | | | | | |] eqn:E1; try discriminate.
    cbn [bind] in E.
    destruct (cloop (configure_fuel (length data1)) m (drop_pops data1) [] st1 nm1)
      as [st2| | | | | | | |] eqn:E2; try discriminate.
    cbn [bind] in E. inversion E; subst t. clear E.
    pose proof (preconf_triples m (triples g) (epidata g) []) as Fpre. rewrite <- Hd0 in Fpre.
    pose proof (pre_as_colon _ _ _ Fpre C) as C0.
    assert (W0 : WF [] [(tp, [])] nm0) by (rewrite Hnm0; apply WF_init).
    assert (N0 : exists w es, nth_error [(tp, @nil cedge)] 0 = Some (w, es) /\ atom_eqb tp w = true).
    { exists tp, []. split; [reflexivity|apply atom_eqb_refl]. }
    destruct (cnode_spec _ _ _ _ _ _ _ _ [] _ _ _ _ E1 W0 C0 N0) as (W1 & X1 & used & Eu & A1).
    assert (C1 : colon_ok (data_triples data1)).
    { rewrite Eu, data_triples_app in C0. apply colon_ok_app in C0. tauto. }
    assert (Cdp : colon_ok (data_triples (drop_pops data1))) by (rewrite data_triples_drop_pops; exact C1).
    destruct (cloop_spec _ _ _ _ _ _ _ E2 W1 Cdp (Forall_nil _)) as ([nm2 W2] & X2 & A2).
    (* the new invariants *)
    assert (V0 : Vars g [(tp, [])]).
    { intros w es [I|[]]. inversion I; subst. exact Vtp. }
    assert (S0 : Shape [(tp, [])]).
    { intros w es [I|[]]. inversion I; subst. reflexivity. }
    assert (KK0 : keysK g nm0).
    { intros v Hv. rewrite Hnm0, dmem_dset, dmem_map_none in Hv. apply orb_true_iff in Hv.
      destruct Hv as [Hv|Hv]; [exact Hv|]. rewrite (is_var_cong g _ _ Hv). exact Vtp. }
    assert (PN0 : pushN g data0).
    { rewrite Hd0. apply preconf_pushN; [intros y Iy; apply src_is_var; exact Iy|exact PV]. }
    destruct (cnode_trace m g _ _ _ _ _ _ _ _ _ _ _ E1 V0 S0 KK0 C0 PN0 N0)
      as (V1 & S1 & K1 & _ & used' & Eu' & Hu).
    assert (used' = used) by (apply (app_inv_tail data1); rewrite <- Eu, <- Eu'; reflexivity).
    subst used'.
    assert (PN1 : pushN g data1) by (rewrite Eu in PN0; apply pushN_app in PN0; tauto).
    destruct (cloop_trace _ _ _ _ _ _ E2 W1 V1 S1 K1 Cdp (Forall_nil _) (pushN_drop_pops _ PN1))
      as (V2 & S2 & X2' & H2).
    { intros tq eq0 []. }
    exists tp, st2, nm2.
    split; [reflexivity|]. split; [reflexivity|]. split; [exact W2|].
    split.
    { rewrite (ext_var_at [(tp, [])] st2 0 (ext_trans _ _ _ X1 X2)) by (simpl; lia). reflexivity. }
    split.
    { assert (D0 : eps_data data0) by (rewrite Hd0; apply preconf_eps; exact LO).
      assert (Se0 : eps_store [(tp, [])]).
      { intros ve e [<-|[]] Ie. contradiction. }
      destruct (cnode_eps _ _ _ _ _ _ _ _ _ _ _ _ E1 Se0 D0) as [Se1 D1].
      eapply cloop_eps; [exact E2|exact Se1|apply eps_data_drop_pops; exact D1|constructor]. }
    split; [exact V2|]. split; [exact S2|].
    split.
    { intros x Ix Hi.
      destruct (Forall2_in_l _ _ _ _ Fpre Ix) as (o & Io & Ho).
      destruct Ho as [->|[_ F]]; [|congruence].
      rewrite Eu, data_triples_app in Io. apply in_app_or in Io. destruct Io as [Io|Io].
      - eapply owns_ext; [exact X2|]. apply Hu; assumption.
      - apply H2; [left; rewrite data_triples_drop_pops; exact Io|exact Hi]. }
    pose proof (Adds_app _ _ _ _ _ _ A1 A2) as A.
    rewrite data_triples_drop_pops in A. simpl in A. rewrite app_nil_r, <- data_triples_app, <- Eu in A.
    destruct A as (os & Fos & Pos).
    exists os. split.
    - pose proof (Forall2_compose _ _ _ _ _ Fpre Fos) as F. exact F.
    - unfold store_triples at 2 in Pos. unfold flat_triples in Pos. simpl in Pos.
      rewrite app_nil_r in Pos. exact Pos.
  Qed.
End Trace2.

(* ------------------------------------------------------------------ *)
(** * Trees assembled from lexable pieces *)

(* deinverting twice is deinverting once *)
Definition role_stable (m : model) (r : str) : bool :=
  negb (is_role_inverted m r) || negb (is_role_inverted m (invert_role m r)).

Definition good_branch (m : model) (g : graph) (rec : node -> bool) (b : branch) : bool :=
  if str_eqb (fst b) SLASHS then
    match snd b with TAtom a => lex_target g a | TNode _ => false end
  else
    lex_role (fst b) && negb (str_eqb (fst b) INSTANCE) && role_stable m (fst b) &&
    match snd b with TAtom a => lex_target g a | TNode n' => rec n' end.

Fixpoint good_node (m : model) (g : graph) (n : node) : bool :=
  match n with
  | Node v bs =>
      lex_var v && is_var g v && forallb (good_branch m g (good_node m g)) bs && slash_only_first bs
  end.

Definition has_slash (bs : list branch) : bool := existsb (fun b => str_eqb (fst b) SLASHS) bs.
(* the variables of the nodes that write no concept *)
Fixpoint cless (n : node) : list atom :=
  match n with
  | Node v bs =>
      (if has_slash bs then [] else [v]) ++
      flat_map (fun b : branch => match snd b with TNode n' => cless n' | TAtom _ => [] end) bs
  end.
Definition cless_node (ve : atom * list cedge) : list atom :=
  if existsb is_slash_edge (snd ve) then [] else [fst ve].
Definition cless_st (st : store) : list atom := flat_map cless_node st.

Lemma lex_target_akey : forall g a b, akey a = akey b -> lex_target g a = lex_target g b.
Proof.
  intros g [|s|t z] [|s'|t' z'] E; simpl in E; try discriminate; try reflexivity; inversion E; subst; reflexivity.
Qed.

Lemma lex_var_target : forall g a, lex_var a = true -> lex_target g a = true.
Proof.
  intros g [|s|t z] H; try discriminate. simpl in *. unfold lex_text. rewrite H. reflexivity.
Qed.

Lemma lex_var_akey : forall a b, akey a = akey b -> lex_var a = lex_var b.
Proof.
  intros [|s|t z] [|s'|t' z'] E; simpl in E; try discriminate; try reflexivity; inversion E; subst; reflexivity.
Qed.

Lemma slash_edges_ca : forall es e, slash_shape es = true -> In e es -> is_slash_edge e = true ->
  is_ca e = true.
Proof.
  induction es as [|x es IH]; intros e H I Se; [contradiction|].
  cbn [slash_shape] in H. destruct I as [<-|I].
  - rewrite Se in H. apply andb_true_iff in H. tauto.
  - destruct (is_slash_edge x).
    + apply andb_true_iff in H. destruct H as [_ H]. apply IH; assumption.
    + unfold noslash in H. rewrite forallb_forall in H. specialize (H e I). rewrite Se in H. discriminate.
Qed.

Lemma NoDup_map_In_inj : forall {A B} (f : A -> B) l x y,
  NoDup (map f l) -> In x l -> In y l -> f x = f y -> x = y.
Proof.
  intros A B f. induction l as [|a l IH]; intros x y N Ix Iy E; [contradiction|].
  simpl in N. inversion N as [|? ? Na Nl]; subst.
  destruct Ix as [<-|Ix]; destruct Iy as [<-|Iy]; auto.
  - exfalso. apply Na. rewrite E. apply in_map. exact Iy.
  - exfalso. apply Na. rewrite <- E. apply in_map. exact Ix.
Qed.

Lemma NoDup_map_filter : forall {A B} (f : A -> B) (p : A -> bool) l,
  NoDup (map f l) -> NoDup (map f (filter p l)).
Proof.
  intros A B f p. induction l as [|a l IH]; intros N; [constructor|].
  simpl in N. inversion N as [|? ? Na Nl]; subst. simpl. destruct (p a); [|apply IH; exact Nl].
  simpl. constructor; [|apply IH; exact Nl].
  intros I. apply Na. apply in_map_iff in I. destruct I as (x & E & Ix).
  apply filter_In in Ix. apply in_map_iff. exists x. tauto.
Qed.

Lemma cless_st_sub : forall st a, In a (cless_st st) -> exists es, In (a, es) st /\ existsb is_slash_edge es = false.
Proof.
  intros st a I. unfold cless_st in I. apply in_flat_map in I. destruct I as ([w es] & Iw & Ia).
  unfold cless_node in Ia. cbn [fst snd] in Ia. destruct (existsb is_slash_edge es) eqn:X; [contradiction|].
  destruct Ia as [<-|[]]. exists es. auto.
Qed.

Lemma cless_st_nodup : forall st, NoDup (map fst st) -> NoDup (cless_st st).
Proof.
  induction st as [|[w es] st IH]; intros N; [constructor|].
  simpl in N. inversion N as [|? ? Na Nl]; subst.
  unfold cless_st. cbn [flat_map]. unfold cless_node at 1. cbn [fst snd].
  destruct (existsb is_slash_edge es); [apply IH; exact Nl|].
  simpl. constructor; [|apply IH; exact Nl].
  intros I. apply Na. destruct (cless_st_sub _ _ I) as (es' & I' & _).
  apply in_map_iff. exists (w, es'). auto.
Qed.

Section Store.
  Variable m : model.
  Variable g : graph.
  Hypothesis Wg : wf_graph m g.
  Hypothesis Lg : atoms_lexable g = true.
  Variable st : store.
  Variable nm : nmap.
  Variable os : list (list triple).
  Hypothesis Wst : WF [] st nm.
  Hypothesis Est : eps_store st.
  Hypothesis Vst : Vars g st.
  Hypothesis Sst : Shape st.
  Hypothesis Fos : Forall2 (expressed m) (triples g) os.
  Hypothesis Pos : Permutation (store_triples st) (concat os).

  Lemma lex_triple : forall x, In x (triples g) ->
    lex_var (tsrc x) = true /\ lex_role (trole x) = true /\ lex_target g (ttgt x) = true.
  Proof.
    intros x Ix. unfold atoms_lexable in Lg. rewrite forallb_forall in Lg. specialize (Lg x Ix).
    apply andb_true_iff in Lg. destruct Lg as [H H3]. apply andb_true_iff in H. tauto.
  Qed.

  Lemma colon_x : forall x, In x (triples g) -> startswith (trole x) [COLON] = true.
  Proof.
    intros x Ix. pose proof (wf_roles m g Wg) as R. unfold roles_have_colon in R.
    rewrite Forall_forall in R. apply R. exact Ix.
  Qed.

  (* where a written branch comes from *)
  Lemma written_origin : forall tr, In tr (concat os) ->
    exists x o, In x (triples g) /\
      (o = x \/ (o = invert m x /\ is_instance x = false)) /\
      (is_instance o && missing_concept (ttgt o) = false) /\ tr = edge_of o.
  Proof.
    intros tr I. apply in_concat in I. destruct I as (osi & Io & It).
    destruct (Forall2_in_r _ _ _ _ Fos Io) as (x & Ix & t' & Hpre & o & Ho & Ew).
    assert (Hw : (is_instance o && missing_concept (ttgt o) = false) /\ tr = edge_of o).
    { subst osi. unfold written in It. destruct (is_instance o && missing_concept (ttgt o)).
      - contradiction.
      - destruct It as [<-|[]]. auto. }
    destruct Hw as [Hw1 Hw2].
    destruct (is_instance x) eqn:Hi.
    - destruct Hpre as [->|[_ F]]; [|congruence].
      destruct Ho as [->|[_ F]]; [|congruence].
      exists x, x. auto.
    - destruct (wf_invertible m g Wg x Ix Hi) as (R1 & R3 & R2).
      assert (Iinv : is_instance (invert m x) = false) by (rewrite is_instance_invert; exact R2).
      destruct Hpre as [->|[-> _]].
      + destruct Ho as [->|[-> _]].
        * exists x, x. auto.
        * exists x, (invert m x). auto.
      + destruct Ho as [->|[-> _]].
        * exists x, (invert m x). auto.
        * rewrite (invert_invert m x R1) in *. exists x, x. auto.
  Qed.

  Definition EdgeA (w : atom) (r : str) (a : atom) : Prop :=
    r = SLASHS /\ exists x, In x (triples g) /\ is_instance x = true /\
      akey w = akey (tsrc x) /\ akey a = akey (ttgt x) /\ missing_concept (ttgt x) = false.
  Definition EdgeB (w : atom) (r : str) (a : atom) : Prop :=
    exists x, In x (triples g) /\ is_instance x = false /\
      ((r = trole x /\ akey w = akey (tsrc x) /\ akey a = akey (ttgt x)) \/
       (r = invert_role m (trole x) /\ akey w = akey (ttgt x) /\ akey a = akey (tsrc x))).

  Lemma edge_class : forall w es e, In (w, es) st -> In e es ->
    EdgeA w (fst (fst e)) (ctgt_atom st (snd (fst e))) \/
    EdgeB w (fst (fst e)) (ctgt_atom st (snd (fst e))).
  Proof.
    intros w es e Iw Ie.
    assert (I : In (cedge_triple st w e) (store_triples st)).
    { unfold store_triples, flat_triples. apply in_flat_map. exists (w, es). split; [exact Iw|].
      unfold node_triples. simpl. apply in_map. exact Ie. }
    apply (Permutation_in _ Pos) in I.
    destruct (written_origin _ I) as (x & o & Ix & Ho & Hw & Eo).
    unfold cedge_triple, edge_of in Eo. inversion Eo as [[E1 E2 E3]]. clear Eo.
    destruct (is_instance x) eqn:Hi.
    - destruct Ho as [->|[_ F]]; [|congruence]. rewrite Hi in E2. rewrite Hi in Hw. simpl in Hw.
      left. split; [exact E2|]. exists x. repeat (split; [assumption|]). exact Hw.
    - right. exists x. split; [exact Ix|]. split; [exact Hi|].
      destruct (wf_invertible m g Wg x Ix Hi) as (R1 & R3 & R2).
      destruct Ho as [->|[-> _]].
      + rewrite Hi in E2. left. auto.
      + rewrite is_instance_invert, R2 in E2. right. auto.
  Qed.

  Lemma stable_of_invertible : forall r, role_invertible m r ->
    role_stable m r = true /\ role_stable m (invert_role m r) = true.
  Proof.
    intros r (R1 & R3 & _). unfold role_stable. rewrite R1, R3.
    destruct (is_role_inverted m r); split; reflexivity.
  Qed.

  Lemma edgeB_facts : forall w r a, EdgeB w r a ->
    lex_role r = true /\ str_eqb r INSTANCE = false /\ role_stable m r = true /\
    lex_target g a = true /\ str_eqb r SLASHS = false.
  Proof.
    intros w r a (x & Ix & Hi & H).
    destruct (lex_triple x Ix) as (L1 & L2 & L3).
    pose proof (wf_invertible m g Wg x Ix Hi) as RI.
    destruct (stable_of_invertible _ RI) as [St1 St2]. destruct RI as (R1 & R3 & R2).
    destruct H as [(-> & _ & Ea)|(-> & _ & Ea)].
    - split; [exact L2|]. split; [exact Hi|]. split; [exact St1|].
      split; [rewrite (lex_target_akey g _ _ Ea); exact L3|].
      apply (lex_role_facts _ L2).
    - pose proof (lex_role_invert m _ L2) as L2'.
      split; [exact L2'|]. split; [exact R2|]. split; [exact St2|].
      split; [rewrite (lex_target_akey g _ _ Ea); apply lex_var_target; exact L1|].
      apply (lex_role_facts _ L2').
  Qed.

  Lemma edgeA_facts : forall w r a, EdgeA w r a -> lex_target g a = true.
  Proof.
    intros w r a (_ & x & Ix & _ & _ & Ea & _).
    destruct (lex_triple x Ix) as (_ & _ & L3). rewrite (lex_target_akey g _ _ Ea). exact L3.
  Qed.

  Lemma node_var_lex : forall w es, In (w, es) st -> lex_var w = true /\ is_var g w = true.
  Proof.
    intros w es I. pose proof (Vst w es I) as Hv. split; [|exact Hv].
    destruct (wf_var_is_source m g w Wg Hv) as (x & Ix & _ & Ex).
    destruct (lex_triple x Ix) as (L1 & _).
    rewrite <- (lex_var_akey _ _ (akey_eqb _ _ Ex)). exact L1.
  Qed.

  (* ---- at most one concept edge per node ---- *)
  Definition slashP (w : atom) (tr : triple) : bool :=
    atom_eqb (tsrc tr) w && str_eqb (trole tr) SLASHS.

  Lemma count_written : forall w xs oss, (forall x, In x xs -> In x (triples g)) ->
    Forall2 (expressed m) xs oss ->
    length (filter (slashP w) (concat oss)) <=
    length (filter (fun t => is_instance t && atom_eqb (tsrc t) w) xs).
  Proof.
    intros w xs oss Hin F. induction F as [|x osi xs oss Hx F IH]; [simpl; lia|].
    simpl concat. rewrite filter_app, app_length.
    specialize (IH (fun y Iy => Hin y (or_intror Iy))).
    assert (Ix : In x (triples g)) by (apply Hin; left; reflexivity).
    assert (H1 : length (filter (slashP w) osi) <=
                 if is_instance x && atom_eqb (tsrc x) w then 1 else 0).
    { destruct Hx as (t' & Hpre & o & Ho & ->).
      unfold written. destruct (is_instance o && missing_concept (ttgt o)); [simpl; lia|].
      simpl. unfold slashP at 1. unfold edge_of. cbn [tsrc trole fst snd].
      destruct (is_instance x) eqn:Hi.
      - destruct Hpre as [->|[_ F']]; [|congruence].
        destruct Ho as [->|[_ F']]; [|congruence].
        rewrite Hi, atom_eqb_akey_l. simpl. destruct (atom_eqb (tsrc x) w); simpl; lia.
      - destruct (wf_invertible m g Wg x Ix Hi) as (R1 & R3 & R2).
        assert (Iinv : is_instance (invert m x) = false) by (rewrite is_instance_invert; exact R2).
        assert (Io : is_instance o = false /\ startswith (trole o) [COLON] = true).
        { pose proof (colon_x x Ix) as Cx.
          pose proof (colon_invert_role m _ Cx) as Ci.
          destruct Hpre as [->|[-> _]]; destruct Ho as [->|[-> _]]; auto.
          rewrite (invert_invert m x R1). auto. }
        destruct Io as [Io Co]. rewrite Io, (colon_not_slash _ Co), andb_false_r. simpl. lia. }
    simpl filter. destruct (is_instance x && atom_eqb (tsrc x) w); simpl length; lia.
  Qed.

  Lemma slashP_edge : forall w e, slashP w (cedge_triple st w e) = is_slash_edge e.
  Proof.
    intros w e. unfold slashP, cedge_triple, is_slash_edge, tsrc, trole. cbn [fst snd].
    rewrite atom_eqb_akey_l, atom_eqb_refl. reflexivity.
  Qed.

  Lemma slash_count_node : forall w es,
    length (filter (slashP w) (map (cedge_triple st w) es)) = length (filter is_slash_edge es).
  Proof.
    intros w. induction es as [|e es IH]; [reflexivity|].
    simpl. rewrite slashP_edge. destruct (is_slash_edge e); simpl; rewrite IH; reflexivity.
  Qed.

  Lemma one_slash : forall w es, In (w, es) st -> length (filter is_slash_edge es) <= 1.
  Proof.
    intros w es I.
    pose proof (Vst w es I) as Hv.
    pose proof (wf_one_instance m g Wg w Hv) as One. unfold instances_of in One.
    pose proof (count_written w (triples g) os (fun x H => H) Fos) as Cw. rewrite One in Cw.
    pose proof (Permutation_length (Permutation_filter' (slashP w) _ _ Pos)) as PL.
    rewrite <- PL in Cw.
    apply in_split in I. destruct I as (l1 & l2 & E).
    unfold store_triples in Cw. rewrite E in Cw at 2.
    rewrite flat_triples_app in Cw. unfold flat_triples at 2 in Cw. cbn [flat_map] in Cw.
    rewrite !filter_app, !app_length in Cw.
    unfold node_triples in Cw. cbn [fst snd] in Cw. rewrite slash_count_node in Cw.
    lia.
  Qed.

  Lemma roles_only_first : forall w es, In (w, es) st ->
    match es with [] => True | _ :: es' => noslash es' = true end.
  Proof.
    intros w es I. pose proof (Sst w es I) as Sh. pose proof (one_slash w es I) as One.
    destruct es as [|e es']; [exact Logic.I|]. cbn [slash_shape] in Sh. simpl in One.
    destruct (is_slash_edge e); [|exact Sh].
    simpl in One. assert (Z : length (filter is_slash_edge es') = 0) by lia.
    apply length_zero_iff_nil in Z. unfold noslash. apply forallb_forall. intros x Ix.
    destruct (is_slash_edge x) eqn:Sx; [|reflexivity].
    assert (In x (filter is_slash_edge es')) by (apply filter_In; auto). rewrite Z in H. contradiction.
  Qed.

  (* ---- the tree read off the store ---- *)
  Lemma build_branch_eps : forall f' e, snd e = [] ->
    build_branch f' st e =
    (fst (fst e), match snd (fst e) with CA a => TAtom a | CN i => TNode (build f' st i) end).
  Proof. intros f' [[r t] ep] H. simpl in H. subst ep. reflexivity. Qed.

  Lemma build_good : forall f i, i < length st -> length st - i <= f ->
    good_node m g (build f st i) = true.
  Proof.
    induction f as [|f' IH]; intros i Li Lf; [lia|].
    destruct (nth_error st i) as [[v es]|] eqn:G; [|apply nth_error_None in G; lia].
    pose proof (nth_error_In _ _ G) as Iv.
    rewrite (Configure_content.build_S _ _ _ _ _ G). cbn [good_node].
    destruct (node_var_lex v es Iv) as [L1 L2]. rewrite L1, L2. cbn [andb].
    assert (Hes : forall e, In e es -> snd e = []).
    { intros e Ie. eapply (Est (v, es)); [exact Iv|exact Ie]. }
    apply andb_true_iff. split.
    - apply forallb_forall. intros b Ib. apply in_map_iff in Ib. destruct Ib as (e & <- & Ie).
      rewrite (build_branch_eps f' e (Hes e Ie)). unfold good_branch. cbn [fst snd].
      destruct (str_eqb (fst (fst e)) SLASHS) eqn:Sl.
      + pose proof (slash_edges_ca es e (Sst v es Iv) Ie Sl) as Ca.
        unfold is_ca in Ca. destruct (snd (fst e)) as [a|j] eqn:T; [|discriminate].
        destruct (edge_class v es e Iv Ie) as [A|B].
        * rewrite T in A. simpl in A. eapply edgeA_facts. exact A.
        * destruct (edgeB_facts _ _ _ B) as (_ & _ & _ & _ & NS). congruence.
      + destruct (edge_class v es e Iv Ie) as [A|B].
        * destruct A as [A _]. rewrite A in Sl. discriminate.
        * destruct (edgeB_facts _ _ _ B) as (B1 & B2 & B3 & B4 & _).
          rewrite B1, B2, B3. cbn [negb andb].
          destruct (snd (fst e)) as [a|j] eqn:T.
          -- exact B4.
          -- destruct (wf_up _ _ _ Wst i v es e j G Ie T) as [Lj1 Lj2]. apply IH; lia.
    - pose proof (roles_only_first v es Iv) as R.
      destruct es as [|e es']; [reflexivity|]. cbn [map slash_only_first].
      unfold noslash in R. rewrite forallb_forall in R.
      apply forallb_forall. intros b Ib. apply in_map_iff in Ib. destruct Ib as (e' & <- & Ie').
      rewrite (build_branch_eps f' e' (Hes e' (or_intror Ie'))). unfold not_slash. cbn [fst].
      exact (R e' Ie').
  Qed.

  (* ---- the nodes without a concept ---- *)
  Definition cless_at (i : nat) : list atom :=
    match nth_error st i with Some ve => cless_node ve | None => [] end.
  Definition branch_cless (b : branch) : list atom :=
    match snd b with TNode n' => cless n' | TAtom _ => [] end.

  Lemma has_slash_build : forall f' es, (forall e, In e es -> snd e = []) ->
    has_slash (map (build_branch f' st) es) = existsb is_slash_edge es.
  Proof.
    intros f'. induction es as [|e es IH]; intros H; [reflexivity|].
    simpl. rewrite (build_branch_eps f' e (H e (or_introl eq_refl))). cbn [fst].
    rewrite IH by (intros e' I'; apply H; right; exact I'). reflexivity.
  Qed.

  Lemma build_cless : forall f i, i < length st -> length st - i <= f ->
    Permutation (cless (build f st i)) (flat_map cless_at (vis (children st) f i)).
  Proof.
    induction f as [|f' IH]; intros i Li Lf; [lia|].
    destruct (nth_error st i) as [[v es]|] eqn:G; [|apply nth_error_None in G; lia].
    pose proof (nth_error_In _ _ G) as Iv.
    rewrite (Configure_content.build_S _ _ _ _ _ G).
    assert (Hes : forall e, In e es -> snd e = []).
    { intros e Ie. eapply (Est (v, es)); [exact Iv|exact Ie]. }
    assert (Inner : forall es', incl es' es ->
      Permutation (flat_map branch_cless (map (build_branch f' st) es'))
                  (flat_map cless_at (flat_map (vis (children st) f') (flat_map edge_cn es')))).
    { induction es' as [|e es' IHe]; intros Hin; [simpl; constructor|].
      assert (Ie : In e es) by (apply Hin; left; reflexivity).
      assert (IHt : Permutation (flat_map branch_cless (map (build_branch f' st) es'))
                (flat_map cless_at (flat_map (vis (children st) f') (flat_map edge_cn es'))))
        by (apply IHe; intros x Ix; apply Hin; right; exact Ix).
      cbn [map flat_map]. rewrite (build_branch_eps f' e (Hes e Ie)).
      unfold branch_cless at 1. cbn [snd]. unfold edge_cn at 1.
      destruct (snd (fst e)) as [a|j] eqn:T.
      - cbn [app]. exact IHt.
      - destruct (wf_up _ _ _ Wst i v es e j G Ie T) as [Lj1 Lj2].
        rewrite !flat_map_app. cbn [flat_map]. rewrite !app_nil_r.
        apply Permutation_app; [apply IH; lia|exact IHt]. }
    cbn [cless vis flat_map].
    change (flat_map (fun b : branch => match snd b with TNode n' => cless n' | TAtom _ => [] end))
      with (flat_map branch_cless).
    rewrite (has_slash_build f' es Hes).
    unfold cless_at at 1. rewrite G. unfold cless_node. cbn [fst snd].
    apply Permutation_app_head.
    assert (Ech : children st i = flat_map edge_cn es) by (unfold children; rewrite G; reflexivity).
    rewrite Ech. apply Inner. apply incl_refl.
  Qed.

  Lemma tree_cless : Permutation (cless (build (S (length st)) st 0)) (cless_st st).
  Proof.
    pose proof (wf_pos _ _ _ Wst) as Lpos.
    eapply perm_trans; [apply build_cless; lia|].
    assert (FV : Permutation (vis (children st) (S (length st)) 0) (seq 0 (length st))).
    { apply forest_visit.
      - intros i c Ic. eapply In_children; eassumption.
      - pose proof (Configure_content.wf_tree _ _ _ Wst) as T. rewrite app_nil_r in T.
        unfold children. rewrite (flat_map_seq_nth node_cns st). exact T.
      - exact Lpos. }
    eapply perm_trans; [apply Permutation_flat_map, FV|].
    unfold cless_at. rewrite (flat_map_seq_nth cless_node st). apply Permutation_refl.
  Qed.

  Hypothesis Own : forall x, In x (triples g) -> is_instance x = true -> owns st (tsrc x).

  Definition unwritten (x : triple) : bool := negb (is_written x).

  Lemma unwritten_shape : forall x, In x (triples g) -> unwritten x = true ->
    is_instance x = true /\ exists s, x = (AStr s, INSTANCE, ANone).
  Proof.
    intros x Ix U. unfold unwritten, is_written in U. apply negb_true_iff, negb_false_iff in U.
    apply andb_true_iff in U. destruct U as [Hi Hn]. split; [exact Hi|].
    destruct (lex_triple x Ix) as (L1 & _ & L3).
    destruct x as [[s r] t]. unfold is_instance, tsrc, trole, ttgt in *. cbn [fst snd] in *.
    apply str_eqb_eq in Hi. subst r.
    destruct s as [|s|? ?]; try discriminate.
    destruct t as [|[|c t]|? ?]; try discriminate.
    exists s. reflexivity.
  Qed.

  Lemma store_entry_inj : forall w es w' es', In (w, es) st -> In (w', es') st ->
    akey w = akey w' -> (w, es) = (w', es').
  Proof.
    intros w es w' es' I I' E.
    pose proof (store_vars_nodup _ _ _ Wst) as N. rewrite map_map in N.
    eapply (NoDup_map_In_inj (fun ve : atom * list cedge => akey (fst ve))); eassumption.
  Qed.

  Lemma one_instance_eq : forall w x x', is_var g w = true ->
    In x (triples g) -> In x' (triples g) -> is_instance x = true -> is_instance x' = true ->
    atom_eqb (tsrc x) w = true -> atom_eqb (tsrc x') w = true -> x = x'.
  Proof.
    intros w x x' Hv Ix Ix' Hi Hi' E E'.
    pose proof (wf_one_instance m g Wg w Hv) as One. unfold instances_of in One.
    destruct (filter (fun t => is_instance t && atom_eqb (tsrc t) w) (triples g)) as [|y [|z l]] eqn:F;
      try discriminate.
    assert (A : In x [y]) by (rewrite <- F; apply filter_In; rewrite Hi, E; auto).
    assert (A' : In x' [y]) by (rewrite <- F; apply filter_In; rewrite Hi', E'; auto).
    destruct A as [<-|[]]. destruct A' as [<-|[]]. reflexivity.
  Qed.

  Lemma astr_eqb_eq : forall a b, lex_var a = true -> atom_eqb a b = true -> a = b.
  Proof.
    intros [|s|? ?] [|s'|? ?] L E; try discriminate. simpl in E. apply str_eqb_eq in E. subst. reflexivity.
  Qed.

  Lemma cless_match : Permutation (cless_st st) (map tsrc (filter unwritten (triples g))).
  Proof.
    apply NoDup_Permutation.
    - apply cless_st_nodup. pose proof (store_vars_nodup _ _ _ Wst) as N.
      apply NoDup_map_inv in N. exact N.
    - pose proof (wf_distinct m g Wg) as N.
      apply (NoDup_map_filter tkey unwritten) in N.
      assert (E : map tkey (filter unwritten (triples g)) =
                  map (fun a : atom => (a, INSTANCE, ANone)) (map tsrc (filter unwritten (triples g)))).
      { rewrite map_map. apply map_ext_in. intros x Ix. apply filter_In in Ix. destruct Ix as [Ix U].
        destruct (unwritten_shape x Ix U) as (_ & s & ->). reflexivity. }
      rewrite E in N. apply NoDup_map_inv in N. exact N.
    - intros a. split.
      + intros I. destruct (cless_st_sub _ _ I) as (es & Ia & NoS).
        destruct (node_var_lex a es Ia) as [La Va].
        destruct (wf_var_is_source m g a Wg Va) as (x & Ix & Hi & Ex).
        destruct (lex_triple x Ix) as (L1 & _).
        pose proof (astr_eqb_eq _ _ L1 Ex) as Exa.
        apply in_map_iff. exists x. split; [exact Exa|]. apply filter_In. split; [exact Ix|].
        unfold unwritten. destruct (is_written x) eqn:Wx; [exfalso|reflexivity].
        (* a written instance triple of [a] puts a concept edge on the node of [a] *)
        assert (Ic : In (edge_of x) (concat os)).
        { destruct (Forall2_in_l _ _ _ _ Fos Ix) as (osi & Io & t' & Hpre & o & Ho & Ew).
          destruct Hpre as [->|[_ F]]; [|congruence].
          destruct Ho as [->|[_ F]]; [|congruence].
          apply in_concat. exists osi. split; [exact Io|]. subst osi. unfold written.
          unfold is_written in Wx. change no_concept with missing_concept in Wx.
          apply negb_true_iff in Wx. rewrite Wx. left. reflexivity. }
        apply (Permutation_in _ (Permutation_sym Pos)) in Ic.
        unfold store_triples, flat_triples in Ic. apply in_flat_map in Ic.
        destruct Ic as ([w' es'] & Iw' & Ie). unfold node_triples in Ie. cbn [fst snd] in Ie.
        apply in_map_iff in Ie. destruct Ie as (e & Ee & Ie).
        unfold cedge_triple, edge_of in Ee. rewrite Hi in Ee. inversion Ee as [[E1 E2 E3]].
        rewrite Exa in E1.
        pose proof (store_entry_inj _ _ _ _ Iw' Ia E1) as EE. inversion EE; subst w' es'.
        assert (T : existsb is_slash_edge es = true); [|congruence].
        apply existsb_exists. exists e. split; [exact Ie|]. unfold is_slash_edge. rewrite E2. reflexivity.
      + intros I. apply in_map_iff in I. destruct I as (x & <- & Ix).
        apply filter_In in Ix. destruct Ix as [Ix U].
        destruct (unwritten_shape x Ix U) as (Hi & s & Ex).
        destruct (Own x Ix Hi) as (i & w & es & G & Ew).
        pose proof (nth_error_In _ _ G) as Iw.
        destruct (lex_triple x Ix) as (L1 & _).
        pose proof (astr_eqb_eq _ _ L1 Ew) as Exw.
        unfold cless_st. apply in_flat_map. exists (w, es). split; [exact Iw|].
        unfold cless_node. cbn [fst snd].
        destruct (existsb is_slash_edge es) eqn:X; [exfalso|left; symmetry; exact Exw].
        apply existsb_exists in X. destruct X as (e & Ie & Se).
        destruct (edge_class w es e Iw Ie) as [A|B].
        * destruct A as (_ & x' & Ix' & Hi' & Ew' & _ & Nm).
          apply akey_eq_iff in Ew'. rewrite atom_eqb_sym in Ew'.
          pose proof (Vst w es Iw) as Vw.
          pose proof (one_instance_eq w x x' Vw Ix Ix' Hi Hi' Ew Ew') as EE. subst x'.
          rewrite Ex in Nm. discriminate.
        * destruct (edgeB_facts _ _ _ B) as (_ & _ & _ & _ & NS).
          unfold is_slash_edge in Se. congruence.
  Qed.
End Store.

(* ------------------------------------------------------------------ *)
(** * The text round trip of a tree assembled from lexable pieces *)

Definition strfy_branch (rec : node -> node) (b : branch) : branch :=
  (fst b, match snd b with TAtom a => TAtom (strfy_atom a) | TNode n' => TNode (rec n') end).
Fixpoint strfy_node (n : node) : node :=
  match n with Node v bs => Node v (map (strfy_branch strfy_node) bs) end.
Definition strfy_tree (t : tree) : tree := mkTree (strfy_node (troot t)) (tmeta t).

Lemma strfy_node_eq : forall v bs, strfy_node (Node v bs) = Node v (map (strfy_branch strfy_node) bs).
Proof. reflexivity. Qed.

Lemma strfy_branch_fst : forall b, fst (strfy_branch strfy_node b) = fst b.
Proof. reflexivity. Qed.

Lemma node_var_strfy : forall n, node_var (strfy_node n) = node_var n.
Proof. intros [v bs]. reflexivity. Qed.

Lemma akey_strfy : forall a, akey (strfy_atom a) = strfy_atom a.
Proof. intros [|s|t z]; reflexivity. Qed.
Lemma strfy_akey : forall a, strfy_atom (akey a) = strfy_atom a.
Proof. intros [|s|t z]; reflexivity. Qed.
Lemma strfy_var : forall a, lex_var a = true -> strfy_atom a = a /\ akey a = a.
Proof. intros [|s|t z] H; try discriminate. split; reflexivity. Qed.

Section Good.
  Variable m : model.
  Variable g : graph.

  Lemma good_node_eq : forall v bs,
    good_node m g (Node v bs) =
    lex_var v && is_var g v && forallb (good_branch m g (good_node m g)) bs && slash_only_first bs.
  Proof. reflexivity. Qed.

  Lemma lex_target_wf : forall a, lex_target g a = true ->
    wf_atom_target (TAtom (strfy_atom a)) = true /\
    process_atomic (strfy_atom a) = Ok (strfy_atom a, []).
  Proof.
    intros [|s|t z] H; simpl in *.
    - split; reflexivity.
    - split; [apply text_atom_text|apply text_process]; exact H.
    - apply andb_true_iff in H. destruct H as [H _].
      split; [apply symbol_atom_text|apply symbol_process]; exact H.
  Qed.

  (* ---- (a) the tree is well formed in the sense of C01 ---- *)
  Lemma good_wf : forall n, good_node m g n = true -> WellFormed.wf_node (strfy_node n) = true.
  Proof.
    induction n as [v bs IHbs] using node_ind'. intros G.
    rewrite good_node_eq in G. apply andb_true_iff in G. destruct G as [G G4].
    apply andb_true_iff in G. destruct G as [G G3]. apply andb_true_iff in G. destruct G as [G1 G2].
    destruct v as [|s|t z]; try discriminate. simpl in G1.
    rewrite strfy_node_eq. rewrite Roundtrip_lemmas.wf_node_eq. rewrite G1. cbn [andb].
    apply andb_true_iff. split.
    - clear G4. induction IHbs as [|[r tgt] bs Hb F IH]; [reflexivity|].
      simpl in G3. apply andb_true_iff in G3. destruct G3 as [Gb G3].
      simpl map. simpl forallb. rewrite (IH G3), andb_true_r.
      unfold good_branch in Gb. cbn [fst snd] in Gb.
      unfold WellFormed.wf_branch, strfy_branch. cbn [fst snd].
      destruct (str_eqb r SLASHS) eqn:Sl.
      + destruct tgt as [a|n']; [|discriminate]. apply (lex_target_wf a Gb).
      + apply andb_true_iff in Gb. destruct Gb as [Gb Gt]. apply andb_true_iff in Gb. destruct Gb as [Gb _].
        apply andb_true_iff in Gb. destruct Gb as [Gr _].
        destruct (lex_role_facts r Gr) as (Wr & _). rewrite Wr. cbn [andb].
        destruct tgt as [a|n'].
        * apply (lex_target_wf a Gt).
        * unfold branch_ok in Hb. simpl in Hb. apply Hb. exact Gt.
    - destruct bs as [|b bs']; [reflexivity|]. simpl in *.
      rewrite forallb_forall in *. intros x Ix. apply in_map_iff in Ix. destruct Ix as (y & <- & Iy).
      unfold not_slash. rewrite strfy_branch_fst. apply G4. exact Iy.
  Qed.

  (* ---- (c) variables of the tree are not touched ---- *)
  Lemma bs_vars_strfy : forall bs,
    Forall (branch_ok (fun n => tree_vars (strfy_node n) = tree_vars n)) bs ->
    bs_vars (map (strfy_branch strfy_node) bs) = bs_vars bs.
  Proof.
    intros bs F. induction F as [|[r [a|n']] bs Hb F IH]; [reflexivity| |].
    - exact IH.
    - unfold bs_vars in *. simpl. rewrite IH. unfold branch_ok in Hb. simpl in Hb. rewrite Hb. reflexivity.
  Qed.

  Lemma tree_vars_strfy : forall n, tree_vars (strfy_node n) = tree_vars n.
  Proof.
    induction n as [v bs IHbs] using node_ind'.
    rewrite strfy_node_eq, !tree_vars_eq, (bs_vars_strfy bs IHbs). reflexivity.
  Qed.

  Lemma all_vars_strfy : forall n, node_all_vars (strfy_node n) = node_all_vars n.
  Proof.
    induction n as [v bs IHbs] using node_ind'.
    rewrite strfy_node_eq. cbn [node_all_vars]. f_equal.
    induction IHbs as [|[r [a|n']] bs Hb F IH]; [reflexivity| |].
    - exact IH.
    - simpl. rewrite IH. unfold branch_ok in Hb. simpl in Hb. rewrite Hb. reflexivity.
  Qed.

  (* ---- (b) the formatted text is the same ---- *)
  Definition vars_ok (vars : list atom) : Prop :=
    forall a, mem atom_eqb a vars = true -> lex_var a = true /\ is_var g a = true.

  Lemma mem_strfy : forall vars a, vars_ok vars -> lex_target g a = true ->
    mem atom_eqb (strfy_atom a) vars = mem atom_eqb a vars.
  Proof.
    intros vars [|s|t z] V L; try reflexivity. simpl strfy_atom.
    simpl in L. apply andb_true_iff in L. destruct L as [_ L]. apply negb_true_iff in L.
    destruct (mem atom_eqb (AStr t) vars) eqn:M1.
    - destruct (V _ M1) as [_ V1]. congruence.
    - destruct (mem atom_eqb (ANum t z) vars) eqn:M2; [|reflexivity].
      destruct (V _ M2) as [V2 _]. discriminate.
  Qed.

  Lemma format_good : forall indent vars, vars_ok vars ->
    forall n, good_node m g n = true ->
    forall column, format_node indent column vars (strfy_node n) = format_node indent column vars n.
  Proof.
    intros indent vars V. induction n as [v bs IHbs] using node_ind'. intros G column.
    rewrite good_node_eq in G. apply andb_true_iff in G. destruct G as [G _].
    apply andb_true_iff in G. destruct G as [_ G3].
    rewrite strfy_node_eq, !format_node_eq.
    destruct (falsy v); [reflexivity|].
    destruct bs as [|b0 bs0]; [reflexivity|].
    cbn [map]. cbv iota zeta.
    change (strfy_branch strfy_node b0 :: map (strfy_branch strfy_node) bs0)
      with (map (strfy_branch strfy_node) (b0 :: bs0)).
    set (fe := fmt_edge (fun col n => format_node indent col vars n) indent (node_column indent column v)).
    assert (GP : forall l, Forall (branch_ok (fun n => good_node m g n = true ->
                   forall column, format_node indent column vars (strfy_node n) = format_node indent column vars n)) l ->
                 forallb (good_branch m g (good_node m g)) l = true ->
                 forall c p, go_parts fe vars (map (strfy_branch strfy_node) l) c p = go_parts fe vars l c p).
    { intros l F. induction F as [|[r tgt] l Hb F IH]; intros Gl c p; [reflexivity|].
      simpl in Gl. apply andb_true_iff in Gl. destruct Gl as [Gb Gl].
      simpl map.
      unfold good_branch in Gb. cbn [fst snd] in Gb.
      assert (Gt : match tgt with TAtom a => lex_target g a = true | TNode n' => good_node m g n' = true end).
      { destruct (str_eqb r SLASHS).
        - destruct tgt; [exact Gb|discriminate].
        - apply andb_true_iff in Gb. destruct Gb as [_ Gt]. destruct tgt; exact Gt. }
      destruct tgt as [a|n'].
      - change (strfy_branch strfy_node (r, TAtom a)) with (r, TAtom (strfy_atom a)).
        cbn [go_parts fst snd].
        rewrite (mem_strfy vars a V Gt).
        assert (FE : fe (r, TAtom (strfy_atom a)) = fe (r, TAtom a)).
        { unfold fe, fmt_edge. cbn [fst snd]. destruct a as [|s|t z]; try reflexivity.
          simpl in Gt. apply andb_true_iff in Gt. destruct Gt as [Gt _].
          destruct t as [|c0 t]; [discriminate|]. reflexivity. }
        rewrite FE. apply IH. exact Gl.
      - change (strfy_branch strfy_node (r, TNode n')) with (r, TNode (strfy_node n')).
        cbn [go_parts fst snd].
        assert (FE : fe (r, TNode (strfy_node n')) = fe (r, TNode n')).
        { unfold fe, fmt_edge. cbn [fst snd]. unfold branch_ok in Hb. simpl in Hb.
          rewrite (Hb Gt). reflexivity. }
        rewrite FE. apply IH. exact Gl. }
    rewrite (GP (b0 :: bs0) IHbs G3). reflexivity.
  Qed.

  (* ---- (d) interpretation ---- *)
  Lemma good_node_ok : forall n, good_node m g n = true -> node_ok (strfy_node n) = true.
  Proof.
    induction n as [v bs IHbs] using node_ind'. intros G.
    rewrite good_node_eq in G. apply andb_true_iff in G. destruct G as [G _].
    apply andb_true_iff in G. destruct G as [_ G3].
    rewrite strfy_node_eq, node_ok_eq.
    induction IHbs as [|[r tgt] bs Hb F IH]; [reflexivity|].
    simpl in G3. apply andb_true_iff in G3. destruct G3 as [Gb G3].
    simpl map. simpl forallb. rewrite (IH G3), andb_true_r.
    unfold good_branch in Gb. cbn [fst snd] in Gb.
    unfold branch_okb, strfy_branch. cbn [fst snd].
    destruct (str_eqb r SLASHS) eqn:Sl.
    - apply str_eqb_eq in Sl. subst r. destruct tgt as [a|n']; [|discriminate].
      change (is_ok (process_role SLASHS)) with true. cbn [andb target_ok].
      destruct (lex_target_wf a Gb) as [_ P]. rewrite P. reflexivity.
    - apply andb_true_iff in Gb. destruct Gb as [Gb Gt]. apply andb_true_iff in Gb. destruct Gb as [Gb _].
      apply andb_true_iff in Gb. destruct Gb as [Gr _].
      destruct (lex_role_facts r Gr) as (_ & Pr & _). rewrite Pr. cbn [is_ok andb].
      destruct tgt as [a|n']; cbn [target_ok].
      + destruct (lex_target_wf a Gt) as [_ P]. rewrite P. reflexivity.
      + unfold branch_ok in Hb. simpl in Hb. apply Hb. exact Gt.
  Qed.
End Good.

(* ------------------------------------------------------------------ *)
(** * What interpret reads off the re-parsed tree *)

Lemma deinvert_stable : forall m s r t, role_stable m r = true ->
  deinvert m (deinvert m (s, r, t)) = deinvert m (s, r, t).
Proof.
  intros m s r t St. rewrite (deinvert_eq m s r t).
  destruct (deinverts m && is_role_inverted m r) eqn:C.
  - rewrite deinvert_eq. apply andb_true_iff in C. destruct C as [C1 C2].
    unfold role_stable in St. rewrite C2 in St. simpl in St. apply negb_true_iff in St.
    rewrite St, andb_false_r. reflexivity.
  - rewrite deinvert_eq, C. reflexivity.
Qed.

Lemma strfy_tkey_deinvert : forall m s r t,
  strfy_triple (tkey (deinvert m (s, r, t))) = tkey (deinvert m (strfy_atom s, r, strfy_atom t)).
Proof.
  intros m s r t. rewrite !deinvert_eq.
  destruct (deinverts m && is_role_inverted m r); unfold tkey, strfy_triple, tsrc, trole, ttgt; cbn [fst snd];
    rewrite !strfy_akey, !akey_strfy; reflexivity.
Qed.

Section Read.
  Variable m : model.
  Variable g : graph.
  Variable vars : list atom.

  Definition kap (t : triple) : triple := tkey (deinvert m t).
  Definition tau (b : triple) : triple := strfy_triple (tkey (deinvert m (unslash b))).
  Definition synth (v : atom) : triple := (v, INSTANCE, ANone).

  Lemma role_name_lex : forall r, lex_role r = true -> role_name r = r.
  Proof. intros r L. destruct (lex_role_facts r L) as (_ & P & _). unfold role_name, proc_role. rewrite P. reflexivity. Qed.

  Lemma atom_name_lex : forall a, lex_target g a = true -> atom_name (strfy_atom a) = strfy_atom a.
  Proof.
    intros a L. destruct (lex_target_wf g a L) as [_ P]. unfold atom_name, proc_atom. rewrite P. reflexivity.
  Qed.

  Lemma tau_plain : forall v r a, lex_var v = true -> str_eqb r SLASHS = false ->
    tau (akey v, r, akey a) = tkey (deinvert m (v, r, strfy_atom a)).
  Proof.
    intros v r a Lv NS. unfold tau, unslash. change (trole (akey v, r, akey a)) with r. rewrite NS.
    rewrite tkey_deinvert_keys, strfy_tkey_deinvert. destruct (strfy_var v Lv) as [-> _]. reflexivity.
  Qed.

  Lemma own_atom : forall v r a, lex_var v = true -> lex_role r = true -> role_stable m r = true ->
    lex_target g a = true ->
    kap (atom_triple m vars v (role_name r) (atom_name (strfy_atom a))) = tau (akey v, r, akey a).
  Proof.
    intros v r a Lv Lr St La. rewrite (role_name_lex r Lr), (atom_name_lex a La).
    destruct (lex_role_facts r Lr) as (_ & _ & NS & _).
    rewrite (tau_plain v r a Lv NS). unfold kap, atom_triple.
    destruct (is_role_inverted m r && mem atom_eqb (strfy_atom a) vars); [|reflexivity].
    rewrite deinvert_stable by exact St. reflexivity.
  Qed.

  Lemma own_node : forall v r v1, lex_var v = true -> lex_role r = true -> role_stable m r = true ->
    lex_var v1 = true ->
    kap (deinvert m (v, role_name r, v1)) = tau (akey v, r, akey v1).
  Proof.
    intros v r v1 Lv Lr St L1. rewrite (role_name_lex r Lr).
    destruct (lex_role_facts r Lr) as (_ & _ & NS & _).
    rewrite (tau_plain v r v1 Lv NS). destruct (strfy_var v1 L1) as [-> _].
    unfold kap. rewrite deinvert_stable by exact St. reflexivity.
  Qed.

  Lemma own_slash : forall v a, lex_var v = true -> lex_target g a = true ->
    kap (atom_triple m vars v (role_name SLASHS) (atom_name (strfy_atom a))) = tau (akey v, SLASHS, akey a).
  Proof.
    intros v a Lv La. rewrite (atom_name_lex a La). change (role_name SLASHS) with INSTANCE.
    unfold atom_triple. rewrite instance_not_inverted. cbn [andb].
    unfold kap, tau, unslash. change (trole (akey v, SLASHS, akey a)) with SLASHS.
    replace (str_eqb SLASHS SLASHS) with true by reflexivity.
    change (tsrc (akey v, SLASHS, akey a)) with (akey v). change (ttgt (akey v, SLASHS, akey a)) with (akey a).
    rewrite tkey_deinvert_keys, strfy_tkey_deinvert. destruct (strfy_var v Lv) as [-> _]. reflexivity.
  Qed.

  Definition sb := strfy_branch strfy_node.

  Definition Eperm (n : node) : Prop :=
    good_node m g n = true ->
    Permutation (map kap (map fst (entries m vars (strfy_node n))))
                (map synth (cless n) ++ map tau (node_branch_triples n)).

  Lemma good_node_var : forall n, good_node m g n = true -> lex_var (node_var n) = true.
  Proof.
    intros [v bs] G. rewrite good_node_eq in G. apply andb_true_iff in G. destruct G as [G _].
    apply andb_true_iff in G. destruct G as [G _]. apply andb_true_iff in G. tauto.
  Qed.

  Lemma has_concept_good : forall bs, forallb (good_branch m g (good_node m g)) bs = true ->
    has_concept (map sb bs) = has_slash bs.
  Proof.
    induction bs as [|[r tgt] bs IH]; intros G; [reflexivity|].
    simpl in G. apply andb_true_iff in G. destruct G as [Gb G].
    simpl map. rewrite has_concept_cons. unfold has_slash in *. cbn [existsb]. rewrite (IH G).
    f_equal. cbn [fst sb strfy_branch].
    unfold good_branch in Gb. cbn [fst snd] in Gb.
    destruct (str_eqb r SLASHS) eqn:Sl.
    - apply str_eqb_eq in Sl. subst r. reflexivity.
    - apply andb_true_iff in Gb. destruct Gb as [Gb _]. apply andb_true_iff in Gb. destruct Gb as [Gb _].
      apply andb_true_iff in Gb. destruct Gb as [Gr Gi]. rewrite (role_name_lex r Gr).
      apply negb_true_iff in Gi. exact Gi.
  Qed.

  Lemma Eperm_bs : forall v bs, lex_var v = true -> Forall (branch_ok Eperm) bs ->
    forallb (good_branch m g (good_node m g)) bs = true ->
    Permutation (map kap (map fst (entries_bs m vars v (map sb bs))))
                (map synth (flat_map branch_cless bs) ++ map tau (flat_map (branch_reads v) bs)).
  Proof.
    intros v bs Lv F. induction F as [|[r tgt] bs Hb F IH]; intros G; [constructor|].
    simpl in G. apply andb_true_iff in G. destruct G as [Gb G]. specialize (IH G).
    unfold good_branch in Gb. cbn [fst snd] in Gb.
    destruct tgt as [a|n1].
    - change (map sb ((r, TAtom a) :: bs)) with ((r, TAtom (strfy_atom a)) :: map sb bs).
      rewrite entries_bs_atom. cbn [map flat_map fst]. unfold branch_cless at 1. cbn [snd app].
      unfold branch_reads at 1. cbn [fst snd target_atom app map].
      assert (HE : kap (atom_triple m vars v (role_name r) (atom_name (strfy_atom a))) = tau (akey v, r, akey a)).
      { destruct (str_eqb r SLASHS) eqn:Sl.
        - apply str_eqb_eq in Sl. subst r. apply own_slash; assumption.
        - apply andb_true_iff in Gb. destruct Gb as [Gb Gt]. apply andb_true_iff in Gb. destruct Gb as [Gb Gs].
          apply andb_true_iff in Gb. destruct Gb as [Gr _]. apply own_atom; assumption. }
      rewrite HE. apply Permutation_cons_app. exact IH.
    - change (map sb ((r, TNode n1) :: bs)) with ((r, TNode (strfy_node n1)) :: map sb bs).
      rewrite entries_bs_node. cbn [map flat_map fst].
      rewrite !map_app, map_fst_add_pop_last. unfold branch_cless at 1. cbn [snd].
      unfold branch_reads at 1. cbn [fst snd target_atom]. rewrite ?map_app. cbn [map].
      rewrite node_var_strfy.
      destruct (str_eqb r SLASHS) eqn:Sl; [discriminate|].
      apply andb_true_iff in Gb. destruct Gb as [Gb Gt]. apply andb_true_iff in Gb. destruct Gb as [Gb Gs].
      apply andb_true_iff in Gb. destruct Gb as [Gr _].
      rewrite (own_node v r (node_var n1) Lv Gr Gs (good_node_var n1 Gt)).
      unfold branch_ok in Hb. simpl in Hb. specialize (Hb Gt).
      set (h := tau (akey v, r, akey (node_var n1))).
      eapply perm_trans.
      { apply perm_skip. apply Permutation_app; [exact Hb|exact IH]. }
      change (h :: ?x) with ([h] ++ x).
      rewrite <- !app_assoc.
      set (A := map synth (cless n1)). set (B := map tau (node_branch_triples n1)).
      set (C := map synth (flat_map branch_cless bs)). set (D := map tau (flat_map (branch_reads v) bs)).
      change ((h :: B) ++ D) with ([h] ++ B ++ D).
      psolve.
  Qed.

  Theorem Eperm_all : forall n, Eperm n.
  Proof.
    induction n as [v bs IHbs] using node_ind'. intros G.
    assert (G' := G). rewrite good_node_eq in G'. apply andb_true_iff in G'. destruct G' as [G' G4].
    apply andb_true_iff in G'. destruct G' as [G' G3]. apply andb_true_iff in G'. destruct G' as [G1 G2].
    rewrite strfy_node_eq, entries_eq. fold sb. rewrite (has_concept_good bs G3).
    cbn [cless node_branch_triples].
    change (flat_map (fun b : branch => match snd b with TNode n' => cless n' | TAtom _ => [] end) bs)
      with (flat_map branch_cless bs).
    change (flat_map (fun b : branch => (akey v, fst b, akey (target_atom (snd b)))
              :: match snd b with TNode n' => node_branch_triples n' | TAtom _ => [] end) bs)
      with (flat_map (branch_reads v) bs).
    pose proof (Eperm_bs v bs G1 IHbs G3) as P.
    destruct (has_slash bs).
    - cbn [app]. exact P.
    - cbn [app map fst].
      destruct (strfy_var v G1) as [_ Kv].
      assert (HS : kap (v, INSTANCE, ANone) = synth v).
      { unfold kap, synth. rewrite deinvert_eq, instance_not_inverted, andb_false_r.
        unfold tkey, tsrc, trole, ttgt. cbn [fst snd]. rewrite Kv. reflexivity. }
      rewrite HS. apply perm_skip. exact P.
  Qed.
End Read.

(* ------------------------------------------------------------------ *)
(** * Assembly *)

Lemma mem_in_eqb : forall a l, mem atom_eqb a l = true <-> exists x, In x l /\ atom_eqb a x = true.
Proof. intros. unfold mem. apply existsb_exists. Qed.

Lemma mem_perm : forall a l l', Permutation l l' -> mem atom_eqb a l = mem atom_eqb a l'.
Proof.
  intros a l l' P. destruct (mem atom_eqb a l) eqn:M; symmetry.
  - apply mem_in_eqb in M. destruct M as (x & Ix & E). apply mem_in_eqb. exists x. split; [|exact E].
    eapply Permutation_in; eassumption.
  - destruct (mem atom_eqb a l') eqn:M'; [|reflexivity].
    apply mem_in_eqb in M'. destruct M' as (x & Ix & E).
    assert (T : mem atom_eqb a l = true); [|congruence].
    apply mem_in_eqb. exists x. split; [|exact E].
    eapply Permutation_in; [apply Permutation_sym; eassumption|exact Ix].
Qed.

Lemma filter_split_perm : forall {A} (p : A -> bool) l,
  Permutation l (filter p l ++ filter (fun x => negb (p x)) l).
Proof.
  intros A p. induction l as [|x l IH]; [constructor|].
  simpl. destruct (p x); simpl.
  - constructor. exact IH.
  - apply Permutation_cons_app. exact IH.
Qed.

Section Assembly.
  Variable m : model.
  Variable g : graph.

  Lemma good_tree_vars : forall n, good_node m g n = true ->
    forall a, In a (tree_vars n) -> lex_var a = true /\ is_var g a = true.
  Proof.
    induction n as [v bs IHbs] using node_ind'. intros G a Ia.
    rewrite good_node_eq in G. apply andb_true_iff in G. destruct G as [G _].
    apply andb_true_iff in G. destruct G as [G G3]. apply andb_true_iff in G. destruct G as [G1 G2].
    rewrite tree_vars_eq in Ia. apply in_app_or in Ia. destruct Ia as [Ia|Ia].
    - destruct v; try discriminate. destruct Ia as [<-|[]]. auto.
    - clear G1 G2. unfold bs_vars in Ia. apply in_flat_map in Ia. destruct Ia as ([r tgt] & Ib & Ia).
      rewrite Forall_forall in IHbs. specialize (IHbs _ Ib).
      rewrite forallb_forall in G3. specialize (G3 _ Ib).
      destruct tgt as [x|n']; [contradiction|]. simpl in Ia.
      unfold branch_ok in IHbs. simpl in IHbs. apply IHbs; [|exact Ia].
      unfold good_branch in G3. cbn [fst snd] in G3.
      destruct (str_eqb r SLASHS); [discriminate|]. apply andb_true_iff in G3. tauto.
  Qed.

  Lemma good_vars_ok : forall n, good_node m g n = true -> vars_ok g (dedup atom_eqb (tree_vars n)).
  Proof.
    intros n G a M. rewrite mem_dedup in M. apply mem_in_eqb in M. destruct M as (x & Ix & E).
    destruct (good_tree_vars n G x Ix) as [L V].
    rewrite atom_eqb_sym in E. pose proof (astr_eqb_eq _ _ L E). subst x. auto.
  Qed.

  (* the roles interpret reads carry their colon *)
  Lemma deinvert_colon : forall s r t, startswith r [COLON] = true ->
    colon_triple (deinvert m (s, r, t)) = true.
  Proof.
    intros s r t C. rewrite deinvert_eq. unfold colon_triple.
    destruct (deinverts m && is_role_inverted m r); [apply colon_invert_role|]; exact C.
  Qed.

  Lemma colon_good : forall vars n, good_node m g n = true ->
    forallb colon_triple (map fst (entries m vars (strfy_node n))) = true.
  Proof.
    intros vars. induction n as [v bs IHbs] using node_ind'. intros G.
    rewrite good_node_eq in G. apply andb_true_iff in G. destruct G as [G _].
    apply andb_true_iff in G. destruct G as [_ G3].
    rewrite strfy_node_eq, entries_eq.
    assert (B : forallb colon_triple (map fst (entries_bs m vars v (map (strfy_branch strfy_node) bs))) = true).
    { induction IHbs as [|[r tgt] bs Hb F IH]; [reflexivity|].
      simpl in G3. apply andb_true_iff in G3. destruct G3 as [Gb G3]. specialize (IH G3).
      unfold good_branch in Gb. cbn [fst snd] in Gb.
      assert (RC : startswith (role_name r) [COLON] = true).
      { destruct (str_eqb r SLASHS) eqn:Sl.
        - apply str_eqb_eq in Sl. subst r. reflexivity.
        - apply andb_true_iff in Gb. destruct Gb as [Gb _]. apply andb_true_iff in Gb. destruct Gb as [Gb _].
          apply andb_true_iff in Gb. destruct Gb as [Gr _]. rewrite (role_name_lex r Gr).
          apply (lex_role_facts r Gr). }
      destruct tgt as [a|n'].
      - change (map (strfy_branch strfy_node) ((r, TAtom a) :: bs))
          with ((r, TAtom (strfy_atom a)) :: map (strfy_branch strfy_node) bs).
        rewrite entries_bs_atom. rewrite map_cons, forallb_cons. apply andb_true_iff. split; [|exact IH].
        cbn [fst]. unfold atom_triple.
        destruct (is_role_inverted m (role_name r) && mem atom_eqb (atom_name (strfy_atom a)) vars);
          [apply deinvert_colon|]; exact RC.
      - change (map (strfy_branch strfy_node) ((r, TNode n') :: bs))
          with ((r, TNode (strfy_node n')) :: map (strfy_branch strfy_node) bs).
        rewrite entries_bs_node. rewrite map_cons, map_app, map_fst_add_pop_last, forallb_cons, forallb_app.
        apply andb_true_iff. split; [cbn [fst]; apply deinvert_colon; exact RC|].
        apply andb_true_iff. split; [|exact IH].
        unfold branch_ok in Hb. simpl in Hb. apply Hb.
        destruct (str_eqb r SLASHS); [discriminate|]. apply andb_true_iff in Gb. tauto. }
    destruct (has_concept (map (strfy_branch strfy_node) bs)); [exact B|].
    rewrite map_cons, forallb_cons. apply andb_true_iff. split; [reflexivity|exact B].
  Qed.

  Hypothesis Wg : wf_graph m g.
  Hypothesis Lg : atoms_lexable g = true.
  Hypothesis Mg : wf_meta (gmeta g) = true.
  Hypothesis Dm : deinverts m = true.
  Hypothesis LO : layout_only g.
  Hypothesis PV : pushes_name_variables g.

  Lemma srcs_textual : map tsrc (map strfy_triple (triples g)) = map tsrc (triples g).
  Proof.
    rewrite map_map. apply map_ext_in. intros x Ix.
    unfold atoms_lexable in Lg. rewrite forallb_forall in Lg. specialize (Lg x Ix).
    apply andb_true_iff in Lg. destruct Lg as [H _]. apply andb_true_iff in H. destruct H as [H _].
    unfold strfy_triple. cbn [tsrc fst]. apply (strfy_var _ H).
  Qed.

  Lemma mem_sources : forall a, mem atom_eqb a (map tsrc (triples g)) = is_var g a.
  Proof.
    intros a. destruct (is_var g a) eqn:V.
    - destruct (wf_var_is_source m g a Wg V) as (x & Ix & _ & E).
      apply mem_in_eqb. exists (tsrc x). split; [apply in_map; exact Ix|]. rewrite atom_eqb_sym. exact E.
    - destruct (mem atom_eqb a (map tsrc (triples g))) eqn:M; [|reflexivity].
      apply mem_in_eqb in M. destruct M as (s & Is & E). apply in_map_iff in Is.
      destruct Is as (x & <- & Ix). rewrite (is_var_cong g _ _ E), (src_is_var g x Ix) in V. discriminate.
  Qed.

  Theorem roundtrip_core : forall top tp i c,
    requested_top g top = Some tp -> connected g tp ->
    exists s t, encode_top m i c g top = Ok s /\ parse s = Ok t /\
      exists g', interpret m t = Ok g' /\ graph_eq m g' (retop (textual g) tp).
  Proof.
    intros top tp i c RT Conn.
    pose proof (wf_nonempty m g Wg) as NE. pose proof (wf_roles m g Wg) as RC.
    pose proof (wf_invertible m g Wg) as RI.
    destruct (configure_complete m g top tp RT Conn (wf_named m g Wg) RI RC PV) as [t0 E].
    destruct (configure_structure m g top t0 E NE RC LO PV)
      as (tp' & st & nm & RT' & Et & Wst & Hroot & Est & Vst & Sst & Own & os & Fos & Pos).
    assert (Etp : tp' = tp) by (rewrite RT in RT'; inversion RT'; reflexivity).
    rewrite Etp in Hroot. clear Etp RT' tp'.
    set (root := build (S (length st)) st 0) in *.
    destruct (tree_of_store st nm Wst Est) as (PT & PVars & HV). fold root in PT, PVars, HV.
    pose proof (wf_pos _ _ _ Wst) as Lpos.
    assert (Good : good_node m g root = true).
    { eapply (build_good m g Wg Lg st nm os); try eassumption; lia. }
    assert (Ltp : lex_var tp = true).
    { rewrite <- Hroot, <- HV. apply (good_node_var m g root Good). }
    (* the text *)
    assert (Fmt : format i c t0 = format i c (strfy_tree t0)).
    { subst t0. unfold format, strfy_tree. cbn [troot tmeta]. rewrite tree_vars_strfy.
      f_equal. f_equal. f_equal. symmetry. apply (format_good m g); [|exact Good].
      destruct c; [apply good_vars_ok; exact Good|]. intros a M. discriminate. }
    assert (WT : WellFormed.wf_tree (strfy_tree t0) = true).
    { subst t0. unfold WellFormed.wf_tree, strfy_tree. cbn [troot tmeta]. rewrite Mg. cbn [andb].
      apply (good_wf m g). exact Good. }
    exists (format i c t0), (strfy_tree t0).
    split; [unfold encode_top; rewrite E; reflexivity|].
    split; [rewrite Fmt; apply parse_format_roundtrip; exact WT|].
    (* the graph read back *)
    set (vars := tree_vars (strfy_node root)).
    set (es := entries m vars (strfy_node root)).
    assert (IN : interp_node m vars (strfy_node root) = Ok (map fst es, es)).
    { apply (Configure_fast.interp_node_spec m vars (strfy_node root)). apply (good_node_ok m g). exact Good. }
    assert (TopE : (match node_var (strfy_node root) with ANone => None | v => Some v end) = Some tp).
    { rewrite node_var_strfy, HV, Hroot. destruct tp; try discriminate; reflexivity. }
    set (g' := mk_graph (map fst es) (Some tp) (epimap_of es) (gmeta g)).
    assert (INT : interpret m (strfy_tree t0) = Ok g').
    { subst t0. unfold interpret, strfy_tree. cbn [troot tmeta]. fold vars. rewrite IN.
      cbn [bind]. rewrite TopE. reflexivity. }
    exists g'. split; [exact INT|].
    assert (TS : triples g' = map fst es).
    { apply mk_graph_triples_id. apply colon_good. exact Good. }
    split; [|split].
    - (* same top *) reflexivity.
    - (* same variables *)
      intros a.
      assert (L : mem atom_eqb a (variables g') = is_var g a).
      { destruct (interpret_is_reading m (strfy_tree t0)) as [(r & g0 & Rd & I0 & Ag)|[[_ F]|[_ F]]];
          try (rewrite INT in F; discriminate).
        rewrite INT in I0. inversion I0; subst g0.
        destruct Ag as (_ & _ & Av & _). rewrite Av.
        unfold reading in Rd. destruct (surface_check (troot (strfy_tree t0))); try discriminate.
        cbn [bind] in Rd. inversion Rd; subst r. cbn [r_vars reading_of].
        subst t0. unfold strfy_tree. cbn [troot].
        change (all_node_vars (strfy_node root)) with (node_all_vars (strfy_node root)).
        rewrite all_vars_strfy, (mem_perm _ _ _ PVars).
        destruct (is_var g a) eqn:V.
        - destruct (wf_var_is_source m g a Wg V) as (x & Ix & Hi & Ex).
          destruct (Own x Ix Hi) as (k & w & esw & Gk & Ew).
          apply mem_in_eqb. exists w. split.
          + apply in_map_iff. exists (w, esw). split; [reflexivity|]. eapply nth_error_In; exact Gk.
          + eapply atom_eqb_trans; [|exact Ew]. rewrite atom_eqb_sym. exact Ex.
        - destruct (mem atom_eqb a (map fst st)) eqn:M; [|reflexivity].
          apply mem_in_eqb in M. destruct M as (w & Iw & Ew). apply in_map_iff in Iw.
          destruct Iw as ([w' esw] & <- & Iw). cbn [fst] in Ew.
          rewrite (is_var_cong g _ _ Ew), (Vst _ _ Iw) in V. discriminate. }
      rewrite L. unfold variables, retop, textual. cbn [triples gtop].
      rewrite mem_dedup, mem_app, srcs_textual, mem_sources.
      destruct (is_var g a) eqn:V; [reflexivity|]. cbn [orb mem existsb]. rewrite orb_false_r.
      destruct (atom_eqb a tp) eqn:Et'; [|reflexivity].
      destruct Conn as [Vtp _]. rewrite (is_var_cong g _ _ Et'), Vtp in V. discriminate.
    - (* same triples *)
      rewrite TS. unfold retop, textual. cbn [triples].
      change (fun t : triple => tkey (deinvert m t)) with (kap m).
      pose proof (Eperm_all m g vars root Good) as P1. fold es in P1.
      eapply perm_trans; [exact P1|].
      (* the tree side *)
      assert (Pc : Permutation (cless root) (map tsrc (filter unwritten (triples g)))).
      { eapply perm_trans; [apply (tree_cless st nm Wst Est)|].
        apply (cless_match m g Wg Lg st nm os); assumption. }
      assert (Pt : Permutation (map (tau m) (node_branch_triples root))
                               (map strfy_triple (graph_content m g))).
      { pose proof (configure_content_deinverted_spec m g top t0 E NE RC LO Dm RI) as Pcd.
        subst t0. unfold tree_triples in Pcd. cbn [troot] in Pcd. fold root in Pcd.
        unfold tree_content in Pcd. apply (Permutation_map strfy_triple) in Pcd.
        rewrite map_map in Pcd. exact Pcd. }
      eapply perm_trans; [apply Permutation_app; [apply Permutation_map; exact Pc|exact Pt]|].
      (* the graph side *)
      eapply perm_trans; [apply Permutation_app_comm|]. apply Permutation_sym.
      eapply perm_trans; [apply Permutation_map, Permutation_map, (filter_split_perm is_written)|].
      rewrite !map_app. apply Permutation_app.
      + unfold graph_content. rewrite !map_map. apply Permutation_refl'. apply map_ext.
        intros [[s r] t]. unfold kap, strfy_triple at 1. cbn [tsrc trole ttgt fst snd].
        symmetry. apply strfy_tkey_deinvert.
      + rewrite !map_map. apply Permutation_refl'. apply map_ext_in. intros x Ix.
        apply filter_In in Ix. destruct Ix as [Ix U].
        destruct (unwritten_shape g Lg x Ix U) as (_ & s & ->).
        unfold kap, synth, strfy_triple. cbn [tsrc trole ttgt fst snd strfy_atom].
        rewrite deinvert_eq, instance_not_inverted, andb_false_r. reflexivity.
  Qed.
End Assembly.


(* ------------------------------------------------------------------ *)
(** * The end-to-end statements of C03 *)

(* tree level: encode succeeds, the text parses, the parsed tree interprets to
   a graph with the content of [g] (numbers read back as their text) *)
Theorem e2e_c03_roundtrip : forall m g top tp i c,
  wf_graph m g -> requested_top g top = Some tp -> connected g tp ->
  layout_only g -> pushes_name_variables g -> deinverts m = true ->
  atoms_lexable g = true -> wf_meta (gmeta g) = true ->
  exists s t, encode_top m i c g top = Ok s /\ parse s = Ok t /\
    exists g', interpret m t = Ok g' /\ graph_eq m g' (retop (textual g) tp).
Proof.
  intros m g top tp i c W RT Cn LO PV Dm Lg Mg.
  exact (roundtrip_core m g W Lg Mg Dm LO PV top tp i c RT Cn).
Qed.

(* codec level *)
Theorem e2e_c03_decode_encode : forall m g top tp i c,
  wf_graph m g -> requested_top g top = Some tp -> connected g tp ->
  layout_only g -> pushes_name_variables g -> deinverts m = true ->
  atoms_lexable g = true -> wf_meta (gmeta g) = true ->
  exists s g', encode_top m i c g top = Ok s /\ decode m s = Ok g' /\
    graph_eq m g' (retop (textual g) tp).
Proof.
  intros m g top tp i c W RT Cn LO PV Dm Lg Mg.
  destruct (e2e_c03_roundtrip m g top tp i c W RT Cn LO PV Dm Lg Mg) as (s & t & E & P & g' & I & Q).
  exists s, g'. split; [exact E|]. split; [|exact Q]. unfold decode. rewrite P. exact I.
Qed.

(* graphs without numeric targets come back literally (up to deinversion) *)
Definition no_number_targets (g : graph) : bool :=
  forallb (fun t => match ttgt t with ANum _ _ => false | _ => true end) (triples g).

Lemma textual_id : forall g, atoms_lexable g = true -> no_number_targets g = true -> textual g = g.
Proof.
  intros [ts tp ed md] L N. unfold textual. cbn [triples gtop epidata gmeta]. f_equal.
  unfold atoms_lexable, no_number_targets in *. cbn [triples] in *.
  rewrite forallb_forall in L, N.
  rewrite <- (map_id ts) at 2. apply map_ext_in. intros [[s r] t] I.
  specialize (L _ I). specialize (N _ I). cbn [tsrc trole ttgt fst snd] in *.
  apply andb_true_iff in L. destruct L as [L _]. apply andb_true_iff in L. destruct L as [L _].
  unfold strfy_triple. cbn [tsrc trole ttgt fst snd].
  destruct (strfy_var s L) as [-> _]. destruct t; try discriminate; reflexivity.
Qed.

Theorem e2e_c03_roundtrip_no_numbers : forall m g top tp i c,
  wf_graph m g -> requested_top g top = Some tp -> connected g tp ->
  layout_only g -> pushes_name_variables g -> deinverts m = true ->
  atoms_lexable g = true -> wf_meta (gmeta g) = true -> no_number_targets g = true ->
  exists s g', encode_top m i c g top = Ok s /\ decode m s = Ok g' /\ graph_eq m g' (retop g tp).
Proof.
  intros m g top tp i c W RT Cn LO PV Dm Lg Mg NN.
  destruct (e2e_c03_decode_encode m g top tp i c W RT Cn LO PV Dm Lg Mg) as (s & g' & E & D & Q).
  rewrite (textual_id g Lg NN) in Q. eauto.
Qed.

Require Import Coq.Strings.String.

(* non-vacuity: a text with an empty concept slot, an inverted re-entrancy, a
   zero, and a quoted string carrying a tilde and an alignment *)
Definition e2e_c02_text : str :=
  s2l "(a / x :ARG0 (b /) :ARG1-of b :quant 0 :mod ""s~t""~e.1)".
Example e2e_c02_nonvacuous :
  exists t, parse e2e_c02_text = Ok t /\ WfLayout.wf_layout_tree default_model t = true /\
    drop_empty_concepts t <> t /\
    exists g, decode default_model e2e_c02_text = Ok g /\
      encode default_model (Some 2%Z) false g =
      Ok (s2l "(a / x
  :ARG0 (b)
  :ARG1-of b
  :quant 0
  :mod ""s~t""~e.1)").
Proof.
  eexists. split; [vm_compute; reflexivity|]. split; [vm_compute; reflexivity|].
  split; [vm_compute; discriminate|]. eexists. split; vm_compute; reflexivity.
Qed.

(* non-vacuity of Part 2: a graph with a stale Push marker, a POP, a node
   without concept, a zero and an inverted attribute satisfies every hypothesis,
   from both tops; the conclusion is also computed *)
Definition e2e_graph : graph :=
  mkGraph [tr "a" ":instance" "x"; tr "a" ":ARG0" "b"; (sym "b", INSTANCE, ANone); tr "b" ":ARG1" "a";
           (sym "a", s2l ":quant", ANum (s2l "0") true); tr "a" ":polarity-of" "-"]
          None
          [(tr "a" ":ARG0" "b", [Push (sym "b")]); (tr "b" ":ARG1" "a", [Pop])] [].

Lemma e2e_graph_vars : forall v, is_var e2e_graph v = true ->
  atom_eqb v (sym "a") = true \/ atom_eqb v (sym "b") = true.
Proof.
  intros v Hv. destruct (is_var_exists _ _ Hv) as (u & Iu & E). vm_compute in Iu.
  destruct Iu as [<-|[<-|[]]]; auto.
Qed.

Example e2e_graph_hypotheses :
  wf_graph default_model e2e_graph /\
  connected e2e_graph (sym "a") /\ connected e2e_graph (sym "b") /\
  layout_only e2e_graph /\ pushes_name_variables e2e_graph /\ deinverts default_model = true /\
  atoms_lexable e2e_graph = true /\ wf_meta (gmeta e2e_graph) = true.
Proof.
  assert (L : link e2e_graph (sym "a") (sym "b")).
  { exists (tr "a" ":ARG0" "b"). split; [simpl; auto|]. split; [reflexivity|]. split; [reflexivity|].
    left. split; reflexivity. }
  assert (L' : link e2e_graph (sym "b") (sym "a")).
  { exists (tr "a" ":ARG0" "b"). split; [simpl; auto|]. split; [reflexivity|]. split; [reflexivity|].
    right. split; reflexivity. }
  split; [|split; [|split; [|split; [|split; [|split; [|split]]]]]]; try reflexivity.
  - constructor.
    + discriminate.
    + intros v Hv. destruct (e2e_graph_vars v Hv) as [E|E]; destruct v; try discriminate; reflexivity.
    + repeat constructor.
    + intros t H Hi. simpl in H.
      repeat (destruct H as [H|H]; [subst t; try discriminate Hi; vm_compute; auto|]). contradiction.
    + intros v Hv. destruct (e2e_graph_vars v Hv) as [E|E]; rewrite (instances_of_cong _ _ _ E); reflexivity.
    + vm_compute. repeat constructor; simpl; intuition discriminate.
  - split; [reflexivity|]. intros v Hv.
    destruct (e2e_graph_vars v Hv) as [E|E]; rewrite atom_eqb_sym in E.
    + apply reach_refl. exact E.
    + apply (reach_cong_r _ _ (sym "b")); [|exact E].
      apply (reach_step _ _ (sym "a") (sym "b")); [apply reach_refl; reflexivity|exact L].
  - split; [reflexivity|]. intros v Hv.
    destruct (e2e_graph_vars v Hv) as [E|E]; rewrite atom_eqb_sym in E.
    + apply (reach_cong_r _ _ (sym "a")); [|exact E].
      apply (reach_step _ _ (sym "b") (sym "a")); [apply reach_refl; reflexivity|exact L'].
    + apply reach_refl. exact E.
  - intros t es H. simpl in H.
    repeat (destruct H as [H|H]; [inversion H; reflexivity|]). contradiction.
  - intros t es pv I Ip. simpl in I.
    repeat (destruct I as [I|I]; [inversion I; subst; simpl in Ip;
            repeat (destruct Ip as [Ip|Ip]; [inversion Ip; reflexivity|]); try contradiction|]).
    contradiction.
Qed.

Example e2e_c03_nonvacuous :
  encode_top default_model (Some 2%Z) false e2e_graph (Some (sym "b")) =
    Ok (s2l "(b :ARG0-of (a / x
    :quant 0
    :polarity-of -)
  :ARG1 a)") /\
  exists g', decode default_model (s2l "(b :ARG0-of (a / x
    :quant 0
    :polarity-of -)
  :ARG1 a)") = Ok g' /\
    triples g' = [(sym "b", INSTANCE, ANone); tr "a" ":ARG0" "b"; tr "a" ":instance" "x";
                  tr "a" ":quant" "0"; tr "a" ":polarity-of" "-"; tr "b" ":ARG1" "a"] /\
    gtop g' = Some (sym "b").
Proof.
  split; [vm_compute; reflexivity|]. eexists. split; [vm_compute; reflexivity|].
  split; reflexivity.
Qed.

(* the F14 witness (stale Push b) from top b also satisfies the lexical hypotheses *)
Example e2e_c03_f14_lexable :
  atoms_lexable f14_graph = true /\ wf_meta (gmeta f14_graph) = true /\ no_number_targets f14_graph = true.
Proof. repeat split. Qed.

(* non-vacuity of Part 3 *)
Example e2e_c06_nonvacuous :
  (exists k, configure default_model e2e_graph (Some (sym "zz")) = LayoutErr k) /\
  is_var e2e_graph (sym "zz") = false /\
  (exists t, configure default_model e2e_graph (Some (sym "b")) = Ok t).
Proof.
  split; [exists 4%N; vm_compute; reflexivity|]. split; [reflexivity|].
  eexists. vm_compute. reflexivity.
Qed.

(* a disconnected graph: the witness triple, decided by [reach_decided] *)
Definition e2e_disconnected : graph :=
  mkGraph [tr "a" ":instance" "x"; tr "b" ":instance" "y"] None [] [].
Example e2e_c06_witness :
  (exists x, In x (triples e2e_disconnected) /\ ~ reach e2e_disconnected (sym "a") (tsrc x)) /\
  configure default_model e2e_disconnected None = LayoutErr 1.
Proof.
  split; [|vm_compute; reflexivity].
  exists (tr "b" ":instance" "y"). split; [simpl; auto|].
  intros R. apply reach_decided in R. vm_compute in R. discriminate.
Qed.
