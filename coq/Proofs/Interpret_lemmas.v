(** Proofs for C04: Impl.Interpret.interpret computes exactly Spec.Reading. *)
From PM Require Import Impl.Interpret Spec.Reading Proofs.Model_lemmas.
From Coq Require Import Lia.

Local Arguments eqc : simpl never.

(* ------------------------------------------------------------------ *)
(** * Equality tests are equivalences (numbers compare by text only, so
      [atom_eqb] is NOT Leibniz equality) *)

Lemma str_eqb_sym : forall a b, str_eqb a b = str_eqb b a.
Proof.
  intros a b. destruct (str_eqb a b) eqn:E.
  - apply str_eqb_eq in E. subst. symmetry. apply str_eqb_refl.
  - destruct (str_eqb b a) eqn:E2; [|reflexivity].
    apply str_eqb_eq in E2. subst. rewrite str_eqb_refl in E. discriminate.
Qed.

Lemma atom_eqb_refl : forall a, atom_eqb a a = true.
Proof. destruct a; simpl; auto using str_eqb_refl. Qed.

Lemma atom_eqb_sym : forall a b, atom_eqb a b = atom_eqb b a.
Proof. destruct a, b; simpl; auto using str_eqb_sym. Qed.

Lemma atom_eqb_trans : forall a b c,
  atom_eqb a b = true -> atom_eqb b c = true -> atom_eqb a c = true.
Proof.
  destruct a, b, c; simpl; intros E1 E2; try discriminate; auto;
    apply str_eqb_eq in E1; apply str_eqb_eq in E2; subst; apply str_eqb_refl.
Qed.

Lemma triple_eqb_refl : forall t, triple_eqb t t = true.
Proof.
  intros t. unfold triple_eqb. rewrite !atom_eqb_refl, str_eqb_refl. reflexivity.
Qed.

Lemma triple_eqb_sym : forall a b, triple_eqb a b = triple_eqb b a.
Proof.
  intros a b. unfold triple_eqb.
  rewrite (atom_eqb_sym (tsrc a)), (atom_eqb_sym (ttgt a)), (str_eqb_sym (trole a)).
  reflexivity.
Qed.

Lemma triple_eqb_parts : forall a b, triple_eqb a b = true <->
  atom_eqb (tsrc a) (tsrc b) = true /\ trole a = trole b /\ atom_eqb (ttgt a) (ttgt b) = true.
Proof.
  intros a b. unfold triple_eqb. rewrite !andb_true_iff, str_eqb_eq. tauto.
Qed.

Lemma triple_eqb_trans : forall a b c,
  triple_eqb a b = true -> triple_eqb b c = true -> triple_eqb a c = true.
Proof.
  intros a b c E1 E2. apply triple_eqb_parts in E1. apply triple_eqb_parts in E2.
  apply triple_eqb_parts. destruct E1 as (A1 & B1 & C1). destruct E2 as (A2 & B2 & C2).
  split; [eapply atom_eqb_trans; eauto|]. split; [congruence|].
  eapply atom_eqb_trans; eauto.
Qed.

(* equal-to-the-same are interchangeable on the right *)
Lemma triple_eqb_congr_r : forall a b c,
  triple_eqb b c = true -> triple_eqb a b = triple_eqb a c.
Proof.
  intros a b c E. destruct (triple_eqb a b) eqn:E1.
  - symmetry. eapply triple_eqb_trans; eauto.
  - destruct (triple_eqb a c) eqn:E2; [|reflexivity].
    rewrite triple_eqb_sym in E. rewrite (triple_eqb_trans _ _ _ E2 E) in E1. discriminate.
Qed.

Lemma atom_eqb_congr_r : forall a b c,
  atom_eqb b c = true -> atom_eqb a b = atom_eqb a c.
Proof.
  intros a b c E. destruct (atom_eqb a b) eqn:E1.
  - symmetry. eapply atom_eqb_trans; eauto.
  - destruct (atom_eqb a c) eqn:E2; [|reflexivity].
    rewrite atom_eqb_sym in E. rewrite (atom_eqb_trans _ _ _ E2 E) in E1. discriminate.
Qed.

Lemma mem_atom_congr : forall a b l,
  atom_eqb a b = true -> mem atom_eqb a l = mem atom_eqb b l.
Proof.
  intros a b l E. induction l as [|x l IH]; [reflexivity|].
  unfold mem in *. simpl. rewrite IH. f_equal.
  rewrite (atom_eqb_sym a x), (atom_eqb_sym b x). apply atom_eqb_congr_r. exact E.
Qed.

(* ------------------------------------------------------------------ *)
(** * Text level *)

Lemma eqc_sym : forall a b, eqc a b = eqc b a.
Proof. intros. unfold eqc. apply N.eqb_sym. Qed.

Lemma cut_tilde_partition : forall s,
  partition [TILDE] s =
  match snd (cut_tilde s) with
  | Some x => (fst (cut_tilde s), true, x)
  | None => (s, false, [])
  end.
Proof.
  unfold partition. induction s as [|c s IH]; [reflexivity|].
  rewrite partition_at_cons. rewrite startswith_cons1.
  simpl cut_tilde. rewrite (eqc_sym c TILDE).
  destruct (eqc TILDE c) eqn:E; simpl; [reflexivity|].
  rewrite IH. destruct (snd (cut_tilde s)); reflexivity.
Qed.

Lemma cut_tilde_contains : forall s,
  contains_char TILDE s = match snd (cut_tilde s) with Some _ => true | None => false end.
Proof.
  unfold contains_char, isin. induction s as [|c s IH]; [reflexivity|].
  simpl. rewrite (eqc_sym c TILDE). destruct (eqc TILDE c); simpl; [reflexivity|]. exact IH.
Qed.

Lemma cut_tilde_none : forall s, snd (cut_tilde s) = None -> cut_tilde s = (s, None).
Proof.
  induction s as [|c s IH]; [reflexivity|]. simpl.
  destruct (eqc c TILDE); simpl; [discriminate|]. intros E.
  rewrite (IH E). reflexivity.
Qed.

(* rindex: position of the last occurrence *)
Lemma rindex_aux_absent : forall c s i l, isin c s = false -> rindex_aux c s i l = l.
Proof.
  intros c s. induction s as [|d s IH]; intros i l H; [reflexivity|].
  unfold isin in *. simpl in *. apply orb_false_iff in H. destruct H as [H1 H2].
  rewrite H1. apply IH. exact H2.
Qed.

Lemma rindex_aux_last : forall c a b i l, isin c b = false ->
  rindex_aux c (a ++ c :: b) i l = Some (i + length a).
Proof.
  intros c a. induction a as [|x a IH]; intros b i l H.
  - simpl. unfold eqc at 1. rewrite N.eqb_refl. rewrite rindex_aux_absent by exact H.
    f_equal. lia.
  - simpl. rewrite IH by exact H. f_equal. lia.
Qed.

Lemma last_occurrence : forall c s, isin c s = true ->
  exists a b, s = a ++ c :: b /\ isin c b = false.
Proof.
  intros c s. induction s as [|x s IH]; intros H; [discriminate|].
  destruct (isin c s) eqn:E.
  - destruct (IH eq_refl) as (a & b & E1 & E2). exists (x :: a), b. subst. split; auto.
  - unfold isin in H. simpl in H. fold (isin c s) in H. rewrite E, orb_false_r in H.
    apply eqc_eq in H. subst x. exists [], s. split; auto.
Qed.

Lemma span_stop : forall p x c y, forallb p x = true -> p c = false ->
  span p (x ++ c :: y) = (x, c :: y).
Proof.
  intros p x c y. induction x as [|d x IH]; intros H1 H2; simpl.
  - rewrite H2. reflexivity.
  - simpl in H1. apply andb_true_iff in H1. destruct H1 as [Hd Hx].
    rewrite Hd, IH by assumption. reflexivity.
Qed.

Lemma forallb_rev : forall (A : Type) (p : A -> bool) l, forallb p (rev l) = forallb p l.
Proof.
  intros A p l. induction l as [|x l IH]; [reflexivity|].
  simpl. rewrite forallb_app, IH. simpl. rewrite andb_true_r. apply andb_comm.
Qed.

Lemma isin_false_forallb : forall c s, isin c s = false ->
  forallb (fun d => negb (eqc d c)) s = true.
Proof.
  intros c s. induction s as [|d s IH]; intros H; [reflexivity|].
  unfold isin in H. simpl in H. apply orb_false_iff in H. destruct H as [H1 H2].
  simpl. rewrite (eqc_sym d c), H1. simpl. apply IH. exact H2.
Qed.

Lemma split_last_quote_spec : forall a b, isin QUOTE b = false ->
  split_after_last_quote (a ++ QUOTE :: b) = (a ++ [QUOTE], b).
Proof.
  intros a b H. unfold split_after_last_quote.
  rewrite rev_app_distr. simpl rev. rewrite <- app_assoc. simpl.
  rewrite span_stop.
  - simpl. rewrite !rev_involutive. reflexivity.
  - rewrite forallb_rev. apply isin_false_forallb. exact H.
  - unfold eqc. rewrite N.eqb_refl. reflexivity.
Qed.

Lemma firstn_exact : forall (A : Type) (a b : list A), firstn (length a) (a ++ b) = a.
Proof.
  intros. rewrite firstn_app, Nat.sub_diag, firstn_all. simpl. apply app_nil_r.
Qed.
Lemma skipn_exact : forall (A : Type) (a b : list A), skipn (length a) (a ++ b) = b.
Proof.
  intros. rewrite skipn_app, Nat.sub_diag, skipn_all. reflexivity.
Qed.

Definition epis_of_marker (f : list N -> option str -> epi) (k : option marker) : list epi :=
  match k with Some (i, p) => [f i p] | None => [] end.

Lemma process_role_spec : forall role,
  process_role role =
  (k <- parse_marker (snd (read_role role)) ;;
   Ok (fst (read_role role), epis_of_marker RAln k)).
Proof.
  intros role. unfold process_role, read_role.
  destruct (str_eqb role SLASHS); [reflexivity|].
  rewrite cut_tilde_contains, cut_tilde_partition.
  destruct (snd (cut_tilde role)) as [x|] eqn:E; simpl.
  - destruct (aln_from_string x) as [[i p]| | | | | | | |]; reflexivity.
  - rewrite (cut_tilde_none _ E). reflexivity.
Qed.

Lemma process_atomic_spec : forall a,
  process_atomic a =
  match a with
  | ANum _ false => Other 6
  | _ => k <- parse_marker (snd (read_atom a)) ;;
         Ok (fst (read_atom a), epis_of_marker Aln k)
  end.
Proof.
  intros [|s|txt z]; [reflexivity| |destruct z; reflexivity].
  unfold process_atomic, read_atom.
  destruct (contains_char TILDE s) eqn:T; cbn [negb].
  - destruct (startswith s [QUOTE]) eqn:Q.
    + assert (HQ : isin QUOTE s = true).
      { apply startswith_iff in Q. destruct Q as [t Q]. subst s.
        unfold isin. simpl. replace (eqc QUOTE QUOTE) with true by reflexivity. reflexivity. }
      destruct (last_occurrence _ _ HQ) as (x & y & E & Hy). subst s.
      unfold rindex. rewrite rindex_aux_last by exact Hy. rewrite Nat.add_0_l.
      rewrite split_last_quote_spec by exact Hy. cbn [fst snd].
      replace (S (length x)) with (length (x ++ [QUOTE])) by (rewrite app_length; simpl; lia).
      replace (x ++ QUOTE :: y) with ((x ++ [QUOTE]) ++ y) by (rewrite <- app_assoc; reflexivity).
      rewrite firstn_exact, skipn_exact.
      rewrite (app_length (x ++ [QUOTE]) y).
      destruct y as [|c y].
      * cbn [length]. rewrite Nat.add_0_r, Nat.ltb_irrefl. reflexivity.
      * replace (length (x ++ [QUOTE]) <? length (x ++ [QUOTE]) + length (c :: y)) with true.
        2:{ symmetry. apply Nat.ltb_lt. simpl. lia. }
        cbn [parse_marker fst snd]. destruct (aln_from_string (c :: y)) as [[i p]| | | | | | | |]; reflexivity.
    + rewrite cut_tilde_partition. rewrite cut_tilde_contains in T.
      destruct (snd (cut_tilde s)) as [x|]; [|discriminate]. cbn [parse_marker snd fst].
      destruct (aln_from_string x) as [[i p]| | | | | | | |]; reflexivity.
  - rewrite cut_tilde_contains in T.
    destruct (startswith s [QUOTE]); [reflexivity|].
    destruct (snd (cut_tilde s)); [discriminate|reflexivity].
Qed.

(* ------------------------------------------------------------------ *)
(** * Unfolding the nested fixpoints *)

Section Structure.
Variable m : model.
Variable vars : list atom.

Fixpoint branch_items (v : atom) (bs : list branch) (k : nat) : list item :=
  match bs with
  | [] => []
  | (role, tgt) :: bs' =>
      let k' := match bs' with [] => k | _ :: _ => O end in
      match tgt with
      | TAtom a => [atom_item m vars v role a k']
      | TNode n' => open_item m v role (node_var n') :: node_items m vars n' (S k')
      end ++ branch_items v bs' k
  end.

Lemma node_items_eq : forall v bs k,
  node_items m vars (Node v bs) k =
  if writes_concept bs then branch_items v bs k
  else synth_item v (match bs with [] => k | _ :: _ => O end) :: branch_items v bs k.
Proof.
  intros v bs k. cbn [node_items].
  match goal with
  | |- (if _ then ?g bs else _ :: ?g bs) = _ =>
      assert (E : forall l, g l = branch_items v l k)
  end.
  { induction l as [|[role tgt] l IH]; [reflexivity|].
    cbn [branch_items]. rewrite <- IH. reflexivity. }
  rewrite E. reflexivity.
Qed.

Fixpoint interp_go (var : atom) (bs : list branch) (hc : bool) (ts : list triple)
  (es : list epientry) : outcome (bool * list triple * list epientry) :=
  match bs with
  | [] => Ok (hc, ts, es)
  | (role, tgt) :: bs' =>
      '(role', repis) <- process_role role ;;
      let hc' := hc || str_eqb role' INSTANCE in
      match tgt with
      | TAtom a =>
          '(a', tepis) <- process_atomic a ;;
          let tr0 : triple := (var, role', a') in
          let tr := if is_role_inverted m role' && mem atom_eqb a' vars
                    then deinvert m tr0 else tr0 in
          interp_go var bs' hc' (ts ++ [tr]) (es ++ [(tr, repis ++ tepis)])
      | TNode n' =>
          let v' := node_var n' in
          let tr := deinvert m (var, role', v') in
          '(ts2, es2) <- interp_node m vars n' ;;
          interp_go var bs' hc' (ts ++ tr :: ts2)
             (es ++ (tr, repis ++ [Push v']) :: add_pop_last es2)
      end
  end.

Lemma interp_node_eq : forall var bs,
  interp_node m vars (Node var bs) =
  ('(hc, ts, es) <- interp_go var bs false [] [] ;;
   if hc then Ok (ts, es)
   else let inst : triple := (var, INSTANCE, ANone) in Ok (inst :: ts, (inst, []) :: es)).
Proof.
  intros var bs. cbn [interp_node].
  match goal with
  | |- bind (?g bs false [] []) _ = _ =>
      assert (E : forall l hc ts es, g l hc ts es = interp_go var l hc ts es)
  end.
  { induction l as [|[role tgt] l IH]; intros hc ts es; [reflexivity|].
    cbn [interp_go].
    destruct (process_role role) as [[role' repis]| | | | | | | |]; try reflexivity.
    cbn [bind]. destruct tgt as [a|n'].
    - destruct (process_atomic a) as [[a' tepis]| | | | | | | |]; try reflexivity.
      cbn [bind]. apply IH.
    - destruct (interp_node m vars n') as [[ts2 es2]| | | | | | | |]; try reflexivity.
      cbn [bind]. apply IH. }
  rewrite E. reflexivity.
Qed.

End Structure.

Fixpoint check_branches (bs : list branch) : outcome unit :=
  match bs with
  | [] => Ok tt
  | (role, tgt) :: bs' =>
      _ <- parse_marker (snd (read_role role)) ;;
      _ <- match tgt with
           | TAtom a => check_atom a
           | TNode n' => surface_check n'
           end ;;
      check_branches bs'
  end.

Lemma surface_check_eq : forall v bs, surface_check (Node v bs) = check_branches bs.
Proof.
  intros v bs. cbn [surface_check].
  induction bs as [|[role tgt] bs IH]; [reflexivity|].
  cbn [check_branches]. rewrite <- IH. reflexivity.
Qed.

(* ------------------------------------------------------------------ *)
(** * Closing one more node context on the last triple *)

Definition inc_closes (it : item) : item :=
  mkItem (i_triple it) (i_ralign it) (i_talign it) (i_ctx it) (i_opened it) (i_winv it)
         (S (i_closes it)) (i_src it).

Fixpoint bump (its : list item) : list item :=
  match its with
  | [] => []
  | [it] => [inc_closes it]
  | it :: rest => it :: bump rest
  end.

Lemma bump_cons : forall it rest, rest <> [] -> bump (it :: rest) = it :: bump rest.
Proof. intros it [|x rest] H; [contradiction|reflexivity]. Qed.

Lemma bump_app : forall a b, b <> [] -> bump (a ++ b) = a ++ bump b.
Proof.
  induction a as [|x a IH]; intros b H; [reflexivity|].
  simpl app. rewrite bump_cons.
  - rewrite IH by exact H. reflexivity.
  - destruct a; simpl; [exact H|discriminate].
Qed.

Lemma node_items_nonempty : forall m vars n k, node_items m vars n k <> [].
Proof.
  intros m vars [v bs] k. rewrite node_items_eq.
  destruct (writes_concept bs) eqn:W; [|discriminate].
  destruct bs as [|[role tgt] bs]; [discriminate|].
  cbn [branch_items]. destruct tgt; discriminate.
Qed.

Lemma branch_items_nonempty : forall m vars v bs k, bs <> [] -> branch_items m vars v bs k <> [].
Proof.
  intros m vars v [|[role tgt] bs] k H; [contradiction|].
  cbn [branch_items]. destruct tgt; discriminate.
Qed.

Lemma node_items_bump : forall m vars n k,
  node_items m vars n (S k) = bump (node_items m vars n k).
Proof.
  intros m vars n. induction n as [v bs IHbs] using node_ind'. intros k.
  assert (B : bs <> [] -> branch_items m vars v bs (S k) = bump (branch_items m vars v bs k)).
  { clear - IHbs. revert k. induction IHbs as [|[role tgt] bs Hb Hbs IH]; intros k NE; [contradiction|].
    cbn [branch_items]. destruct bs as [|b2 bs].
    - cbn [branch_items]. rewrite !app_nil_r. destruct tgt as [a|n'].
      + reflexivity.
      + rewrite bump_cons by apply node_items_nonempty.
        unfold branch_ok in Hb. simpl in Hb. rewrite (Hb (S k)). reflexivity.
    - rewrite bump_app by (apply branch_items_nonempty; discriminate).
      rewrite IH by discriminate. reflexivity. }
  rewrite !node_items_eq. destruct (writes_concept bs).
  - destruct bs as [|b bs]; [reflexivity|]. apply B. discriminate.
  - destruct bs as [|b bs]; [reflexivity|].
    rewrite bump_cons by (apply branch_items_nonempty; discriminate).
    rewrite B by discriminate. reflexivity.
Qed.

Lemma repeat_snoc : forall (A : Type) (x : A) n, repeat x (S n) = repeat x n ++ [x].
Proof. intros A x n. induction n as [|n IH]; [reflexivity|]. simpl in *. rewrite <- IH. reflexivity. Qed.

Lemma item_entry_inc : forall it,
  item_entry (inc_closes it) = (i_triple it, item_markers it ++ [Pop]).
Proof.
  intros it. unfold item_entry, item_markers, inc_closes. cbn [i_triple i_ralign i_talign i_opened i_closes].
  rewrite repeat_snoc, !app_assoc. reflexivity.
Qed.

Lemma entries_bump : forall its,
  map item_entry (bump its) = add_pop_last (map item_entry its).
Proof.
  induction its as [|it rest IH]; [reflexivity|].
  destruct rest as [|x rest].
  - cbn [bump map add_pop_last]. rewrite item_entry_inc. reflexivity.
  - change (bump (it :: x :: rest)) with (it :: bump (x :: rest)).
    cbn [map] in *. rewrite IH. unfold item_entry at 1 3. reflexivity.
Qed.

Lemma triples_bump : forall its, map i_triple (bump its) = map i_triple its.
Proof.
  induction its as [|it rest IH]; [reflexivity|].
  destruct rest as [|x rest]; [reflexivity|].
  change (bump (it :: x :: rest)) with (it :: bump (x :: rest)).
  cbn [map] in *. rewrite IH. reflexivity.
Qed.

(* ------------------------------------------------------------------ *)
(** * interp_node computes the items of the reading *)

Lemma orient_atomic : forall m v r x b,
  (if is_role_inverted m r && b then deinvert m (v, r, x) else (v, r, x)) =
  fst (orient m v r x b).
Proof.
  intros m v r x b. unfold orient, deinvert, invert, invert_role. cbn [trole tsrc ttgt fst snd].
  destruct (deinverts m), (is_role_inverted m r) eqn:I, b; cbn [andb fst]; try reflexivity.
Qed.

Lemma orient_node : forall m v r x,
  deinvert m (v, r, x) = fst (orient m v r x true).
Proof.
  intros m v r x. rewrite <- orient_atomic. rewrite andb_true_r.
  destruct (is_role_inverted m r) eqn:I; [reflexivity|].
  unfold deinvert. cbn [trole fst snd]. rewrite I. destruct (deinverts m); reflexivity.
Qed.

Lemma marker_of_ok : forall txt k, parse_marker txt = Ok k -> marker_of txt = k.
Proof. intros txt k E. unfold marker_of. rewrite E. reflexivity. Qed.

Definition interp_ok (m : model) (vars : list atom) (n : node) : Prop :=
  interp_node m vars n =
  (_ <- surface_check n ;;
   Ok (map i_triple (node_items m vars n 0), map item_entry (node_items m vars n 0))).

Lemma interp_go_spec : forall m vars v bs, Forall (branch_ok (interp_ok m vars)) bs ->
  forall hc ts es,
  interp_go m vars v bs hc ts es =
  (_ <- check_branches bs ;;
   Ok (hc || writes_concept bs,
       ts ++ map i_triple (branch_items m vars v bs 0),
       es ++ map item_entry (branch_items m vars v bs 0))).
Proof.
  intros m vars v bs F. induction F as [|[role tgt] bs Hb Hbs IH]; intros hc ts es.
  - cbn. rewrite orb_false_r, !app_nil_r. reflexivity.
  - cbn [interp_go check_branches branch_items].
    assert (K0 : match bs with [] => 0 | _ :: _ => 0 end = 0) by (destruct bs; reflexivity).
    rewrite K0. clear K0.
    rewrite process_role_spec.
    destruct (parse_marker (snd (read_role role))) as [k1| | | | | | | |] eqn:P1; try reflexivity.
    cbn [bind]. destruct tgt as [a|n'].
    + rewrite process_atomic_spec. unfold check_atom.
      assert (D : (exists t, a = ANum t false) \/
                  (match a with ANum _ false => False | _ => True end)).
      { destruct a as [| |t [|]]; eauto. }
      destruct D as [[t D]|D]; [subst a; reflexivity|].
      replace (match a with
               | ANum _ false => Other 6
               | _ => k <- parse_marker (snd (read_atom a)) ;;
                      Ok (fst (read_atom a), epis_of_marker Aln k)
               end)
        with (k <- parse_marker (snd (read_atom a)) ;;
              Ok (fst (read_atom a), epis_of_marker Aln k))
        by (destruct a as [| |t [|]]; try reflexivity; contradiction).
      replace (match a with
               | ANum _ false => Other 6
               | _ => _ <- parse_marker (snd (read_atom a)) ;; Ok tt
               end)
        with (_ <- parse_marker (snd (read_atom a)) ;; @Ok unit tt)
        by (destruct a as [| |t [|]]; try reflexivity; contradiction).
      destruct (parse_marker (snd (read_atom a))) as [k2| | | | | | | |] eqn:P2; try reflexivity.
      cbn [bind]. rewrite IH. destruct (check_branches bs); try reflexivity.
      cbn [bind]. rewrite orient_atomic.
      unfold writes_concept at 2. cbn [existsb fst]. fold (writes_concept bs).
      rewrite orb_assoc.
      cbn [map app]. rewrite <- !app_assoc. cbn [app].
      unfold item_entry at 2. unfold item_markers, atom_item.
      cbn [i_triple i_ralign i_talign i_opened i_closes repeat].
      rewrite (marker_of_ok _ _ P1), (marker_of_ok _ _ P2).
      unfold epis_of_marker.
      repeat f_equal.
      all: destruct k1 as [[i1 p1]|], k2 as [[i2 p2]|]; reflexivity.
    + unfold branch_ok in Hb. cbn [snd] in Hb. rewrite Hb.
      destruct (surface_check n'); try reflexivity.
      cbn [bind]. rewrite IH. destruct (check_branches bs); try reflexivity.
      cbn [bind]. rewrite orient_node.
      unfold writes_concept at 2. cbn [existsb fst]. fold (writes_concept bs).
      rewrite orb_assoc.
      rewrite <- entries_bump, <- node_items_bump.
      rewrite <- (triples_bump (node_items m vars n' 0)), <- node_items_bump.
      cbn [map app]. rewrite !map_app. rewrite <- !app_assoc. cbn [app map].
      unfold item_entry at 3. unfold item_markers, open_item.
      cbn [i_triple i_ralign i_talign i_opened i_closes repeat].
      rewrite (marker_of_ok _ _ P1). unfold epis_of_marker.
      repeat f_equal.
      all: destruct k1 as [[i1 p1]|]; reflexivity.
Qed.

Lemma interp_node_spec : forall m vars n, interp_ok m vars n.
Proof.
  intros m vars n. induction n as [v bs IHbs] using node_ind'.
  unfold interp_ok. rewrite interp_node_eq, surface_check_eq, node_items_eq.
  rewrite (interp_go_spec m vars v bs IHbs).
  destruct (check_branches bs); try reflexivity.
  cbn [bind orb app].
  destruct (writes_concept bs); [reflexivity|].
  destruct bs; reflexivity.
Qed.

(* ------------------------------------------------------------------ *)
(** * The epimap keeps the first entry of every triple *)

Lemma dget_app_one : forall (V : Type) (k k' : triple) (v : V) (d : dict triple V),
  dmem triple_eqb k (d ++ [(k', v)]) = dmem triple_eqb k d || triple_eqb k k'.
Proof.
  intros V k k' v d. unfold dmem. induction d as [|[k0 v0] d IH]; simpl.
  - destruct (triple_eqb k k'); reflexivity.
  - destruct (triple_eqb k k0); [reflexivity|]. exact IH.
Qed.

Lemma dmem_congr : forall (V : Type) (a b : triple) (d : dict triple V),
  triple_eqb a b = true -> dmem triple_eqb a d = dmem triple_eqb b d.
Proof.
  intros V a b d E. unfold dmem. induction d as [|[k0 v0] d IH]; [reflexivity|].
  simpl. rewrite (triple_eqb_sym a k0), (triple_eqb_sym b k0).
  rewrite (triple_eqb_congr_r k0 a b E).
  destruct (triple_eqb k0 b); [reflexivity|]. exact IH.
Qed.

Lemma filter_filter : forall (A : Type) (p q : A -> bool) l,
  filter p (filter q l) = filter (fun x => q x && p x) l.
Proof.
  intros A p q l. induction l as [|x l IH]; [reflexivity|].
  simpl. destruct (q x); simpl; [destruct (p x)|]; rewrite IH; reflexivity.
Qed.

Definition epistep (d : dict triple (list epi)) (e : epientry) :=
  if dmem triple_eqb (fst e) d then d else d ++ [e].

Lemma epimap_fold : forall its acc,
  fold_left epistep (map item_entry its) acc =
  acc ++ map item_entry
           (filter (fun it => negb (dmem triple_eqb (i_triple it) acc)) (firsts its)).
Proof.
  induction its as [|it rest IH]; intros acc.
  - simpl. rewrite app_nil_r. reflexivity.
  - cbn [map fold_left firsts filter]. unfold epistep at 2. cbn [item_entry fst].
    destruct (dmem triple_eqb (i_triple it) acc) eqn:D; cbn [negb].
    + rewrite IH. f_equal. f_equal. rewrite filter_filter.
      apply filter_ext. intros x.
      destruct (triple_eqb (i_triple x) (i_triple it)) eqn:E; cbn [negb andb]; [|reflexivity].
      rewrite (dmem_congr _ _ _ _ E), D. reflexivity.
    + rewrite IH. rewrite <- app_assoc. f_equal. cbn [app map]. f_equal. f_equal.
      rewrite filter_filter. apply filter_ext. intros x.
      unfold item_entry at 1. rewrite dget_app_one, negb_orb. apply andb_comm.
Qed.

Lemma epimap_firsts : forall its,
  epimap_of (map item_entry its) = map item_entry (firsts its).
Proof.
  intros its. unfold epimap_of. change (fold_left _ (map item_entry its) [])
    with (fold_left epistep (map item_entry its) []).
  rewrite epimap_fold. cbn [app]. f_equal.
  rewrite <- (filter_ext (fun _ => true)); [|reflexivity].
  induction (firsts its) as [|x l IH]; [reflexivity|]. simpl. rewrite IH. reflexivity.
Qed.

(* ------------------------------------------------------------------ *)
(** * Variables of the tree *)

Lemma nodes_of_eq : forall v bs,
  nodes_of (Node v bs) =
  match v with ANone => [] | _ => [Node v bs] end ++
  flat_map (fun b : branch => match snd b with TAtom _ => [] | TNode n' => nodes_of n' end) bs.
Proof.
  intros v bs.
  assert (E : forall g : list branch -> list node,
            (forall l, g l = flat_map (fun b : branch =>
                        match snd b with TAtom _ => [] | TNode n' => nodes_of n' end) l) ->
            match v with ANone => g bs | _ => Node v bs :: g bs end =
            match v with ANone => [] | _ => [Node v bs] end ++
            flat_map (fun b : branch =>
                        match snd b with TAtom _ => [] | TNode n' => nodes_of n' end) bs).
  { intros g Hg. rewrite Hg. destruct v; reflexivity. }
  cbn [nodes_of]. apply E.
  induction l as [|[role [a|n']] l IH]; [reflexivity| |]; cbn [flat_map snd]; rewrite <- IH; reflexivity.
Qed.

Lemma tree_vars_defined : forall n, tree_vars n = defined_vars n.
Proof.
  unfold tree_vars. induction n as [v bs IHbs] using node_ind'.
  rewrite nodes_of_eq. cbn [defined_vars]. rewrite map_app. f_equal.
  - destruct v; reflexivity.
  - induction IHbs as [|[role tgt] bs Hb Hbs IH]; [reflexivity|].
    cbn [flat_map snd]. rewrite map_app, IH. f_equal.
    destruct tgt as [a|n']; [reflexivity|]. exact Hb.
Qed.

(* ------------------------------------------------------------------ *)
(** * Main statement: the graph built by interpret IS the reading's graph *)

Lemma with_colon_ensure : forall t,
  with_colon t = (tsrc t, ensure_colon (trole t), ttgt t).
Proof. reflexivity. Qed.

Theorem interpret_is_reading_graph : forall m t,
  interpret m t = reading_as_graph m t.
Proof.
  intros m t. unfold interpret, reading_as_graph, reading.
  rewrite tree_vars_defined.
  pose proof (interp_node_spec m (defined_vars (troot t)) (troot t)) as H.
  unfold interp_ok in H. rewrite H.
  destruct (surface_check (troot t)); try reflexivity.
  cbn [bind]. unfold reading_graph, reading_of, mk_graph.
  cbn [r_triples r_top r_items].
  rewrite epimap_firsts, map_map. reflexivity.
Qed.

(* ------------------------------------------------------------------ *)
(** * Shape of an item; item-local facts *)

Lemma item_shape : forall m vars n k it, In it (node_items m vars n k) ->
  exists v k', it = synth_item v k' \/
               (exists role a, it = atom_item m vars v role a k') \/
               (exists role v', it = open_item m v role v').
Proof.
  intros m vars n. induction n as [v bs IHbs] using node_ind'. intros k it H.
  assert (B : forall k, In it (branch_items m vars v bs k) ->
              exists v k', it = synth_item v k' \/
               (exists role a, it = atom_item m vars v role a k') \/
               (exists role v', it = open_item m v role v')).
  { clear H k. induction IHbs as [|[role tgt] bs Hb Hbs IH]; intros k H; [contradiction|].
    cbn [branch_items] in H. apply in_app_or in H. destruct H as [H|H]; [|eapply IH; eauto].
    destruct tgt as [a|n'].
    - destruct H as [H|[]]. subst it. exists v. eexists. right. left. eauto.
    - destruct H as [H|H].
      + subst it. exists v, 0. right. right. eauto.
      + unfold branch_ok in Hb. cbn [snd] in Hb. eapply Hb; eauto. }
  rewrite node_items_eq in H. destruct (writes_concept bs); [eapply B; eauto|].
  destruct H as [H|H]; [|eapply B; eauto].
  subst it. exists v. eexists. left. reflexivity.
Qed.

Lemma orient_plain : forall m v r x b, deinverts m = false ->
  orient m v r x b = ((v, r, x), false).
Proof. intros m v r x b D. unfold orient. rewrite D. reflexivity. Qed.

(* orientation in one sentence: either as written, or swapped with "-of" removed *)
Lemma orient_cases : forall m v r x b,
  (orient m v r x b = ((v, r, x), false)) \/
  (orient m v r x b = ((x, drop_last 3 r, v), true) /\
   deinverts m = true /\ is_role_inverted m r = true /\ b = true).
Proof.
  intros m v r x b. unfold orient.
  destruct (deinverts m), (is_role_inverted m r), b; cbn [andb]; auto.
Qed.

(* ------------------------------------------------------------------ *)
(** * Alignment maps *)

Lemma last_such_pops : forall p k acc, p Pop = false ->
  fold_left (fun acc e => if p e then Some e else acc) (repeat Pop k) acc = acc.
Proof.
  intros p k acc H. induction k as [|k IH]; [reflexivity|]. simpl. rewrite H. exact IH.
Qed.

Lemma last_aln_markers : forall it,
  last_such is_aln (item_markers it) =
  match i_talign it with Some (i, p) => Some (Aln i p) | None => None end.
Proof.
  intros it. unfold last_such, item_markers.
  rewrite !fold_left_app, last_such_pops by reflexivity.
  destruct (i_ralign it) as [[i1 p1]|], (i_talign it) as [[i2 p2]|], (i_opened it); reflexivity.
Qed.

Lemma last_raln_markers : forall it,
  last_such is_raln (item_markers it) =
  match i_ralign it with Some (i, p) => Some (RAln i p) | None => None end.
Proof.
  intros it. unfold last_such, item_markers.
  rewrite !fold_left_app, last_such_pops by reflexivity.
  destruct (i_ralign it) as [[i1 p1]|], (i_talign it) as [[i2 p2]|], (i_opened it); reflexivity.
Qed.

Definition aln_entry (e : triple * marker) : triple * epi :=
  (fst e, Aln (fst (snd e)) (snd (snd e))).
Definition raln_entry (e : triple * marker) : triple * epi :=
  (fst e, RAln (fst (snd e)) (snd (snd e))).

Lemma alignments_reading : forall r meta,
  alignments (reading_graph r meta) = map aln_entry (aligns_of (r_items r)).
Proof.
  intros r meta. unfold alignments, get_alignments, reading_graph, aligns_of. cbn [epidata].
  induction (firsts (r_items r)) as [|it l IH]; [reflexivity|].
  cbn [map flat_map]. rewrite map_app, IH. f_equal.
  cbn [item_entry fst snd]. rewrite last_aln_markers.
  destruct (i_talign it) as [[i p]|]; reflexivity.
Qed.

Lemma role_alignments_reading : forall r meta,
  role_alignments (reading_graph r meta) = map raln_entry (raligns_of (r_items r)).
Proof.
  intros r meta. unfold role_alignments, get_alignments, reading_graph, raligns_of. cbn [epidata].
  induction (firsts (r_items r)) as [|it l IH]; [reflexivity|].
  cbn [map flat_map]. rewrite map_app, IH. f_equal.
  cbn [item_entry fst snd]. rewrite last_raln_markers.
  destruct (i_ralign it) as [[i p]|]; reflexivity.
Qed.

(* ------------------------------------------------------------------ *)
(** * Variables *)

Lemma mem_app : forall a (l1 l2 : list atom),
  mem atom_eqb a (l1 ++ l2) = mem atom_eqb a l1 || mem atom_eqb a l2.
Proof. intros. unfold mem. apply existsb_app. Qed.

Lemma mem_rev : forall a (l : list atom), mem atom_eqb a (rev l) = mem atom_eqb a l.
Proof.
  intros a l. induction l as [|x l IH]; [reflexivity|].
  simpl rev. rewrite mem_app, IH. unfold mem. simpl. rewrite orb_false_r. apply orb_comm.
Qed.

Lemma mem_dedup_acc : forall a l acc,
  mem atom_eqb a (dedup_acc atom_eqb l acc) = mem atom_eqb a acc || mem atom_eqb a l.
Proof.
  intros a l. induction l as [|x l IH]; intros acc.
  - simpl. rewrite mem_rev. unfold mem at 2. simpl. rewrite orb_false_r. reflexivity.
  - cbn [dedup_acc]. destruct (mem atom_eqb x acc) eqn:M; rewrite IH.
    + change (mem atom_eqb a (x :: l)) with (atom_eqb a x || mem atom_eqb a l).
      destruct (atom_eqb a x) eqn:E; [|reflexivity].
      rewrite (mem_atom_congr _ _ acc E), M. reflexivity.
    + change (mem atom_eqb a (x :: acc)) with (atom_eqb a x || mem atom_eqb a acc).
      change (mem atom_eqb a (x :: l)) with (atom_eqb a x || mem atom_eqb a l).
      destruct (atom_eqb a x), (mem atom_eqb a acc); reflexivity.
Qed.

Lemma mem_dedup : forall a l, mem atom_eqb a (dedup atom_eqb l) = mem atom_eqb a l.
Proof. intros a l. unfold dedup. rewrite mem_dedup_acc. reflexivity. Qed.

Lemma In_mem : forall a l, In a l -> mem atom_eqb a l = true.
Proof.
  intros a l H. unfold mem. apply existsb_exists. exists a. split; [exact H|apply atom_eqb_refl].
Qed.

Lemma mem_true_iff : forall a l, mem atom_eqb a l = true <-> exists b, In b l /\ atom_eqb a b = true.
Proof. intros a l. unfold mem. apply existsb_exists. Qed.

Definition src_of (it : item) : atom := tsrc (i_triple it).

Lemma instance_not_inverted : forall m, is_role_inverted m INSTANCE = false.
Proof.
  intros m. unfold is_role_inverted.
  replace (endswith INSTANCE OF) with false by reflexivity. apply andb_false_r.
Qed.

(* every source is a node variable of the tree (up to atom_eqb) *)
Lemma sources_are_node_vars : forall m vars U n k,
  (forall a, mem atom_eqb a vars = true -> mem atom_eqb a U = true) ->
  (forall a, In a (all_node_vars n) -> mem atom_eqb a U = true) ->
  forall it, In it (node_items m vars n k) -> mem atom_eqb (src_of it) U = true.
Proof.
  intros m vars U n. induction n as [v bs IHbs] using node_ind'. intros k HV HN it H.
  assert (Hv : mem atom_eqb v U = true) by (apply HN; left; reflexivity).
  assert (B : forall k, In it (branch_items m vars v bs k) -> mem atom_eqb (src_of it) U = true).
  { assert (HN' : forall a, In a (flat_map (fun b : branch =>
                     match snd b with TAtom _ => [] | TNode n' => all_node_vars n' end) bs) ->
                   mem atom_eqb a U = true).
    { intros a Ha. apply HN. right. exact Ha. }
    clear H k HN. induction IHbs as [|[role tgt] bs Hb Hbs IH]; intros k H; [contradiction|].
    cbn [branch_items] in H. apply in_app_or in H. destruct H as [H|H].
    2:{ eapply IH; eauto. intros a Ha. apply HN'. cbn [flat_map]. apply in_or_app. right. exact Ha. }
    destruct tgt as [a|n'].
    - destruct H as [H|[]]. subst it. unfold src_of, atom_item. cbn [i_triple].
      destruct (orient_cases m v (fst (read_role role)) (fst (read_atom a))
                  (mem atom_eqb (fst (read_atom a)) vars)) as [E|(E & _ & _ & Eb)];
        rewrite E; cbn [fst tsrc]; auto.
    - assert (Hn' : mem atom_eqb (node_var n') U = true).
      { apply HN'. cbn [flat_map snd]. apply in_or_app. left. destruct n'. left. reflexivity. }
      destruct H as [H|H].
      + subst it. unfold src_of, open_item. cbn [i_triple].
        destruct (orient_cases m v (fst (read_role role)) (node_var n') true) as [E|(E & _)];
          rewrite E; cbn [fst tsrc]; auto.
      + unfold branch_ok in Hb. cbn [snd] in Hb. eapply Hb; eauto.
        intros a Ha. apply HN'. cbn [flat_map snd]. apply in_or_app. left. exact Ha. }
  rewrite node_items_eq in H. destruct (writes_concept bs); [eapply B; eauto|].
  destruct H as [H|H]; [|eapply B; eauto]. subst it. exact Hv.
Qed.

(* every node variable (None included) is the source of one of the node's triples *)
Lemma node_vars_are_sources : forall m vars n k a,
  In a (all_node_vars n) -> In a (map src_of (node_items m vars n k)).
Proof.
  intros m vars n. induction n as [v bs IHbs] using node_ind'. intros k a H.
  cbn [all_node_vars] in H. rewrite node_items_eq.
  assert (Bn : forall k, In a (flat_map (fun b : branch =>
                     match snd b with TAtom _ => [] | TNode n' => all_node_vars n' end) bs) ->
               In a (map src_of (branch_items m vars v bs k))).
  { clear H k. induction IHbs as [|[role tgt] bs Hb Hbs IH]; intros k H; [contradiction|].
    cbn [flat_map snd] in H. cbn [branch_items]. rewrite map_app. apply in_or_app.
    apply in_app_or in H. destruct H as [H|H]; [|right; apply IH; exact H].
    left. destruct tgt as [x|n']; [contradiction|].
    cbn [map]. right. unfold branch_ok in Hb. cbn [snd] in Hb. apply Hb. exact H. }
  assert (Bc : forall k, writes_concept bs = true ->
               In v (map src_of (branch_items m vars v bs k))).
  { clear. induction bs as [|[role tgt] bs IH]; intros k W; [discriminate|].
    unfold writes_concept in W. cbn [existsb fst] in W. fold (writes_concept bs) in W.
    cbn [branch_items]. rewrite map_app. apply in_or_app.
    destruct (str_eqb (fst (read_role role)) INSTANCE) eqn:E.
    - left. apply str_eqb_eq in E. destruct tgt as [x|n']; cbn [map]; left.
      + unfold src_of, atom_item. cbn [i_triple]. unfold orient. rewrite E.
        rewrite instance_not_inverted, andb_false_r. reflexivity.
      + unfold src_of, open_item. cbn [i_triple]. unfold orient. rewrite E.
        rewrite instance_not_inverted, andb_false_r. reflexivity.
    - right. apply IH. exact W. }
  destruct (writes_concept bs) eqn:W.
  - destruct H as [H|H]; [subst a; apply Bc; reflexivity|apply Bn; exact H].
  - cbn [map]. destruct H as [H|H]; [left; subst a; reflexivity|right; apply Bn; exact H].
Qed.

Lemma defined_vars_sub : forall n a, In a (defined_vars n) -> In a (all_node_vars n).
Proof.
  induction n as [v bs IHbs] using node_ind'. intros a H.
  cbn [defined_vars all_node_vars] in *. apply in_app_or in H. destruct H as [H|H].
  - left. destruct v; simpl in H; [contradiction| |]; destruct H as [H|[]]; exact H.
  - right. clear v. induction IHbs as [|[role tgt] bs Hb Hbs IH]; [contradiction|].
    cbn [flat_map snd] in *. apply in_or_app. apply in_app_or in H. destruct H as [H|H]; [left|right; auto].
    destruct tgt as [x|n']; [contradiction|]. apply Hb. exact H.
Qed.

Lemma tsrc_with_colon : forall t, tsrc (with_colon t) = tsrc t.
Proof. reflexivity. Qed.

Lemma variables_reading : forall m root meta a,
  mem atom_eqb a (variables (reading_graph (reading_of m root) meta)) =
  mem atom_eqb a (all_node_vars root).
Proof.
  intros m root meta a. unfold variables, reading_graph, reading_of.
  cbn [triples gtop r_triples r_top]. rewrite mem_dedup, map_map.
  set (its := node_items m (defined_vars root) root 0).
  set (tops := match match node_var root with ANone => None | v => Some v end with
               | Some t => [t] | None => [] end).
  change (map (fun x => tsrc (with_colon (i_triple x))) its) with (map src_of its).
  destruct (mem atom_eqb a (all_node_vars root)) eqn:R.
  - apply mem_true_iff in R. destruct R as (b & Hb & E).
    rewrite (mem_atom_congr _ _ _ E). apply In_mem. apply in_or_app. left.
    apply node_vars_are_sources. exact Hb.
  - destruct (mem atom_eqb a (map src_of its ++ tops)) eqn:L; [|reflexivity].
    rewrite <- R. symmetry. apply mem_true_iff in L. destruct L as (b & Hb & E).
    rewrite (mem_atom_congr _ _ _ E). apply in_app_or in Hb. destruct Hb as [Hb|Hb].
    + apply in_map_iff in Hb. destruct Hb as (it & E2 & Hit). subst b.
      eapply sources_are_node_vars; try exact Hit.
      * intros x Hx. apply mem_true_iff in Hx. destruct Hx as (y & Hy & Exy).
        rewrite (mem_atom_congr _ _ _ Exy). apply In_mem. apply defined_vars_sub. exact Hy.
      * intros x Hx. apply In_mem. exact Hx.
    + apply In_mem. destruct root as [v bs]. cbn [all_node_vars]. left.
      unfold tops in Hb. cbn [node_var] in Hb. destruct v; simpl in Hb; [contradiction| |]; destruct Hb as [Hb|[]]; exact Hb.
Qed.

(* ------------------------------------------------------------------ *)
(** * Which errors *)

Lemma aln_from_string_outcomes : forall s,
  (exists x, aln_from_string s = Ok x) \/ aln_from_string s = SurfaceErr.
Proof.
  intros s. unfold aln_from_string.
  destruct (lstrip_char TILDE s) as [|c r]; [auto|].
  destruct (is_ascii_alpha c).
  - destruct r as [|d r']; [auto|].
    destruct (eqc d 46); cbn [fst snd];
      match goal with |- context [parse_ints ?l] => destruct (parse_ints l) end; eauto.
  - match goal with |- context [parse_ints ?l] => destruct (parse_ints l) end; eauto.
Qed.

Definition check_outcome (o : outcome unit) : Prop :=
  o = Ok tt \/ o = SurfaceErr \/ o = Other 6.

Lemma parse_marker_outcomes : forall txt,
  (exists k, parse_marker txt = Ok k) \/ parse_marker txt = SurfaceErr.
Proof.
  intros [a|]; cbn [parse_marker]; [|eauto].
  destruct (aln_from_string_outcomes a) as [[x E]|E]; rewrite E; cbn [bind]; eauto.
Qed.

Lemma surface_check_outcomes : forall n, check_outcome (surface_check n).
Proof.
  induction n as [v bs IHbs] using node_ind'. rewrite surface_check_eq.
  induction IHbs as [|[role tgt] bs Hb Hbs IH]; [left; reflexivity|].
  cbn [check_branches].
  destruct (parse_marker_outcomes (snd (read_role role))) as [[k E]|E]; rewrite E; cbn [bind];
    [|right; left; reflexivity].
  assert (T : check_outcome (match tgt with TAtom a => check_atom a | TNode n' => surface_check n' end)).
  { destruct tgt as [a|n']; [|exact Hb].
    unfold check_atom.
    assert (P : check_outcome (_ <- parse_marker (snd (read_atom a)) ;; Ok tt)).
    { destruct (parse_marker_outcomes (snd (read_atom a))) as [[k2 E2]|E2]; rewrite E2; cbn [bind];
        [left|right; left]; reflexivity. }
    destruct a as [| |t [|]]; try exact P. right. right. reflexivity. }
  destruct T as [T|[T|T]]; rewrite T; cbn [bind]; [exact IH|right; left|right; right]; reflexivity.
Qed.

(* ------------------------------------------------------------------ *)
(** * C04: the assignment-shaped statement *)

Definition top_slot (v : atom) : option atom := match v with ANone => None | _ => Some v end.

Definition agrees (g : graph) (r : reading_result) (meta : dict str str) : Prop :=
  gtop g = top_slot (r_top r) /\
  triples g = r_triples r /\
  (forall a, mem atom_eqb a (variables g) = mem atom_eqb a (r_vars r)) /\
  alignments g = map aln_entry (r_aligns r) /\
  role_alignments g = map raln_entry (r_raligns r) /\
  epidata g = map item_entry (firsts (r_items r)) /\
  gmeta g = meta.

Theorem interpret_is_reading : forall m t,
  (exists r g, reading m t = Ok r /\ interpret m t = Ok g /\ agrees g r (tmeta t)) \/
  (reading m t = SurfaceErr /\ interpret m t = SurfaceErr) \/
  (reading m t = Other 6 /\ interpret m t = Other 6).
Proof.
  intros m t. rewrite interpret_is_reading_graph. unfold reading_as_graph, reading.
  destruct (surface_check_outcomes (troot t)) as [E|[E|E]]; rewrite E; cbn [bind]; auto.
  left. eexists. eexists. split; [reflexivity|]. split; [reflexivity|].
  unfold agrees. repeat split.
  - unfold reading_graph, top_slot. cbn [gtop]. destruct (r_top (reading_of m (troot t))); reflexivity.
  - intros a. apply variables_reading.
  - apply alignments_reading.
  - apply role_alignments_reading.
Qed.

(* ------------------------------------------------------------------ *)
(** * Counting *)

Definition cb_branch (b : branch) : nat :=
  match snd b with TAtom _ => O | TNode n' => count_branches n' end.
Definition cc_branch (b : branch) : nat :=
  match snd b with TAtom _ => O | TNode n' => count_conceptless n' end.

Lemma triple_count_items : forall m vars n k,
  length (node_items m vars n k) = count_branches n + count_conceptless n.
Proof.
  intros m vars n. induction n as [v bs IHbs] using node_ind'. intros k.
  assert (B : forall k, length (branch_items m vars v bs k) =
            fold_right (fun b acc => S (cb_branch b) + acc) 0 bs +
            fold_right (fun b acc => cc_branch b + acc) 0 bs).
  { clear k. induction IHbs as [|[role tgt] bs Hb Hbs IH]; intros k; [reflexivity|].
    cbn [branch_items fold_right]. rewrite app_length, IH.
    destruct tgt as [a|n'].
    - change (cb_branch (role, TAtom a)) with 0. change (cc_branch (role, TAtom a)) with 0.
      cbn [length]. lia.
    - change (cb_branch (role, TNode n')) with (count_branches n').
      change (cc_branch (role, TNode n')) with (count_conceptless n'). cbn [length].
      unfold branch_ok in Hb. cbn [snd] in Hb. rewrite Hb. lia. }
  rewrite node_items_eq. cbn [count_branches count_conceptless].
  change (fold_right (fun (b : branch) acc => S match snd b with TAtom _ => 0 | TNode n' => count_branches n' end + acc) 0 bs)
    with (fold_right (fun b acc => S (cb_branch b) + acc) 0 bs).
  change (fold_right (fun (b : branch) acc => match snd b with TAtom _ => 0 | TNode n' => count_conceptless n' end + acc) 0 bs)
    with (fold_right (fun b acc => cc_branch b + acc) 0 bs).
  destruct (writes_concept bs); cbn [length]; rewrite B; lia.
Qed.

(* ------------------------------------------------------------------ *)
(** * The no-op model reads the text as written *)

Lemma noop_reads_as_written : forall m vars n k, deinverts m = false ->
  map i_triple (node_items m vars n k) = written_triples n.
Proof.
  intros m vars n k D. revert k. induction n as [v bs IHbs] using node_ind'. intros k.
  rewrite node_items_eq. cbn [written_triples].
  assert (B : forall k, map i_triple (branch_items m vars v bs k) =
            flat_map (fun b : branch =>
                  match snd b with
                  | TAtom a => [(v, fst (read_role (fst b)), fst (read_atom a))]
                  | TNode n' => (v, fst (read_role (fst b)), node_var n') :: written_triples n'
                  end) bs).
  { clear k. induction IHbs as [|[role tgt] bs Hb Hbs IH]; intros k; [reflexivity|].
    cbn [branch_items flat_map fst snd]. rewrite map_app, IH. f_equal.
    destruct tgt as [a|n'].
    - cbn [map]. unfold atom_item. cbn [i_triple]. rewrite orient_plain by exact D. reflexivity.
    - cbn [map]. unfold open_item. cbn [i_triple]. rewrite orient_plain by exact D.
      unfold branch_ok in Hb. cbn [snd] in Hb. rewrite Hb. reflexivity. }
  destruct (writes_concept bs); cbn [map app]; rewrite B; reflexivity.
Qed.

Lemma noop_item_orientation : forall m vars n k it, deinverts m = false ->
  In it (node_items m vars n k) -> i_winv it = false /\ tsrc (i_triple it) = i_ctx it.
Proof.
  intros m vars n k it D H.
  destruct (item_shape _ _ _ _ _ H) as (v & k' & [E|[(role & a & E)|(role & v' & E)]]); subst it.
  - split; reflexivity.
  - unfold atom_item. cbn [i_winv i_triple i_ctx]. rewrite orient_plain by exact D. split; reflexivity.
  - unfold open_item. cbn [i_winv i_triple i_ctx]. rewrite orient_plain by exact D. split; reflexivity.
Qed.

(* ------------------------------------------------------------------ *)
(** * A tilde inside a string is content *)

Lemma read_string_lexeme : forall s, complete_string s = true ->
  read_atom (AStr s) = (AStr s, None).
Proof.
  intros s C. unfold complete_string in C. apply andb_true_iff in C. destruct C as [C1 C2].
  unfold read_atom. rewrite C1. destruct (contains_char TILDE s); [|reflexivity].
  apply endswith_iff in C2. destruct C2 as [t C2]. subst s.
  rewrite (split_last_quote_spec t []) by reflexivity. reflexivity.
Qed.

Lemma process_string_lexeme : forall s, complete_string s = true ->
  process_atomic (AStr s) = Ok (AStr s, []).
Proof.
  intros s C. rewrite process_atomic_spec, (read_string_lexeme _ C). reflexivity.
Qed.

Lemma string_item : forall m vars n k it role s,
  In it (node_items m vars n k) -> i_src it = Some (role, Some (AStr s)) ->
  complete_string s = true ->
  i_talign it = None /\
  (if i_winv it then tsrc (i_triple it) else ttgt (i_triple it)) = AStr s.
Proof.
  intros m vars n k it role s H S C.
  destruct (item_shape _ _ _ _ _ H) as (v & k' & [E|[(role' & a & E)|(role' & v' & E)]]); subst it;
    cbn [i_src synth_item open_item] in S; try discriminate.
  unfold atom_item in *. cbn [i_src i_talign i_winv i_triple] in *.
  inversion S; subst role' a. rewrite (read_string_lexeme _ C). cbn [fst snd].
  split; [reflexivity|].
  destruct (orient_cases m v (fst (read_role role)) (AStr s) (mem atom_eqb (AStr s) vars))
    as [E|(E & _)]; rewrite E; reflexivity.
Qed.

(* ------------------------------------------------------------------ *)
(** * Looking a triple up in the epigraph *)

Fixpoint nodupE (l : list item) : Prop :=
  match l with
  | [] => True
  | x :: r => (forall y, In y r -> triple_eqb (i_triple y) (i_triple x) = false) /\ nodupE r
  end.

Lemma nodupE_filter : forall p l, nodupE l -> nodupE (filter p l).
Proof.
  intros p l. induction l as [|x l IH]; intros H; [exact I|].
  destruct H as [H1 H2]. simpl. destruct (p x).
  - split; [|apply IH; exact H2]. intros y Hy. apply filter_In in Hy. apply H1. tauto.
  - apply IH. exact H2.
Qed.

Lemma firsts_nodupE : forall its, nodupE (firsts its).
Proof.
  induction its as [|x its IH]; [exact I|]. cbn [firsts]. split.
  - intros y Hy. apply filter_In in Hy. destruct Hy as [_ Hy].
    apply negb_true_iff in Hy. exact Hy.
  - apply nodupE_filter. exact IH.
Qed.

Lemma dget_nodupE : forall l it, nodupE l -> In it l ->
  dget triple_eqb (i_triple it) (map item_entry l) = Some (item_markers it).
Proof.
  induction l as [|x l IH]; intros it N H; [contradiction|].
  destruct N as [N1 N2]. cbn [map dget item_entry]. unfold item_entry at 1.
  destruct H as [H|H].
  - subst x. rewrite triple_eqb_refl. reflexivity.
  - rewrite (N1 _ H). apply IH; assumption.
Qed.

Lemma filter_length_le : forall (A : Type) (p : A -> bool) l, length (filter p l) <= length l.
Proof. intros A p l. induction l as [|x l IH]; simpl; [lia|]. destruct (p x); simpl; lia. Qed.

Lemma filter_length_eq : forall (A : Type) (p : A -> bool) l,
  length (filter p l) = length l -> filter p l = l.
Proof.
  intros A p l. induction l as [|x l IH]; intros H; [reflexivity|].
  simpl in *. destruct (p x); simpl in *.
  - f_equal. apply IH. lia.
  - pose proof (filter_length_le A p l). lia.
Qed.

Lemma firsts_length_le : forall its, length (firsts its) <= length its.
Proof.
  induction its as [|x its IH]; [simpl; lia|]. cbn [firsts length].
  pose proof (filter_length_le _ (fun y => negb (triple_eqb (i_triple y) (i_triple x))) (firsts its)).
  lia.
Qed.

Lemma firsts_distinct : forall its, distinct_triples its = true -> firsts its = its.
Proof.
  unfold distinct_triples. induction its as [|x its IH]; intros H; [reflexivity|].
  apply Nat.eqb_eq in H. cbn [firsts length] in *.
  pose proof (filter_length_le _ (fun y => negb (triple_eqb (i_triple y) (i_triple x))) (firsts its)) as L1.
  pose proof (firsts_length_le its) as L2.
  assert (E1 : length (firsts its) = length its) by lia.
  rewrite (IH (proj2 (Nat.eqb_eq _ _) E1)) in *.
  f_equal. apply filter_length_eq. lia.
Qed.

Lemma distinct_nodupE : forall its, distinct_triples its = true -> nodupE its.
Proof. intros its H. rewrite <- (firsts_distinct its H). apply firsts_nodupE. Qed.

Lemma epis_of_reading : forall r meta it, In it (firsts (r_items r)) ->
  epis_of (reading_graph r meta) (i_triple it) = item_markers it.
Proof.
  intros r meta it H. unfold epis_of, reading_graph. cbn [epidata].
  rewrite (dget_nodupE _ _ (firsts_nodupE _) H). reflexivity.
Qed.

Lemma filter_app' : forall (A : Type) (p : A -> bool) a b, filter p (a ++ b) = filter p a ++ filter p b.
Proof. intros A p a b. induction a as [|x a IH]; [reflexivity|]. simpl. destruct (p x); simpl; rewrite IH; reflexivity. Qed.

Lemma pops_of_markers : forall it, filter is_pop (item_markers it) = repeat Pop (i_closes it).
Proof.
  intros it. unfold item_markers. rewrite !filter_app'.
  destruct (i_ralign it) as [[i1 p1]|], (i_talign it) as [[i2 p2]|], (i_opened it); cbn [filter is_pop app];
    induction (i_closes it) as [|k IH]; try reflexivity; simpl; rewrite IH; reflexivity.
Qed.

Lemma push_of_markers : forall it,
  find is_push (item_markers it) = option_map Push (i_opened it).
Proof.
  intros it. unfold item_markers.
  assert (P : forall k, find is_push (repeat Pop k) = None).
  { induction k as [|k IH]; [reflexivity|]. exact IH. }
  destruct (i_ralign it) as [[i1 p1]|], (i_talign it) as [[i2 p2]|], (i_opened it);
    cbn [find is_push app option_map]; try reflexivity; apply P.
Qed.

(* Push/POP are balanced: every nested node is opened once and closed once *)
Definition opens (it : item) : nat := match i_opened it with Some _ => 1 | None => 0 end.
Fixpoint sum (l : list nat) : nat := match l with [] => 0 | x :: r => x + sum r end.
Lemma sum_app : forall a b, sum (a ++ b) = sum a + sum b.
Proof. induction a as [|x a IH]; intros b; simpl; [reflexivity|]. rewrite IH. lia. Qed.

Definition cn_branch (b : branch) : nat :=
  match snd b with TAtom _ => O | TNode n' => S (count_nested n') end.

Lemma markers_balanced : forall m vars n k,
  sum (map opens (node_items m vars n k)) = count_nested n /\
  sum (map i_closes (node_items m vars n k)) = count_nested n + k.
Proof.
  intros m vars n. induction n as [v bs IHbs] using node_ind'. intros k.
  assert (B : forall k,
            sum (map opens (branch_items m vars v bs k)) = fold_right (fun b acc => cn_branch b + acc) 0 bs /\
            sum (map i_closes (branch_items m vars v bs k)) =
              fold_right (fun b acc => cn_branch b + acc) 0 bs + match bs with [] => 0 | _ => k end).
  { clear k. induction IHbs as [|[role tgt] bs Hb Hbs IH]; intros k; [split; reflexivity|].
    cbn [branch_items fold_right]. rewrite !map_app, !sum_app.
    destruct (IH k) as [IH1 IH2]. rewrite IH1, IH2.
    destruct tgt as [a|n'].
    - change (cn_branch (role, TAtom a)) with 0. cbn [map sum opens atom_item i_opened i_closes].
      destruct bs; split; lia.
    - change (cn_branch (role, TNode n')) with (S (count_nested n')).
      unfold branch_ok in Hb. cbn [snd] in Hb.
      cbn [map sum]. unfold opens at 1. cbn [open_item i_opened i_closes].
      destruct (Hb (S match bs with [] => k | _ :: _ => 0 end)) as [H1 H2]. rewrite H1, H2.
      destruct bs; split; lia. }
  rewrite node_items_eq. cbn [count_nested].
  change (fold_right (fun (b : branch) acc => match snd b with TAtom _ => 0 | TNode n' => S (count_nested n') end + acc) 0 bs)
    with (fold_right (fun b acc => cn_branch b + acc) 0 bs).
  destruct (B k) as [B1 B2].
  destruct (writes_concept bs) eqn:W.
  - rewrite B1, B2. destruct bs; [discriminate|]. split; reflexivity.
  - cbn [map sum]. rewrite B1, B2. unfold opens at 1. cbn [synth_item i_opened i_closes].
    destruct bs; split; lia.
Qed.

(* ------------------------------------------------------------------ *)
(** * Statements about the graph interpret returns *)

Lemma interpret_ok_inv : forall m t g, interpret m t = Ok g ->
  reading m t = Ok (reading_of m (troot t)) /\
  g = reading_graph (reading_of m (troot t)) (tmeta t).
Proof.
  intros m t g H. rewrite interpret_is_reading_graph in H. unfold reading_as_graph, reading in *.
  destruct (surface_check (troot t)); try discriminate. cbn [bind] in *.
  inversion H. split; reflexivity.
Qed.

Lemma reading_ok_inv : forall m t r, reading m t = Ok r -> r = reading_of m (troot t).
Proof.
  intros m t r H. unfold reading in H.
  destruct (surface_check (troot t)); try discriminate. cbn [bind] in H. inversion H. reflexivity.
Qed.

Lemma triple_count : forall m t g, interpret m t = Ok g ->
  length (triples g) = count_branches (troot t) + count_conceptless (troot t).
Proof.
  intros m t g H. destruct (interpret_ok_inv _ _ _ H) as [_ E]. subst g.
  unfold reading_graph, reading_of. cbn [triples r_triples]. rewrite map_length.
  apply triple_count_items.
Qed.

Lemma noop_never_deinverts : forall m t g, deinverts m = false -> interpret m t = Ok g ->
  triples g = map with_colon (written_triples (troot t)) /\
  forall r it, reading m t = Ok r -> In it (r_items r) ->
    i_winv it = false /\ tsrc (i_triple it) = i_ctx it.
Proof.
  intros m t g D H. destruct (interpret_ok_inv _ _ _ H) as [_ E]. subst g. split.
  - unfold reading_graph, reading_of. cbn [triples r_triples].
    rewrite <- (noop_reads_as_written m (defined_vars (troot t)) (troot t) 0 D), map_map. reflexivity.
  - intros r it R Hit. apply reading_ok_inv in R. subst r. unfold reading_of in Hit. cbn [r_items] in Hit.
    eapply noop_item_orientation; eauto.
Qed.

Lemma tilde_in_string_is_content : forall m t r it role s,
  reading m t = Ok r -> In it (r_items r) ->
  i_src it = Some (role, Some (AStr s)) -> complete_string s = true ->
  i_talign it = None /\
  (if i_winv it then tsrc (i_triple it) else ttgt (i_triple it)) = AStr s.
Proof.
  intros m t r it role s R Hit S C. apply reading_ok_inv in R. subst r.
  unfold reading_of in Hit. cbn [r_items] in Hit. eapply string_item; eauto.
Qed.

Lemma layout_markers : forall m t r g, reading m t = Ok r -> interpret m t = Ok g ->
  (forall it, In it (firsts (r_items r)) ->
     epis_of g (i_triple it) = item_markers it /\
     find is_push (epis_of g (i_triple it)) = option_map Push (i_opened it) /\
     length (filter is_pop (epis_of g (i_triple it))) = i_closes it) /\
  sum (map opens (r_items r)) = count_nested (troot t) /\
  sum (map i_closes (r_items r)) = count_nested (troot t).
Proof.
  intros m t r g R H. apply reading_ok_inv in R. subst r.
  destruct (interpret_ok_inv _ _ _ H) as [_ E]. subst g. split.
  - intros it Hit. rewrite (epis_of_reading _ _ _ Hit).
    rewrite pops_of_markers, push_of_markers, repeat_length. auto.
  - unfold reading_of. cbn [r_items].
    destruct (markers_balanced m (defined_vars (troot t)) (troot t) 0) as [B1 B2].
    rewrite B1, B2. split; lia.
Qed.

(* the two views of "closing": handing k down = patching the last triple k times *)
Lemma closes_land_on_last : forall m vars n k, exists init it,
  node_items m vars n k = init ++ [it] /\
  node_items m vars n (S k) = init ++ [inc_closes it].
Proof.
  intros m vars n k. rewrite node_items_bump.
  pose proof (node_items_nonempty m vars n k) as NE.
  induction (node_items m vars n k) as [|x l IH]; [contradiction|].
  destruct l as [|y l].
  - exists [], x. split; reflexivity.
  - destruct IH as (init & it & E1 & E2); [discriminate|].
    exists (x :: init), it. rewrite E1. split; [reflexivity|].
    rewrite bump_cons by (rewrite <- E1; discriminate). rewrite <- E1, E2. reflexivity.
Qed.
