(** Lemmas for C09: the parser is insensitive to the CR / LF a COMMENT token of
    a terminator-keeping container carries (relational walk through the
    parser), concatenated renderings of well-formed trees parse back to the
    same trees (each comment block attached to the following tree), and
    dumps / loads / dump.  The token-level framing theorem (same tokens from
    split lines and from lines with terminators) is in the last section. *)
From PM Require Export Proofs.Roundtrip_lemmas Impl.Codec.
From Coq Require Import Lia.

(* ------------------------------------------------------------------ *)
(** * The parser does not see a CR / LF that a COMMENT token swallowed *)

(* tokens equal up to trailing CR / LF in comment text (line / offset ignored) *)
Definition Rt (t1 t2 : token) : Prop :=
  tty t1 = tty t2 /\
  (if tokty_eqb (tty t1) COMMENT then rstrip_crlf (ttext t1) = rstrip_crlf (ttext t2)
   else ttext t1 = ttext t2).
Definition Rit (i1 i2 : titer) : Prop := Forall2 Rt (it_rest i1) (it_rest i2).

(* both succeed with related values, or both fail (possibly at different positions) *)
Definition Rout {A B : Type} (R : A -> B -> Prop) (o1 : outcome A) (o2 : outcome B) : Prop :=
  match o1, o2 with
  | Ok a, Ok b => R a b
  | Ok _, _ => False
  | _, Ok _ => False
  | _, _ => True
  end.

Lemma Rout_bind : forall (A B A' B' : Type) (R : A -> B -> Prop) (R' : A' -> B' -> Prop)
  (e1 : outcome A) (e2 : outcome B) (k1 : A -> outcome A') (k2 : B -> outcome B'),
  Rout R e1 e2 -> (forall a b, R a b -> Rout R' (k1 a) (k2 b)) -> Rout R' (bind e1 k1) (bind e2 k2).
Proof.
  intros A B A' B' R R' e1 e2 k1 k2 H K.
  destruct e1, e2; simpl in *; try contradiction; try exact I. apply K. exact H.
Qed.

Definition Rstep (p q : token * titer) : Prop := Rt (fst p) (fst q) /\ Rit (snd p) (snd q).
Definition Rres {A : Type} (p q : A * titer) : Prop := fst p = fst q /\ Rit (snd p) (snd q).

Lemma peek_R : forall i1 i2, Rit i1 i2 -> Rout Rt (peek i1) (peek i2).
Proof.
  intros [r1 l1] [r2 l2] H. unfold Rit in H. simpl in H. unfold peek. simpl.
  inversion H as [|t1 t2 r1' r2' Ht Hr]; subst.
  - unfold err_end. simpl. destruct l1, l2; exact I.
  - exact Ht.
Qed.

Lemma next_R : forall i1 i2, Rit i1 i2 -> Rout Rstep (next i1) (next i2).
Proof.
  intros [r1 l1] [r2 l2] H. unfold Rit in H. simpl in H. unfold next. simpl.
  inversion H as [|t1 t2 r1' r2' Ht Hr]; subst; [exact I|].
  simpl. split; [exact Ht | exact Hr].
Qed.

Lemma expect_R : forall ch i1 i2, Rit i1 i2 ->
  Rout (fun p q => Rstep p q /\ ty_in (tty (fst p)) ch = true) (expect i1 ch) (expect i2 ch).
Proof.
  intros ch [r1 l1] [r2 l2] H. unfold Rit in H. simpl in H. unfold expect. simpl.
  inversion H as [|t1 t2 r1' r2' Ht Hr]; subst.
  - unfold err_end. simpl. destruct l1, l2; exact I.
  - destruct Ht as [Ek Et]. rewrite <- Ek.
    destruct (ty_in (tty t1) ch) eqn:E; [|exact I].
    simpl. split; [split; [split; assumption | exact Hr] | exact E].
Qed.

Lemma Rt_text : forall t1 t2, Rt t1 t2 -> tokty_eqb (tty t1) COMMENT = false -> ttext t1 = ttext t2.
Proof. intros t1 t2 [_ H] E. rewrite E in H. exact H. Qed.

Lemma glue_R : forall x i1 i2, Rit i1 i2 -> Rout Rres (glue_alignment x i1) (glue_alignment x i2).
Proof.
  intros x [r1 l1] [r2 l2] H. unfold Rit in H. simpl in H. unfold glue_alignment, peek, next. simpl.
  inversion H as [|t1 t2 r1' r2' Ht Hr]; subst.
  - unfold err_end. simpl. destruct l1, l2; exact I.
  - cbn [bind]. destruct Ht as [Ek Et]. rewrite <- Ek.
    destruct (tokty_eqb (tty t1) ALIGNMENT) eqn:E.
    + cbn [bind]. apply tokty_eqb_true in E. rewrite E in Et. simpl in Et.
      split; simpl; [rewrite Et; reflexivity | exact Hr].
    + split; simpl; [reflexivity | exact H].
Qed.

Lemma Rit_length : forall i1 i2, Rit i1 i2 -> length (it_rest i1) = length (it_rest i2).
Proof.
  intros i1 i2 H. unfold Rit in H. induction H as [|x y l l' Hxy Hl IH]; [reflexivity|].
  simpl. rewrite IH. reflexivity.
Qed.

Lemma Rit_cases : forall i1 i2, Rit i1 i2 ->
  (it_rest i1 = [] /\ it_rest i2 = []) \/
  (exists t1 r1 t2 r2, it_rest i1 = t1 :: r1 /\ it_rest i2 = t2 :: r2 /\ Rt t1 t2 /\ Forall2 Rt r1 r2).
Proof.
  intros [x1 l1] [x2 l2] H. unfold Rit in H. simpl in *. destruct H as [|t1 t2 r1 r2 Ht Hr].
  - left. split; reflexivity.
  - right. exists t1, r1, t2, r2. split; [reflexivity|]. split; [reflexivity|]. split; assumption.
Qed.

Lemma peek_cons : forall it t r, it_rest it = t :: r -> peek it = Ok t.
Proof. intros it t r E. unfold peek. rewrite E. reflexivity. Qed.
Lemma next_cons : forall it t r, it_rest it = t :: r -> next it = Ok (t, mkIter r (Some t)).
Proof. intros it t r E. unfold next. rewrite E. reflexivity. Qed.
Lemma expect_cons : forall it t r ch, it_rest it = t :: r ->
  expect it ch = if ty_in (tty t) ch then Ok (t, mkIter r (Some t)) else err_at t.
Proof. intros it t r ch E. unfold expect. rewrite E. reflexivity. Qed.
Lemma peek_nil : forall it, it_rest it = [] -> peek it = err_end it.
Proof. intros it E. unfold peek. rewrite E. reflexivity. Qed.
Lemma expect_nil : forall it ch, it_rest it = [] -> expect it ch = err_end it.
Proof. intros it ch E. unfold expect. rewrite E. reflexivity. Qed.

Lemma Rout_err_end : forall (A B C D : Type) (R : C -> D -> Prop) i1 i2 (k1 : A -> outcome C) (k2 : B -> outcome D),
  Rout R (bind (err_end i1) k1) (bind (err_end i2) k2).
Proof.
  intros. unfold err_end. destruct (it_last i1), (it_last i2); exact I.
Qed.

Definition Rpn (pn1 pn2 : titer -> outcome (node * titer)) : Prop :=
  forall i1 i2, Rit i1 i2 -> Rout Rres (pn1 i1) (pn2 i2).

Lemma not_comment_text : forall t1 t2 k, Rt t1 t2 -> tty t1 = k -> k <> COMMENT -> ttext t1 = ttext t2.
Proof.
  intros t1 t2 k H E N. apply (Rt_text _ _ H). rewrite E. destruct k; try reflexivity. contradiction.
Qed.

Lemma ty_in_one : forall k k', ty_in k [k'] = true -> k = k'.
Proof. intros k k' H. unfold ty_in in H. simpl in H. rewrite orb_false_r in H. apply tokty_eqb_true. exact H. Qed.

Lemma edges_loop_R : forall pn1 pn2 v1 v2, Rpn pn1 pn2 -> ttext v1 = ttext v2 ->
  forall g acc i1 i2, Rit i1 i2 ->
  Rout Rres (edges_loop pn1 v1 g acc i1) (edges_loop pn2 v2 g acc i2).
Proof.
  intros pn1 pn2 v1 v2 Hpn Ev. induction g as [|g IH]; intros acc i1 i2 H; [exact I|].
  rewrite !edges_loop_S.
  destruct (Rit_cases _ _ H) as [[E1 E2]|[t1 [r1 [t2 [r2 [E1 [E2 [Ht Hr]]]]]]]].
  { rewrite (peek_nil _ E1), (peek_nil _ E2). apply Rout_err_end. }
  rewrite (peek_cons _ _ _ E1), (peek_cons _ _ _ E2). cbn [bind].
  assert (Ek := proj1 Ht). rewrite <- Ek.
  rewrite !(expect_cons _ _ _ _ E1), !(expect_cons _ _ _ _ E2). rewrite <- Ek.
  destruct (tokty_eqb (tty t1) RPAREN) eqn:ER.
  - apply tokty_eqb_true in ER. rewrite ER. cbn. rewrite Ev. split; [reflexivity | exact Hr].
  - destruct (ty_in (tty t1) [ROLE]) eqn:EY; [|exact I]. cbn [bind].
    apply ty_in_one in EY.
    rewrite (not_comment_text _ _ ROLE Ht EY ltac:(discriminate)).
    apply (Rout_bind _ _ _ _ Rres); [apply glue_R; exact Hr|].
    intros [role1 k1] [role2 k2] [Er Hk]. simpl in Er, Hk. subst role2.
    destruct (Rit_cases _ _ Hk) as [[F1 F2]|[n1 [s1 [n2 [s2 [F1 [F2 [Hn Hs]]]]]]]].
    { rewrite (peek_nil _ F1), (peek_nil _ F2). apply Rout_err_end. }
    rewrite (peek_cons _ _ _ F1), (peek_cons _ _ _ F2). cbn [bind].
    assert (En := proj1 Hn). rewrite <- En.
    destruct (ty_in (tty n1) [SYMBOL; STRING]) eqn:G1.
    + rewrite (next_cons _ _ _ F1), (next_cons _ _ _ F2). cbn [bind].
      assert (Tn : ttext n1 = ttext n2).
      { apply (Rt_text _ _ Hn). destruct (tty n1); try reflexivity; discriminate. }
      rewrite Tn.
      apply (Rout_bind _ _ _ _ Rres); [apply glue_R; exact Hs|].
      intros [tg1 m1] [tg2 m2] [Et Hm]. simpl in Et, Hm. subst tg2. apply IH. exact Hm.
    + destruct (tokty_eqb (tty n1) LPAREN).
      * apply (Rout_bind _ _ _ _ Rres); [apply Hpn; exact Hk|].
        intros [nd1 m1] [nd2 m2] [Et Hm]. simpl in Et, Hm. subst nd2. apply IH. exact Hm.
      * destruct (ty_in (tty n1) [ROLE; RPAREN]); [apply IH; exact Hk | exact I].
Qed.

Lemma parse_concept_R : forall j1 j2 n1 s1 n2 s2, it_rest j1 = n1 :: s1 -> it_rest j2 = n2 :: s2 ->
  Rt n1 n2 -> Forall2 Rt s1 s2 -> Rit j1 j2 ->
  Rout Rres (parse_concept j1 n1) (parse_concept j2 n2).
Proof.
  intros j1 j2 n1 s1 n2 s2 F1 F2 Hn Hs Hj.
  unfold parse_concept. rewrite <- (proj1 Hn).
  destruct (tokty_eqb (tty n1) SLASH); [|split; [reflexivity | exact Hj]].
  rewrite (next_cons _ _ _ F1), (next_cons _ _ _ F2). cbn [bind].
  destruct Hs as [|c1 c2 s1' s2' Hc Hs'].
  { cbn. exact I. }
  unfold peek. cbn [it_rest bind]. rewrite <- (proj1 Hc).
  destruct (ty_in (tty c1) [SYMBOL; STRING]) eqn:G1.
  - unfold next. cbn [it_rest bind].
    assert (Tn : ttext c1 = ttext c2).
    { apply (Rt_text _ _ Hc). destruct (tty c1); try reflexivity; discriminate. }
    rewrite Tn.
    apply (Rout_bind _ _ _ _ Rres); [apply glue_R; exact Hs'|].
    intros [tg1 m1] [tg2 m2] [Et Hm]. simpl in Et, Hm. subst tg2.
    split; [reflexivity | exact Hm].
  - split; [reflexivity|]. unfold Rit. simpl. constructor; assumption.
Qed.

Lemma parse_node_R : forall f, Rpn (parse_node f) (parse_node f).
Proof.
  induction f as [|f IH]; intros i1 i2 H; [exact I|].
  rewrite !parse_node_S.
  destruct (Rit_cases _ _ H) as [[E1 E2]|[t1 [r1 [t2 [r2 [E1 [E2 [Ht Hr]]]]]]]].
  { rewrite (expect_nil _ _ E1), (expect_nil _ _ E2). apply Rout_err_end. }
  rewrite (expect_cons _ _ _ _ E1), (expect_cons _ _ _ _ E2). rewrite <- (proj1 Ht).
  destruct (ty_in (tty t1) [LPAREN]); [|exact I]. cbn [bind].
  destruct Hr as [|a1 a2 r1' r2' Ha Hr'].
  { cbn. exact I. }
  unfold peek at 1 3. cbn [it_rest bind].
  assert (Ek := proj1 Ha). rewrite <- Ek.
  unfold expect. cbn [it_rest]. rewrite <- Ek.
  destruct (tokty_eqb (tty a1) RPAREN) eqn:ER.
  - apply tokty_eqb_true in ER. rewrite ER. cbn. split; [reflexivity | exact Hr'].
  - destruct (ty_in (tty a1) [SYMBOL]) eqn:EY; [|exact I]. cbn [bind].
    apply ty_in_one in EY.
    pose proof (not_comment_text _ _ SYMBOL Ha EY ltac:(discriminate)) as Ev.
    destruct Hr' as [|n1 n2 s1 s2 Hn Hs].
    { cbn. exact I. }
    unfold peek. cbn [it_rest bind].
    apply (Rout_bind _ _ _ _ Rres).
    + apply (parse_concept_R _ _ n1 s1 n2 s2); try reflexivity; try assumption.
      unfold Rit. simpl. constructor; assumption.
    + intros [e1 m1] [e2 m2] [Ee Hm]. simpl in Ee, Hm. subst e2.
      rewrite (Rit_length _ _ Hm). apply edges_loop_R; [exact IH | exact Ev | exact Hm].
Qed.

Lemma parse_comments_R : forall f md i1 i2, Rit i1 i2 ->
  Rout Rres (parse_comments f i1 md) (parse_comments f i2 md).
Proof.
  induction f as [|f IH]; intros md i1 i2 H; [exact I|].
  rewrite !parse_comments_S.
  destruct (Rit_cases _ _ H) as [[E1 E2]|[t1 [r1 [t2 [r2 [E1 [E2 [Ht Hr]]]]]]]].
  { rewrite (peek_nil _ E1), (peek_nil _ E2). apply Rout_err_end. }
  rewrite (peek_cons _ _ _ E1), (peek_cons _ _ _ E2). cbn [bind].
  destruct Ht as [Ek Et]. rewrite <- Ek.
  destruct (tokty_eqb (tty t1) COMMENT) eqn:EC.
  - rewrite (next_cons _ _ _ E1), (next_cons _ _ _ E2). cbn [bind]. cbv zeta.
    rewrite <- Et. apply IH. exact Hr.
  - split; [reflexivity | exact H].
Qed.

Lemma parse_tree_R : forall i1 i2, Rit i1 i2 -> Rout Rres (parse_tree i1) (parse_tree i2).
Proof.
  intros i1 i2 H. unfold parse_tree, parse_fuel. rewrite (Rit_length _ _ H).
  apply (Rout_bind _ _ _ _ Rres); [apply parse_comments_R; exact H|].
  intros [md1 j1] [md2 j2] [Em Hj]. simpl in Em, Hj. subst md2.
  apply (Rout_bind _ _ _ _ Rres); [apply parse_node_R; exact Hj|].
  intros [n1 k1] [n2 k2] [En Hk]. simpl in En, Hk. subst n2.
  split; [reflexivity | exact Hk].
Qed.

Definition Rend (o1 o2 : outcome unit) : Prop := Rout (fun _ _ => True) o1 o2.

Lemma iterparse_toks_S : forall f' it acc, iterparse_toks (S f') it acc =
  match it_rest it with
  | [] => (rev acc, Ok tt)
  | t :: _ =>
      if ty_in (tty t) [COMMENT; LPAREN] then
        match parse_tree it with
        | Ok (tr, it') => iterparse_toks f' it' (tr :: acc)
        | DecodeErr l o => (rev acc, DecodeErr l o)
        | LayoutErr k => (rev acc, LayoutErr k) | ConstErr => (rev acc, ConstErr)
        | ModelErr => (rev acc, ModelErr) | SurfaceErr => (rev acc, SurfaceErr)
        | GraphErr => (rev acc, GraphErr) | Other k => (rev acc, Other k)
        | OutOfFuel => (rev acc, OutOfFuel)
        end
      else (rev acc, Ok tt)
  end.
Proof. reflexivity. Qed.

Lemma iterparse_toks_R : forall f i1 i2 acc, Rit i1 i2 ->
  fst (iterparse_toks f i1 acc) = fst (iterparse_toks f i2 acc) /\
  Rend (snd (iterparse_toks f i1 acc)) (snd (iterparse_toks f i2 acc)).
Proof.
  induction f as [|f IH]; intros i1 i2 acc H; [split; [reflexivity | exact I]|].
  rewrite !iterparse_toks_S.
  destruct (Rit_cases _ _ H) as [[E1 E2]|[t1 [r1 [t2 [r2 [E1 [E2 [Ht Hr]]]]]]]].
  { rewrite E1, E2. split; [reflexivity | exact I]. }
  rewrite E1, E2. rewrite <- (proj1 Ht).
  destruct (ty_in (tty t1) [COMMENT; LPAREN]); [|split; [reflexivity | exact I]].
  pose proof (parse_tree_R _ _ H) as PT.
  destruct (parse_tree i1) as [[tr1 j1]| | | | | | | |];
  destruct (parse_tree i2) as [[tr2 j2]| | | | | | | |];
    simpl in PT; try contradiction; try (split; [reflexivity | exact I]).
  destruct PT as [Et Hj]. simpl in Et, Hj. subst tr2. apply IH. exact Hj.
Qed.

Lemma interpret_all_R : forall m ts o1 o2, Rend o1 o2 ->
  fst (interpret_all m ts o1) = fst (interpret_all m ts o2) /\
  Rend (snd (interpret_all m ts o1)) (snd (interpret_all m ts o2)).
Proof.
  intros m. induction ts as [|t ts IH]; intros o1 o2 H; [split; [reflexivity | exact H]|].
  simpl. destruct (interpret m t) as [g| | | | | | | |]; try (split; [reflexivity | exact I]).
  destruct (IH o1 o2 H) as [A B].
  destruct (interpret_all m ts o1) as [gs1 e1]. destruct (interpret_all m ts o2) as [gs2 e2].
  simpl in *. subst gs2. split; [reflexivity | exact B].
Qed.

(* ------------------------------------------------------------------ *)
(** * Concatenated renderings parse back to the same trees *)

Lemma join_snoc_app : forall sep (l : list str) x y, join sep (l ++ [x]) ++ y = join sep (l ++ [x ++ y]).
Proof.
  intros sep. induction l as [|a l IH]; intros x y; [reflexivity|].
  change ((a :: l) ++ [x]) with (a :: (l ++ [x])). change ((a :: l) ++ [x ++ y]) with (a :: (l ++ [x ++ y])).
  rewrite !join_cons2 by (destruct l; discriminate).
  rewrite <- !app_assoc, IH. reflexivity.
Qed.

Lemma blanks_tlayout : forall J s ts, Forall blank J -> tlayout s ts -> tlayout (J ++ s) ts.
Proof.
  induction J as [|c J IH]; intros s ts F H; [exact H|].
  inversion F; subst. simpl. apply tl_blank; [assumption | apply IH; assumption].
Qed.

(* the rendering of a tree followed by more text that starts with a blank *)
Lemma format_then_tlayout : forall t indent compact tail tts, wf_tree t = true ->
  tlayout tail tts -> head_ok tail ->
  tlayout (format indent compact t ++ tail) (tokens_of t ++ tts).
Proof.
  intros t indent compact tail tts W T Hd. unfold wf_tree in W.
  apply andb_true_iff in W. destruct W as [Wm Wn].
  unfold format, tokens_of. rewrite join_snoc_app, <- app_assoc.
  apply format_text_tlayout; [apply wf_meta_all; exact Wm|].
  apply layout_app_t; [apply node_layout; exact Wn | exact T | exact Hd].
Qed.

Definition blank_sep (sep : str) : Prop := exists j J, sep = j :: J /\ blank j /\ Forall blank J.

Lemma join_render_tlayout : forall sep indent compact ts, blank_sep sep ->
  Forall (fun t => wf_tree t = true) ts ->
  tlayout (join sep (map (format indent compact) ts)) (flat_map tokens_of ts).
Proof.
  intros sep indent compact ts [j [J [Es [Bj BJ]]]] F. induction F as [|t ts W F IH]; [constructor|].
  destruct ts as [|t' ts'].
  - simpl. rewrite app_nil_r. apply format_tlayout. exact W.
  - change (map (format indent compact) (t :: t' :: ts'))
      with (format indent compact t :: map (format indent compact) (t' :: ts')).
    rewrite join_cons2 by discriminate.
    change (flat_map tokens_of (t :: t' :: ts')) with (tokens_of t ++ flat_map tokens_of (t' :: ts')).
    apply format_then_tlayout; [exact W | |].
    + apply blanks_tlayout; [rewrite Es; constructor; assumption | exact IH].
    + rewrite Es. simpl. destruct Bj as [B|B]; [left | right; left]; exact B.
Qed.

Lemma hd_tokens_of : forall t l, exists k, hd_ty (tokens_of t ++ l) = Some k /\ (k = COMMENT \/ k = LPAREN).
Proof.
  intros [n md] l. unfold tokens_of. simpl. destruct md as [|kv md].
  - simpl. exists LPAREN. split; [apply hd_node | right; reflexivity].
  - exists COMMENT. split; [reflexivity | left; reflexivity].
Qed.

Lemma view_nil : forall it, view it = [] -> it_rest it = [].
Proof. intros it H. unfold view in H. apply map_eq_nil in H. exact H. Qed.

Lemma iterparse_toks_trees : forall ts f it acc, Forall (fun t => wf_tree t = true) ts ->
  view it = flat_map tokens_of ts -> length ts < f ->
  iterparse_toks f it acc = (rev acc ++ ts, Ok tt).
Proof.
  induction ts as [|t ts IH]; intros f it acc F V Lf.
  - destruct f as [|f]; [simpl in Lf; lia|]. rewrite iterparse_toks_S.
    rewrite (view_nil _ V), app_nil_r. reflexivity.
  - destruct f as [|f]; [simpl in Lf; lia|]. rewrite iterparse_toks_S.
    inversion F as [|? ? W F']. subst. simpl in V.
    destruct (hd_tokens_of t (flat_map tokens_of ts)) as [k [Hk Kk]].
    destruct (tokens_of t ++ flat_map tokens_of ts) as [|[k' w'] L] eqn:EL; [discriminate|].
    simpl in Hk. inversion Hk. subst k'.
    destruct (view_cons _ _ _ _ V) as [t0 [r0 [E0 [Ek0 _]]]]. rewrite E0, Ek0.
    assert (Ty : ty_in k [COMMENT; LPAREN] = true) by (destruct Kk; subst k; reflexivity).
    rewrite Ty. rewrite <- EL in V.
    destruct (parse_tree_view t it (flat_map tokens_of ts) W V) as [it' [P V']].
    rewrite P. rewrite (IH f it' (t :: acc) F' V' ltac:(simpl in Lf; lia)).
    simpl rev. rewrite <- app_assoc. reflexivity.
Qed.

Lemma tokens_of_nonempty : forall t, 1 <= length (tokens_of t).
Proof.
  intros [n md]. unfold tokens_of. simpl. rewrite app_length.
  destruct n as [v bs]. destruct v; simpl; lia.
Qed.

Lemma flat_tokens_len : forall ts, length ts <= length (flat_map tokens_of ts).
Proof.
  induction ts as [|t ts IH]; [simpl; lia|]. simpl. rewrite app_length.
  pose proof (tokens_of_nonempty t). lia.
Qed.

Theorem iterparse_concat : forall sep indent compact ts, blank_sep sep ->
  Forall (fun t => wf_tree t = true) ts ->
  iterparse_str (join sep (map (format indent compact) ts)) = (ts, Ok tt).
Proof.
  intros sep indent compact ts Bs F. unfold iterparse_str, iterparse_lines.
  pose proof (lex_tlayout _ _ (join_render_tlayout sep indent compact ts Bs F)) as L.
  unfold lex_str in L.
  set (toks := lex_lines PENMAN_ALTS (split_lines (join sep (map (format indent compact) ts)))) in *.
  rewrite (iterparse_toks_trees ts (S (length toks)) (iter_of toks) [] F).
  - reflexivity.
  - unfold view, iter_of. simpl. exact L.
  - assert (length toks = length (flat_map tokens_of ts)) by (rewrite <- L, map_length; reflexivity).
    pose proof (flat_tokens_len ts). lia.
Qed.

(* ------------------------------------------------------------------ *)
(** * dumps / loads / dump *)

Fixpoint interp_seq (m : model) (ts : list tree) : outcome (list graph) :=
  match ts with
  | [] => Ok []
  | t :: ts' => g <- interpret m t ;; gs <- interp_seq m ts' ;; Ok (g :: gs)
  end.

Lemma collect_interpret_all : forall m ts, collect (interpret_all m ts (Ok tt)) = interp_seq m ts.
Proof.
  intros m. induction ts as [|t ts IH]; [reflexivity|].
  simpl. destruct (interpret m t) as [g| | | | | | | |]; try reflexivity.
  cbn [bind]. rewrite <- IH. destruct (interpret_all m ts (Ok tt)) as [gs o].
  unfold collect. simpl. destruct o; reflexivity.
Qed.

Lemma decode_all_render : forall m indent compact ts, Forall (fun t => wf_tree t = true) ts ->
  decode_all m (map (format indent compact) ts) = interp_seq m ts.
Proof.
  intros m indent compact ts F. induction F as [|t ts W F IH]; [reflexivity|].
  simpl. unfold decode at 1. rewrite (parse_format_roundtrip t indent compact W). cbn [bind].
  rewrite IH. reflexivity.
Qed.

Lemma encode_all_trees : forall m indent compact gs ss, encode_all m indent compact gs = Ok ss ->
  (forall g t, In g gs -> configure m g None = Ok t -> wf_tree t = true) ->
  exists ts, Forall (fun t => wf_tree t = true) ts /\ ss = map (format indent compact) ts /\
             Forall2 (fun g t => configure m g None = Ok t) gs ts.
Proof.
  intros m indent compact. induction gs as [|g gs IH]; intros ss E H.
  - simpl in E. inversion E. exists []. repeat split; constructor.
  - simpl in E. apply bind_inv in E. destruct E as [s [E1 E]].
    apply bind_inv in E. destruct E as [ss' [E2 E]]. inversion E. subst ss.
    unfold encode, encode_top in E1. apply bind_inv in E1. destruct E1 as [t [C E1]]. inversion E1. subst s.
    destruct (IH ss' E2) as [ts [F [Es F2]]]; [intros g' t' I'; apply H; right; exact I'|].
    exists (t :: ts). split; [|split].
    + constructor; [apply (H g t); [left; reflexivity | exact C] | exact F].
    + simpl. rewrite Es. reflexivity.
    + constructor; assumption.
Qed.

Theorem dumps_loads : forall m indent compact gs ss, encode_all m indent compact gs = Ok ss ->
  (forall g t, In g gs -> configure m g None = Ok t -> wf_tree t = true) ->
  dumps m indent compact gs = Ok (join BLANKLINE ss) /\
  loads m (join BLANKLINE ss) = decode_all m ss.
Proof.
  intros m indent compact gs ss E H. split; [unfold dumps; rewrite E; reflexivity|].
  destruct (encode_all_trees _ _ _ _ _ E H) as [ts [F [Es _]]]. subst ss.
  unfold loads, iterdecode_str, iterdecode_lines.
  assert (Bs : blank_sep BLANKLINE).
  { exists 10%N, [10%N]. split; [reflexivity|]. split; [right; reflexivity|].
    constructor; [right; reflexivity | constructor]. }
  pose proof (iterparse_concat BLANKLINE indent compact ts Bs F) as IP.
  unfold iterparse_str in IP. rewrite IP.
  rewrite collect_interpret_all, decode_all_render by exact F. reflexivity.
Qed.

Lemma dump_rest_ok : forall m indent compact gs ss, encode_all m indent compact gs = Ok ss ->
  dump_rest m indent compact gs = (concat (map (fun s => 10%N :: s ++ [10%N]) ss), Ok tt).
Proof.
  intros m indent compact. induction gs as [|g gs IH]; intros ss E.
  - simpl in E. inversion E. reflexivity.
  - simpl in E. apply bind_inv in E. destruct E as [s [E1 E]].
    apply bind_inv in E. destruct E as [ss' [E2 E]]. inversion E. subst ss.
    simpl. rewrite E1, (IH ss' E2). simpl. rewrite <- app_assoc. reflexivity.
Qed.

Lemma stream_join : forall ss s,
  s ++ 10%N :: concat (map (fun s' => 10%N :: s' ++ [10%N]) ss) = join BLANKLINE (s :: ss) ++ [10%N].
Proof.
  induction ss as [|s' ss IH]; intros s; [reflexivity|].
  rewrite join_cons2 by discriminate.
  rewrite <- !app_assoc. rewrite <- (IH s').
  change (concat (map (fun s'0 => 10%N :: s'0 ++ [10%N]) (s' :: ss)))
    with ((10%N :: s' ++ [10%N]) ++ concat (map (fun s'0 => 10%N :: s'0 ++ [10%N]) ss)).
  f_equal. unfold BLANKLINE. simpl. rewrite <- app_assoc. reflexivity.
Qed.

Theorem dump_text_ok : forall m indent compact gs ss, encode_all m indent compact gs = Ok ss ->
  dump_text m indent compact gs =
  (match ss with [] => [] | _ => join BLANKLINE ss ++ [10%N] end, Ok tt).
Proof.
  intros m indent compact [|g gs] ss E.
  - simpl in E. inversion E. reflexivity.
  - simpl in E. apply bind_inv in E. destruct E as [s [E1 E]].
    apply bind_inv in E. destruct E as [ss' [E2 E]]. inversion E. subst ss.
    simpl dump_text. rewrite E1, (dump_rest_ok _ _ _ _ _ E2). rewrite stream_join. reflexivity.
Qed.

(* ------------------------------------------------------------------ *)
(** * Framing: split lines versus lines that keep their terminators *)

(* ------------------------------------------------------------------ *)
(** * Terminators *)

Definition term (q : str) : Prop := q = [10%N] \/ q = [13%N] \/ q = [13%N; 10%N].

Lemma term_hd : forall q, term q -> exists c0 q0, q = c0 :: q0 /\ (c0 = 10%N \/ c0 = 13%N).
Proof.
  intros q [E|[E|E]]; subst q.
  - exists 10%N, []. split; [reflexivity | left; reflexivity].
  - exists 13%N, []. split; [reflexivity | right; reflexivity].
  - exists 13%N, [10%N]. split; [reflexivity | right; reflexivity].
Qed.

Lemma hd_facts : forall c, (c = 10 \/ c = 13)%N ->
  is_digit c = false /\ eqc c 44 = false /\ is_ascii_alpha c = false /\ eqc c 46 = false /\
  eqc c 126 = false /\ is_name c = false /\ is_ws c = true /\ eqc c 35 = false /\ eqc c 34 = false.
Proof. intros c [H|H]; subst c; repeat split; reflexivity. Qed.

Definition ext (q : str) (o : option (str * str)) : option (str * str) :=
  match o with Some (a, b) => Some (a, b ++ q) | None => None end.

(* ------------------------------------------------------------------ *)
(** * span *)

Lemma span_app_stop : forall p r q a b, head_fails p q -> span p r = (a, b) ->
  span p (r ++ q) = (a, b ++ q).
Proof.
  intros p r q a b Hq Sp. destruct (span_spec _ _ _ _ Sp) as [E [Fa Hb]]. subst r.
  rewrite <- app_assoc. apply span_exact; [exact Fa|].
  destruct b as [|y b]; [exact Hq | exact Hb].
Qed.

(* ------------------------------------------------------------------ *)
(** * Locality of the scanners *)

Lemma loc_char : forall k x q, x <> [] -> m_char k (x ++ q) = ext q (m_char k x).
Proof.
  intros k [|c r] q Hx; [congruence|].
  change ((c :: r) ++ q) with (c :: (r ++ q)). unfold m_char, ext.
  destruct (eqc c k); reflexivity.
Qed.

Lemma loc_unexp : forall x q, x <> [] -> m_unexp (x ++ q) = ext q (m_unexp x).
Proof.
  intros [|c r] q Hx; [congruence|].
  change ((c :: r) ++ q) with (c :: (r ++ q)). unfold m_unexp, ext.
  destruct (is_ws c); reflexivity.
Qed.

Lemma loc_role : forall c0 q0 x, (c0 = 10 \/ c0 = 13)%N -> x <> [] ->
  m_role (x ++ c0 :: q0) = ext (c0 :: q0) (m_role x).
Proof.
  intros c0 q0 [|c r] Hc Hx; [congruence|].
  destruct (hd_facts c0 Hc) as [_ [_ [_ [_ [_ [Nm _]]]]]].
  change ((c :: r) ++ c0 :: q0) with (c :: (r ++ c0 :: q0)). unfold m_role, ext.
  destruct (eqc c 58); [|reflexivity].
  destruct (span is_name r) as [a b] eqn:Sp.
  rewrite (span_app_stop _ _ (c0 :: q0) _ _ Nm Sp). reflexivity.
Qed.

Lemma loc_symbol : forall c0 q0 x, (c0 = 10 \/ c0 = 13)%N ->
  m_symbol (x ++ c0 :: q0) = ext (c0 :: q0) (m_symbol x).
Proof.
  intros c0 q0 x Hc.
  destruct (hd_facts c0 Hc) as [_ [_ [_ [_ [_ [Nm _]]]]]].
  unfold m_symbol, ext.
  destruct (span is_name x) as [a b] eqn:Sp.
  rewrite (span_app_stop _ _ (c0 :: q0) _ _ Nm Sp). destruct a; reflexivity.
Qed.

Lemma msb_none : forall q, term q -> forall n r, length r <= n ->
  m_string_body r = None -> m_string_body (r ++ q) = None.
Proof.
  intros q Tq. induction n as [|n IH]; intros r L H.
  - destruct r; [|simpl in L; lia]. destruct Tq as [E|[E|E]]; subst q; reflexivity.
  - destruct r as [|c r'].
    { destruct Tq as [E|[E|E]]; subst q; reflexivity. }
    simpl in L. change ((c :: r') ++ q) with (c :: (r' ++ q)).
    simpl in H. simpl.
    destruct (eqc c 34); [discriminate|].
    destruct (eqc c 92).
    + destruct r' as [|d r''].
      * destruct Tq as [E|[E|E]]; subst q; reflexivity.
      * change ((d :: r'') ++ q) with (d :: (r'' ++ q)). cbv iota.
        destruct (eqc d 10); [reflexivity|].
        destruct (m_string_body r'') as [[a0 b0]|] eqn:E; [discriminate|].
        simpl in L. rewrite (IH r'' ltac:(lia) E). reflexivity.
    + destruct (m_string_body r') as [[a0 b0]|] eqn:E; [discriminate|].
      rewrite (IH r' ltac:(lia) E). reflexivity.
Qed.

Lemma loc_string : forall x q, term q -> m_string (x ++ q) = ext q (m_string x).
Proof.
  intros x q Tq. destruct (m_string x) as [[a b]|] eqn:E.
  - unfold ext. apply m_string_app. exact E.
  - unfold ext. destruct x as [|c r].
    + destruct Tq as [E1|[E1|E1]]; subst q; reflexivity.
    + change ((c :: r) ++ q) with (c :: (r ++ q)). unfold m_string in *.
      destruct (eqc c 34); [|reflexivity].
      destruct (m_string_body r) as [[a b]|] eqn:B; [discriminate|].
      rewrite (msb_none q Tq _ r (le_n _) B). reflexivity.
Qed.

(* ALIGNMENT, bottom-up *)

Lemma m_more_loc : forall c0 q0, (c0 = 10 \/ c0 = 13)%N ->
  forall f p a b f', length p <= f -> f <= f' -> m_more f p = (a, b) ->
  m_more f' (p ++ c0 :: q0) = (a, b ++ c0 :: q0).
Proof.
  intros c0 q0 Hc. destruct (hd_facts c0 Hc) as [Dg [Cm _]].
  assert (Stop : forall g, m_more g (c0 :: q0) = ([], c0 :: q0)).
  { intros [|g]; simpl; [reflexivity | rewrite Cm; reflexivity]. }
  induction f as [|f IH]; intros p a b f' L1 L2 H.
  - destruct p; [|simpl in L1; lia]. simpl in H. injection H as H1 H2. subst a b. apply Stop.
  - destruct p as [|c r].
    { simpl in H. injection H as H1 H2. subst a b. apply Stop. }
    destruct f' as [|f']; [lia|].
    change ((c :: r) ++ c0 :: q0) with (c :: (r ++ c0 :: q0)).
    simpl in H. simpl.
    destruct (eqc c 44).
    2:{ injection H as H1 H2. subst a b. reflexivity. }
    destruct (span is_digit r) as [d r'] eqn:Sp.
    rewrite (span_app_stop _ _ (c0 :: q0) _ _ Dg Sp).
    destruct d as [|d0 d].
    { injection H as H1 H2. subst a b. reflexivity. }
    destruct (m_more f r') as [a0 b0] eqn:M.
    injection H as H1 H2. subst a b.
    destruct (span_spec _ _ _ _ Sp) as [E _].
    assert (Lr : length r' <= f).
    { subst r. simpl in L1. rewrite app_length in L1. lia. }
    rewrite (IH r' a0 b0 f' Lr ltac:(lia) M). reflexivity.
Qed.

Lemma dl_loc : forall c0 q0, (c0 = 10 \/ c0 = 13)%N ->
  forall p, m_digits_list (p ++ c0 :: q0) = ext (c0 :: q0) (m_digits_list p).
Proof.
  intros c0 q0 Hc p. destruct (hd_facts c0 Hc) as [Dg _]. unfold m_digits_list, ext.
  destruct (span is_digit p) as [d r] eqn:Sp.
  rewrite (span_app_stop _ _ (c0 :: q0) _ _ Dg Sp).
  destruct d as [|d0 d]; [reflexivity|].
  destruct (m_more (length r) r) as [a b] eqn:M.
  assert (Lr : length r <= length (r ++ c0 :: q0)) by (rewrite app_length; lia).
  rewrite (m_more_loc c0 q0 Hc (length r) r a b _ (le_n _) Lr M). reflexivity.
Qed.

Lemma loc_align : forall c0 q0, (c0 = 10 \/ c0 = 13)%N -> forall x, x <> [] ->
  m_align (x ++ c0 :: q0) = ext (c0 :: q0) (m_align x).
Proof.
  intros c0 q0 Hc x Hx. destruct (hd_facts c0 Hc) as [Dg [Cm [Al [Pt [Tl _]]]]].
  pose proof (dl_loc c0 q0 Hc) as DL.
  destruct x as [|t r]; [congruence|].
  change ((t :: r) ++ c0 :: q0) with (t :: (r ++ c0 :: q0)).
  unfold m_align. destruct (eqc t 126); [|reflexivity].
  destruct r as [|c r1].
  - change ([] ++ c0 :: q0) with (c0 :: q0). cbv iota beta zeta. rewrite Al.
    rewrite (m_digits_list_nondigit c0 q0 Dg). reflexivity.
  - change ((c :: r1) ++ c0 :: q0) with (c :: (r1 ++ c0 :: q0)). cbv iota beta zeta.
    destruct (is_ascii_alpha c) eqn:Ac.
    + assert (N1 : forall z, m_digits_list (c :: z) = None).
      { intros z. apply m_digits_list_nondigit. apply alpha_not_digit. exact Ac. }
      rewrite (N1 r1), (N1 (r1 ++ c0 :: q0)).
      destruct r1 as [|d r2].
      * change ([] ++ c0 :: q0) with (c0 :: q0). cbv iota beta. rewrite Pt.
        rewrite (m_digits_list_nondigit c0 q0 Dg). reflexivity.
      * change ((d :: r2) ++ c0 :: q0) with (d :: (r2 ++ c0 :: q0)). cbv iota beta.
        change (d :: r2 ++ c0 :: q0) with ((d :: r2) ++ c0 :: q0).
        rewrite !DL.
        destruct (eqc d 46); destruct (m_digits_list r2) as [[a2 b2]|];
          destruct (m_digits_list (d :: r2)) as [[a1 b1]|]; reflexivity.
    + change (c :: r1 ++ c0 :: q0) with ((c :: r1) ++ c0 :: q0). rewrite DL.
      destruct (m_digits_list (c :: r1)) as [[a b]|]; reflexivity.
Qed.

Lemma matcher_loc : forall k x q, k <> COMMENT -> x <> [] -> term q ->
  matcher_of k (x ++ q) = ext q (matcher_of k x).
Proof.
  intros k x q Hk Hx Tq. destruct (term_hd q Tq) as [c0 [q0 [Eq Hc]]].
  destruct k; cbn [matcher_of]; try congruence.
  - apply loc_string. exact Tq.
  - apply loc_char. exact Hx.
  - apply loc_char. exact Hx.
  - apply loc_char. exact Hx.
  - subst q. apply loc_role; assumption.
  - subst q. apply loc_symbol; assumption.
  - subst q. apply loc_align; assumption.
  - apply loc_unexp. exact Hx.
Qed.

(* ------------------------------------------------------------------ *)
(** * Every scanner consumes a non-empty prefix *)

Lemma matcher_spec : forall k s a b, matcher_of k s = Some (a, b) -> s = a ++ b /\ a <> [].
Proof.
  intros k s a b H. destruct k; cbn [matcher_of] in H.
  - unfold m_comment in H. destruct s as [|c s']; [discriminate|].
    destruct (eqc c 35); [|discriminate].
    destruct (span (fun c1 => negb (eqc c1 10)) s') as [a0 b0] eqn:Sp.
    destruct (span_spec _ _ _ _ Sp) as [E _]. subst s'.
    destruct b0 as [|y [|z b0]]; [| |discriminate]; injection H as H1 H2; subst a b;
      (split; [reflexivity | discriminate]).
  - destruct (m_string_split _ _ _ H) as [E [a' Ea]]. subst a. split; [exact E | discriminate].
  - unfold m_char in H. destruct s as [|c r]; [discriminate|].
    destruct (eqc c 40); [|discriminate]. injection H as H1 H2. subst a b.
    split; [reflexivity | discriminate].
  - unfold m_char in H. destruct s as [|c r]; [discriminate|].
    destruct (eqc c 41); [|discriminate]. injection H as H1 H2. subst a b.
    split; [reflexivity | discriminate].
  - unfold m_char in H. destruct s as [|c r]; [discriminate|].
    destruct (eqc c 47); [|discriminate]. injection H as H1 H2. subst a b.
    split; [reflexivity | discriminate].
  - unfold m_role in H. destruct s as [|c r]; [discriminate|].
    destruct (eqc c 58); [|discriminate].
    destruct (span is_name r) as [a0 b0] eqn:Sp.
    destruct (span_spec _ _ _ _ Sp) as [E _]. subst r.
    injection H as H1 H2. subst a b. split; [reflexivity | discriminate].
  - unfold m_symbol in H. destruct (span is_name s) as [a0 b0] eqn:Sp.
    destruct (span_spec _ _ _ _ Sp) as [E _].
    destruct a0 as [|x a0]; [discriminate|]. injection H as H1 H2. subst a b.
    split; [exact E | discriminate].
  - destruct (m_align_spec _ _ _ H) as [E [_ [a' Ea]]]. subst a. split; [exact E | discriminate].
  - unfold m_unexp in H. destruct s as [|c r]; [discriminate|].
    destruct (is_ws c); [discriminate|]. injection H as H1 H2. subst a b.
    split; [reflexivity | discriminate].
Qed.

Lemma first_match_spec : forall alts s t a b, first_match alts s = Some (t, a, b) ->
  s = a ++ b /\ a <> [].
Proof.
  induction alts as [|k alts IH]; intros s t a b H; [discriminate|].
  cbn [first_match] in H.
  destruct (matcher_of k s) as [[a0 b0]|] eqn:M.
  - injection H as H1 H2 H3. subst t a b. apply (matcher_spec _ _ _ _ M).
  - apply (IH _ _ _ _ H).
Qed.

(* ------------------------------------------------------------------ *)
(** * first_match on a line followed by its terminator *)

Lemma fm_loc : forall alts x q, ~ In COMMENT alts -> x <> [] -> term q ->
  first_match alts (x ++ q) =
  match first_match alts x with Some (t, a, b) => Some (t, a, b ++ q) | None => None end.
Proof.
  induction alts as [|k alts IH]; intros x q Hn Hx Tq; [reflexivity|].
  cbn [first_match].
  assert (Hk : k <> COMMENT) by (intros E; apply Hn; left; exact E).
  rewrite (matcher_loc k x q Hk Hx Tq).
  destruct (matcher_of k x) as [[a0 b0]|]; [reflexivity|].
  unfold ext. apply IH; [|exact Hx | exact Tq].
  intros Hi. apply Hn. right. exact Hi.
Qed.

Definition REST : list tokty := [STRING; LPAREN; RPAREN; SLASH; ROLE; SYMBOL; ALIGNMENT; UNEXPECTED].

Lemma rest_nocomment : ~ In COMMENT REST.
Proof.
  intros H. unfold REST in H. simpl in H.
  repeat (destruct H as [H|H]; [discriminate|]). exact H.
Qed.

Lemma fm_unfold : forall s, first_match PENMAN_ALTS s =
  match m_comment s with Some (a, b) => Some (COMMENT, a, b) | None => first_match REST s end.
Proof. intros s. reflexivity. Qed.

Definition nolf (c : N) : bool := negb (eqc c 10).

Lemma m_comment_eq : forall c r, m_comment (c :: r) =
  if eqc c 35 then
    match snd (span nolf r) with
    | [] => Some (c :: fst (span nolf r), [])
    | [_] => Some (c :: fst (span nolf r), snd (span nolf r))
    | _ => None
    end
  else None.
Proof.
  intros c r. unfold m_comment. destruct (eqc c 35); [|reflexivity].
  change (fun c1 : N => negb (eqc c1 10)) with nolf.
  destruct (span nolf r) as [a b]. reflexivity.
Qed.

Lemma nolf_all : forall r, no_lfcr r = true -> forallb nolf r = true.
Proof. intros r H. apply no_lfcr_nolf. exact H. Qed.

Lemma fm_frame : forall x q, x <> [] -> no_lfcr x = true -> term q ->
  match first_match PENMAN_ALTS x with
  | Some (t, a, b) =>
      first_match PENMAN_ALTS (x ++ q) = Some (t, a, b ++ q) \/
      (t = COMMENT /\ b = [] /\ exists q', q = 13%N :: q' /\
         first_match PENMAN_ALTS (x ++ q) = Some (COMMENT, a ++ [13%N], q'))
  | None => first_match PENMAN_ALTS (x ++ q) = None
  end.
Proof.
  intros x q Hx Nx Tq. destruct x as [|c r]; [congruence|].
  rewrite !fm_unfold.
  assert (EA : (c :: r) ++ q = c :: (r ++ q)) by reflexivity.
  destruct (eqc c 35) eqn:C.
  - simpl in Nx. apply andb_true_iff in Nx. destruct Nx as [_ Nr].
    pose proof (nolf_all r Nr) as Fr.
    pose proof (span_exact nolf r [] Fr I) as S0. rewrite app_nil_r in S0.
    assert (M1 : m_comment (c :: r) = Some (c :: r, [])).
    { rewrite m_comment_eq, C, S0. reflexivity. }
    rewrite M1.
    destruct Tq as [E|[E|E]]; subst q.
    + left. rewrite EA, m_comment_eq, C.
      rewrite (span_exact nolf r [10%N] Fr eq_refl). reflexivity.
    + right. split; [reflexivity|]. split; [reflexivity|]. exists []. split; [reflexivity|].
      assert (F1 : forallb nolf (r ++ [13%N]) = true) by (rewrite forallb_app, Fr; reflexivity).
      pose proof (span_exact nolf (r ++ [13%N]) [] F1 I) as S1. rewrite app_nil_r in S1.
      rewrite EA, m_comment_eq, C, S1. reflexivity.
    + right. split; [reflexivity|]. split; [reflexivity|]. exists [10%N]. split; [reflexivity|].
      assert (F1 : forallb nolf (r ++ [13%N]) = true) by (rewrite forallb_app, Fr; reflexivity).
      pose proof (span_exact nolf (r ++ [13%N]) [10%N] F1 eq_refl) as S1.
      rewrite <- app_assoc in S1. change ([13%N] ++ [10%N]) with [13%N; 10%N] in S1.
      rewrite EA, m_comment_eq, C, S1. reflexivity.
  - assert (M1 : m_comment (c :: r) = None) by (rewrite m_comment_eq, C; reflexivity).
    assert (M2 : m_comment ((c :: r) ++ q) = None) by (rewrite EA, m_comment_eq, C; reflexivity).
    rewrite M1, M2.
    rewrite (fm_loc REST (c :: r) q rest_nocomment Hx Tq).
    destruct (first_match REST (c :: r)) as [[[t a] b]|]; [left; reflexivity | reflexivity].
Qed.

(* ------------------------------------------------------------------ *)
(** * One line with and without its terminator *)

Definition Rq (q : str) (t1 t2 : token) : Prop :=
  t2 = t1 \/
  (exists q', q = 13%N :: q' /\ tty t1 = COMMENT /\
     t2 = mkToken COMMENT (ttext t1 ++ [13%N]) (tline t1) (toff t1)).

Lemma lex_term : forall q, term q -> forall f ln off, length q < f ->
  lex_line_fuel f PENMAN_ALTS ln q off = [].
Proof.
  intros q [E|[E|E]] f ln off L; subst q; simpl in L.
  - destruct f as [|[|f]]; try lia; reflexivity.
  - destruct f as [|[|f]]; try lia; reflexivity.
  - destruct f as [|[|[|f]]]; try lia; reflexivity.
Qed.

Lemma lex_tail : forall q', 13%N :: q' = [13%N] \/ 13%N :: q' = [13%N; 10%N] ->
  forall f ln off, length q' < f -> lex_line_fuel f PENMAN_ALTS ln q' off = [].
Proof.
  intros q' [E|E] f ln off L; injection E as E; subst q'; simpl in L.
  - apply lex_line_fuel_nil.
  - destruct f as [|[|f]]; try lia; reflexivity.
Qed.

Lemma lex_app : forall q, term q -> forall n x, length x <= n -> no_lfcr x = true ->
  forall f1 f2 ln off, length x < f1 -> length x + length q < f2 ->
  Forall2 (Rq q) (lex_line_fuel f1 PENMAN_ALTS ln x off)
                 (lex_line_fuel f2 PENMAN_ALTS ln (x ++ q) off).
Proof.
  intros q Tq. induction n as [|n IH]; intros x L Nx f1 f2 ln off L1 L2.
  - destruct x; [|simpl in L; lia]. rewrite lex_line_fuel_nil.
    change ([] ++ q) with q. rewrite (lex_term q Tq); [constructor | simpl in L2; lia].
  - destruct x as [|c r].
    { rewrite lex_line_fuel_nil.
      change ([] ++ q) with q. rewrite (lex_term q Tq); [constructor | simpl in L2; lia]. }
    destruct f1 as [|f1]; [lia|]. destruct f2 as [|f2]; [lia|].
    assert (Hx : c :: r <> []) by discriminate.
    pose proof (fm_frame (c :: r) q Hx Nx Tq) as FM.
    change ((c :: r) ++ q) with (c :: (r ++ q)) in *.
    destruct (first_match PENMAN_ALTS (c :: r)) as [[[t a] b]|] eqn:F.
    + destruct (first_match_spec _ _ _ _ _ F) as [E Na].
      rewrite (lex_line_fuel_tok _ _ _ _ _ _ _ _ _ F).
      pose proof (f_equal (@length N) E) as EL. rewrite app_length in EL.
      assert (La : 1 <= length a) by (destruct a; [congruence | simpl; lia]).
      assert (Nb : no_lfcr b = true).
      { rewrite E in Nx. unfold no_lfcr in *. rewrite forallb_app in Nx.
        apply andb_true_iff in Nx. destruct Nx as [_ Nx]. exact Nx. }
      simpl in L, L1, L2, EL.
      destruct FM as [FM|[Et [Eb [q' [Eq FM]]]]].
      * rewrite (lex_line_fuel_tok _ _ _ _ _ _ _ _ _ FM).
        constructor; [left; reflexivity|].
        apply IH; [lia | exact Nb | lia | lia].
      * rewrite (lex_line_fuel_tok _ _ _ _ _ _ _ _ _ FM). subst t b.
        rewrite lex_line_fuel_nil.
        assert (Tq' : 13%N :: q' = [13%N] \/ 13%N :: q' = [13%N; 10%N]).
        { rewrite <- Eq. destruct Tq as [T1|[T1|T1]]; [|left; exact T1 | right; exact T1].
          rewrite T1 in Eq. discriminate. }
        rewrite (lex_tail q' Tq'); [|rewrite Eq in L2; simpl in L2; lia].
        constructor; [|constructor].
        right. exists q'. split; [exact Eq|]. split; reflexivity.
    + rewrite (lex_line_fuel_skip _ _ _ _ _ _ F), (lex_line_fuel_skip _ _ _ _ _ _ FM).
      simpl in Nx. apply andb_true_iff in Nx. destruct Nx as [_ Nr].
      simpl in L, L1, L2.
      apply IH; [lia | exact Nr | lia | lia].
Qed.

Lemma line_frame : forall q x ln, term q -> no_lfcr x = true ->
  Forall2 (Rq q) (lex_line PENMAN_ALTS ln x) (lex_line PENMAN_ALTS ln (x ++ q)).
Proof.
  intros q x ln Tq Nx. unfold lex_line.
  apply (lex_app q Tq (length x) x (le_n _) Nx); [lia | rewrite app_length; lia].
Qed.

(* ------------------------------------------------------------------ *)
(** * The two splitters *)

Inductive framed (T : str -> Prop) : list str -> list str -> Prop :=
| fr_nil : framed T [[]] []
| fr_last : forall x, framed T [x] [x]
| fr_cons : forall x q ls ks, no_lfcr x = true -> T q -> framed T ls ks ->
    framed T (x :: ls) ((x ++ q) :: ks).

Lemma split_plain : forall w, no_lfcr w = true -> split_lines w = [w].
Proof.
  intros w H. pose proof (split_lines_app_plain w [] [] [] H eq_refl) as E.
  rewrite !app_nil_r in E. exact E.
Qed.

Lemma split_lines_cr : forall d s, eqc d 10 = false ->
  split_lines (13%N :: d :: s) = [] :: split_lines (d :: s).
Proof.
  intros d s H.
  change (split_lines (13%N :: d :: s))
    with (if eqc d 10 then [] :: split_lines s else [] :: split_lines (d :: s)).
  rewrite H. reflexivity.
Qed.

Definition nocr (c : N) : bool := negb (eqc c 13).

Lemma framed_split : forall (T : str -> Prop), T [10%N] ->
  forall n s cur, length s <= n -> no_lfcr (rev cur) = true ->
  (forallb nocr s = true \/ (T [13%N] /\ T [13%N; 10%N])) ->
  framed T (split_lines (rev cur ++ s)) (keepends_aux s cur).
Proof.
  intros T T10. induction n as [|n IH]; intros s cur L Hc Hd.
  - destruct s; [|simpl in L; lia]. rewrite app_nil_r, (split_plain _ Hc).
    cbn [keepends_aux]. destruct cur as [|c cur]; [apply fr_nil | apply fr_last].
  - destruct s as [|c s'].
    { rewrite app_nil_r, (split_plain _ Hc).
      cbn [keepends_aux]. destruct cur as [|c cur]; [apply fr_nil | apply fr_last]. }
    simpl in L.
    assert (Hd' : forallb nocr s' = true \/ (T [13%N] /\ T [13%N; 10%N])).
    { destruct Hd as [Hd|Hd]; [left | right; exact Hd].
      simpl in Hd. apply andb_true_iff in Hd. destruct Hd as [_ Hd]. exact Hd. }
    cbn [keepends_aux].
    destruct (eqc c 10) eqn:C10.
    + apply eqc_true in C10. subst c.
      rewrite (split_lines_app_plain (rev cur) (10%N :: s') [] (split_lines s') Hc (split_lines_lf s')).
      rewrite app_nil_r. change (rev (10%N :: cur)) with (rev cur ++ [10%N]).
      apply fr_cons; [exact Hc | exact T10|].
      apply (IH s' []); [lia | reflexivity | exact Hd'].
    + destruct (eqc c 13) eqn:C13.
      * assert (HT : T [13%N] /\ T [13%N; 10%N]).
        { destruct Hd as [Hd|Hd]; [|exact Hd]. simpl in Hd. unfold nocr in Hd at 1.
          rewrite C13 in Hd. discriminate. }
        destruct HT as [T13 T1310].
        apply eqc_true in C13. subst c.
        destruct s' as [|d s''].
        { rewrite (split_lines_app_plain (rev cur) [13%N] [] [[]] Hc eq_refl).
          rewrite app_nil_r. change (rev (13%N :: cur)) with (rev cur ++ [13%N]).
          apply fr_cons; [exact Hc | exact T13 | apply fr_nil]. }
        destruct (eqc d 10) eqn:D10.
        -- apply eqc_true in D10. subst d.
           rewrite (split_lines_app_plain (rev cur) (13%N :: 10%N :: s'') [] (split_lines s'') Hc eq_refl).
           rewrite app_nil_r.
           change (rev (10%N :: 13%N :: cur)) with ((rev cur ++ [13%N]) ++ [10%N]).
           rewrite <- app_assoc. change ([13%N] ++ [10%N]) with [13%N; 10%N].
           apply fr_cons; [exact Hc | exact T1310|].
           simpl in L. apply (IH s'' []); [lia | reflexivity | right; split; assumption].
        -- rewrite (split_lines_app_plain (rev cur) (13%N :: d :: s'') [] (split_lines (d :: s'')) Hc
                      (split_lines_cr d s'' D10)).
           rewrite app_nil_r. change (rev (13%N :: cur)) with (rev cur ++ [13%N]).
           apply fr_cons; [exact Hc | exact T13|].
           apply (IH (d :: s'') []); [lia | reflexivity | right; split; assumption].
      * replace (rev cur ++ c :: s') with (rev (c :: cur) ++ s')
          by (change (rev (c :: cur)) with (rev cur ++ [c]); rewrite <- app_assoc; reflexivity).
        apply IH; [lia | | exact Hd'].
        change (rev (c :: cur)) with (rev cur ++ [c]). unfold no_lfcr in *.
        rewrite forallb_app, Hc. simpl. rewrite C10, C13. reflexivity.
Qed.

(* ------------------------------------------------------------------ *)
(** * Tokens of the two line lists *)

Definition Rtok (t1 t2 : token) : Prop :=
  tty t1 = tty t2 /\ tline t1 = tline t2 /\ toff t1 = toff t2 /\
  (ttext t2 = ttext t1 \/ (tty t1 = COMMENT /\ ttext t2 = ttext t1 ++ [13%N])).

Lemma Rq_Rtok : forall q t1 t2, Rq q t1 t2 -> Rtok t1 t2.
Proof.
  intros q t1 t2 [E|[q' [_ [Ec E]]]]; subst t2; unfold Rtok; cbn [tty ttext tline toff].
  - repeat split. left. reflexivity.
  - repeat split; [exact Ec|]. right. split; [exact Ec | reflexivity].
Qed.

Lemma Forall2_Rq_Rtok : forall q l1 l2, Forall2 (Rq q) l1 l2 -> Forall2 Rtok l1 l2.
Proof.
  intros q l1 l2 H. induction H as [|t1 t2 l1 l2 R _ IH]; constructor; [|exact IH].
  apply (Rq_Rtok q). exact R.
Qed.

Lemma Forall2_Rq_lf : forall l1 l2, Forall2 (Rq [10%N]) l1 l2 -> l2 = l1.
Proof.
  intros l1 l2 H. induction H as [|t1 t2 l1 l2 R _ IH]; [reflexivity|].
  destruct R as [E|[q' [E _]]]; [|discriminate]. subst. reflexivity.
Qed.

Lemma Rtok_refl : forall l, Forall2 Rtok l l.
Proof.
  induction l as [|t l IH]; constructor; [|exact IH].
  unfold Rtok. repeat split. left. reflexivity.
Qed.

Lemma lex_lines_nil1 : forall ln, lex_lines_from PENMAN_ALTS ln [[]] = [].
Proof. intros ln. reflexivity. Qed.

Lemma framed_Rtok : forall ls ks, framed term ls ks -> forall ln,
  Forall2 Rtok (lex_lines_from PENMAN_ALTS ln ls) (lex_lines_from PENMAN_ALTS ln ks).
Proof.
  intros ls ks H. induction H as [|x|x q ls ks Nx Tq H IH]; intros ln.
  - rewrite lex_lines_nil1. constructor.
  - apply Rtok_refl.
  - cbn [lex_lines_from]. apply Forall2_app; [|apply IH].
    apply (Forall2_Rq_Rtok q). apply line_frame; assumption.
Qed.

Lemma framed_eq : forall ls ks, framed (fun q => q = [10%N]) ls ks -> forall ln,
  lex_lines_from PENMAN_ALTS ln ks = lex_lines_from PENMAN_ALTS ln ls.
Proof.
  intros ls ks H. induction H as [|x|x q ls ks Nx Tq H IH]; intros ln.
  - rewrite lex_lines_nil1. reflexivity.
  - reflexivity.
  - subst q. cbn [lex_lines_from]. rewrite IH. f_equal.
    apply Forall2_Rq_lf. apply line_frame; [left; reflexivity | exact Nx].
Qed.

(* ------------------------------------------------------------------ *)
(** * C09 at token level *)

Theorem framing_tokens : forall s,
  Forall2 Rtok (lex_lines PENMAN_ALTS (split_lines s)) (lex_lines PENMAN_ALTS (lines_keepends s)).
Proof.
  intros s. unfold lex_lines, lines_keepends. apply framed_Rtok.
  apply (framed_split term (or_introl eq_refl) (length s) s [] (le_n _) eq_refl).
  right. split; [right; left; reflexivity | right; right; reflexivity].
Qed.

Theorem framing_tokens_lf : forall s, forallb (fun c => negb (eqc c 13)) s = true ->
  lex_lines PENMAN_ALTS (lines_keepends s) = lex_lines PENMAN_ALTS (split_lines s).
Proof.
  intros s H. unfold lex_lines, lines_keepends. apply framed_eq.
  apply (framed_split (fun q => q = [10%N]) eq_refl (length s) s [] (le_n _) eq_refl).
  left. exact H.
Qed.

(* ------------------------------------------------------------------ *)
(** * Universal newlines *)

Lemma split_universal_n : forall n s, length s <= n ->
  split_lines (universal_newlines s) = split_lines s.
Proof.
  induction n as [|n IH]; intros s L.
  - destruct s; [reflexivity | simpl in L; lia].
  - destruct s as [|c s']; [reflexivity|]. simpl in L.
    cbn [universal_newlines].
    destruct (eqc c 13) eqn:C13.
    + apply eqc_true in C13. subst c.
      destruct s' as [|d s'']; [reflexivity|].
      destruct (eqc d 10) eqn:D10.
      * apply eqc_true in D10. subst d. rewrite split_lines_lf.
        simpl in L. rewrite (IH s'' ltac:(lia)). reflexivity.
      * rewrite split_lines_lf, (split_lines_cr d s'' D10).
        rewrite (IH (d :: s'') ltac:(lia)). reflexivity.
    + cbn [split_lines]. rewrite C13. rewrite (IH s' ltac:(lia)). reflexivity.
Qed.

Theorem split_universal : forall s, split_lines (universal_newlines s) = split_lines s.
Proof. intros s. apply (split_universal_n (length s) s (le_n _)). Qed.

Corollary lex_str_universal : forall alts s,
  lex_str alts (universal_newlines s) = lex_str alts s.
Proof. intros alts s. unfold lex_str. rewrite split_universal. reflexivity. Qed.


(* ------------------------------------------------------------------ *)
(** * Consequences for iterparse / iterdecode / loads *)


Lemma rstrip_crlf_cr : forall x, rstrip_crlf (x ++ [13%N]) = rstrip_crlf x.
Proof. intros x. unfold rstrip_crlf. rewrite rev_app_distr. reflexivity. Qed.

Lemma Rtok_Rt : forall t1 t2, Rtok t1 t2 -> Rt t1 t2.
Proof.
  intros t1 t2 [Ek [_ [_ Et]]]. split; [exact Ek|].
  destruct Et as [Et|[Ec Et]].
  - rewrite Et. destruct (tokty_eqb (tty t1) COMMENT); reflexivity.
  - rewrite Ec. simpl. rewrite Et, rstrip_crlf_cr. reflexivity.
Qed.

Lemma Forall2_Rtok_Rt : forall l1 l2, Forall2 Rtok l1 l2 -> Forall2 Rt l1 l2.
Proof. intros l1 l2 H. induction H; constructor; [apply Rtok_Rt; assumption | assumption]. Qed.

(* the trees yielded are the same whether the lines keep their terminators or
   not; the generator ends normally in both cases or with an error in both *)
Theorem framing_iterparse : forall s,
  fst (iterparse_lines (lines_keepends s)) = fst (iterparse_str s) /\
  Rend (snd (iterparse_str s)) (snd (iterparse_lines (lines_keepends s))).
Proof.
  intros s. unfold iterparse_str, iterparse_lines.
  pose proof (Forall2_Rtok_Rt _ _ (framing_tokens s)) as F.
  set (a := lex_lines PENMAN_ALTS (split_lines s)) in *.
  set (b := lex_lines PENMAN_ALTS (lines_keepends s)) in *.
  assert (Hit : Rit (iter_of a) (iter_of b)) by exact F.
  rewrite <- (Rit_length _ _ Hit : length a = length b).
  destruct (iterparse_toks_R (S (length a)) _ _ [] Hit) as [A B].
  split; [symmetry; exact A | exact B].
Qed.

Theorem framing_iterdecode : forall m s,
  fst (iterdecode_lines m (lines_keepends s)) = fst (iterdecode_str m s) /\
  Rend (snd (iterdecode_str m s)) (snd (iterdecode_lines m (lines_keepends s))).
Proof.
  intros m s. unfold iterdecode_str, iterdecode_lines.
  destruct (framing_iterparse s) as [A B]. unfold iterparse_str in A, B.
  destruct (iterparse_lines (split_lines s)) as [ts1 o1].
  destruct (iterparse_lines (lines_keepends s)) as [ts2 o2]. simpl in A, B. subst ts2.
  destruct (interpret_all_R m ts1 o1 o2 B) as [C D]. split; [symmetry; exact C | exact D].
Qed.

(* loads on the string and load on the terminator-keeping lines agree: equal
   lists of graphs, or an exception in both *)
Theorem framing_loads : forall m s,
  Rout eq (loads m s) (load_lines m (lines_keepends s)).
Proof.
  intros m s. unfold loads, load_lines, collect.
  destruct (framing_iterdecode m s) as [A B].
  destruct (iterdecode_str m s) as [g1 o1]. destruct (iterdecode_lines m (lines_keepends s)) as [g2 o2].
  simpl in *. subst g2. destruct o1, o2; simpl in *; try contradiction; try exact I. reflexivity.
Qed.

(* lines that keep LF terminators only: literally the same results *)
Theorem framing_iterparse_lf : forall s, forallb (fun c => negb (eqc c 13)) s = true ->
  iterparse_lines (lines_keepends s) = iterparse_str s.
Proof.
  intros s H. unfold iterparse_str, iterparse_lines. rewrite (framing_tokens_lf s H). reflexivity.
Qed.

(* a text-mode file (universal newlines) read as one string *)
Theorem framing_universal : forall s, iterparse_str (universal_newlines s) = iterparse_str s.
Proof. intros s. unfold iterparse_str. rewrite split_universal. reflexivity. Qed.

Theorem framing_universal_loads : forall m s, loads m (universal_newlines s) = loads m s.
Proof.
  intros m s. unfold loads, iterdecode_str. rewrite split_universal. reflexivity.
Qed.
