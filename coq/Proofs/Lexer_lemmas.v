(** Proofs for C08: the scanners of Impl/Lexer.v implement the declarative
    lexical grammar of Spec/LexSpec.v, the tokens of a line tile it, line
    numbering and line splitting. *)
From PM Require Import Spec.LexSpec.
From Coq Require Import Lia.

(* ------------------------------------------------------------------ *)
(** * Characters, spans *)

Lemma eqc_true : forall a b, eqc a b = true -> a = b.
Proof. intros a b E. apply N.eqb_eq. exact E. Qed.

Lemma eqc_false : forall a b, eqc a b = false -> a <> b.
Proof. intros a b E. apply N.eqb_neq. exact E. Qed.

Lemma eqc_refl : forall a, eqc a a = true.
Proof. intros a. apply N.eqb_refl. Qed.

Lemma eqc_neq : forall a b, a <> b -> eqc a b = false.
Proof. intros a b E. apply N.eqb_neq. exact E. Qed.

Lemma span_sound : forall p s a b, span p s = (a, b) ->
  s = a ++ b /\ forallb p a = true /\ not_starting p b.
Proof.
  intros p. induction s as [|c s IH]; intros a b E; simpl in E.
  - inversion E; subst. simpl. auto.
  - destruct (p c) eqn:Pc.
    + destruct (span p s) as [a' b'] eqn:Es. inversion E; subst.
      destruct (IH a' b eq_refl) as [E1 [E2 E3]]. subst s. simpl. rewrite Pc. auto.
    + inversion E; subst. simpl. auto.
Qed.

Lemma span_app : forall p a b, forallb p a = true -> not_starting p b -> span p (a ++ b) = (a, b).
Proof.
  intros p. induction a as [|c a IH]; intros b Fa Nb; simpl in *.
  - destruct b as [|d b]; [reflexivity|]. simpl in *. rewrite Nb. reflexivity.
  - apply andb_true_iff in Fa. destruct Fa as [Pc Fa]. rewrite Pc, (IH b Fa Nb). reflexivity.
Qed.

Lemma span_length : forall p s a b, span p s = (a, b) -> length s = length a + length b.
Proof.
  intros p s a b E. apply span_sound in E. destruct E as [E _]. subst. apply app_length.
Qed.

(* ------------------------------------------------------------------ *)
(** * Single-character classes, UNEXPECTED *)

Lemma m_char_spec : forall k s w r, m_char k s = Some (w, r) <-> s = w ++ r /\ w = [k].
Proof.
  intros k s w r. unfold m_char. split.
  - destruct s as [|c s]; [discriminate|]. destruct (eqc c k) eqn:E; [|discriminate].
    intros H. inversion H; subst. apply eqc_true in E. subst. auto.
  - intros [E1 E2]. subst. simpl. rewrite eqc_refl. reflexivity.
Qed.

Lemma m_unexp_spec : forall s w r, m_unexp s = Some (w, r) <-> lexeme UNEXPECTED s w r.
Proof.
  intros s w r. unfold m_unexp, lexeme. simpl. split.
  - destruct s as [|c s]; [discriminate|]. destruct (is_ws c) eqn:E; [discriminate|].
    intros H. inversion H; subst. repeat split; eauto.
  - intros [E1 [[c [E2 E3]] _]]. subst. simpl. rewrite E3. reflexivity.
Qed.

(* ------------------------------------------------------------------ *)
(** * SYMBOL, ROLE *)

Lemma m_symbol_spec : forall s w r, m_symbol s = Some (w, r) <-> lexeme SYMBOL s w r.
Proof.
  intros s w r. unfold m_symbol, lexeme. simpl. split.
  - destruct (span is_name s) as [a b] eqn:E. apply span_sound in E.
    destruct E as [E1 [E2 E3]]. destruct a as [|x a]; [discriminate|].
    intros H. inversion H; subst. repeat split; auto. discriminate.
  - intros [E1 [[E2 E3] E4]]. subst. rewrite (span_app _ _ _ E3 E4).
    destruct w; [contradiction|reflexivity].
Qed.

Lemma m_role_spec : forall s w r, m_role s = Some (w, r) <-> lexeme ROLE s w r.
Proof.
  intros s w r. unfold m_role, lexeme. simpl. split.
  - destruct s as [|c s]; [discriminate|]. destruct (eqc c 58) eqn:E; [|discriminate].
    apply eqc_true in E. subst c.
    destruct (span is_name s) as [a b] eqn:Es. apply span_sound in Es.
    destruct Es as [E1 [E2 E3]]. intros H. inversion H; subst. repeat split; eauto.
  - intros [E1 [[a [E2 E3]] E4]]. subst. simpl. rewrite (span_app _ _ _ E3 E4). reflexivity.
Qed.

(* ------------------------------------------------------------------ *)
(** * COMMENT *)

Lemma m_comment_spec : forall s w r, m_comment s = Some (w, r) <-> lexeme COMMENT s w r.
Proof.
  intros s w r. unfold m_comment, lexeme. simpl. split.
  - destruct s as [|c s]; [discriminate|]. destruct (eqc c 35) eqn:E; [|discriminate].
    apply eqc_true in E. subst c.
    destruct (span (fun c => negb (eqc c 10)) s) as [a b] eqn:Es. apply span_sound in Es.
    destruct Es as [E1 [E2 E3]].
    destruct b as [|x [|y b]]; intros H; inversion H; subst.
    + repeat split; eauto.
    + simpl in E3. apply negb_false_iff in E3. apply eqc_true in E3. subst x.
      repeat split; eauto.
  - intros [E1 [[a [E2 E3]] E4]]. subst. simpl.
    assert (N : not_starting (fun c => negb (eqc c 10)) r).
    { destruct E4 as [E4|E4]; subst; simpl; auto. }
    rewrite (span_app _ _ _ E3 N). destruct E4 as [E4|E4]; subst; reflexivity.
Qed.

(* ------------------------------------------------------------------ *)
(** * STRING *)

Lemma m_string_body_sound : forall n s a b, length s <= n ->
  m_string_body s = Some (a, b) -> s = a ++ b /\ str_body a.
Proof.
  induction n as [|n IH]; intros s a b L E.
  - destruct s; [discriminate | simpl in L; lia].
  - destruct s as [|c r]; [discriminate|]. simpl in E. simpl in L.
    destruct (eqc c 34) eqn:E34.
    + inversion E; subst. apply eqc_true in E34. subst. split; [reflexivity | constructor].
    + destruct (eqc c 92) eqn:E92.
      * apply eqc_true in E92. subst c. destruct r as [|d r']; [discriminate|].
        destruct (eqc d 10) eqn:E10; [discriminate|].
        destruct (m_string_body r') as [[a' b']|] eqn:Er; [|discriminate].
        inversion E; subst. simpl in L.
        destruct (IH r' a' b ltac:(lia) Er) as [E1 E2]. subst r'.
        split; [reflexivity|]. constructor; [apply eqc_false; exact E10 | exact E2].
      * destruct (m_string_body r) as [[a' b']|] eqn:Er; [|discriminate].
        inversion E; subst.
        destruct (IH r a' b ltac:(lia) Er) as [E1 E2]. subst r.
        split; [reflexivity|].
        constructor; [apply eqc_false; exact E34 | apply eqc_false; exact E92 | exact E2].
Qed.

Lemma m_string_body_complete : forall a b, str_body a -> m_string_body (a ++ b) = Some (a, b).
Proof.
  intros a b H. induction H as [|c w N1 N2 H IH|d w N1 H IH]; simpl.
  - reflexivity.
  - rewrite (eqc_neq _ _ N1), (eqc_neq _ _ N2), IH. reflexivity.
  - rewrite (eqc_neq _ _ N1), IH. reflexivity.
Qed.

Lemma m_string_spec : forall s w r, m_string s = Some (w, r) <-> lexeme STRING s w r.
Proof.
  intros s w r. unfold m_string, lexeme. simpl. split.
  - destruct s as [|c s]; [discriminate|]. destruct (eqc c 34) eqn:E; [|discriminate].
    apply eqc_true in E. subst c.
    destruct (m_string_body s) as [[a b]|] eqn:Es; [|discriminate].
    intros H. inversion H; subst.
    destruct (m_string_body_sound _ _ _ _ (le_n _) Es) as [E1 E2]. subst. repeat split; eauto.
  - intros [E1 [[b [E2 E3]] _]]. subst. simpl. rewrite (m_string_body_complete _ _ E3). reflexivity.
Qed.

(* ------------------------------------------------------------------ *)
(** * ALIGNMENT *)

Definition md_follow (b : str) : Prop :=
  match b with c :: r' => c = 44%N -> not_starting is_digit r' | [] => True end.

Lemma not_starting_span_nil : forall p s, not_starting p s -> span p s = ([], s).
Proof. intros p [|c s] H; simpl in *; [reflexivity | rewrite H; reflexivity]. Qed.

Lemma m_more_sound : forall f s a b, length s <= f -> not_starting is_digit s ->
  m_more f s = (a, b) ->
  s = a ++ b /\ more_digits a /\ md_follow b /\ not_starting is_digit b.
Proof.
  induction f as [|f IH]; intros s a b L N E; simpl in E.
  - inversion E; subst. destruct b; [|simpl in L; lia]. repeat split; simpl; auto. constructor.
  - destruct s as [|c r].
    + inversion E; subst. repeat split; simpl; auto. constructor.
    + destruct (eqc c 44) eqn:E44.
      * apply eqc_true in E44. subst c.
        destruct (span is_digit r) as [d r'] eqn:Es.
        pose proof (span_sound _ _ _ _ Es) as [E1 [E2 E3]].
        destruct d as [|x d].
        -- inversion E; subst. simpl in *. repeat split; auto. constructor.
        -- destruct (m_more f r') as [a' b'] eqn:Em. inversion E; subst.
           simpl in L. rewrite app_length in L.
           destruct (IH r' a' b ltac:(lia) E3 Em) as [F1 [F2 [F3 F4]]]. subst r'.
           repeat split; auto.
           ++ simpl. rewrite <- app_assoc. reflexivity.
           ++ apply (md_cons (x :: d) a'); [split; [discriminate | exact E2] | exact F2].
      * inversion E; subst. repeat split; simpl; auto; [constructor|].
        intros H. subst c. discriminate.
Qed.

Lemma m_more_complete : forall m, more_digits m -> forall r f,
  md_follow r -> not_starting is_digit r -> length m <= f -> m_more f (m ++ r) = (m, r).
Proof.
  intros m H. induction H as [|d m [Dn Dd] Hm IH]; intros r f Fr Nr L.
  - simpl. destruct f as [|f]; [reflexivity|]. simpl.
    destruct r as [|c r0]; [reflexivity|].
    destruct (eqc c 44) eqn:E44; [|reflexivity].
    apply eqc_true in E44. subst c. simpl in Fr.
    rewrite (not_starting_span_nil _ _ (Fr eq_refl)). reflexivity.
  - destruct f as [|f]; [simpl in L; lia|].
    simpl. change (eqc 44 44) with true. cbv iota.
    replace ((d ++ m) ++ r) with (d ++ m ++ r) by apply app_assoc.
    assert (N : not_starting is_digit (m ++ r)).
    { destruct Hm; simpl; auto. }
    rewrite (span_app _ _ _ Dd N).
    destruct d as [|x d]; [contradiction|].
    simpl in L. rewrite app_length in L. simpl in L.
    rewrite (IH r f Fr Nr ltac:(lia)). reflexivity.
Qed.

Lemma m_digits_list_sound : forall s w b, m_digits_list s = Some (w, b) ->
  exists d m, w = d ++ m /\ s = w ++ b /\ digits1 d /\ more_digits m /\ follow_ok ALIGNMENT b.
Proof.
  intros s w b. unfold m_digits_list.
  destruct (span is_digit s) as [d r] eqn:Es.
  pose proof (span_sound _ _ _ _ Es) as [E1 [E2 E3]].
  destruct d as [|x d]; [discriminate|].
  destruct (m_more (length r) r) as [a b'] eqn:Em. intros H. inversion H; subst.
  destruct (m_more_sound _ _ _ _ (le_n _) E3 Em) as [F1 [F2 [F3 F4]]].
  exists (x :: d), a. subst r.
  split; [reflexivity|]. split; [apply app_assoc|].
  split; [split; [discriminate | exact E2]|]. split; [exact F2|].
  destruct b; simpl in *; auto.
Qed.

Lemma follow_align_split : forall r, follow_ok ALIGNMENT r -> md_follow r /\ not_starting is_digit r.
Proof. intros [|c r] [H1 H2]; simpl in *; auto. Qed.

Lemma m_digits_list_complete : forall d m r, digits1 d -> more_digits m ->
  follow_ok ALIGNMENT r -> m_digits_list (d ++ m ++ r) = Some (d ++ m, r).
Proof.
  intros d m r [Dn Dd] Hm Fr. apply follow_align_split in Fr. destruct Fr as [Fr Nr].
  unfold m_digits_list.
  assert (N : not_starting is_digit (m ++ r)).
  { destruct Hm; simpl; auto. }
  rewrite (span_app _ _ _ Dd N).
  destruct d as [|x d]; [contradiction|].
  rewrite (m_more_complete _ Hm r _ Fr Nr).
  - reflexivity.
  - rewrite app_length. lia.
Qed.

Lemma m_digits_list_none_head : forall c s, is_digit c = false -> m_digits_list (c :: s) = None.
Proof. intros c s H. unfold m_digits_list. simpl. rewrite H. reflexivity. Qed.

Lemma digit_not_alpha : forall c, is_digit c = true -> is_ascii_alpha c = false.
Proof.
  intros c H. unfold is_digit in H. apply andb_true_iff in H. destruct H as [H1 H2].
  apply N.leb_le in H1, H2. unfold is_ascii_alpha, is_ascii_lower, is_ascii_upper.
  apply orb_false_iff. split; apply andb_false_iff; left; apply N.leb_gt; lia.
Qed.

Lemma alpha_not_digit : forall c, is_ascii_alpha c = true -> is_digit c = false.
Proof.
  intros c H. destruct (is_digit c) eqn:E; [|reflexivity].
  apply digit_not_alpha in E. congruence.
Qed.

Lemma m_align_sound : forall s w b, m_align s = Some (w, b) -> lexeme ALIGNMENT s w b.
Proof.
  intros s w b. unfold m_align. destruct s as [|t r]; [discriminate|].
  destruct (eqc t 126) eqn:Et; [|discriminate]. apply eqc_true in Et. subst t.
  assert (K : forall p x a b0, align_prefix p -> m_digits_list x = Some (a, b0) ->
              lexeme ALIGNMENT (126%N :: p ++ x) (126%N :: p ++ a) b0).
  { intros p x a b0 Hp Hd.
    destruct (m_digits_list_sound _ _ _ Hd) as [d [m [E1 [E2 [E3 [E4 E5]]]]]].
    split; [|split].
    - subst x. simpl. rewrite <- app_assoc. reflexivity.
    - exists p, d, m. subst a. auto.
    - exact E5. }
  assert (FB : forall r0, match m_digits_list r0 with
                          | Some (a, b1) => Some (126%N :: a, b1) | None => None end = Some (w, b) ->
               lexeme ALIGNMENT (126%N :: r0) w b).
  { intros r0. destruct (m_digits_list r0) as [[a b1]|] eqn:Ed; [|discriminate].
    intros H. inversion H; subst. apply (K [] r0 a b); [left; reflexivity | exact Ed]. }
  destruct r as [|c r1]; [apply FB|].
  destruct (is_ascii_alpha c) eqn:Ea; [|apply FB].
  assert (ND : match m_digits_list r1 with
               | Some (a, b1) => Some (126%N :: c :: a, b1) | None => None end = Some (w, b) ->
               lexeme ALIGNMENT (126%N :: c :: r1) w b).
  { destruct (m_digits_list r1) as [[a b1]|] eqn:Ed; [|discriminate].
    intros H. inversion H; subst. apply (K [c] r1 a b); [|exact Ed].
    right. exists c. auto. }
  cbv zeta.
  destruct (m_digits_list r1) as [[a1 b1]|] eqn:Ed1.
  - (* nodot = Some *)
    destruct r1 as [|d r2]; [exact ND|].
    destruct (eqc d 46) eqn:E46; [|exact ND].
    apply eqc_true in E46. subst d.
    destruct (m_digits_list r2) as [[a2 b2]|] eqn:Ed2; [|exact ND].
    intros H. inversion H; subst.
    apply (K [c; 46%N] r2 a2 b); [|exact Ed2]. right. exists c. auto.
  - destruct r1 as [|d r2]; [apply FB|].
    destruct (eqc d 46) eqn:E46; [|apply FB].
    apply eqc_true in E46. subst d.
    destruct (m_digits_list r2) as [[a2 b2]|] eqn:Ed2; [|apply FB].
    intros H. inversion H; subst.
    apply (K [c; 46%N] r2 a2 b); [|exact Ed2]. right. exists c. auto.
Qed.

Lemma digits1_head : forall d, digits1 d -> exists x d', d = x :: d' /\ is_digit x = true.
Proof.
  intros [|x d] [H1 H2]; [contradiction|]. simpl in H2. apply andb_true_iff in H2.
  exists x, d. split; [reflexivity | apply H2].
Qed.

Lemma m_align_complete : forall p d m r, align_prefix p -> digits1 d -> more_digits m ->
  follow_ok ALIGNMENT r ->
  m_align (126%N :: p ++ d ++ m ++ r) = Some (126%N :: p ++ d ++ m, r).
Proof.
  intros p d m r Hp Hd Hm Fr.
  pose proof (m_digits_list_complete d m r Hd Hm Fr) as C.
  destruct (digits1_head d Hd) as [x [d' [Ed Dx]]].
  unfold m_align. change (eqc 126 126) with true. cbv iota zeta.
  destruct Hp as [Hp | [c [Ac [Hp | Hp]]]]; subst p.
  - (* no prefix *)
    simpl app. rewrite Ed. simpl app. cbv beta iota. rewrite (digit_not_alpha _ Dx).
    rewrite Ed in C. simpl app in C. rewrite C. reflexivity.
  - simpl app. cbv beta iota. rewrite Ac, C.
    rewrite Ed. simpl app. cbv beta iota.
    assert (X : eqc x 46 = false).
    { destruct (eqc x 46) eqn:E; [|reflexivity]. apply eqc_true in E. subst x. discriminate. }
    rewrite X. reflexivity.
  - simpl app. cbv beta iota. rewrite Ac. change (eqc 46 46) with true. cbv beta iota. rewrite C.
    destruct (m_digits_list (46%N :: d ++ m ++ r)) as [[? ?]|]; reflexivity.
Qed.

Lemma m_align_spec : forall s w r, m_align s = Some (w, r) <-> lexeme ALIGNMENT s w r.
Proof.
  intros s w r. split; [apply m_align_sound|].
  intros [E1 [[p [d [m [E2 [Hp [Hd Hm]]]]]] Fr]]. subst.
  pose proof (m_align_complete p d m r Hp Hd Hm Fr) as C.
  replace ((126%N :: p ++ d ++ m) ++ r) with (126%N :: p ++ d ++ m ++ r); [exact C|].
  simpl. rewrite <- !app_assoc. reflexivity.
Qed.

(* ------------------------------------------------------------------ *)
(** * Every scanner is its class *)

Theorem matcher_spec : forall k s w r, matcher_of k s = Some (w, r) <-> lexeme k s w r.
Proof.
  intros k s w r. destruct k; simpl matcher_of.
  - apply m_comment_spec.
  - apply m_string_spec.
  - rewrite m_char_spec. unfold lexeme. simpl. tauto.
  - rewrite m_char_spec. unfold lexeme. simpl. tauto.
  - rewrite m_char_spec. unfold lexeme. simpl. tauto.
  - apply m_role_spec.
  - apply m_symbol_spec.
  - apply m_align_spec.
  - apply m_unexp_spec.
Qed.

Lemma matcher_none : forall k s, matcher_of k s = None <-> no_lexeme k s.
Proof.
  intros k s. unfold no_lexeme. split.
  - intros E w r H. apply matcher_spec in H. congruence.
  - intros H. destruct (matcher_of k s) as [[w r]|] eqn:E; [|reflexivity].
    apply matcher_spec in E. exfalso. exact (H _ _ E).
Qed.

Lemma lexeme_nonempty : forall k s w r, lexeme k s w r -> w <> [].
Proof.
  intros k s w r [_ [C _]]. destruct k; simpl in C.
  - destruct C as [a [E _]]. subst. discriminate.
  - destruct C as [a [E _]]. subst. discriminate.
  - subst. discriminate.
  - subst. discriminate.
  - subst. discriminate.
  - destruct C as [a [E _]]. subst. discriminate.
  - apply C.
  - destruct C as [p [d [m [E _]]]]. subst. discriminate.
  - destruct C as [c [E _]]. subst. discriminate.
Qed.

(* a lexeme of a class is unique: the declarative grammar is unambiguous *)
Lemma lexeme_unique : forall k s w r w' r', lexeme k s w r -> lexeme k s w' r' -> w = w' /\ r = r'.
Proof.
  intros k s w r w' r' H1 H2. apply matcher_spec in H1, H2. rewrite H1 in H2.
  inversion H2. auto.
Qed.

(* ------------------------------------------------------------------ *)
(** * Ordered alternation *)

Theorem first_match_spec : forall alts s k w r,
  first_match alts s = Some (k, w, r) <-> first_lexeme alts s k w r.
Proof.
  induction alts as [|t alts IH]; intros s k w r; simpl.
  - split; [discriminate|]. intros [pre [post [E _]]]. destruct pre; discriminate.
  - destruct (matcher_of t s) as [[a b]|] eqn:Em.
    + split.
      * intros H. inversion H; subst. exists [], alts. split; [reflexivity|].
        split; [intros k' []|]. apply matcher_spec. exact Em.
      * intros [pre [post [E [Hn Hl]]]]. destruct pre as [|t' pre].
        -- simpl in E. inversion E; subst. apply matcher_spec in Hl. rewrite Hl in Em.
           inversion Em; subst. reflexivity.
        -- simpl in E. inversion E; subst. exfalso.
           assert (N : no_lexeme t' s) by (apply Hn; left; reflexivity).
           apply matcher_none in N. congruence.
    + rewrite IH. split.
      * intros [pre [post [E [Hn Hl]]]]. exists (t :: pre), post. subst alts.
        split; [reflexivity|]. split; [|exact Hl].
        intros k' [Hk|Hk]; [subst; apply matcher_none; exact Em | apply Hn; exact Hk].
      * intros [pre [post [E [Hn Hl]]]]. destruct pre as [|t' pre].
        -- simpl in E. inversion E; subst. apply matcher_spec in Hl. congruence.
        -- simpl in E. inversion E; subst. exists pre, post.
           split; [reflexivity|]. split; [|exact Hl]. intros k' Hk. apply Hn. right. exact Hk.
Qed.

Lemma first_match_none : forall alts s,
  first_match alts s = None <-> (forall k, In k alts -> no_lexeme k s).
Proof.
  induction alts as [|t alts IH]; intros s; simpl.
  - split; [intros _ k [] | reflexivity].
  - destruct (matcher_of t s) as [[a b]|] eqn:Em.
    + split; [discriminate|]. intros H. exfalso.
      apply matcher_spec in Em. exact (H t (or_introl eq_refl) _ _ Em).
    + rewrite IH. split.
      * intros H k [Hk|Hk]; [subst; apply matcher_none; exact Em | apply H; exact Hk].
      * intros H k Hk. apply H. right. exact Hk.
Qed.

(* ------------------------------------------------------------------ *)
(** * One line: the fuelled scanner is the scanning relation; fuel suffices *)

Lemma lexeme_shorter : forall k s w r, lexeme k s w r -> length r < length s.
Proof.
  intros k s w r H. pose proof (lexeme_nonempty _ _ _ _ H) as N. destruct H as [E _].
  subst. rewrite app_length. destruct w; [contradiction | simpl; lia].
Qed.

Lemma first_lexeme_lexeme : forall alts s k w r, first_lexeme alts s k w r -> lexeme k s w r.
Proof. intros alts s k w r [pre [post [_ [_ H]]]]. exact H. Qed.

Lemma lex_line_fuel_rel : forall alts ln f s off, length s < f ->
  lex_rel alts ln off s (lex_line_fuel f alts ln s off).
Proof.
  intros alts ln. induction f as [|f IH]; intros s off L; [lia|].
  destruct s as [|c s']; [constructor|].
  simpl lex_line_fuel. destruct (first_match alts (c :: s')) as [[[k w] r]|] eqn:Em.
  - apply first_match_spec in Em.
    apply (lr_tok alts ln off _ k w r); [discriminate | exact Em |].
    apply IH. pose proof (lexeme_shorter _ _ _ _ (first_lexeme_lexeme _ _ _ _ _ Em)). lia.
  - apply lr_skip; [apply first_match_none; exact Em|].
    apply IH. simpl in L. lia.
Qed.

Lemma lex_rel_fuel : forall alts ln off s toks, lex_rel alts ln off s toks ->
  forall f, length s < f -> lex_line_fuel f alts ln s off = toks.
Proof.
  intros alts ln off s toks H.
  induction H as [off | off c s toks Hn H IH | off s k w r toks Hs Hf H IH]; intros f L.
  - destruct f; [lia | reflexivity].
  - destruct f; [lia|]. simpl lex_line_fuel.
    apply first_match_none in Hn. rewrite Hn. apply IH. simpl in L. lia.
  - destruct f; [lia|]. destruct s as [|c s']; [contradiction|]. simpl lex_line_fuel.
    pose proof Hf as Hf'. apply first_match_spec in Hf'. rewrite Hf'.
    f_equal. apply IH. pose proof (lexeme_shorter _ _ _ _ (first_lexeme_lexeme _ _ _ _ _ Hf)). lia.
Qed.

(* the scanning relation is functional and is computed by lex_line *)
Theorem lex_rel_iff : forall alts ln s toks,
  lex_rel alts ln 0 s toks <-> toks = lex_line alts ln s.
Proof.
  intros alts ln s toks. unfold lex_line. split.
  - intros H. symmetry. apply (lex_rel_fuel _ _ _ _ _ H). lia.
  - intros E. subst. apply lex_line_fuel_rel. lia.
Qed.

(* fuel sufficiency: any fuel above the length of the line gives the same
   tokens, so S (length s) never runs out *)
Theorem lex_line_fuel_enough : forall alts ln s off f, length s < f ->
  lex_line_fuel f alts ln s off = lex_line_fuel (S (length s)) alts ln s off.
Proof.
  intros alts ln s off f L.
  apply (lex_rel_fuel alts ln off s); [|exact L]. apply lex_line_fuel_rel. lia.
Qed.

(* ------------------------------------------------------------------ *)
(** * Tiling *)

Lemma tiles_skip : forall ln off c s toks, is_ws c = true ->
  tiles ln (off + 1) s toks -> tiles ln off (c :: s) toks.
Proof.
  intros ln off c s toks W H. inversion H as [off' g G | off' g t rest toks' G Tn Tl To Tr]; subst.
  - constructor. unfold all_ws in *. simpl. rewrite W. exact G.
  - change (c :: g ++ ttext t ++ rest) with ((c :: g) ++ ttext t ++ rest).
    constructor; auto.
    + unfold all_ws in *. simpl. rewrite W. exact G.
    + rewrite To. simpl length. lia.
Qed.

Lemma unexpected_none_ws : forall c s, no_lexeme UNEXPECTED (c :: s) -> is_ws c = true.
Proof.
  intros c s H. destruct (is_ws c) eqn:E; [reflexivity|]. exfalso.
  apply (H [c] s). split; [reflexivity|]. split; simpl; eauto.
Qed.

Lemma lex_rel_tiles : forall alts ln, In UNEXPECTED alts ->
  forall off s toks, lex_rel alts ln off s toks -> tiles ln off s toks.
Proof.
  intros alts ln U off s toks H.
  induction H as [off | off c s toks Hn H IH | off s k w r toks Hs Hf H IH].
  - constructor. reflexivity.
  - apply tiles_skip; [|exact IH]. apply (unexpected_none_ws c s). apply Hn. exact U.
  - apply first_lexeme_lexeme in Hf. pose proof (lexeme_nonempty _ _ _ _ Hf) as Wn.
    destruct Hf as [E _]. subst s.
    apply (tiles_cons ln off [] (mkToken k w ln off) r toks); simpl; auto.
    + reflexivity.
    + lia.
Qed.

Theorem lex_line_tiles : forall alts ln s, In UNEXPECTED alts ->
  tiles ln 0 s (lex_line alts ln s).
Proof.
  intros alts ln s U. apply (lex_rel_tiles alts ln U). apply lex_rel_iff. reflexivity.
Qed.

(** ** What a tiling says, position by position *)

Lemma tend_gt : forall t, ttext t <> [] -> (toff t < tend t)%N.
Proof. intros t H. unfold tend. destruct (ttext t); [contradiction | simpl length; lia]. Qed.

Lemma tiles_ordered : forall ln off s toks, tiles ln off s toks -> ordered off toks.
Proof.
  intros ln off s toks H. induction H as [off g G | off g t rest toks G Tn Tl To Tr IH]; simpl.
  - exact I.
  - split; [lia|]. split; [apply tend_gt; exact Tn | exact IH].
Qed.

Lemma ordered_lower : forall toks off t, ordered off toks -> In t toks -> (off <= toff t)%N.
Proof.
  induction toks as [|a toks IH]; intros off t O H; [destruct H|].
  simpl in O. destruct O as [O1 [O2 O3]]. destruct H as [H|H].
  - subst. exact O1.
  - pose proof (IH _ _ O3 H). lia.
Qed.

Lemma ordered_pairs : forall toks off, ordered off toks ->
  ForallOrdPairs (fun a b => (tend a <= toff b)%N) toks.
Proof.
  induction toks as [|a toks IH]; intros off O; [constructor|].
  simpl in O. destruct O as [O1 [O2 O3]]. constructor.
  - apply Forall_forall. intros b Hb. apply (ordered_lower _ _ _ O3 Hb).
  - apply (IH _ O3).
Qed.

Lemma tiles_tokens : forall ln off s toks, tiles ln off s toks ->
  forall t, In t toks ->
    ttext t <> [] /\ tline t = ln /\
    exists pre post, s = pre ++ ttext t ++ post /\ toff t = (off + N.of_nat (length pre))%N.
Proof.
  intros ln off s toks H. induction H as [off g G | off g t rest toks G Tn Tl To Tr IH]; intros u Hu.
  - destruct Hu.
  - destruct Hu as [Hu|Hu].
    + subst u. split; [exact Tn|]. split; [exact Tl|]. exists g, rest. auto.
    + destruct (IH u Hu) as [U1 [U2 [pre [post [E1 E2]]]]].
      split; [exact U1|]. split; [exact U2|].
      exists (g ++ ttext t ++ pre), post. split.
      * rewrite E1. rewrite <- !app_assoc. reflexivity.
      * rewrite E2. unfold tend. rewrite To. rewrite !app_length. lia.
Qed.

Lemma all_ws_nth : forall g i, all_ws g -> i < length g -> is_ws (nth i g 0%N) = true.
Proof.
  unfold all_ws. induction g as [|c g IH]; intros i G L; simpl in *; [lia|].
  apply andb_true_iff in G. destruct G as [G1 G2]. destruct i; [exact G1|].
  apply IH; [exact G2 | lia].
Qed.

Lemma tiles_covers : forall ln off s toks, tiles ln off s toks ->
  forall i, i < length s -> is_ws (nth i s 0%N) = false ->
  exists t, In t toks /\ (toff t <= off + N.of_nat i /\ off + N.of_nat i < tend t)%N.
Proof.
  intros ln off s toks H. induction H as [off g G | off g t rest toks G Tn Tl To Tr IH]; intros i L W.
  - rewrite (all_ws_nth _ _ G L) in W. discriminate.
  - destruct (Nat.lt_ge_cases i (length g)) as [C1|C1].
    + rewrite app_nth1 in W by exact C1. rewrite (all_ws_nth _ _ G C1) in W. discriminate.
    + rewrite app_nth2 in W by exact C1.
      destruct (Nat.lt_ge_cases (i - length g) (length (ttext t))) as [C2|C2].
      * exists t. split; [left; reflexivity|]. unfold tend. lia.
      * rewrite app_nth2 in W by exact C2.
        rewrite !app_length in L.
        destruct (IH (i - length g - length (ttext t)) ltac:(lia) W) as [u [Hu [U1 U2]]].
        exists u. split; [right; exact Hu|]. unfold tend in *. lia.
Qed.

Lemma substr_mid : forall pre w post, substr (pre ++ w ++ post) (N.of_nat (length pre)) (length w) = w.
Proof.
  intros pre w post. unfold substr. rewrite Nat2N.id.
  rewrite skipn_app, Nat.sub_diag, skipn_all. simpl.
  rewrite firstn_app, Nat.sub_diag, firstn_all. simpl. apply app_nil_r.
Qed.

(* the explicit form of the tiling theorem *)
Theorem lex_line_tiles_explicit : forall alts ln s, In UNEXPECTED alts ->
  let toks := lex_line alts ln s in
  ordered 0 toks /\
  ForallOrdPairs (fun a b => (tend a <= toff b)%N) toks /\
  (forall t, In t toks ->
     ttext t <> [] /\ tline t = ln /\
     substr s (toff t) (length (ttext t)) = ttext t /\
     (tend t <= N.of_nat (length s))%N) /\
  (forall i, i < length s -> is_ws (nth i s 0%N) = false ->
     exists t, In t toks /\ covers t i).
Proof.
  intros alts ln s U toks. pose proof (lex_line_tiles alts ln s U) as T. fold toks in T.
  pose proof (tiles_ordered _ _ _ _ T) as O.
  split; [exact O|]. split; [apply (ordered_pairs _ _ O)|]. split.
  - intros t Ht. destruct (tiles_tokens _ _ _ _ T t Ht) as [T1 [T2 [pre [post [E1 E2]]]]].
    split; [exact T1|]. split; [exact T2|]. simpl in E2. split.
    + rewrite E1, E2. apply substr_mid.
    + unfold tend. rewrite E1, E2, !app_length. lia.
  - intros i L W. destruct (tiles_covers _ _ _ _ T i L W) as [t [Ht C]].
    exists t. split; [exact Ht|]. unfold covers. simpl in C. exact C.
Qed.

(* ------------------------------------------------------------------ *)
(** * Class of every token *)

Lemma lex_rel_class : forall alts ln off s toks, lex_rel alts ln off s toks ->
  forall t, In t toks ->
  tline t = ln /\
  exists pre r, s = pre ++ ttext t ++ r /\ toff t = (off + N.of_nat (length pre))%N /\
                first_lexeme alts (ttext t ++ r) (tty t) (ttext t) r.
Proof.
  intros alts ln off s toks H.
  induction H as [off | off c s toks Hn H IH | off s k w r toks Hs Hf H IH]; intros t Ht.
  - destruct Ht.
  - destruct (IH t Ht) as [L [pre [r [E1 [E2 E3]]]]]. split; [exact L|].
    exists (c :: pre), r. split; [rewrite E1; reflexivity|]. split; [|exact E3].
    rewrite E2. simpl length. lia.
  - destruct Ht as [Ht|Ht].
    + subst t. simpl. split; [reflexivity|]. exists [], r.
      pose proof (first_lexeme_lexeme _ _ _ _ _ Hf) as [E _].
      split; [exact E|]. split; [simpl; lia|]. rewrite <- E. exact Hf.
    + destruct (IH t Ht) as [L [pre [r' [E1 [E2 E3]]]]]. split; [exact L|].
      pose proof (first_lexeme_lexeme _ _ _ _ _ Hf) as [E _].
      exists (w ++ pre), r'. split; [rewrite E, E1, <- app_assoc; reflexivity|].
      split; [|exact E3]. rewrite E2, app_length. lia.
Qed.

Lemma skipn_pre : forall (pre x : str), skipn (N.to_nat (N.of_nat (length pre))) (pre ++ x) = x.
Proof.
  intros pre x. rewrite Nat2N.id, skipn_app, Nat.sub_diag, skipn_all. reflexivity.
Qed.

Theorem lex_line_class : forall alts ln s t, In t (lex_line alts ln s) ->
  exists r, skipn (N.to_nat (toff t)) s = ttext t ++ r /\
            first_match alts (skipn (N.to_nat (toff t)) s) = Some (tty t, ttext t, r) /\
            first_lexeme alts (skipn (N.to_nat (toff t)) s) (tty t) (ttext t) r.
Proof.
  intros alts ln s t Ht.
  assert (R : lex_rel alts ln 0 s (lex_line alts ln s)) by (apply lex_rel_iff; reflexivity).
  destruct (lex_rel_class _ _ _ _ _ R t Ht) as [_ [pre [r [E1 [E2 E3]]]]].
  exists r. simpl in E2. rewrite E1, E2, skipn_pre.
  split; [reflexivity|]. split; [apply first_match_spec; exact E3 | exact E3].
Qed.

Lemma lex_line_tline : forall alts ln s t, In t (lex_line alts ln s) -> tline t = ln.
Proof.
  intros alts ln s t Ht.
  assert (R : lex_rel alts ln 0 s (lex_line alts ln s)) by (apply lex_rel_iff; reflexivity).
  apply (lex_rel_class _ _ _ _ _ R t Ht).
Qed.

(* ------------------------------------------------------------------ *)
(** * Non-ASCII blanks and separators are content *)

Definition EXOTIC_BLANKS : list N := [160; 12288; 8232; 133; 8233; 5760; 8239; 28; 29; 30; 31]%N.

Lemma exotic_not_ws : forall c, In c EXOTIC_BLANKS -> is_ws c = false.
Proof.
  intros c H. unfold EXOTIC_BLANKS in H. simpl in H.
  repeat (destruct H as [H|H]; [subst c; reflexivity|]). destruct H.
Qed.

Theorem lex_line_nonascii_blank_is_content : forall alts ln s i, In UNEXPECTED alts ->
  i < length s -> In (nth i s 0%N) EXOTIC_BLANKS ->
  exists t, In t (lex_line alts ln s) /\ covers t i.
Proof.
  intros alts ln s i U L H.
  destruct (lex_line_tiles_explicit alts ln s U) as [_ [_ [_ C]]].
  apply C; [exact L | apply exotic_not_ws; exact H].
Qed.

(* ------------------------------------------------------------------ *)
(** * Several lines: numbering from 1, concatenation *)

Lemma lex_lines_from_spec : forall alts ls n,
  lex_lines_from alts n ls =
  flat_map (fun p => lex_line alts (fst p) (snd p)) (number_from n ls).
Proof.
  intros alts. induction ls as [|l ls IH]; intros n; simpl; [reflexivity|].
  rewrite IH. reflexivity.
Qed.

Lemma number_from_in : forall ls n p, In p (number_from n ls) <->
  exists i, i < length ls /\ p = ((n + N.of_nat i)%N, nth i ls []).
Proof.
  induction ls as [|l ls IH]; intros n p; simpl.
  - split; [intros [] | intros [i [L _]]; lia].
  - rewrite IH. split.
    + intros [H | [i [L E]]].
      * exists 0. split; [lia|]. subst p. simpl. f_equal. lia.
      * exists (S i). split; [lia|]. subst p. simpl nth. f_equal. lia.
    + intros [[|i] [L E]].
      * left. subst p. simpl. f_equal. lia.
      * right. exists i. split; [lia|]. subst p. simpl nth. f_equal. lia.
Qed.

Theorem lex_lines_spec : forall alts ls,
  lex_lines alts ls = flat_map (fun p => lex_line alts (fst p) (snd p)) (number_from 1 ls).
Proof. intros alts ls. apply lex_lines_from_spec. Qed.

Theorem lex_lines_in : forall alts ls t, In t (lex_lines alts ls) <->
  exists i, i < length ls /\ tline t = (1 + N.of_nat i)%N /\
            In t (lex_line alts (1 + N.of_nat i) (nth i ls [])).
Proof.
  intros alts ls t. rewrite lex_lines_spec, in_flat_map. split.
  - intros [p [Hp Ht]]. apply number_from_in in Hp. destruct Hp as [i [L E]]. subst p.
    simpl in Ht. exists i. split; [exact L|]. split; [|exact Ht].
    apply (lex_line_tline _ _ _ _ Ht).
  - intros [i [L [_ Ht]]]. exists ((1 + N.of_nat i)%N, nth i ls []). split; [|exact Ht].
    apply number_from_in. exists i. auto.
Qed.

Lemma lex_lines_app : forall alts a b n,
  lex_lines_from alts n (a ++ b) =
  lex_lines_from alts n a ++ lex_lines_from alts (n + N.of_nat (length a)) b.
Proof.
  intros alts. induction a as [|l a IH]; intros b n; simpl.
  - f_equal. lia.
  - rewrite IH, <- app_assoc. do 3 f_equal. lia.
Qed.

(* ------------------------------------------------------------------ *)
(** * Line splitting: exactly at LF, CR LF, CR *)

Lemma no_eol_cons : forall c p, no_eol (c :: p) <-> is_eol c = false /\ no_eol p.
Proof.
  intros c p. unfold no_eol. simpl. rewrite andb_true_iff, negb_true_iff. tauto.
Qed.

Lemma is_eol_false : forall c, is_eol c = false -> eqc c 10 = false /\ eqc c 13 = false.
Proof. intros c H. unfold is_eol in H. apply orb_false_iff in H. exact H. Qed.

Lemma split_lines_no_eol : forall p, no_eol p -> split_lines p = [p].
Proof.
  induction p as [|c p IH]; intros H; [reflexivity|].
  apply no_eol_cons in H. destruct H as [H1 H2]. apply is_eol_false in H1. destruct H1 as [E1 E2].
  simpl. rewrite E1, E2, (IH H2). reflexivity.
Qed.

Lemma split_lines_nonempty : forall s, split_lines s <> [].
Proof.
  intros [|c s]; simpl; [discriminate|].
  destruct (eqc c 10); [discriminate|]. destruct (eqc c 13).
  - destruct s as [|d s]; [discriminate|]. destruct (eqc d 10); discriminate.
  - destruct (split_lines s); discriminate.
Qed.

Lemma split_lines_prefix : forall p x, no_eol p ->
  split_lines (p ++ x) =
  match split_lines x with q :: qs => (p ++ q) :: qs | [] => [p] end.
Proof.
  induction p as [|c p IH]; intros x H.
  - simpl. destruct (split_lines x) eqn:E; [|reflexivity].
    exfalso. exact (split_lines_nonempty x E).
  - apply no_eol_cons in H. destruct H as [H1 H2]. apply is_eol_false in H1. destruct H1 as [E1 E2].
    simpl. rewrite E1, E2, (IH x H2). destruct (split_lines x); reflexivity.
Qed.

Lemma splits_sound : forall s ps, splits s ps -> ps = split_lines s.
Proof.
  intros s ps H.
  induction H as [p Hp | p rest ps Hp H IH | p rest ps Hp H IH | p rest ps Hp Hn H IH].
  - symmetry. apply split_lines_no_eol. exact Hp.
  - rewrite (split_lines_prefix _ _ Hp). simpl. rewrite <- IH, app_nil_r. reflexivity.
  - rewrite (split_lines_prefix _ _ Hp). simpl. rewrite <- IH, app_nil_r. reflexivity.
  - rewrite (split_lines_prefix _ _ Hp). simpl.
    destruct rest as [|d rest'].
    + simpl. rewrite IH, app_nil_r. reflexivity.
    + simpl in Hn. rewrite Hn. rewrite <- IH, app_nil_r. reflexivity.
Qed.

Lemma splits_cons : forall c s ps, is_eol c = false -> splits s ps ->
  match ps with q :: qs => splits (c :: s) ((c :: q) :: qs) | [] => False end.
Proof.
  intros c s ps E H.
  assert (K : forall p, no_eol p -> no_eol (c :: p)).
  { intros p Hp. apply no_eol_cons. auto. }
  inversion H as [p Hp | p rest qs Hp H' | p rest qs Hp H' | p rest qs Hp Hn H']; subst.
  - constructor. apply K. exact Hp.
  - change (c :: p ++ 10%N :: rest) with ((c :: p) ++ 10%N :: rest). constructor; auto.
  - change (c :: p ++ 13%N :: 10%N :: rest) with ((c :: p) ++ 13%N :: 10%N :: rest).
    constructor; auto.
  - change (c :: p ++ 13%N :: rest) with ((c :: p) ++ 13%N :: rest). constructor; auto.
Qed.

Lemma splits_complete_n : forall n s, length s <= n -> splits s (split_lines s).
Proof.
  induction n as [|n IH]; intros s L.
  - destruct s; [|simpl in L; lia]. simpl. constructor. reflexivity.
  - destruct s as [|c s']; [simpl; constructor; reflexivity|]. simpl in L. simpl split_lines.
    destruct (eqc c 10) eqn:E10.
    + apply eqc_true in E10. subst c.
      apply (sp_lf [] s' (split_lines s')); [reflexivity | apply IH; lia].
    + destruct (eqc c 13) eqn:E13.
      * apply eqc_true in E13. subst c. destruct s' as [|d s''].
        -- apply (sp_cr [] [] [[]]); [reflexivity | exact I | constructor; reflexivity].
        -- destruct (eqc d 10) eqn:D10.
           ++ apply eqc_true in D10. subst d.
              apply (sp_crlf [] s'' (split_lines s'')); [reflexivity | apply IH; simpl in L; lia].
           ++ apply (sp_cr [] (d :: s'') (split_lines (d :: s''))); [reflexivity | exact D10 | apply IH; lia].
      * assert (E : is_eol c = false) by (unfold is_eol; rewrite E10, E13; reflexivity).
        pose proof (splits_cons c s' (split_lines s') E (IH s' ltac:(lia))) as K.
        destruct (split_lines s'); [contradiction | exact K].
Qed.

(* split_lines is exactly the declarative splitting at LF / CR LF / lone CR *)
Theorem split_lines_spec : forall s ps, splits s ps <-> ps = split_lines s.
Proof.
  intros s ps. split; [apply splits_sound|]. intros E. subst.
  apply (splits_complete_n (length s)). lia.
Qed.

Lemma splits_pieces : forall s ps, splits s ps -> Forall no_eol ps /\ ps <> [].
Proof.
  intros s ps H. induction H; (split; [|discriminate]); constructor; try assumption;
    try apply IHsplits; constructor.
Qed.

Theorem split_lines_pieces : forall s, Forall no_eol (split_lines s) /\ split_lines s <> [].
Proof. intros s. apply (splits_pieces s). apply split_lines_spec. reflexivity. Qed.

(* the text is recovered by putting a terminator between consecutive pieces *)
Lemma splits_interleave : forall s ps, splits s ps ->
  exists ts, length ps = S (length ts) /\ Forall is_terminator ts /\ interleave ps ts = s.
Proof.
  intros s ps H.
  induction H as [p Hp | p rest ps Hp H IH | p rest ps Hp H IH | p rest ps Hp Hn H IH].
  - exists []. repeat split; constructor.
  - destruct IH as [ts [L [F E]]]. exists ([10%N] :: ts). simpl. rewrite L, E.
    split; [reflexivity|]. split; [|reflexivity]. constructor; [left; reflexivity | exact F].
  - destruct IH as [ts [L [F E]]]. exists ([13%N; 10%N] :: ts). simpl. rewrite L, E.
    split; [reflexivity|]. split; [|reflexivity]. constructor; [right; left; reflexivity | exact F].
  - destruct IH as [ts [L [F E]]]. exists ([13%N] :: ts). simpl. rewrite L, E.
    split; [reflexivity|]. split; [|reflexivity]. constructor; [right; right; reflexivity | exact F].
Qed.

Theorem split_lines_join : forall s,
  exists ts, length (split_lines s) = S (length ts) /\ Forall is_terminator ts /\
             interleave (split_lines s) ts = s.
Proof. intros s. apply splits_interleave. apply split_lines_spec. reflexivity. Qed.

(* a string without LF and CR is one line, whatever else it contains
   (NEL, LS, PS, VT, FF, FS, GS, RS are not line breaks for the lexer) *)
Theorem split_lines_only_crlf : forall s, no_eol s -> split_lines s = [s].
Proof. exact split_lines_no_eol. Qed.

(* in the lines of a str input a comment always runs to the end of its line *)
Lemma no_eol_app : forall a b, no_eol (a ++ b) -> no_eol a /\ no_eol b.
Proof.
  unfold no_eol. intros a b H. rewrite forallb_app in H. apply andb_true_iff in H. exact H.
Qed.

Theorem comment_to_eol : forall alts ln s t, no_eol s -> In t (lex_line alts ln s) ->
  tty t = COMMENT -> tend t = N.of_nat (length s).
Proof.
  intros alts ln s t Hs Ht Hc.
  assert (R : lex_rel alts ln 0 s (lex_line alts ln s)) by (apply lex_rel_iff; reflexivity).
  destruct (lex_rel_class _ _ _ _ _ R t Ht) as [_ [pre [r [E1 [E2 E3]]]]].
  apply first_lexeme_lexeme in E3. rewrite Hc in E3. destruct E3 as [_ [_ F]]. simpl in F.
  destruct F as [F|F].
  - subst r. unfold tend. rewrite E1, E2, !app_length. simpl. lia.
  - exfalso. subst r. rewrite E1 in Hs. apply no_eol_app in Hs. destruct Hs as [_ Hs].
    apply no_eol_app in Hs. destruct Hs as [_ Hs]. discriminate.
Qed.

(* both shipped alternation orders contain the catch-all class *)
Lemma alts_have_unexpected : In UNEXPECTED PENMAN_ALTS /\ In UNEXPECTED TRIPLE_ALTS.
Proof. split; simpl; tauto. Qed.
