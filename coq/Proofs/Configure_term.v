(** T1 -- termination / totality of [configure] (C03, C05, C06).

    For EVERY model, graph (any triple list, any epidata: the marker lists are
    universally quantified) and top, [configure m g top] is [Ok _] or
    [LayoutErr k] with k in 1..4.  In particular the fuel of the two fuelled
    loops ([cnode] = _configure_node, [cloop] = the while loop of configure)
    suffices, and the KeyError / IndexError branches of the mirror ([Other 2],
    [Other 3]) are unreachable. *)
From PM Require Import Impl.Configure.
From Coq Require Import Lia.

(* ------------------------------------------------------------------ *)
(** * Small facts about the equality tests *)

Lemma cfg_str_eqb_refl : forall a, str_eqb a a = true.
Proof. induction a as [|x a IH]; simpl; [reflexivity|]. rewrite N.eqb_refl. exact IH. Qed.

Lemma cfg_str_eqb_eq : forall a b, str_eqb a b = true -> a = b.
Proof.
  induction a as [|x a IH]; intros [|y b] E; simpl in E; try discriminate; [reflexivity|].
  apply andb_true_iff in E. destruct E as [E1 E2].
  apply N.eqb_eq in E1. apply IH in E2. subst. reflexivity.
Qed.

Lemma atom_eqb_refl : forall a, atom_eqb a a = true.
Proof. destruct a; simpl; auto using cfg_str_eqb_refl. Qed.

Lemma atom_eqb_sym : forall a b, atom_eqb a b = atom_eqb b a.
Proof.
  assert (S : forall x y, str_eqb x y = str_eqb y x).
  { induction x as [|c x IH]; intros [|d y]; simpl; try reflexivity.
    rewrite N.eqb_sym, IH. reflexivity. }
  destruct a, b; simpl; auto.
Qed.

Lemma atom_eqb_trans : forall a b c,
  atom_eqb a b = true -> atom_eqb b c = true -> atom_eqb a c = true.
Proof.
  destruct a, b, c; simpl; intros E1 E2; try discriminate; try reflexivity;
    apply cfg_str_eqb_eq in E1; apply cfg_str_eqb_eq in E2; subst; apply cfg_str_eqb_refl.
Qed.

(* [atom_eqb] is a congruence for itself: equal atoms are interchangeable in tests *)
Lemma atom_eqb_cong_l : forall a b c, atom_eqb a b = true -> atom_eqb a c = atom_eqb b c.
Proof.
  intros a b c E. destruct (atom_eqb b c) eqn:F.
  - eapply atom_eqb_trans; eassumption.
  - destruct (atom_eqb a c) eqn:G; [|reflexivity].
    rewrite atom_eqb_sym in E. rewrite <- F. symmetry. eapply atom_eqb_trans; eassumption.
Qed.

Lemma atom_eqb_cong_r : forall a b c, atom_eqb a b = true -> atom_eqb c a = atom_eqb c b.
Proof. intros a b c E. rewrite (atom_eqb_sym c a), (atom_eqb_sym c b). apply atom_eqb_cong_l, E. Qed.

(* ------------------------------------------------------------------ *)
(** * Dictionaries keyed by atoms *)

Lemma dget_dset_same : forall {V} (k : atom) (v : V) d,
  dget atom_eqb k (dset atom_eqb k v d) = Some v.
Proof.
  intros V k v. induction d as [|[k' v'] d IH]; simpl.
  - rewrite atom_eqb_refl. reflexivity.
  - destruct (atom_eqb k k') eqn:E; simpl; rewrite E; [reflexivity|exact IH].
Qed.

Lemma dget_dset_eq : forall {V} (k k2 : atom) (v : V) d, atom_eqb k2 k = true ->
  dget atom_eqb k2 (dset atom_eqb k v d) = Some v.
Proof.
  intros V k k2 v d E. induction d as [|[k' v'] d IH]; simpl.
  - rewrite E. reflexivity.
  - destruct (atom_eqb k k') eqn:F; simpl.
    + rewrite (atom_eqb_trans _ _ _ E F). reflexivity.
    + rewrite (atom_eqb_cong_l _ _ k' E), F. exact IH.
Qed.

Lemma dget_dset_other : forall {V} (k k2 : atom) (v : V) d, atom_eqb k2 k = false ->
  dget atom_eqb k2 (dset atom_eqb k v d) = dget atom_eqb k2 d.
Proof.
  intros V k k2 v d E. induction d as [|[k' v'] d IH]; simpl.
  - rewrite E. reflexivity.
  - destruct (atom_eqb k k') eqn:F; simpl.
    + rewrite <- (atom_eqb_cong_r _ _ k2 F), E. reflexivity.
    + destruct (atom_eqb k2 k'); [reflexivity|exact IH].
Qed.

(* ------------------------------------------------------------------ *)
(** * [cnode]: fuel [S (length data)] suffices; the data only shrinks *)

Lemma cnode_ok : forall f m var id surp data st nm, length data < f ->
  exists surp' data' st' nm',
    cnode f m var id surp data st nm = Ok (surp', data', st', nm') /\
    length data' <= length data.
Proof.
  induction f as [|f IH]; intros m var id surp data st nm Hf; [lia|].
  destruct data as [|d data'].
  - simpl. do 4 eexists. split; [reflexivity|simpl; lia].
  - destruct d as [t push es|].
    2:{ simpl. do 4 eexists. split; [reflexivity|simpl; lia]. }
    simpl in Hf. assert (Hf' : length data' < f) by lia.
    cbn [cnode].
    destruct (atom_eqb (tsrc t) var).
    + (* expected orientation *)
      destruct (str_eqb (trole t) INSTANCE).
      * destruct (missing_concept (ttgt t));
          (edestruct IH as (s1 & d1 & st1 & nm1 & E1 & L1); [exact Hf'|];
           rewrite E1; do 4 eexists; split; [reflexivity|simpl; lia]).
      * destruct (push && negb (has_node (ttgt t) st nm)).
        -- edestruct IH as (s1 & d1 & st1 & nm1 & E1 & L1); [exact Hf'|].
           rewrite E1.
           match goal with |- context [cnode f m var id ?s d1 ?sx ?nx] =>
             destruct (IH m var id s d1 sx nx ltac:(lia)) as (s2 & d2 & st2 & nm2 & E2 & L2) end.
           rewrite E2.
           do 4 eexists; split; [reflexivity|simpl; lia].
        -- edestruct IH as (s1 & d1 & st1 & nm1 & E1 & L1); [exact Hf'|].
           rewrite E1; do 4 eexists; split; [reflexivity|simpl; lia].
    + destruct (atom_eqb (ttgt t) var && negb (str_eqb (trole t) INSTANCE)).
      * (* unexpected inversion: push := false *)
        destruct (str_eqb (trole (invert m t)) INSTANCE).
        -- destruct (missing_concept (ttgt (invert m t)));
             (edestruct IH as (s1 & d1 & st1 & nm1 & E1 & L1); [exact Hf'|];
              rewrite E1; do 4 eexists; split; [reflexivity|simpl; lia]).
        -- cbn [andb].
           edestruct IH as (s1 & d1 & st1 & nm1 & E1 & L1); [exact Hf'|].
           rewrite E1; do 4 eexists; split; [reflexivity|simpl; lia].
      * do 4 eexists. split; [reflexivity|simpl; lia].
Qed.

(* ------------------------------------------------------------------ *)
(** * [drop_pops], [site], [find_next] *)

Lemma drop_pops_length : forall d, length (drop_pops d) <= length d.
Proof. induction d as [|[t p e|] d IH]; simpl; lia. Qed.

Lemma site_true_dget : forall v st nm st1 nm1,
  site v st nm = (true, st1, nm1) -> exists id, dget atom_eqb v nm1 = Some (Some id).
Proof.
  intros v st nm st1 nm1. unfold site.
  destruct (dget atom_eqb v nm) as [[id|]|] eqn:G; try discriminate.
  destruct (nth_error st id) as [[v' es]|]; try discriminate.
  destruct (atom_eqb v v'); intro E; inversion E; subst.
  - eauto.
  - eexists. apply dget_dset_same.
Qed.

Lemma site_guarded_true_dget : forall v st nm st1 nm1,
  (if dmem atom_eqb v nm then site v st nm else (false, st, nm)) = (true, st1, nm1) ->
  exists id, dget atom_eqb v nm1 = Some (Some id).
Proof.
  intros v st nm st1 nm1. destruct (dmem atom_eqb v nm); [apply site_true_dget|discriminate].
Qed.

Lemma find_next_spec : forall data acc st nm sk var data1 st1 nm1,
  find_next data acc st nm = (sk, var, data1, st1, nm1) ->
  length sk + length data1 = length acc + length data /\
  (forall v, var = Some v -> exists id, dget atom_eqb v nm1 = Some (Some id)).
Proof.
  induction data as [|d data IH]; intros acc st nm sk var data1 st1 nm1 E.
  - simpl in E. inversion E; subst. split; [simpl; lia|discriminate].
  - destruct d as [t push es|].
    + cbn [find_next] in E.
      destruct (if dmem atom_eqb (tsrc t) nm then site (tsrc t) st nm else (false, st, nm))
        as [[ok1 sa] na] eqn:S1.
      destruct ok1.
      { inversion E; subst. split; [simpl; lia|].
        intros v Hv. inversion Hv; subst. eapply site_guarded_true_dget; eassumption. }
      destruct (if dmem atom_eqb (ttgt t) nm then site (ttgt t) st nm else (false, st, nm))
        as [[ok2 sb] nb] eqn:S2.
      destruct ok2.
      { inversion E; subst. split; [simpl; lia|].
        intros v Hv. inversion Hv; subst. eapply site_guarded_true_dget; eassumption. }
      destruct data as [|d' data'].
      { inversion E; subst. split; [simpl; lia|discriminate]. }
      apply IH in E. destruct E as [L V]. split; [simpl in *; lia|exact V].
    + cbn [find_next] in E.
      destruct data as [|d' data'].
      { inversion E; subst. split; [simpl; lia|discriminate]. }
      apply IH in E. destruct E as [L V]. split; [simpl in *; lia|exact V].
Qed.

(* ------------------------------------------------------------------ *)
(** * [cloop]: the lexicographic measure (|data|+|skipped|, |data|) *)

Definition layout_outcome {A} (o : outcome A) : Prop :=
  (exists a, o = Ok a) \/ o = LayoutErr 1 \/ o = LayoutErr 2 \/ o = LayoutErr 3 \/ o = LayoutErr 4.

Definition loop_outcome {A} (o : outcome A) : Prop :=
  (exists a, o = Ok a) \/ o = LayoutErr 1 \/ o = LayoutErr 2 \/ o = LayoutErr 3.

Lemma loop_outcome_layout : forall A (o : outcome A), loop_outcome o -> layout_outcome o.
Proof. intros A o [H|[H|[H|H]]]; unfold layout_outcome; auto. Qed.

(* one round of the while loop, unfolded *)
Lemma cloop_S : forall f m data skipped st nm,
  cloop (S f) m data skipped st nm =
  match data with
  | [] => match skipped with [] => Ok st | _ => LayoutErr 3 end
  | _ =>
      let '(sk, var, data1, st1, nm1) := find_next data [] st nm in
      let skipped1 := skipped ++ sk in
      let cnt := length data1 in
      match var with
      | None => LayoutErr 1
      | Some ANone => LayoutErr 1
      | Some v =>
          if Nat.eqb cnt 0 then LayoutErr 1
          else
            match dget atom_eqb v nm1 with
            | Some (Some id) =>
                r <- cnode (S cnt) m v id false data1 st1 nm1 ;;
                let '(surp, data2, st2, nm2) := r in
                if Nat.eqb (length data2) cnt && surp then
                  match data2 with
                  | d :: data3 => cloop f m (drop_pops data3) (d :: skipped1) st2 nm2
                  | [] => Other 3
                  end
                else if Nat.leb cnt (length data2) then LayoutErr 2
                else cloop f m (drop_pops (data2 ++ rev skipped1)) [] st2 nm2
            | _ => Other 2
            end
      end
  end.
Proof. reflexivity. Qed.

(* General fuel lemma: any fuel above T*(T+1) + |data| with |data|+|skipped| <= T *)
Lemma cloop_fuel : forall f m T data skipped st nm,
  length data + length skipped <= T ->
  T * (T + 1) + length data < f ->
  loop_outcome (cloop f m data skipped st nm).
Proof.
  induction f as [|f IH]; intros m T data skipped st nm HT Hf; [lia|].
  rewrite cloop_S.
  destruct data as [|d0 data0].
  { destruct skipped; unfold loop_outcome; eauto. }
  remember (d0 :: data0) as data eqn:Hdata.
  destruct (find_next data [] st nm) as [[[[sk var] data1] st1] nm1] eqn:FN.
  apply find_next_spec in FN. destruct FN as [FL FV]. simpl in FL.
  cbv zeta.
  destruct var as [v|]; [|unfold loop_outcome; auto].
  destruct (FV v eq_refl) as [id Hid].
  assert (Goal :
    loop_outcome
    (if Nat.eqb (length data1) 0 then LayoutErr 1
     else match dget atom_eqb v nm1 with
          | Some (Some id) =>
              r <- cnode (S (length data1)) m v id false data1 st1 nm1 ;;
              let '(surp, data2, st2, nm2) := r in
              if Nat.eqb (length data2) (length data1) && surp then
                match data2 with
                | d :: data3 => cloop f m (drop_pops data3) (d :: skipped ++ sk) st2 nm2
                | [] => Other 3
                end
              else if Nat.leb (length data1) (length data2) then LayoutErr 2
              else cloop f m (drop_pops (data2 ++ rev (skipped ++ sk))) [] st2 nm2
          | _ => Other 2
          end)).
  { destruct (Nat.eqb (length data1) 0) eqn:Z; [unfold loop_outcome; auto|].
    apply Nat.eqb_neq in Z.
    rewrite Hid.
    destruct (cnode_ok (S (length data1)) m v id false data1 st1 nm1 (Nat.lt_succ_diag_r _))
      as (surp & data2 & st2 & nm2 & EC & LC).
    rewrite EC. cbn [bind].
    destruct (Nat.eqb (length data2) (length data1) && surp) eqn:NP.
    - apply andb_true_iff in NP. destruct NP as [NP _]. apply Nat.eqb_eq in NP.
      destruct data2 as [|d data3]; [simpl in NP; lia|].
      simpl in NP.
      apply (IH m T).
      + pose proof (drop_pops_length data3). simpl. rewrite app_length. lia.
      + pose proof (drop_pops_length data3). lia.
    - destruct (Nat.leb (length data1) (length data2)) eqn:LE; [unfold loop_outcome; auto|].
      apply Nat.leb_gt in LE.
      pose proof (drop_pops_length (data2 ++ rev (skipped ++ sk))) as DL.
      rewrite app_length, rev_length, app_length in DL.
      apply (IH m (T - 1)).
      + simpl. lia.
      + assert (T >= 1) by lia.
        assert (length (drop_pops (data2 ++ rev (skipped ++ sk))) <= T - 1) by lia.
        nia. }
  destruct v; exact Goal || (unfold loop_outcome; auto).
Qed.

Lemma cloop_configure_fuel : forall m data st nm n, length data <= n ->
  loop_outcome (cloop (configure_fuel n) m data [] st nm).
Proof.
  intros m data st nm n L. apply (cloop_fuel _ m n).
  - simpl. lia.
  - unfold configure_fuel. nia.
Qed.

(* ------------------------------------------------------------------ *)
(** * [configure] *)

Theorem configure_only_layout_error : forall m g top, layout_outcome (configure m g top).
Proof.
  intros m g top. unfold configure.
  destruct (triples g) as [|t0 ts] eqn:TS; [left; eauto|].
  destruct (match top with Some t => Some t | None => graph_top g end) as [tp|];
    [|unfold layout_outcome; auto 6].
  destruct (negb (mem atom_eqb tp (variables g))); [unfold layout_outcome; auto 6|].
  cbv zeta.
  match goal with |- context [cnode (S (length ?d)) m tp O false ?d ?st ?nm] =>
    destruct (cnode_ok (S (length d)) m tp O false d st nm (Nat.lt_succ_diag_r _))
      as (s1 & data1 & st1 & nm1 & EC & LC); rewrite EC end.
  cbn [bind].
  destruct (cloop_configure_fuel m (drop_pops data1) st1 nm1 (length data1) (drop_pops_length _))
    as [[st2 E]|[E|[E|E]]]; rewrite E; cbn [bind]; unfold layout_outcome; eauto 6.
Qed.

Theorem configure_no_fuel_error : forall m g top, configure m g top <> OutOfFuel.
Proof.
  intros m g top H. destruct (configure_only_layout_error m g top) as [[a E]|[E|[E|[E|E]]]];
    rewrite E in H; discriminate.
Qed.
