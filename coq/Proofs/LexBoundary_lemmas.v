(** Lexing facts needed by C01 / C09, proved directly on the scanners of
    Impl/Lexer.v: what each scanner consumes, the "boundary" lemma (a lexeme of
    class k followed by a character that cannot extend it is matched as exactly
    that token by the PENMAN alternation), and: a text that is a sequence of
    lexemes separated by spaces / line feeds lexes to exactly those tokens. *)
From PM Require Export Spec.WellFormed.
From Coq Require Import Lia.

(* ------------------------------------------------------------------ *)
(** * Characters and strings *)

Lemma eqc_true : forall a b, eqc a b = true -> a = b.
Proof. intros a b H. apply N.eqb_eq. exact H. Qed.

Lemma eqc_refl : forall a, eqc a a = true.
Proof. intros a. apply N.eqb_refl. Qed.

Lemma eqc_false : forall a b, eqc a b = false -> a <> b.
Proof. intros a b H. apply N.eqb_neq. exact H. Qed.

Lemma eqc_neq : forall a b, a <> b -> eqc a b = false.
Proof. intros a b H. apply N.eqb_neq. exact H. Qed.

Lemma str_eqb_true : forall a b, str_eqb a b = true -> a = b.
Proof.
  induction a as [|x a IH]; intros [|y b] H; simpl in H; try reflexivity; try discriminate.
  apply andb_true_iff in H. destruct H as [H1 H2].
  apply N.eqb_eq in H1. apply IH in H2. subst. reflexivity.
Qed.

Lemma str_eqb_same : forall a, str_eqb a a = true.
Proof. induction a as [|x a IH]; simpl; [reflexivity|]. rewrite N.eqb_refl, IH. reflexivity. Qed.

Lemma str_eqb_false : forall a b, str_eqb a b = false -> a <> b.
Proof. intros a b H E. subst. rewrite str_eqb_same in H. discriminate. Qed.

(* what being a name character excludes *)
Lemma is_name_excl : forall c, is_name c = true ->
  eqc c 32 = false /\ eqc c 9 = false /\ eqc c 13 = false /\ eqc c 10 = false /\
  eqc c 11 = false /\ eqc c 12 = false /\ eqc c 34 = false /\ eqc c 40 = false /\
  eqc c 41 = false /\ eqc c 47 = false /\ eqc c 58 = false /\ eqc c 126 = false.
Proof.
  intros c H. unfold is_name, isin in H. simpl in H.
  apply negb_true_iff in H. repeat (apply orb_false_iff in H; destruct H as [? H]).
  repeat split; assumption.
Qed.

Lemma is_name_of_excl : forall c,
  eqc c 32 = false -> eqc c 9 = false -> eqc c 13 = false -> eqc c 10 = false ->
  eqc c 11 = false -> eqc c 12 = false -> eqc c 34 = false -> eqc c 40 = false ->
  eqc c 41 = false -> eqc c 47 = false -> eqc c 58 = false -> eqc c 126 = false ->
  is_name c = true.
Proof.
  intros c H1 H2 H3 H4 H5 H6 H7 H8 H9 H10 H11 H12. unfold is_name, isin. simpl.
  rewrite H1, H2, H3, H4, H5, H6, H7, H8, H9, H10, H11, H12. reflexivity.
Qed.

Lemma is_ws_name : forall c, is_ws c = true -> is_name c = false.
Proof.
  intros c H. unfold is_ws, isin in H. simpl in H. unfold is_name, isin. simpl.
  apply negb_false_iff.
  repeat (apply orb_true_iff in H; destruct H as [H|H]; [rewrite H; repeat rewrite orb_true_r; reflexivity|]).
  discriminate.
Qed.

Lemma alpha_not_digit : forall c, is_ascii_alpha c = true -> is_digit c = false.
Proof.
  intros c H. unfold is_ascii_alpha, is_ascii_lower, is_ascii_upper in H. unfold is_digit.
  apply andb_false_iff.
  destruct (N.leb c 57) eqn:E; [|right; reflexivity]. left.
  apply N.leb_le in E. apply N.leb_gt.
  apply orb_true_iff in H. destruct H as [H|H]; apply andb_true_iff in H; destruct H as [H1 H2];
    apply N.leb_le in H1; lia.
Qed.

Lemma digit_not : forall c, is_digit c = true ->
  eqc c 10 = false /\ eqc c 13 = false /\ eqc c 44 = false /\ eqc c 46 = false /\ eqc c 126 = false.
Proof.
  intros c H. unfold is_digit in H. apply andb_true_iff in H. destruct H as [H1 H2].
  apply N.leb_le in H1. apply N.leb_le in H2.
  repeat split; apply eqc_neq; lia.
Qed.

Lemma alpha_not : forall c, is_ascii_alpha c = true ->
  eqc c 10 = false /\ eqc c 13 = false /\ eqc c 126 = false.
Proof.
  intros c H. unfold is_ascii_alpha, is_ascii_lower, is_ascii_upper in H.
  apply orb_true_iff in H.
  destruct H as [H|H]; apply andb_true_iff in H; destruct H as [H1 H2];
    apply N.leb_le in H1; apply N.leb_le in H2; repeat split; apply eqc_neq; lia.
Qed.

(* ------------------------------------------------------------------ *)
(** * span *)

Definition head_fails (p : N -> bool) (s : str) : Prop :=
  match s with [] => True | c :: _ => p c = false end.

Lemma span_spec : forall p s a b, span p s = (a, b) ->
  s = a ++ b /\ forallb p a = true /\ head_fails p b.
Proof.
  intros p. induction s as [|c s IH]; intros a b H; simpl in H.
  - inversion H. subst. repeat split.
  - destruct (p c) eqn:Pc.
    + destruct (span p s) as [a0 b0] eqn:E. inversion H. subst.
      destruct (IH a0 b eq_refl) as [E1 [E2 E3]]. subst s.
      repeat split; [simpl; rewrite Pc, E2; reflexivity | exact E3].
    + inversion H. subst. repeat split. simpl. exact Pc.
Qed.

Lemma span_exact : forall p a b, forallb p a = true -> head_fails p b -> span p (a ++ b) = (a, b).
Proof.
  intros p. induction a as [|c a IH]; intros b Ha Hb.
  - simpl. destruct b as [|d b]; [reflexivity|]. simpl in Hb. simpl. rewrite Hb. reflexivity.
  - simpl in Ha. apply andb_true_iff in Ha. destruct Ha as [Pc Ha].
    simpl. rewrite Pc, (IH b Ha Hb). reflexivity.
Qed.

Lemma forallb_app_iff : forall (p : N -> bool) a b,
  forallb p (a ++ b) = true <-> forallb p a = true /\ forallb p b = true.
Proof. intros p a b. rewrite forallb_app. apply andb_true_iff. Qed.

(* ------------------------------------------------------------------ *)
(** * STRING *)

Lemma m_string_body_len : forall n s a b, length s <= n ->
  m_string_body s = Some (a, b) -> s = a ++ b.
Proof.
  induction n as [|n IH]; intros s a b L H.
  - destruct s; [simpl in H; discriminate | simpl in L; lia].
  - destruct s as [|c r]; [simpl in H; discriminate|]. simpl in H. simpl in L.
    destruct (eqc c 34).
    + inversion H. reflexivity.
    + destruct (eqc c 92).
      * destruct r as [|d r']; [discriminate|]. destruct (eqc d 10); [discriminate|].
        destruct (m_string_body r') as [[a0 b0]|] eqn:E; [|discriminate].
        inversion H. subst. simpl in L. rewrite (IH r' a0 b ltac:(lia) E). reflexivity.
      * destruct (m_string_body r) as [[a0 b0]|] eqn:E; [|discriminate].
        inversion H. subst. rewrite (IH r a0 b ltac:(lia) E). reflexivity.
Qed.

Lemma m_string_body_app : forall n s a b r, length s <= n ->
  m_string_body s = Some (a, b) -> m_string_body (s ++ r) = Some (a, b ++ r).
Proof.
  induction n as [|n IH]; intros s a b r L H.
  - destruct s; [simpl in H; discriminate | simpl in L; lia].
  - destruct s as [|c s']; [simpl in H; discriminate|]. simpl in H. simpl in L. simpl.
    destruct (eqc c 34).
    + inversion H. reflexivity.
    + destruct (eqc c 92).
      * destruct s' as [|d r']; [discriminate|]. simpl. destruct (eqc d 10); [discriminate|].
        destruct (m_string_body r') as [[a0 b0]|] eqn:E; [|discriminate].
        inversion H. subst. simpl in L. rewrite (IH r' a0 b r ltac:(lia) E). reflexivity.
      * destruct (m_string_body s') as [[a0 b0]|] eqn:E; [|discriminate].
        inversion H. subst. rewrite (IH s' a0 b r ltac:(lia) E). reflexivity.
Qed.

Lemma m_string_split : forall s a b, m_string s = Some (a, b) ->
  s = a ++ b /\ exists a', a = 34%N :: a'.
Proof.
  intros s a b H. unfold m_string in H. destruct s as [|c r]; [discriminate|].
  destruct (eqc c 34) eqn:C; [|discriminate]. apply eqc_true in C. subst c.
  destruct (m_string_body r) as [[a0 b0]|] eqn:E; [|discriminate].
  inversion H. subst. rewrite (m_string_body_len _ r a0 b (le_n _) E).
  split; [reflexivity | exists a0; reflexivity].
Qed.

Lemma m_string_app : forall s a b r, m_string s = Some (a, b) -> m_string (s ++ r) = Some (a, b ++ r).
Proof.
  intros s a b r H. unfold m_string in *. destruct s as [|c s']; [discriminate|]. simpl.
  destruct (eqc c 34); [|discriminate].
  destruct (m_string_body s') as [[a0 b0]|] eqn:E; [|discriminate].
  inversion H. subst. rewrite (m_string_body_app _ s' a0 b r (le_n _) E). reflexivity.
Qed.

(* the STRING scanner accepts its own output entirely *)
Lemma m_string_body_self : forall n s a b, length s <= n ->
  m_string_body s = Some (a, b) -> m_string_body a = Some (a, []).
Proof.
  induction n as [|n IH]; intros s a b L H.
  - destruct s; [simpl in H; discriminate | simpl in L; lia].
  - destruct s as [|c r]; [simpl in H; discriminate|]. simpl in H. simpl in L.
    destruct (eqc c 34) eqn:C1.
    + inversion H. subst. simpl. rewrite C1. reflexivity.
    + destruct (eqc c 92) eqn:C2.
      * destruct r as [|d r']; [discriminate|]. destruct (eqc d 10) eqn:C3; [discriminate|].
        destruct (m_string_body r') as [[a0 b0]|] eqn:E; [|discriminate].
        inversion H. subst. simpl in L. simpl. rewrite C1, C2, C3.
        rewrite (IH r' a0 b ltac:(lia) E). reflexivity.
      * destruct (m_string_body r) as [[a0 b0]|] eqn:E; [|discriminate].
        inversion H. subst. simpl. rewrite C1, C2.
        rewrite (IH r a0 b ltac:(lia) E). reflexivity.
Qed.

Lemma m_string_self : forall s a b, m_string s = Some (a, b) -> m_string a = Some (a, []).
Proof.
  intros s a b H. unfold m_string in H. destruct s as [|c r]; [discriminate|].
  destruct (eqc c 34) eqn:C; [|discriminate].
  destruct (m_string_body r) as [[a0 b0]|] eqn:E; [|discriminate].
  inversion H. subst. simpl. rewrite C.
  rewrite (m_string_body_self _ r a0 b (le_n _) E). reflexivity.
Qed.

(* ------------------------------------------------------------------ *)
(** * ALIGNMENT *)

Definition achar (c : N) : bool :=
  eqc c 126 || is_ascii_alpha c || eqc c 46 || is_digit c || eqc c 44.

Lemma achar_no_lfcr : forall c, achar c = true -> negb (eqc c 10) && negb (eqc c 13) = true.
Proof.
  intros c H. unfold achar in H.
  apply orb_true_iff in H. destruct H as [H|H].
  2:{ apply eqc_true in H. subst. reflexivity. }
  apply orb_true_iff in H. destruct H as [H|H].
  2:{ destruct (digit_not c H) as [A [B _]]. rewrite A, B. reflexivity. }
  apply orb_true_iff in H. destruct H as [H|H].
  2:{ apply eqc_true in H. subst. reflexivity. }
  apply orb_true_iff in H. destruct H as [H|H].
  2:{ destruct (alpha_not c H) as [A [B _]]. rewrite A, B. reflexivity. }
  apply eqc_true in H. subst. reflexivity.
Qed.

Lemma digits_achar : forall d, forallb is_digit d = true -> forallb achar d = true.
Proof.
  induction d as [|c d IH]; intros H; [reflexivity|]. simpl in H.
  apply andb_true_iff in H. destruct H as [H1 H2]. simpl. rewrite (IH H2).
  unfold achar. rewrite H1. repeat rewrite orb_true_r. reflexivity.
Qed.

Lemma m_more_spec : forall f s a b, m_more f s = (a, b) -> s = a ++ b /\ forallb achar a = true.
Proof.
  induction f as [|f IH]; intros s a b H; simpl in H.
  - inversion H. split; reflexivity.
  - destruct s as [|c r]; [inversion H; split; reflexivity|].
    destruct (eqc c 44) eqn:C; [|inversion H; split; reflexivity].
    destruct (span is_digit r) as [d r'] eqn:Sp.
    destruct d as [|d0 d]; [inversion H; split; reflexivity|].
    destruct (m_more f r') as [a0 b0] eqn:M. inversion H. subst.
    destruct (span_spec _ _ _ _ Sp) as [E1 [E2 _]].
    destruct (IH r' a0 b M) as [E3 E4]. subst.
    split.
    + simpl. rewrite <- app_assoc. reflexivity.
    + assert (Hc : achar c = true)
        by (unfold achar; rewrite C; repeat rewrite orb_true_r; reflexivity).
      change (forallb achar ([c] ++ (d0 :: d) ++ a0) = true).
      rewrite !forallb_app, (digits_achar _ E2), E4. simpl. rewrite Hc. reflexivity.
Qed.

Definition astop (c : N) : bool := negb (is_digit c) && negb (eqc c 44).

Lemma m_more_ext : forall f a, m_more f a = (a, []) ->
  forall f' c s, f <= f' -> astop c = true -> m_more f' (a ++ c :: s) = (a, c :: s).
Proof.
  induction f as [|f IH]; intros a H f' c s L St.
  - simpl in H. inversion H. subst. simpl.
    apply andb_true_iff in St. destruct St as [_ St]. apply negb_true_iff in St.
    destruct f'; simpl; [reflexivity | rewrite St; reflexivity].
  - assert (Stop : forall g, m_more g (c :: s) = ([], c :: s)).
    { intros g. apply andb_true_iff in St. destruct St as [_ St]. apply negb_true_iff in St.
      destruct g; simpl; [reflexivity | rewrite St; reflexivity]. }
    simpl in H. destruct a as [|x r]; [apply Stop|].
    destruct (eqc x 44) eqn:C; [|inversion H].
    destruct (span is_digit r) as [d r'] eqn:Sp.
    destruct d as [|d0 d]; [inversion H|].
    destruct (m_more f r') as [a0 b0] eqn:M. injection H as H1 H2. subst b0.
    destruct (span_spec _ _ _ _ Sp) as [E1 [E2 E3]].
    rewrite E1 in H1. apply (app_inv_head (d0 :: d)) in H1. subst a0.
    destruct f' as [|f']; [lia|]. simpl. rewrite C.
    assert (Sp' : span is_digit (r ++ c :: s) = (d0 :: d, r' ++ c :: s)).
    { rewrite E1, <- app_assoc. apply span_exact; [exact E2|].
      destruct r' as [|y r']; simpl.
      - apply andb_true_iff in St. destruct St as [St _]. apply negb_true_iff in St. exact St.
      - exact E3. }
    rewrite Sp'. rewrite (IH r' M f' c s ltac:(lia) St). rewrite E1. reflexivity.
Qed.

Lemma m_digits_list_spec : forall s a b, m_digits_list s = Some (a, b) ->
  s = a ++ b /\ forallb achar a = true /\ a <> [].
Proof.
  intros s a b H. unfold m_digits_list in H.
  destruct (span is_digit s) as [d r] eqn:Sp. destruct d as [|d0 d]; [discriminate|].
  destruct (m_more (length r) r) as [a0 b0] eqn:M. inversion H. subst.
  destruct (span_spec _ _ _ _ Sp) as [E1 [E2 _]]. destruct (m_more_spec _ _ _ _ M) as [E3 E4].
  subst. repeat split.
  - apply app_assoc.
  - change (forallb achar ((d0 :: d) ++ a0) = true).
    rewrite forallb_app, (digits_achar _ E2), E4. reflexivity.
  - discriminate.
Qed.

Lemma m_digits_list_ext : forall a c s, m_digits_list a = Some (a, []) -> astop c = true ->
  m_digits_list (a ++ c :: s) = Some (a, c :: s).
Proof.
  intros a c s H St. unfold m_digits_list in H.
  destruct (span is_digit a) as [d r] eqn:Sp. destruct d as [|d0 d]; [discriminate|].
  destruct (m_more (length r) r) as [a0 b0] eqn:M. injection H as H1 H2. subst b0.
  destruct (span_spec _ _ _ _ Sp) as [E1 [E2 E3]].
  rewrite E1 in H1. apply (app_inv_head (d0 :: d)) in H1. subst a0.
  unfold m_digits_list.
  assert (Sp' : span is_digit (a ++ c :: s) = (d0 :: d, r ++ c :: s)).
  { rewrite E1, <- app_assoc. apply span_exact; [exact E2|].
    destruct r as [|y r]; simpl.
    - apply andb_true_iff in St. destruct St as [St _]. apply negb_true_iff in St. exact St.
    - exact E3. }
  rewrite Sp'.
  rewrite (m_more_ext _ _ M (length (r ++ c :: s)) c s); [|rewrite app_length; lia | exact St].
  rewrite <- E1. reflexivity.
Qed.

Lemma m_digits_list_nondigit : forall c s, is_digit c = false -> m_digits_list (c :: s) = None.
Proof. intros c s H. unfold m_digits_list. simpl. rewrite H. reflexivity. Qed.

Lemma achar_alpha : forall c, is_ascii_alpha c = true -> achar c = true.
Proof. intros c H. unfold achar. rewrite H. rewrite orb_true_r. reflexivity. Qed.

Lemma m_align_spec : forall s a b, m_align s = Some (a, b) ->
  s = a ++ b /\ forallb achar a = true /\ exists a', a = 126%N :: a'.
Proof.
  intros s a b H. unfold m_align in H.
  destruct s as [|t r]; [discriminate|].
  destruct (eqc t 126) eqn:T; [|discriminate]. apply eqc_true in T. subst t.
  assert (Fin : forall r0 x y pre, m_digits_list r0 = Some (x, y) -> forallb achar pre = true ->
            (pre ++ r0 = (pre ++ x) ++ y /\ forallb achar (pre ++ x) = true)).
  { intros r0 x y pre D P. destruct (m_digits_list_spec _ _ _ D) as [E1 [E2 _]]. subst r0.
    split; [apply app_assoc | rewrite forallb_app, P, E2; reflexivity]. }
  match type of H with match ?wp with _ => _ end = _ => destruct wp as [[x y]|] eqn:WP end.
  - inversion H. subst x y. clear H.
    destruct r as [|c r1]; [discriminate|].
    destruct (is_ascii_alpha c) eqn:Al; [|discriminate].
    assert (Pc : forallb achar [126%N; c] = true).
    { simpl. rewrite (achar_alpha _ Al). reflexivity. }
    assert (Nodot : forall x y, match m_digits_list r1 with Some (a0, b0) => Some (126%N :: c :: a0, b0) | None => None end = Some (x, y) ->
              126%N :: c :: r1 = x ++ y /\ forallb achar x = true /\ exists a', x = 126%N :: a').
    { intros x y E. destruct (m_digits_list r1) as [[a0 b0]|] eqn:D; [|discriminate].
      inversion E. subst. destruct (Fin r1 a0 y [126%N; c] D Pc) as [F1 F2].
      split; [exact F1 | split; [exact F2 | eexists; reflexivity]]. }
    destruct r1 as [|d r2]; [apply Nodot; exact WP|].
    destruct (eqc d 46) eqn:Dd; [|apply Nodot; exact WP].
    destruct (m_digits_list r2) as [[a0 b0]|] eqn:D2; [|apply Nodot; exact WP].
    inversion WP. subst. apply eqc_true in Dd. subst d.
    assert (Pd : forallb achar [126%N; c; 46%N] = true).
    { simpl. rewrite (achar_alpha _ Al). reflexivity. }
    destruct (Fin r2 a0 b [126%N; c; 46%N] D2 Pd) as [F1 F2].
    split; [exact F1 | split; [exact F2 | eexists; reflexivity]].
  - destruct (m_digits_list r) as [[a0 b0]|] eqn:D; [|discriminate].
    inversion H. subst.
    destruct (Fin r a0 b [126%N] D eq_refl) as [F1 F2].
    split; [exact F1 | split; [exact F2 | eexists; reflexivity]].
Qed.

Lemma m_align_ext : forall a c s, m_align a = Some (a, []) -> astop c = true ->
  m_align (a ++ c :: s) = Some (a, c :: s).
Proof.
  intros a c s H St. unfold m_align in H.
  destruct a as [|t r]; [discriminate|].
  destruct (eqc t 126) eqn:T; [|discriminate].
  assert (Ndig : is_digit c = false).
  { apply andb_true_iff in St. destruct St as [St _]. apply negb_true_iff in St. exact St. }
  change ((t :: r) ++ c :: s) with (t :: (r ++ c :: s)). unfold m_align. rewrite T.
  destruct r as [|c1 r1].
  { simpl in H. discriminate. }
  change ((c1 :: r1) ++ c :: s) with (c1 :: (r1 ++ c :: s)). cbv iota beta.
  destruct (is_ascii_alpha c1) eqn:Al.
  - (* a letter follows the tilde *)
    assert (NoPre : m_digits_list (c1 :: r1) = None)
      by (apply m_digits_list_nondigit; apply alpha_not_digit; exact Al).
    assert (NoPre' : m_digits_list (c1 :: r1 ++ c :: s) = None)
      by (apply m_digits_list_nondigit; apply alpha_not_digit; exact Al).
    destruct r1 as [|d r2].
    { simpl in H. rewrite NoPre in H. discriminate. }
    change ((d :: r2) ++ c :: s) with (d :: (r2 ++ c :: s)) in *. cbv iota beta.
    destruct (eqc d 46) eqn:Dd.
    + assert (NoD : m_digits_list (d :: r2) = None).
      { apply m_digits_list_nondigit. apply eqc_true in Dd. subst d. reflexivity. }
      rewrite NoD in H.
      destruct (m_digits_list r2) as [[a0 b0]|] eqn:D2.
      * inversion H. subst a0 b0.
        rewrite (m_digits_list_ext r2 c s D2 St). reflexivity.
      * rewrite NoPre in H. discriminate.
    + destruct (m_digits_list (d :: r2)) as [[a0 b0]|] eqn:D1.
      * inversion H. subst a0 b0.
        change (d :: r2 ++ c :: s) with ((d :: r2) ++ c :: s).
        rewrite (m_digits_list_ext (d :: r2) c s D1 St). reflexivity.
      * rewrite NoPre in H. discriminate.
  - destruct (m_digits_list (c1 :: r1)) as [[a0 b0]|] eqn:D; [|discriminate].
    inversion H. subst a0 b0.
    change (c1 :: r1 ++ c :: s) with ((c1 :: r1) ++ c :: s).
    rewrite (m_digits_list_ext (c1 :: r1) c s D St). reflexivity.
Qed.

(* ------------------------------------------------------------------ *)
(** * Lexemes and the boundary lemma *)

Definition lexeme (k : tokty) (w : str) : Prop :=
  match k with
  | SYMBOL => wf_symbol w = true
  | ROLE => exists b, w = 58%N :: b /\ forallb is_name b = true
  | STRING => m_string w = Some (w, []) /\ no_lfcr w = true
  | ALIGNMENT => m_align w = Some (w, [])
  | LPAREN => w = [40%N]
  | RPAREN => w = [41%N]
  | SLASH => w = [47%N]
  | COMMENT | UNEXPECTED => False
  end.

(* characters that cannot extend a lexeme of class k *)
Definition stopb (k : tokty) (c : N) : bool :=
  match k with
  | SYMBOL | ROLE => negb (is_name c)
  | ALIGNMENT => astop c
  | _ => true
  end.
Definition sep_ok (k : tokty) (s : str) : Prop :=
  match s with [] => True | c :: _ => stopb k c = true end.

Lemma name_no_lfcr : forall s, forallb is_name s = true -> no_lfcr s = true.
Proof.
  induction s as [|c s IH]; intros H; [reflexivity|]. simpl in H.
  apply andb_true_iff in H. destruct H as [H1 H2].
  destruct (is_name_excl c H1) as [_ [_ [A [B _]]]].
  simpl. rewrite A, B, (IH H2). reflexivity.
Qed.

Lemma achar_all_no_lfcr : forall s, forallb achar s = true -> no_lfcr s = true.
Proof.
  induction s as [|c s IH]; intros H; [reflexivity|]. simpl in H.
  apply andb_true_iff in H. destruct H as [H1 H2].
  simpl. rewrite (achar_no_lfcr c H1), (IH H2). reflexivity.
Qed.

Lemma lexeme_no_lfcr : forall k w, lexeme k w -> no_lfcr w = true.
Proof.
  intros k w H. destruct k; simpl in H; try contradiction; try (subst; reflexivity).
  - destruct H as [_ H]. exact H.
  - destruct H as [b [E F]]. subst. simpl. rewrite (name_no_lfcr _ F). reflexivity.
  - unfold wf_symbol in H. destruct w as [|c w]; [discriminate|].
    apply andb_true_iff in H. destruct H as [_ H]. apply name_no_lfcr. exact H.
  - destruct (m_align_spec _ _ _ H) as [_ [A _]]. apply achar_all_no_lfcr. exact A.
Qed.

Lemma lexeme_nonempty : forall k w, lexeme k w -> exists c w', w = c :: w'.
Proof.
  intros k w H. destruct k; simpl in H; try contradiction; try (subst; eexists; eexists; reflexivity).
  - destruct H as [H _]. destruct (m_string_split _ _ _ H) as [_ [a' E]]. subst. eexists; eexists; reflexivity.
  - destruct H as [b [E _]]. subst. eexists; eexists; reflexivity.
  - destruct w; [discriminate|]. eexists; eexists; reflexivity.
  - destruct (m_align_spec _ _ _ H) as [_ [_ [a' E]]]. subst. eexists; eexists; reflexivity.
Qed.

Lemma first_match_lexeme : forall k w b, lexeme k w -> sep_ok k b ->
  first_match PENMAN_ALTS (w ++ b) = Some (k, w, b).
Proof.
  intros k w b L S. destruct k; simpl in L; try contradiction.
  - (* STRING *)
    destruct L as [L _]. destruct (m_string_split _ _ _ L) as [_ [a' E]].
    pose proof (m_string_app _ _ _ b L) as M. simpl in M.
    unfold first_match, PENMAN_ALTS, matcher_of.
    assert (C : m_comment (w ++ b) = None) by (subst w; reflexivity).
    rewrite C, M. reflexivity.
  - subst w. reflexivity.
  - subst w. reflexivity.
  - subst w. reflexivity.
  - (* ROLE *)
    destruct L as [r [E F]]. subst w.
    assert (Sp : span is_name (r ++ b) = (r, b)).
    { apply span_exact; [exact F|]. destruct b as [|c b]; [exact I|].
      simpl in S. apply negb_true_iff in S. exact S. }
    unfold first_match, PENMAN_ALTS, matcher_of.
    change ((58%N :: r) ++ b) with (58%N :: (r ++ b)).
    unfold m_comment, m_string, m_char, m_role.
    change (eqc 58 35) with false. change (eqc 58 34) with false.
    change (eqc 58 40) with false. change (eqc 58 41) with false. change (eqc 58 47) with false.
    change (eqc 58 58) with true. cbv iota beta. rewrite Sp. reflexivity.
  - (* SYMBOL *)
    unfold wf_symbol in L. destruct w as [|c w]; [discriminate|].
    apply andb_true_iff in L. destruct L as [L1 L2]. apply negb_true_iff in L1.
    assert (Sp : span is_name ((c :: w) ++ b) = (c :: w, b)).
    { apply span_exact; [exact L2|]. destruct b as [|d b]; [exact I|].
      simpl in S. apply negb_true_iff in S. exact S. }
    simpl in L2. apply andb_true_iff in L2. destruct L2 as [Nc _].
    destruct (is_name_excl c Nc) as [_ [_ [_ [_ [_ [_ [E34 [E40 [E41 [E47 [E58 _]]]]]]]]]]].
    unfold first_match, PENMAN_ALTS, matcher_of.
    unfold m_symbol. rewrite Sp.
    change ((c :: w) ++ b) with (c :: (w ++ b)).
    unfold m_comment, m_string, m_char, m_role.
    rewrite L1, E34, E40, E41, E47, E58. reflexivity.
  - (* ALIGNMENT *)
    destruct (m_align_spec _ _ _ L) as [_ [_ [a' E]]].
    assert (M : m_align (w ++ b) = Some (w, b)).
    { destruct b as [|c b]; [rewrite app_nil_r; exact L|].
      apply m_align_ext; [exact L | exact S]. }
    unfold first_match, PENMAN_ALTS, matcher_of. rewrite M.
    subst w. change ((126%N :: a') ++ b) with (126%N :: (a' ++ b)).
    unfold m_comment, m_string, m_char, m_role, m_symbol.
    change (eqc 126 35) with false. change (eqc 126 34) with false.
    change (eqc 126 40) with false. change (eqc 126 41) with false. change (eqc 126 47) with false.
    change (eqc 126 58) with false. cbv iota beta.
    change (span is_name (126%N :: a' ++ b)) with (@nil N, 126%N :: a' ++ b). reflexivity.
Qed.

Definition comment_ok (w : str) : Prop := exists a, w = 35%N :: a /\ no_lfcr a = true.

Lemma no_lfcr_nolf : forall a, no_lfcr a = true -> forallb (fun c => negb (eqc c 10)) a = true.
Proof.
  induction a as [|c a IH]; intros H; [reflexivity|]. simpl in H.
  apply andb_true_iff in H. destruct H as [H1 H2]. apply andb_true_iff in H1. destruct H1 as [H1 _].
  simpl. rewrite H1, (IH H2). reflexivity.
Qed.

Lemma first_match_comment : forall w, comment_ok w -> first_match PENMAN_ALTS w = Some (COMMENT, w, []).
Proof.
  intros w [a [E H]]. subst w. unfold first_match, PENMAN_ALTS, matcher_of, m_comment.
  change (eqc 35 35) with true. cbv iota beta.
  pose proof (span_exact (fun c => negb (eqc c 10)) a [] (no_lfcr_nolf _ H) I) as Sp.
  rewrite app_nil_r in Sp. rewrite Sp. reflexivity.
Qed.

Lemma first_match_blank : forall s, first_match PENMAN_ALTS (32%N :: s) = None.
Proof. intros s. reflexivity. Qed.

(* ------------------------------------------------------------------ *)
(** * Line splitting *)

Lemma split_lines_nonnil : forall s, split_lines s <> [].
Proof.
  intros [|c s]; simpl; [discriminate|].
  destruct (eqc c 10); [discriminate|]. destruct (eqc c 13).
  - destruct s as [|d s]; [discriminate|]. destruct (eqc d 10); discriminate.
  - destruct (split_lines s); discriminate.
Qed.

Lemma split_lines_plain : forall c s p ps, eqc c 10 = false -> eqc c 13 = false ->
  split_lines s = p :: ps -> split_lines (c :: s) = (c :: p) :: ps.
Proof. intros c s p ps A B E. simpl. rewrite A, B, E. reflexivity. Qed.

Lemma split_lines_app_plain : forall w s p ps, no_lfcr w = true ->
  split_lines s = p :: ps -> split_lines (w ++ s) = (w ++ p) :: ps.
Proof.
  induction w as [|c w IH]; intros s p ps H E; [exact E|].
  simpl in H. apply andb_true_iff in H. destruct H as [H1 H2].
  apply andb_true_iff in H1. destruct H1 as [A B].
  apply negb_true_iff in A. apply negb_true_iff in B.
  change ((c :: w) ++ s) with (c :: (w ++ s)).
  apply split_lines_plain; [exact A | exact B | apply IH; assumption].
Qed.

Lemma split_lines_lf : forall s, split_lines (10%N :: s) = [] :: split_lines s.
Proof. intros s. reflexivity. Qed.

Lemma split_lines_head : forall c s p ps, split_lines (c :: s) = p :: ps ->
  (eqc c 10 || eqc c 13 = true -> p = []) /\
  (eqc c 10 = false -> eqc c 13 = false -> exists p0, p = c :: p0).
Proof.
  intros c s p ps E. simpl in E. destruct (eqc c 10) eqn:A.
  - inversion E. split; [reflexivity | discriminate].
  - destruct (eqc c 13) eqn:B.
    + split; [|discriminate]. intros _.
      destruct s as [|d s]; [inversion E; reflexivity|].
      destruct (eqc d 10); inversion E; reflexivity.
    + split; [discriminate|]. intros _ _.
      destruct (split_lines s) as [|p0 ps0]; inversion E; eexists; reflexivity.
Qed.

(* ------------------------------------------------------------------ *)
(** * Texts that are lexemes separated by blanks lex to those lexemes *)

Inductive layout : str -> list tk -> Prop :=
| lay_nil : layout [] []
| lay_blank : forall c s ts, c = 32%N \/ c = 10%N -> layout s ts -> layout (c :: s) ts
| lay_tok : forall k w s ts, lexeme k w -> sep_ok k s -> layout s ts ->
    layout (w ++ s) ((k, w) :: ts).

(* the same with comment lines: a comment runs to the end of its line *)
Inductive tlayout : str -> list tk -> Prop :=
| tl_nil : tlayout [] []
| tl_blank : forall c s ts, c = 32%N \/ c = 10%N -> tlayout s ts -> tlayout (c :: s) ts
| tl_tok : forall k w s ts, lexeme k w -> sep_ok k s -> tlayout s ts ->
    tlayout (w ++ s) ((k, w) :: ts)
| tl_comment_end : forall w, comment_ok w -> tlayout w [(COMMENT, w)]
| tl_comment : forall w s ts, comment_ok w -> tlayout s ts ->
    tlayout (w ++ 10%N :: s) ((COMMENT, w) :: ts).

Lemma layout_tlayout : forall s ts, layout s ts -> tlayout s ts.
Proof. intros s ts H. induction H; [constructor | apply tl_blank; assumption | apply tl_tok; assumption]. Qed.

(* a blank, a closing parenthesis: stops every lexeme *)
Definition head_ok (s : str) : Prop :=
  match s with [] => True | c :: _ => c = 32%N \/ c = 10%N \/ c = 41%N end.

Lemma head_ok_sep : forall k s, head_ok s -> sep_ok k s.
Proof.
  intros k [|c s] H; [exact I|]. simpl in H. simpl.
  destruct H as [H|[H|H]]; subst c; destruct k; reflexivity.
Qed.

Lemma sep_ok_app : forall k s s2, sep_ok k s -> (s = [] -> sep_ok k s2) -> sep_ok k (s ++ s2).
Proof. intros k [|c s] s2 H1 H2; [apply H2; reflexivity | exact H1]. Qed.

Lemma layout_app_t : forall s1 ts1 s2 ts2, layout s1 ts1 -> tlayout s2 ts2 -> head_ok s2 ->
  tlayout (s1 ++ s2) (ts1 ++ ts2).
Proof.
  intros s1 ts1 s2 ts2 H1 H2 Hd. induction H1 as [|c s ts Hc H1 IH|k w s ts L S H1 IH].
  - exact H2.
  - simpl. apply tl_blank; assumption.
  - rewrite <- app_assoc. simpl. apply tl_tok; [exact L | | exact IH].
    apply sep_ok_app; [exact S | intros _; apply head_ok_sep; exact Hd].
Qed.

Lemma layout_app : forall s1 ts1 s2 ts2, layout s1 ts1 -> layout s2 ts2 -> head_ok s2 ->
  layout (s1 ++ s2) (ts1 ++ ts2).
Proof.
  intros s1 ts1 s2 ts2 H1 H2 Hd. induction H1 as [|c s ts Hc H1 IH|k w s ts L S H1 IH].
  - exact H2.
  - simpl. apply lay_blank; assumption.
  - rewrite <- app_assoc. simpl. apply lay_tok; [exact L | | exact IH].
    apply sep_ok_app; [exact S | intros _; apply head_ok_sep; exact Hd].
Qed.

Lemma lex_line_fuel_nil : forall f alts ln off, lex_line_fuel f alts ln [] off = [].
Proof. intros [|f] alts ln off; reflexivity. Qed.

Lemma lex_line_fuel_tok : forall f alts ln c s off t a b,
  first_match alts (c :: s) = Some (t, a, b) ->
  lex_line_fuel (S f) alts ln (c :: s) off =
  mkToken t a ln off :: lex_line_fuel f alts ln b (off + N.of_nat (length a)).
Proof. intros f alts ln c s off t a b H. simpl. rewrite H. reflexivity. Qed.

Lemma lex_line_fuel_skip : forall f alts ln c s off,
  first_match alts (c :: s) = None ->
  lex_line_fuel (S f) alts ln (c :: s) off = lex_line_fuel f alts ln s (off + 1).
Proof. intros f alts ln c s off H. simpl. rewrite H. reflexivity. Qed.

Lemma sep_ok_line : forall k s p ps, sep_ok k s -> split_lines s = p :: ps -> sep_ok k p.
Proof.
  intros k [|c s] p ps S E.
  - simpl in E. inversion E. exact I.
  - destruct (split_lines_head _ _ _ _ E) as [H1 H2].
    destruct (eqc c 10) eqn:A; [rewrite H1; [exact I | reflexivity]|].
    destruct (eqc c 13) eqn:B; [rewrite H1; [exact I | reflexivity]|].
    destruct (H2 eq_refl eq_refl) as [p0 E0]. subst p. exact S.
Qed.

Lemma lex_tlayout_gen : forall s ts, tlayout s ts ->
  forall p ps, split_lines s = p :: ps ->
  forall f ln off ln', length p < f ->
  map tok_tt (lex_line_fuel f PENMAN_ALTS ln p off) ++ map tok_tt (lex_lines_from PENMAN_ALTS ln' ps) = ts.
Proof.
  intros s ts H. induction H as [|c s ts Hc H IH|k w s ts L S H IH|w Cw|w s ts Cw H IH];
    intros p ps E f ln off ln' Lf.
  - simpl in E. inversion E. subst. rewrite lex_line_fuel_nil. reflexivity.
  - destruct (split_lines s) as [|p' ps'] eqn:E'; [destruct (split_lines_nonnil _ E')|].
    destruct Hc as [Hc|Hc]; subst c.
    + rewrite (split_lines_plain 32 s p' ps' eq_refl eq_refl E') in E. inversion E. subst p ps.
      destruct f as [|f]; [simpl in Lf; lia|].
      rewrite lex_line_fuel_skip by reflexivity.
      apply (IH p' ps' eq_refl). simpl in Lf. lia.
    + rewrite split_lines_lf, E' in E. inversion E. subst p ps.
      rewrite lex_line_fuel_nil. simpl. unfold lex_line. rewrite map_app.
      apply (IH p' ps' eq_refl). lia.
  - destruct (split_lines s) as [|p' ps'] eqn:E'; [destruct (split_lines_nonnil _ E')|].
    rewrite (split_lines_app_plain w s p' ps' (lexeme_no_lfcr _ _ L) E') in E.
    inversion E. subst p ps.
    destruct (lexeme_nonempty _ _ L) as [c [w' Ew]].
    pose proof (first_match_lexeme k w p' L (sep_ok_line _ _ _ _ S E')) as FM.
    destruct f as [|f]; [simpl in Lf; lia|].
    assert (Ew' : w ++ p' = c :: (w' ++ p')) by (rewrite Ew; reflexivity).
    rewrite Ew' in *. rewrite (lex_line_fuel_tok _ _ _ _ _ _ _ _ _ FM).
    simpl. f_equal. apply (IH p' ps' eq_refl).
    simpl in Lf. rewrite app_length in Lf. lia.
  - destruct Cw as [a [Ew Ha]].
    assert (Nw : no_lfcr w = true) by (subst w; simpl; exact Ha).
    pose proof (split_lines_app_plain w [] [] [] Nw eq_refl) as E1.
    rewrite app_nil_r in E1. rewrite E1 in E. inversion E. subst p ps.
    destruct f as [|f]; [simpl in Lf; lia|].
    pose proof (first_match_comment w (ex_intro _ a (conj Ew Ha))) as FM.
    rewrite Ew in *. rewrite (lex_line_fuel_tok _ _ _ _ _ _ _ _ _ FM).
    rewrite lex_line_fuel_nil. reflexivity.
  - destruct Cw as [a [Ew Ha]].
    assert (Nw : no_lfcr w = true) by (subst w; simpl; exact Ha).
    destruct (split_lines s) as [|p' ps'] eqn:E'; [destruct (split_lines_nonnil _ E')|].
    pose proof (split_lines_app_plain w (10%N :: s) [] (p' :: ps') Nw) as E1.
    rewrite split_lines_lf, E' in E1. specialize (E1 eq_refl).
    rewrite app_nil_r in E1. rewrite E1 in E. inversion E. subst p ps.
    destruct f as [|f]; [simpl in Lf; lia|].
    pose proof (first_match_comment w (ex_intro _ a (conj Ew Ha))) as FM.
    rewrite Ew in *. rewrite (lex_line_fuel_tok _ _ _ _ _ _ _ _ _ FM).
    rewrite lex_line_fuel_nil. simpl. f_equal. unfold lex_line. rewrite map_app.
    apply (IH p' ps' eq_refl). lia.
Qed.

Theorem lex_tlayout : forall s ts, tlayout s ts -> map tok_tt (lex_str PENMAN_ALTS s) = ts.
Proof.
  intros s ts H. unfold lex_str, lex_lines.
  destruct (split_lines s) as [|p ps] eqn:E; [destruct (split_lines_nonnil _ E)|].
  simpl. unfold lex_line. rewrite map_app.
  apply (lex_tlayout_gen s ts H p ps E). lia.
Qed.

(* ------------------------------------------------------------------ *)
(** * Class of every token produced from a string (converse direction) *)

(* Every token produced by lexing a string has a text in its class language. *)

Definition tok_class (k : tokty) (w : str) : Prop :=
  match k with
  | SYMBOL => wf_symbol w = true
  | ROLE => exists b, w = 58%N :: b /\ forallb is_name b = true
  | STRING => m_string w = Some (w, []) /\ no_lfcr w = true
  | ALIGNMENT => m_align w = Some (w, [])
  | COMMENT => exists a, w = 35%N :: a /\ no_lfcr a = true
  | _ => True
  end.

(* ------------------------------------------------------------------ *)
(* no_lfcr *)

Lemma no_lfcr_app_inv : forall a b, no_lfcr (a ++ b) = true -> no_lfcr a = true /\ no_lfcr b = true.
Proof. intros a b H. unfold no_lfcr in *. exact (proj1 (forallb_app_iff _ a b) H). Qed.

Lemma no_lfcr_cons : forall c s, no_lfcr (c :: s) = true ->
  eqc c 10 = false /\ eqc c 13 = false /\ no_lfcr s = true.
Proof.
  intros c s H.
  change (negb (eqc c 10) && negb (eqc c 13) && no_lfcr s = true) in H.
  apply andb_true_iff in H. destruct H as [H1 H2].
  apply andb_true_iff in H1. destruct H1 as [A B].
  apply negb_true_iff in A. apply negb_true_iff in B.
  repeat split; assumption.
Qed.

(* ------------------------------------------------------------------ *)
(* ALIGNMENT: the scanner accepts its own output entirely *)

Lemma m_more_nil : forall f, m_more f [] = ([], []).
Proof. intros [|f]; reflexivity. Qed.

Lemma m_more_S : forall f c r, m_more (S f) (c :: r) =
  if eqc c 44 then
    match span is_digit r with
    | ([], _) => ([], c :: r)
    | (d, r') => let '(a, b) := m_more f r' in (c :: d ++ a, b)
    end
  else ([], c :: r).
Proof. reflexivity. Qed.

Lemma m_more_head : forall f s a b, m_more f s = (a, b) -> head_fails is_digit a.
Proof.
  intros [|f] s a b H; simpl in H.
  - injection H as H1 H2. subst a. exact I.
  - destruct s as [|c r]; [injection H as H1 H2; subst a; exact I|].
    destruct (eqc c 44) eqn:C; [|injection H as H1 H2; subst a; exact I].
    destruct (span is_digit r) as [d r'] eqn:Sp.
    destruct d as [|d0 d]; [injection H as H1 H2; subst a; exact I|].
    destruct (m_more f r') as [a0 b0] eqn:M. injection H as H1 H2. subst a.
    apply eqc_true in C. subst c. reflexivity.
Qed.

Lemma m_more_self : forall f s a b, m_more f s = (a, b) -> m_more f a = (a, []).
Proof.
  induction f as [|f IH]; intros s a b H.
  - simpl in H. injection H as H1 H2. subst a. reflexivity.
  - simpl in H.
    destruct s as [|c r]; [injection H as H1 H2; subst a; reflexivity|].
    destruct (eqc c 44) eqn:C; [|injection H as H1 H2; subst a; reflexivity].
    destruct (span is_digit r) as [d r'] eqn:Sp.
    destruct d as [|d0 d]; [injection H as H1 H2; subst a; reflexivity|].
    destruct (m_more f r') as [a0 b0] eqn:M. injection H as H1 H2. subst a.
    destruct (span_spec _ _ _ _ Sp) as [E1 [E2 E3]].
    assert (Sp' : span is_digit (d0 :: d ++ a0) = (d0 :: d, a0)).
    { exact (span_exact is_digit (d0 :: d) a0 E2 (m_more_head _ _ _ _ M)). }
    rewrite m_more_S, C, Sp', (IH _ _ _ M). reflexivity.
Qed.

Lemma m_more_refuel : forall f a, m_more f a = (a, []) ->
  forall f', length a <= f' -> m_more f' a = (a, []).
Proof.
  induction f as [|f IH]; intros a H f' L.
  - simpl in H. injection H as H1 H2. subst a. apply m_more_nil.
  - simpl in H. destruct a as [|c r]; [apply m_more_nil|].
    destruct (eqc c 44) eqn:C; [|discriminate H].
    destruct (span is_digit r) as [d r'] eqn:Sp.
    destruct d as [|d0 d]; [discriminate H|].
    destruct (m_more f r') as [a0 b0] eqn:M. injection H as H1 H2. subst b0.
    destruct (span_spec _ _ _ _ Sp) as [E1 [E2 E3]].
    rewrite E1 in H1. apply (app_inv_head (d0 :: d)) in H1. subst a0.
    assert (Lr : length r' <= length r) by (rewrite E1, app_length; lia).
    destruct f' as [|f']; [simpl in L; lia|].
    rewrite m_more_S, C, Sp.
    rewrite (IH r' M f'); [|simpl in L; lia].
    rewrite E1. reflexivity.
Qed.

Lemma m_digits_list_self : forall s a b, m_digits_list s = Some (a, b) ->
  m_digits_list a = Some (a, []).
Proof.
  intros s a b H. unfold m_digits_list in H.
  destruct (span is_digit s) as [d r] eqn:Sp. destruct d as [|d0 d]; [discriminate|].
  destruct (m_more (length r) r) as [a0 b0] eqn:M. injection H as H1 H2. subst a.
  destruct (span_spec _ _ _ _ Sp) as [E1 [E2 E3]].
  assert (Sp' : span is_digit (d0 :: d ++ a0) = (d0 :: d, a0)).
  { exact (span_exact is_digit (d0 :: d) a0 E2 (m_more_head _ _ _ _ M)). }
  unfold m_digits_list. rewrite Sp'.
  rewrite (m_more_refuel _ _ (m_more_self _ _ _ _ M) (length a0) (le_n _)). reflexivity.
Qed.

Lemma m_digits_list_head : forall s a b, m_digits_list s = Some (a, b) ->
  exists x a', a = x :: a' /\ s = x :: a' ++ b.
Proof.
  intros s a b H. destruct (m_digits_list_spec _ _ _ H) as [E [_ NE]].
  destruct a as [|x a']; [contradiction NE; reflexivity|].
  exists x, a'. split; [reflexivity | exact E].
Qed.

Lemma m_align_self : forall s a b, m_align s = Some (a, b) -> m_align a = Some (a, []).
Proof.
  intros s a b H. unfold m_align in H.
  destruct s as [|t r]; [discriminate|].
  destruct (eqc t 126) eqn:T; [|discriminate].
  destruct r as [|c r1].
  { simpl in H. discriminate. }
  destruct (is_ascii_alpha c) eqn:Al.
  - assert (NoPre : m_digits_list (c :: r1) = None)
      by (apply m_digits_list_nondigit; apply alpha_not_digit; exact Al).
    rewrite NoPre in H.
    destruct r1 as [|d r2].
    { simpl in H. discriminate. }
    destruct (eqc d 46) eqn:Dd.
    + assert (NoD : m_digits_list (d :: r2) = None).
      { apply m_digits_list_nondigit. apply eqc_true in Dd. subst d. reflexivity. }
      rewrite NoD in H.
      destruct (m_digits_list r2) as [[a0 b0]|] eqn:D2; [|discriminate].
      injection H as H1 H2. subst a b0.
      pose proof (m_digits_list_self _ _ _ D2) as D2'.
      unfold m_align. rewrite T, Al, Dd, D2'. reflexivity.
    + destruct (m_digits_list (d :: r2)) as [[a0 b0]|] eqn:D1; [|discriminate].
      injection H as H1 H2. subst a b0.
      pose proof (m_digits_list_self _ _ _ D1) as D1'.
      destruct (m_digits_list_head _ _ _ D1) as [x [a' [Ea Es]]].
      injection Es as Ex Er. subst a0 x.
      unfold m_align. rewrite T, Al, Dd, D1'. reflexivity.
  - destruct (m_digits_list (c :: r1)) as [[a0 b0]|] eqn:D; [|discriminate].
    injection H as H1 H2. subst a b0.
    pose proof (m_digits_list_self _ _ _ D) as D'.
    destruct (m_digits_list_head _ _ _ D) as [x [a' [Ea Es]]].
    injection Es as Ex Er. subst a0 x.
    unfold m_align. rewrite T, Al, D'. reflexivity.
Qed.

(* ------------------------------------------------------------------ *)
(* COMMENT *)

Lemma m_comment_class : forall s a b, no_lfcr s = true -> m_comment s = Some (a, b) ->
  (exists a', a = 35%N :: a' /\ no_lfcr a' = true) /\ s = a ++ b /\ a <> [].
Proof.
  intros s a b N H. unfold m_comment in H. destruct s as [|c s']; [discriminate|].
  destruct (eqc c 35) eqn:C; [|discriminate]. apply eqc_true in C. subst c.
  destruct (span (fun c => negb (eqc c 10)) s') as [a1 b1] eqn:Sp.
  destruct (span_spec _ _ _ _ Sp) as [E1 [E2 E3]].
  destruct (no_lfcr_cons _ _ N) as [_ [_ N']].
  subst s'. destruct (no_lfcr_app_inv _ _ N') as [Na Nb].
  destruct b1 as [|y b1].
  - injection H as H1 H2. subst a b.
    split; [exists a1; split; [reflexivity | exact Na] | split; [reflexivity | discriminate]].
  - destruct b1 as [|z b1]; [|discriminate].
    injection H as H1 H2. subst a b.
    split; [exists a1; split; [reflexivity | exact Na] | split; [reflexivity | discriminate]].
Qed.

(* on a line without LF, a hash always starts a comment *)
Lemma m_comment_none : forall c s, no_lfcr (c :: s) = true -> m_comment (c :: s) = None ->
  eqc c 35 = false.
Proof.
  intros c s N H. destruct (eqc c 35) eqn:C; [|reflexivity]. exfalso.
  unfold m_comment in H. rewrite C in H.
  destruct (span (fun c => negb (eqc c 10)) s) as [a1 b1] eqn:Sp.
  destruct (span_spec _ _ _ _ Sp) as [E1 [E2 E3]].
  destruct b1 as [|y b1]; [discriminate|].
  simpl in E3.
  destruct (no_lfcr_cons _ _ N) as [_ [_ N']].
  subst s. destruct (no_lfcr_app_inv _ _ N') as [_ Nb].
  destruct (no_lfcr_cons _ _ Nb) as [Ny _].
  rewrite Ny in E3. discriminate.
Qed.

Lemma m_char_split : forall k s a b, m_char k s = Some (a, b) -> s = a ++ b /\ a <> [].
Proof.
  intros k s a b H. unfold m_char in H. destruct s as [|c r]; [discriminate|].
  destruct (eqc c k); [|discriminate]. injection H as H1 H2. subst a b.
  split; [reflexivity | discriminate].
Qed.

(* ------------------------------------------------------------------ *)
(* the alternation *)

Lemma first_match_class : forall s k a b, no_lfcr s = true ->
  first_match PENMAN_ALTS s = Some (k, a, b) ->
  tok_class k a /\ s = a ++ b /\ a <> [].
Proof.
  intros s k a b N H. unfold first_match, PENMAN_ALTS, matcher_of in H.
  destruct (m_comment s) as [[x y]|] eqn:MC.
  { injection H as H1 H2 H3. subst k x y. exact (m_comment_class _ _ _ N MC). }
  destruct (m_string s) as [[x y]|] eqn:MS.
  { injection H as H1 H2 H3. subst k x y.
    destruct (m_string_split _ _ _ MS) as [E [a' Ea]].
    split; [|split; [exact E | rewrite Ea; discriminate]].
    split; [exact (m_string_self _ _ _ MS)|].
    rewrite E in N. exact (proj1 (no_lfcr_app_inv _ _ N)). }
  destruct (m_char 40 s) as [[x y]|] eqn:M40.
  { injection H as H1 H2 H3. subst k x y. split; [exact I | exact (m_char_split _ _ _ _ M40)]. }
  destruct (m_char 41 s) as [[x y]|] eqn:M41.
  { injection H as H1 H2 H3. subst k x y. split; [exact I | exact (m_char_split _ _ _ _ M41)]. }
  destruct (m_char 47 s) as [[x y]|] eqn:M47.
  { injection H as H1 H2 H3. subst k x y. split; [exact I | exact (m_char_split _ _ _ _ M47)]. }
  destruct (m_role s) as [[x y]|] eqn:MR.
  { injection H as H1 H2 H3. subst k x y.
    unfold m_role in MR. destruct s as [|c r]; [discriminate|].
    destruct (eqc c 58) eqn:C; [|discriminate]. apply eqc_true in C. subst c.
    destruct (span is_name r) as [a1 b1] eqn:Sp.
    destruct (span_spec _ _ _ _ Sp) as [E1 [E2 _]].
    injection MR as R1 R2. subst a b r.
    split; [exists a1; split; [reflexivity | exact E2] | split; [reflexivity | discriminate]]. }
  destruct (m_symbol s) as [[x y]|] eqn:MY.
  { injection H as H1 H2 H3. subst k x y.
    unfold m_symbol in MY.
    destruct (span is_name s) as [a1 b1] eqn:Sp.
    destruct (span_spec _ _ _ _ Sp) as [E1 [E2 _]].
    destruct a1 as [|c a1]; [discriminate|].
    injection MY as R1 R2. subst a b s.
    split; [|split; [reflexivity | discriminate]].
    change (negb (eqc c 35) && forallb is_name (c :: a1) = true).
    rewrite E2. rewrite (m_comment_none c (a1 ++ b1) N MC). reflexivity. }
  destruct (m_align s) as [[x y]|] eqn:MA.
  { injection H as H1 H2 H3. subst k x y.
    destruct (m_align_spec _ _ _ MA) as [E [_ [a' Ea]]].
    split; [exact (m_align_self _ _ _ MA) | split; [exact E | rewrite Ea; discriminate]]. }
  destruct (m_unexp s) as [[x y]|] eqn:MU; [|discriminate].
  injection H as H1 H2 H3. subst k x y.
  unfold m_unexp in MU. destruct s as [|c r]; [discriminate|].
  destruct (is_ws c); [discriminate|]. injection MU as R1 R2. subst a b.
  split; [exact I | split; [reflexivity | discriminate]].
Qed.

(* ------------------------------------------------------------------ *)
(* one line *)

Lemma lex_line_fuel_class : forall f ln s off, no_lfcr s = true ->
  Forall (fun t => tok_class (tty t) (ttext t)) (lex_line_fuel f PENMAN_ALTS ln s off).
Proof.
  induction f as [|f IH]; intros ln s off N; [exact (Forall_nil _)|].
  destruct s as [|c s']; [rewrite lex_line_fuel_nil; exact (Forall_nil _)|].
  destruct (first_match PENMAN_ALTS (c :: s')) as [[[t a] b]|] eqn:FM.
  - rewrite (lex_line_fuel_tok _ _ _ _ _ _ _ _ _ FM).
    destruct (first_match_class _ _ _ _ N FM) as [TC [E _]].
    apply Forall_cons; [exact TC|]. apply IH.
    rewrite E in N. exact (proj2 (no_lfcr_app_inv _ _ N)).
  - rewrite (lex_line_fuel_skip _ _ _ _ _ _ FM). apply IH.
    exact (proj2 (proj2 (no_lfcr_cons _ _ N))).
Qed.

Lemma lex_line_class : forall ln s, no_lfcr s = true ->
  Forall (fun t => tok_class (tty t) (ttext t)) (lex_line PENMAN_ALTS ln s).
Proof. intros ln s N. unfold lex_line. apply lex_line_fuel_class. exact N. Qed.

(* ------------------------------------------------------------------ *)
(* all lines *)

Lemma lex_lines_from_class : forall lines ln, Forall (fun l => no_lfcr l = true) lines ->
  Forall (fun t => tok_class (tty t) (ttext t)) (lex_lines_from PENMAN_ALTS ln lines).
Proof.
  induction lines as [|l ls IH]; intros ln H; [exact (Forall_nil _)|].
  cbn [lex_lines_from]. apply Forall_app. split.
  - apply lex_line_class. exact (Forall_inv H).
  - apply IH. exact (Forall_inv_tail H).
Qed.

Lemma lex_lines_class : forall lines, Forall (fun l => no_lfcr l = true) lines ->
  Forall (fun t => tok_class (tty t) (ttext t)) (lex_lines PENMAN_ALTS lines).
Proof. intros lines H. unfold lex_lines. apply lex_lines_from_class. exact H. Qed.

(* ------------------------------------------------------------------ *)
(* the line splitter leaves neither LF nor CR *)

Lemma split_lines_no_lfcr_len : forall n s, length s <= n ->
  Forall (fun l => no_lfcr l = true) (split_lines s).
Proof.
  induction n as [|n IH]; intros s L.
  - destruct s as [|c s']; [|simpl in L; lia].
    apply Forall_cons; [reflexivity | exact (Forall_nil _)].
  - destruct s as [|c s'].
    { apply Forall_cons; [reflexivity | exact (Forall_nil _)]. }
    simpl in L. cbn [split_lines].
    destruct (eqc c 10) eqn:A.
    { apply Forall_cons; [reflexivity | apply IH; lia]. }
    destruct (eqc c 13) eqn:B.
    { destruct s' as [|d s''].
      - apply Forall_cons; [reflexivity|]. apply Forall_cons; [reflexivity | exact (Forall_nil _)].
      - simpl in L. destruct (eqc d 10).
        + apply Forall_cons; [reflexivity | apply IH; lia].
        + apply Forall_cons; [reflexivity | apply IH; simpl; lia]. }
    pose proof (IH s' ltac:(lia)) as Hs.
    destruct (split_lines s') as [|p ps].
    + apply Forall_cons; [|exact (Forall_nil _)].
      change (negb (eqc c 10) && negb (eqc c 13) && true = true). rewrite A, B. reflexivity.
    + apply Forall_cons; [|exact (Forall_inv_tail Hs)].
      change (negb (eqc c 10) && negb (eqc c 13) && no_lfcr p = true).
      rewrite A, B, (Forall_inv Hs). reflexivity.
Qed.

Lemma split_lines_no_lfcr : forall s, Forall (fun l => no_lfcr l = true) (split_lines s).
Proof. intros s. apply (split_lines_no_lfcr_len (length s)). apply le_n. Qed.

(* ------------------------------------------------------------------ *)
(* lex(str) *)

Theorem lex_str_class : forall s,
  Forall (fun t => tok_class (tty t) (ttext t)) (lex_str PENMAN_ALTS s).
Proof.
  intros s. unfold lex_str. apply lex_lines_class. apply split_lines_no_lfcr.
Qed.


