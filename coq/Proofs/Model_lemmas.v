(** Proofs of the C13 lemmas (role inversion / canonicalisation algebra). *)
From PM Require Import Spec.RoleAlgebra.
From Coq Require Import Lia.

(* ------------------------------------------------------------------ *)
(** * Basic string facts *)

Lemma eqc_eq : forall a b, eqc a b = true <-> a = b.
Proof. intros a b. unfold eqc. apply N.eqb_eq. Qed.

Lemma str_eqb_eq : forall a b, str_eqb a b = true <-> a = b.
Proof.
  induction a as [|x a IH]; intros [|y b]; simpl; split; intro E;
    try reflexivity; try discriminate.
  - apply andb_true_iff in E. destruct E as [E1 E2].
    apply N.eqb_eq in E1. apply IH in E2. subst. reflexivity.
  - inversion E; subst. rewrite N.eqb_refl. simpl. apply IH. reflexivity.
Qed.

Lemma str_eqb_refl : forall a, str_eqb a a = true.
Proof. intros a. apply str_eqb_eq. reflexivity. Qed.

Lemma str_eqb_neq : forall a b, a <> b -> str_eqb a b = false.
Proof.
  intros a b N. destruct (str_eqb a b) eqn:E; [|reflexivity].
  apply str_eqb_eq in E. contradiction.
Qed.

Lemma startswith_iff : forall p s, startswith s p = true <-> exists t, s = p ++ t.
Proof.
  induction p as [|c p IH]; intros s.
  - split; [intros _; exists s; reflexivity | intros _; destruct s; reflexivity].
  - destruct s as [|d s]; simpl.
    + split; [discriminate | intros [t E]; discriminate].
    + split.
      * intros E. apply andb_true_iff in E. destruct E as [E1 E2].
        apply eqc_eq in E1. apply IH in E2. destruct E2 as [t E2].
        exists t. subst. reflexivity.
      * intros [t E]. inversion E; subst. apply andb_true_iff.
        split; [apply eqc_eq; reflexivity | apply IH; exists t; reflexivity].
Qed.

Lemma endswith_iff : forall s p, endswith s p = true <-> exists t, s = t ++ p.
Proof.
  intros s p. unfold endswith. rewrite startswith_iff. split; intros [t E].
  - exists (rev t). rewrite <- (rev_involutive s). rewrite E.
    rewrite rev_app_distr, rev_involutive. reflexivity.
  - exists (rev t). rewrite E, rev_app_distr. reflexivity.
Qed.

Lemma endswith_app : forall r p, endswith (r ++ p) p = true.
Proof. intros r p. apply endswith_iff. exists r. reflexivity. Qed.

Lemma drop_last_app : forall r p, drop_last (length p) (r ++ p) = r.
Proof.
  intros r p. unfold drop_last. rewrite app_length.
  replace (length r + length p - length p) with (length r) by lia.
  rewrite firstn_app, Nat.sub_diag. simpl. rewrite firstn_all. apply app_nil_r.
Qed.

Lemma drop_last_OF : forall r, drop_last 3 (r ++ OF) = r.
Proof. intros r. exact (drop_last_app r OF). Qed.

Lemma endswith_OF_split : forall r, endswith r OF = true -> r = drop_last 3 r ++ OF.
Proof.
  intros r E. apply endswith_iff in E. destruct E as [t E]. subst r.
  rewrite drop_last_OF. reflexivity.
Qed.

Lemma length_app_OF : forall r, length (r ++ OF) = length r + 3.
Proof. intros r. rewrite app_length. reflexivity. Qed.

Lemma ofs_app : forall a b, ofs (a + b) = ofs a ++ ofs b.
Proof.
  induction a as [|a IH]; intros b; [reflexivity|].
  change (ofs (S a + b)) with (OF ++ ofs (a + b)).
  change (ofs (S a)) with (OF ++ ofs a).
  rewrite IH, app_assoc. reflexivity.
Qed.

Lemma colon_iff : forall r, startswith r [COLON] = true <-> exists t, r = COLON :: t.
Proof. intros r. rewrite startswith_iff. simpl. reflexivity. Qed.

(* tilde-freeness *)
Lemma has_tilde_app : forall a b,
  contains_char TILDE (a ++ b) = contains_char TILDE a || contains_char TILDE b.
Proof. intros a b. unfold contains_char, isin. apply existsb_app. Qed.

(* ------------------------------------------------------------------ *)
(** * One step of the loop *)

Definition step (m : model) (r : str) : str := invert_role m (invert_role m r).

Lemma inverted_iff : forall m r,
  is_role_inverted m r = true <-> has_exact m r = false /\ exists b, r = b ++ OF.
Proof.
  intros m r. unfold is_role_inverted. rewrite andb_true_iff, negb_true_iff, endswith_iff.
  reflexivity.
Qed.

Lemma defined_never_inverted : forall m r,
  has_exact m r = true -> is_role_inverted m r = false.
Proof. intros m r Hr. unfold is_role_inverted. rewrite Hr. reflexivity. Qed.

Lemma inverted_app_OF : forall m r,
  is_role_inverted m (r ++ OF) = negb (has_exact m (r ++ OF)).
Proof.
  intros m r. unfold is_role_inverted. rewrite endswith_app. apply andb_true_r.
Qed.

Lemma invert_inverted : forall m r,
  is_role_inverted m r = true -> invert_role m r = drop_last 3 r.
Proof. intros m r I. unfold invert_role. rewrite I. reflexivity. Qed.

Lemma invert_plain : forall m r,
  is_role_inverted m r = false -> invert_role m r = r ++ OF.
Proof. intros m r I. unfold invert_role. rewrite I. reflexivity. Qed.

Lemma step_spec : forall m r,
  (is_role_inverted m r = true /\
   exists b, r = b ++ OF /\
     ((is_role_inverted m b = false /\ step m r = r) \/
      (is_role_inverted m b = true /\ exists c, b = c ++ OF /\ step m r = c)))
  \/
  (is_role_inverted m r = false /\
     ((has_exact m (r ++ OF) = false /\ step m r = r) \/
      (has_exact m (r ++ OF) = true /\ step m r = (r ++ OF) ++ OF))).
Proof.
  intros m r. unfold step.
  destruct (is_role_inverted m r) eqn:I.
  - left. split; [reflexivity|].
    rewrite (invert_inverted _ _ I).
    apply inverted_iff in I. destruct I as [Hr [b Eb]].
    exists b. split; [exact Eb|]. subst r. rewrite drop_last_OF.
    destruct (is_role_inverted m b) eqn:Ib.
    + right. split; [reflexivity|].
      rewrite (invert_inverted _ _ Ib).
      apply inverted_iff in Ib. destruct Ib as [Hb [c Ec]].
      exists c. split; [exact Ec|]. subst b. apply drop_last_OF.
    + left. split; [reflexivity|]. apply invert_plain. exact Ib.
  - right. split; [reflexivity|].
    rewrite (invert_plain _ _ I).
    destruct (has_exact m (r ++ OF)) eqn:Hx.
    + right. split; [reflexivity|]. apply invert_plain.
      rewrite inverted_app_OF, Hx. reflexivity.
    + left. split; [reflexivity|]. rewrite invert_inverted.
      * apply drop_last_OF.
      * rewrite inverted_app_OF, Hx. reflexivity.
Qed.

Lemma neq_app_OF2 : forall c, (c ++ OF) ++ OF <> c.
Proof.
  intros c E. apply (f_equal (@length N)) in E.
  rewrite !length_app_OF in E. lia.
Qed.

(* ------------------------------------------------------------------ *)
(** * The loop *)

Lemma loop_unfold : forall f m r,
  canon_inv_loop (S f) m r =
  if str_eqb r (step m r) then Some r else canon_inv_loop f m (step m r).
Proof. reflexivity. Qed.

Lemma loop_fixed : forall f m r r',
  canon_inv_loop f m r = Some r' -> step m r' = r'.
Proof.
  induction f as [|f IH]; intros m r r' E; [discriminate|].
  rewrite loop_unfold in E. destruct (str_eqb r (step m r)) eqn:St.
  - inversion E; subst. apply str_eqb_eq in St. symmetry. exact St.
  - eapply IH. exact E.
Qed.

Lemma loop_of_fixed : forall f m r, step m r = r -> canon_inv_loop (S f) m r = Some r.
Proof. intros f m r E. rewrite loop_unfold, E, str_eqb_refl. reflexivity. Qed.

Lemma canon_fixed : forall m r r',
  canonicalize_inversion m r = Some r' -> has_exact m r' = true \/ step m r' = r'.
Proof.
  intros m r r' E. unfold canonicalize_inversion in E.
  destruct (has_exact m r) eqn:Hr.
  - inversion E; subst. left. exact Hr.
  - right. eapply loop_fixed. exact E.
Qed.

Lemma canon_of_fixed : forall m r,
  has_exact m r = true \/ step m r = r -> canonicalize_inversion m r = Some r.
Proof.
  intros m r D. unfold canonicalize_inversion.
  destruct (has_exact m r) eqn:Hr; [reflexivity|].
  destruct D as [D|D]; [discriminate|].
  unfold canon_inv_fuel. replace (length r + 3) with (S (length r + 2)) by lia.
  apply loop_of_fixed. exact D.
Qed.

Lemma canon_inv_idem : forall m r r',
  canonicalize_inversion m r = Some r' -> canonicalize_inversion m r' = Some r'.
Proof. intros m r r' E. apply canon_of_fixed. eapply canon_fixed. exact E. Qed.

(* ---- termination / pairs ---- *)

Definition Inv (m : model) (r : str) : Prop :=
  is_role_inverted m r = true \/ has_exact m (r ++ OF) = false.

Lemma loop_inv : forall f m r, Inv m r -> length r < f ->
  exists r' k, canon_inv_loop f m r = Some r' /\ r = r' ++ ofs (2 * k).
Proof.
  induction f as [|f IH]; intros m r HI Hlen; [lia|].
  destruct (step_spec m r) as [[I [b [Eb [[Ib St]|[Ib [c [Ec St]]]]]]]|[I [[Hx St]|[Hx St]]]].
  - exists r, 0. split; [apply loop_of_fixed; exact St|]. simpl. symmetry. apply app_nil_r.
  - rewrite loop_unfold, St.
    assert (Erc : r = (c ++ OF) ++ OF) by (subst; reflexivity).
    rewrite str_eqb_neq by (rewrite Erc; apply neq_app_OF2).
    assert (HIc : Inv m c).
    { right. rewrite <- Ec. apply inverted_iff in Ib. tauto. }
    assert (Hlc : length c < f).
    { rewrite Erc, !length_app_OF in Hlen. lia. }
    destruct (IH m c HIc Hlc) as [r' [k [L Ek]]].
    exists r', (S k). split; [exact L|].
    rewrite Erc, Ek. rewrite <- !app_assoc.
    replace (2 * S k) with (2 * k + 2) by lia. rewrite ofs_app. reflexivity.
  - exists r, 0. split; [apply loop_of_fixed; exact St|]. simpl. symmetry. apply app_nil_r.
  - destruct HI as [HI|HI]; congruence.
Qed.

Lemma loop_noninv : forall f m r, of_free m ->
  is_role_inverted m r = false -> has_exact m (r ++ OF) = true ->
  canon_inv_loop (S (S f)) m r = Some ((r ++ OF) ++ OF).
Proof.
  intros f m r OFF I Hx.
  destruct (step_spec m r) as [[I' _]|[_ [[Hx' _]|[_ St]]]]; try congruence.
  rewrite loop_unfold, St.
  rewrite str_eqb_neq by (intro E; symmetry in E; revert E; apply neq_app_OF2).
  apply loop_of_fixed.
  destruct (step_spec m ((r ++ OF) ++ OF))
    as [[I2 [b [Eb [[Ib St2]|[Ib _]]]]]|[I2 _]].
  - exact St2.
  - apply app_inv_tail in Eb. subst b.
    rewrite (defined_never_inverted _ _ Hx) in Ib. discriminate.
  - rewrite inverted_app_OF, (OFF _ Hx) in I2. discriminate.
Qed.

Lemma canon_pairs : forall m r r', of_free m ->
  canonicalize_inversion m r = Some r' ->
  (exists k, r = r' ++ ofs (2 * k)) \/
  (r' = r ++ OF ++ OF /\ has_exact m r = false /\ endswith r OF = false /\
   has_exact m (r ++ OF) = true).
Proof.
  intros m r r' OFF E. unfold canonicalize_inversion in E.
  destruct (has_exact m r) eqn:Hr.
  - inversion E; subst. left. exists 0. simpl. symmetry. apply app_nil_r.
  - destruct (is_role_inverted m r) eqn:I.
    + left. destruct (loop_inv (canon_inv_fuel r) m r) as [r2 [k [L Ek]]].
      * left. exact I.
      * unfold canon_inv_fuel. lia.
      * rewrite L in E. inversion E; subst r2. exists k. exact Ek.
    + destruct (has_exact m (r ++ OF)) eqn:Hx.
      * right. unfold canon_inv_fuel in E.
        replace (length r + 3) with (S (S (length r + 1))) in E by lia.
        rewrite (loop_noninv _ m r OFF I Hx) in E. inversion E.
        split; [symmetry; apply app_assoc|]. split; [reflexivity|]. split; [|reflexivity].
        unfold is_role_inverted in I. rewrite Hr in I. exact I.
      * left. destruct (loop_inv (canon_inv_fuel r) m r) as [r2 [k [L Ek]]].
        -- right. exact Hx.
        -- unfold canon_inv_fuel. lia.
        -- rewrite L in E. inversion E; subst r2. exists k. exact Ek.
Qed.

Lemma canon_inv_total : forall m r, of_free m ->
  exists r', canonicalize_inversion m r = Some r'.
Proof.
  intros m r OFF. unfold canonicalize_inversion.
  destruct (has_exact m r) eqn:Hr; [exists r; reflexivity|].
  destruct (is_role_inverted m r) eqn:I.
  - destruct (loop_inv (canon_inv_fuel r) m r) as [r2 [k [L _]]].
    + left. exact I.
    + unfold canon_inv_fuel. lia.
    + exists r2. exact L.
  - destruct (has_exact m (r ++ OF)) eqn:Hx.
    + exists ((r ++ OF) ++ OF). unfold canon_inv_fuel.
      replace (length r + 3) with (S (S (length r + 1))) by lia.
      apply loop_noninv; assumption.
    + destruct (loop_inv (canon_inv_fuel r) m r) as [r2 [k [L _]]].
      * right. exact Hx.
      * unfold canon_inv_fuel. lia.
      * exists r2. exact L.
Qed.

Lemma canon_terminates : forall m r, of_free m ->
  exists r', canonicalize_role m r = Some r'.
Proof.
  intros m r OFF. unfold canonicalize_role.
  destruct (canon_inv_total m (ensure_colon_unless_slash r) OFF) as [r1 E].
  rewrite E. eexists. reflexivity.
Qed.

Lemma canon_norm_last : forall m r x,
  canonicalize_role m r = Some x ->
  exists r1, canonicalize_inversion m (ensure_colon_unless_slash r) = Some r1 /\
             x = match dget str_eqb r1 (norms m) with Some v => v | None => r1 end.
Proof.
  intros m r x E. unfold canonicalize_role in E.
  destruct (canonicalize_inversion m (ensure_colon_unless_slash r)) as [r1|]; [|discriminate].
  exists r1. split; [reflexivity|]. inversion E. reflexivity.
Qed.

(* ---- invariants of the loop: leading colon, no tilde ---- *)

Section StepInvariant.
  Variable Q : str -> Prop.
  Hypothesis Q_strip : forall c, Q ((c ++ OF) ++ OF) -> Q c.
  Hypothesis Q_add : forall r, Q r -> Q ((r ++ OF) ++ OF).

  Lemma step_preserves : forall m r, Q r -> Q (step m r).
  Proof.
    intros m r HQ.
    destruct (step_spec m r) as [[I [b [Eb [[Ib St]|[Ib [c [Ec St]]]]]]]|[I [[Hx St]|[Hx St]]]];
      rewrite St; try exact HQ.
    - apply Q_strip. subst. exact HQ.
    - apply Q_add. exact HQ.
  Qed.

  Lemma loop_preserves : forall f m r r', Q r -> canon_inv_loop f m r = Some r' -> Q r'.
  Proof.
    induction f as [|f IH]; intros m r r' HQ E; [discriminate|].
    rewrite loop_unfold in E. destruct (str_eqb r (step m r)).
    - inversion E; subst. exact HQ.
    - eapply IH; [|exact E]. apply step_preserves. exact HQ.
  Qed.

  Lemma canon_inv_preserves : forall m r r', Q r -> canonicalize_inversion m r = Some r' -> Q r'.
  Proof.
    intros m r r' HQ E. unfold canonicalize_inversion in E.
    destruct (has_exact m r).
    - inversion E; subst. exact HQ.
    - eapply loop_preserves; eassumption.
  Qed.
End StepInvariant.

Lemma canon_inv_colon : forall m r r',
  startswith r [COLON] = true -> canonicalize_inversion m r = Some r' ->
  startswith r' [COLON] = true.
Proof.
  intros m r r'.
  apply (canon_inv_preserves (fun s => startswith s [COLON] = true)).
  - intros c HQ. apply colon_iff in HQ. destruct HQ as [t Et].
    destruct c as [|x c]; [discriminate|].
    simpl in Et. inversion Et. apply colon_iff. exists c. reflexivity.
  - intros s HQ. apply colon_iff in HQ. destruct HQ as [t Et]. subst s.
    apply colon_iff. eexists. reflexivity.
Qed.

Lemma ensure_colon_nonslash : forall r, r <> SLASHS ->
  startswith (ensure_colon_unless_slash r) [COLON] = true.
Proof.
  intros r N. unfold ensure_colon_unless_slash. rewrite (str_eqb_neq _ _ N). simpl negb.
  destruct (startswith r [COLON]) eqn:St; simpl.
  - exact St.
  - destruct r; reflexivity.
Qed.

Lemma canon_adds_colon : forall m r r',
  canonicalize_inversion m (ensure_colon_unless_slash r) = Some r' ->
  r <> SLASHS -> startswith r' [COLON] = true.
Proof.
  intros m r r' E N. eapply canon_inv_colon; [|exact E].
  apply ensure_colon_nonslash. exact N.
Qed.

Definition notilde (s : str) : Prop := contains_char TILDE s = false.

Lemma canon_inv_notilde : forall m r r',
  notilde r -> canonicalize_inversion m r = Some r' -> notilde r'.
Proof.
  intros m r r'. apply (canon_inv_preserves notilde); unfold notilde.
  - intros c HQ. rewrite !has_tilde_app in HQ.
    apply orb_false_iff in HQ. destruct HQ as [HQ _].
    apply orb_false_iff in HQ. destruct HQ as [HQ _]. exact HQ.
  - intros s HQ. rewrite !has_tilde_app, HQ. reflexivity.
Qed.

Lemma ensure_colon_notilde : forall r, notilde r -> notilde (ensure_colon_unless_slash r).
Proof.
  intros r HQ. unfold ensure_colon_unless_slash.
  destruct (negb (str_eqb r SLASHS) && negb (startswith r [COLON])); [|exact HQ].
  unfold notilde in *. simpl. exact HQ.
Qed.

(* ------------------------------------------------------------------ *)
(** * Normalisation closure *)

Lemma dget_in : forall (k : str) (d : dict str str) v,
  dget str_eqb k d = Some v -> exists k', In (k', v) d.
Proof.
  intros k d v. induction d as [|[k1 v1] d IH]; simpl; intros E; [discriminate|].
  destruct (str_eqb k k1).
  - inversion E; subst. exists k1. left. reflexivity.
  - destruct (IH E) as [k' HIn]. exists k'. right. exact HIn.
Qed.

Lemma norm_closed_val : forall m k v, norm_closed_b m = true ->
  dget str_eqb k (norms m) = Some v ->
  ensure_colon_unless_slash v = v /\ notilde v /\
  canonicalize_inversion m v = Some v /\
  (dget str_eqb v (norms m) = None \/ dget str_eqb v (norms m) = Some v).
Proof.
  intros m k v NC D. apply dget_in in D. destruct D as [k' HIn].
  unfold norm_closed_b in NC. rewrite forallb_forall in NC.
  specialize (NC _ HIn). simpl in NC.
  apply andb_true_iff in NC. destruct NC as [NC N4].
  apply andb_true_iff in NC. destruct NC as [NC N3].
  apply andb_true_iff in NC. destruct NC as [N1 N2].
  split; [apply str_eqb_eq; exact N1|].
  split; [apply negb_true_iff; exact N2|].
  split.
  - destruct (canonicalize_inversion m v) as [v'|]; [|discriminate].
    apply str_eqb_eq in N3. subst. reflexivity.
  - destruct (dget str_eqb v (norms m)) as [v'|]; [|left; reflexivity].
    apply str_eqb_eq in N4. subst. right. reflexivity.
Qed.

Lemma step_slash : forall m, has_exact m (SLASHS ++ OF) = false -> step m SLASHS = SLASHS.
Proof.
  intros m Hsl.
  destruct (step_spec m SLASHS) as [[I _]|[_ [[_ St]|[Hx _]]]].
  - unfold is_role_inverted in I. rewrite andb_true_iff in I. destruct I as [_ I].
    vm_compute in I. discriminate.
  - exact St.
  - congruence.
Qed.

Lemma ensure_colon_fixed : forall r,
  r = SLASHS \/ startswith r [COLON] = true -> ensure_colon_unless_slash r = r.
Proof.
  intros r [E|E]; unfold ensure_colon_unless_slash.
  - subst. reflexivity.
  - rewrite E. rewrite andb_false_r. reflexivity.
Qed.

(** [canon_idem] is FALSE as originally stated (see the final report): with a
    model that defines "/-of" but not "/" (and not "/-of-of") we get
    canonicalize_role "/" = "/-of-of" and canonicalize_role "/-of-of" = ":/".
    The extra hypothesis [has_exact m (SLASHS ++ OF) = false] repairs it. *)
Lemma canon_idem_gen : forall m r x, norm_closed_b m = true ->
  (r = SLASHS -> has_exact m SLASHS = false -> has_exact m (SLASHS ++ OF) = false) ->
  canonicalize_role m r = Some x -> canonicalize_role m x = Some x.
Proof.
  intros m r x NC Hsl E. unfold canonicalize_role in E.
  destruct (canonicalize_inversion m (ensure_colon_unless_slash r)) as [r1|] eqn:C;
    [|discriminate].
  inversion E as [Ex]. clear E.
  destruct (dget str_eqb r1 (norms m)) as [v|] eqn:D.
  - destruct (norm_closed_val m r1 v NC D) as [V1 [_ [V3 V4]]].
    unfold canonicalize_role. rewrite V1, V3.
    destruct V4 as [V4|V4]; rewrite V4; reflexivity.
  - assert (Ec : ensure_colon_unless_slash r1 = r1).
    { apply ensure_colon_fixed.
      destruct (str_eqb r SLASHS) eqn:Sr.
      - left. apply str_eqb_eq in Sr. subst r.
        change (ensure_colon_unless_slash SLASHS) with SLASHS in C.
        destruct (has_exact m SLASHS) eqn:Hs.
        + unfold canonicalize_inversion in C. rewrite Hs in C. inversion C. reflexivity.
        + rewrite (canon_of_fixed m SLASHS) in C; [inversion C; reflexivity|].
          right. apply step_slash. apply Hsl; reflexivity.
      - right. eapply canon_adds_colon; [exact C|].
        intro Er. subst r. rewrite str_eqb_refl in Sr. discriminate. }
    unfold canonicalize_role. rewrite Ec, (canon_inv_idem _ _ _ C), D. reflexivity.
Qed.

Lemma canon_idem : forall m r x, norm_closed_b m = true ->
  has_exact m (SLASHS ++ OF) = false ->
  canonicalize_role m r = Some x -> canonicalize_role m x = Some x.
Proof.
  intros m r x NC Hsl. apply canon_idem_gen; [exact NC|]. intros _ _. exact Hsl.
Qed.

Lemma canon_idem_nonslash : forall m r x, norm_closed_b m = true ->
  r <> SLASHS ->
  canonicalize_role m r = Some x -> canonicalize_role m x = Some x.
Proof.
  intros m r x NC N. apply canon_idem_gen; [exact NC|]. intros E. contradiction.
Qed.

(* the original statement is refuted by this model *)
Definition slash_of_table : mtable :=
  mkTable [lit (SLASHS ++ OF)] true [] [] TOPROLE TOPVAR.
Lemma canon_idem_original_statement_false :
  exists m r x, norm_closed_b m = true /\
    canonicalize_role m r = Some x /\ canonicalize_role m x <> Some x.
Proof.
  exists (model_of_table slash_of_table), SLASHS, ((SLASHS ++ OF) ++ OF).
  split; [vm_compute; reflexivity|]. split; vm_compute; [reflexivity|discriminate].
Qed.

Lemma canon_idem_refuted :
  exists m r x, canonicalize_role m r = Some x /\ canonicalize_role m x <> Some x.
Proof.
  exists (model_of_table
            (mkTable [] true [([58;97], [58;98]); ([58;98], [58;99])]%N [] TOPROLE TOPVAR)),
         [58;97]%N, [58;98]%N.
  split; vm_compute; [reflexivity|discriminate].
Qed.

(* ------------------------------------------------------------------ *)
(** * invert_role on canonical roles *)

Lemma invert_involutive : forall m r, of_free m -> canonical m r ->
  invert_role m (invert_role m r) = r.
Proof.
  intros m r OFF C. destruct (canon_fixed _ _ _ C) as [Hr|St]; [|exact St].
  unfold invert_role at 2. rewrite (defined_never_inverted _ _ Hr).
  unfold invert_role. rewrite inverted_app_OF, (OFF _ Hr). simpl. apply drop_last_OF.
Qed.

Lemma invert_flips : forall m r, of_free m -> canonical m r ->
  is_role_inverted m (invert_role m r) = negb (is_role_inverted m r).
Proof.
  intros m r OFF C. destruct (canon_fixed _ _ _ C) as [Hr|St].
  - unfold invert_role. rewrite (defined_never_inverted _ _ Hr).
    rewrite inverted_app_OF, (OFF _ Hr). reflexivity.
  - destruct (step_spec m r) as [[I [b [Eb [[Ib _]|[Ib [c [Ec St']]]]]]]|[I [[Hx _]|[Hx St']]]].
    + unfold invert_role. rewrite I. subst r. rewrite drop_last_OF, Ib. reflexivity.
    + exfalso. rewrite St in St'. subst. eapply neq_app_OF2. exact St'.
    + unfold invert_role. rewrite I, inverted_app_OF, Hx. reflexivity.
    + exfalso. rewrite St in St'. symmetry in St'. eapply neq_app_OF2. exact St'.
Qed.

Lemma invert_triple_swaps : forall m s r t,
  invert m (s, r, t) = (t, invert_role m r, s).
Proof. reflexivity. Qed.

Lemma deinvert_inverted : forall m t, deinverts m = true ->
  is_role_inverted m (trole t) = true -> deinvert m t = invert m t.
Proof. intros m t D I. unfold deinvert. rewrite D, I. reflexivity. Qed.

Lemma deinvert_plain : forall m t,
  is_role_inverted m (trole t) = false -> deinvert m t = t.
Proof. intros m t I. unfold deinvert. rewrite I. destruct (deinverts m); reflexivity. Qed.

Lemma noop_deinvert_id : forall m t, deinverts m = false -> deinvert m t = t.
Proof. intros m t D. unfold deinvert. rewrite D. reflexivity. Qed.

(* ------------------------------------------------------------------ *)
(** * partition on '~' *)

Lemma startswith_cons1 : forall c s d, startswith (c :: s) [d] = eqc d c.
Proof. intros c s d. simpl. destruct s; apply andb_true_r. Qed.

Lemma partition_at_cons : forall sep c s,
  partition_at sep (c :: s) =
  if startswith (c :: s) sep then ([], true, skipn (length sep) (c :: s))
  else let '(a, f, b) := partition_at sep s in
       if f then (c :: a, true, b) else (c :: a, false, []).
Proof. reflexivity. Qed.

Lemma notilde_cons : forall c s, notilde (c :: s) <-> eqc TILDE c = false /\ notilde s.
Proof.
  intros c s. unfold notilde, contains_char, isin. simpl. apply orb_false_iff.
Qed.

Lemma partition_spec : forall s r tl aln,
  partition [TILDE] s = (r, tl, aln) ->
  s = r ++ (if tl then [TILDE] else []) ++ aln /\ notilde r /\ (tl = false -> aln = []).
Proof.
  unfold partition. induction s as [|c s IH]; intros r tl aln E.
  - simpl in E. inversion E; subst. repeat split; reflexivity.
  - rewrite partition_at_cons, startswith_cons1 in E.
    destruct (eqc TILDE c) eqn:Ec.
    + inversion E; subst. apply eqc_eq in Ec. subst c.
      split; [reflexivity|]. split; [reflexivity|]. intros X; discriminate.
    + destruct (partition_at [TILDE] s) as [[a f] b] eqn:P.
      destruct (IH a f b eq_refl) as [I1 [I2 I3]].
      destruct f; inversion E; subst r tl aln.
      * split; [simpl; f_equal; exact I1|]. split; [|intros X; discriminate].
        apply notilde_cons. split; assumption.
      * rewrite (I3 eq_refl) in I1.
        split; [simpl; f_equal; exact I1|]. split; [|reflexivity].
        apply notilde_cons. split; assumption.
Qed.

Lemma partition_build : forall r (tl : bool) aln,
  notilde r -> (tl = false -> aln = []) ->
  partition [TILDE] (r ++ (if tl then [TILDE] else []) ++ aln) = (r, tl, aln).
Proof.
  unfold partition. induction r as [|c r IH]; intros tl aln NT A.
  - destruct tl.
    + simpl app. rewrite partition_at_cons, startswith_cons1. reflexivity.
    + rewrite (A eq_refl). reflexivity.
  - apply notilde_cons in NT. destruct NT as [Ec NT].
    rewrite <- app_comm_cons, partition_at_cons, startswith_cons1, Ec.
    rewrite (IH tl aln NT A). destruct tl; [reflexivity|].
    rewrite (A eq_refl). reflexivity.
Qed.

Lemma canon_role_notilde : forall m r x, norm_closed_b m = true ->
  notilde r -> canonicalize_role m r = Some x -> notilde x.
Proof.
  intros m r x NC NT E. unfold canonicalize_role in E.
  destruct (canonicalize_inversion m (ensure_colon_unless_slash r)) as [r1|] eqn:C;
    [|discriminate].
  inversion E as [Ex]. clear E.
  destruct (dget str_eqb r1 (norms m)) as [v|] eqn:D.
  - destruct (norm_closed_val m r1 v NC D) as [_ [V2 _]]. exact V2.
  - eapply canon_inv_notilde; [|exact C]. apply ensure_colon_notilde. exact NT.
Qed.

Lemma canon_role_text_suffix : forall m role role', norm_closed_b m = true ->
  canon_role_text m role = Some role' -> role_suffix role' = role_suffix role.
Proof.
  intros m role role' NC E. unfold canon_role_text in E. unfold role_suffix.
  destruct (partition [TILDE] role) as [[r tl] aln] eqn:P.
  destruct (canonicalize_role m r) as [cr|] eqn:C; [|discriminate].
  inversion E as [Er]. clear E.
  destruct (partition_spec _ _ _ _ P) as [_ [NT A]].
  rewrite (partition_build cr tl aln); [reflexivity| |exact A].
  eapply canon_role_notilde; eassumption.
Qed.

Lemma canon_role_text_idem : forall m role role', norm_closed_b m = true ->
  has_exact m (SLASHS ++ OF) = false ->
  canon_role_text m role = Some role' -> canon_role_text m role' = Some role'.
Proof.
  intros m role role' NC Hsl E. unfold canon_role_text in E.
  destruct (partition [TILDE] role) as [[r tl] aln] eqn:P.
  destruct (canonicalize_role m r) as [cr|] eqn:C; [|discriminate].
  inversion E as [Er]. clear E.
  destruct (partition_spec _ _ _ _ P) as [_ [NT A]].
  unfold canon_role_text. rewrite (partition_build cr tl aln).
  - rewrite (canon_idem m r cr NC Hsl C). reflexivity.
  - eapply canon_role_notilde; eassumption.
  - exact A.
Qed.

(* ------------------------------------------------------------------ *)
(** * Trees *)

Definition branch_ok (P : node -> Prop) (b : branch) : Prop :=
  match snd b with TAtom _ => True | TNode n => P n end.

Section NodeInd.
  Variable P : node -> Prop.
  Hypothesis HN : forall v bs, Forall (branch_ok P) bs -> P (Node v bs).
  Fixpoint node_ind' (n : node) : P n :=
    match n with
    | Node v bs =>
        HN v bs
          ((fix go (bs : list branch) : Forall (branch_ok P) bs :=
              match bs with
              | [] => Forall_nil _
              | b :: bs' =>
                  Forall_cons b
                    (match b as b0 return branch_ok P b0 with
                     | (r, t) =>
                         match t as t0 return branch_ok P (r, t0) with
                         | TAtom _ => I
                         | TNode n' => node_ind' n'
                         end
                     end)
                    (go bs')
              end) bs)
    end.
End NodeInd.

Definition canon_target (m : model) (t : target) : option target :=
  match t with
  | TAtom a => Some (TAtom a)
  | TNode n' => match canon_node m n' with Some x => Some (TNode x) | None => None end
  end.

Fixpoint canon_bs (m : model) (bs : list branch) : option (list branch) :=
  match bs with
  | [] => Some []
  | (role, tgt) :: bs' =>
      match canon_target m tgt, canon_role_text m role, canon_bs m bs' with
      | Some t, Some r, Some rest => Some ((r, t) :: rest)
      | _, _, _ => None
      end
  end.

Lemma canon_node_eq : forall m v bs,
  canon_node m (Node v bs) =
  match canon_bs m bs with Some bs' => Some (Node v bs') | None => None end.
Proof.
  intros m v bs. simpl.
  match goal with
  | |- match ?g bs with _ => _ end = _ => assert (E : forall l, g l = canon_bs m l)
  end.
  { induction l as [|[role tgt] l IH]; [reflexivity|].
    simpl. rewrite IH. unfold canon_target. reflexivity. }
  rewrite E. reflexivity.
Qed.

Definition sh_branch (b : branch) : bool * str * shape :=
  let '(tilde, aln) := role_suffix (fst b) in
  (tilde, aln,
   match snd b with TAtom a => ShAtom a | TNode n' => shape_of_node n' end).

Lemma shape_node_eq : forall v bs, shape_of_node (Node v bs) = ShNode v (map sh_branch bs).
Proof. reflexivity. Qed.

Lemma canon_tree_shape : forall m n n', norm_closed_b m = true ->
  canon_node m n = Some n' -> shape_of_node n' = shape_of_node n.
Proof.
  intros m n n' NC. revert n'. induction n as [v bs IHbs] using node_ind'.
  intros n' E. rewrite canon_node_eq in E.
  destruct (canon_bs m bs) as [bs'|] eqn:B; [|discriminate].
  inversion E; subst n'. clear E. rewrite !shape_node_eq. f_equal.
  revert bs' B. induction IHbs as [|[role tgt] bs Hb Hbs IH]; intros bs' B.
  - simpl in B. inversion B. reflexivity.
  - simpl in B.
    destruct (canon_target m tgt) as [t|] eqn:T; [|discriminate].
    destruct (canon_role_text m role) as [r|] eqn:R; [|discriminate].
    destruct (canon_bs m bs) as [rest|] eqn:B'; [|discriminate].
    inversion B; subst bs'. clear B. simpl. f_equal; [|apply IH; reflexivity].
    unfold sh_branch. simpl fst. simpl snd.
    rewrite (canon_role_text_suffix _ _ _ NC R).
    destruct (role_suffix role) as [tl aln]. f_equal.
    destruct tgt as [a|n0]; simpl in T.
    + inversion T. reflexivity.
    + destruct (canon_node m n0) as [x|] eqn:Cn; [|discriminate].
      inversion T. unfold branch_ok in Hb. simpl in Hb. apply Hb. exact Cn.
Qed.

Lemma canon_tree_idem : forall m n n', norm_closed_b m = true ->
  has_exact m (SLASHS ++ OF) = false ->
  canon_node m n = Some n' -> canon_node m n' = Some n'.
Proof.
  intros m n n' NC Hsl. revert n'. induction n as [v bs IHbs] using node_ind'.
  intros n' E. rewrite canon_node_eq in E.
  destruct (canon_bs m bs) as [bs'|] eqn:B; [|discriminate].
  inversion E; subst n'. clear E. rewrite canon_node_eq.
  assert (B2 : canon_bs m bs' = Some bs'); [|rewrite B2; reflexivity].
  revert bs' B. induction IHbs as [|[role tgt] bs Hb Hbs IH]; intros bs' B.
  - simpl in B. inversion B. reflexivity.
  - simpl in B.
    destruct (canon_target m tgt) as [t|] eqn:T; [|discriminate].
    destruct (canon_role_text m role) as [r|] eqn:R; [|discriminate].
    destruct (canon_bs m bs) as [rest|] eqn:B'; [|discriminate].
    inversion B; subst bs'. clear B. simpl.
    rewrite (canon_role_text_idem _ _ _ NC Hsl R), (IH rest eq_refl).
    assert (T2 : canon_target m t = Some t); [|rewrite T2; reflexivity].
    destruct tgt as [a|n0]; simpl in T.
    + inversion T. reflexivity.
    + destruct (canon_node m n0) as [x|] eqn:Cn; [|discriminate].
      inversion T. simpl. unfold branch_ok in Hb. simpl in Hb.
      rewrite (Hb x Cn). reflexivity.
Qed.

(* the original statement of [canon_tree_idem] (without the "/-of" hypothesis)
   is refuted by the same model on the one-branch tree (x / c) *)
Lemma canon_tree_idem_original_statement_false :
  exists m n n', norm_closed_b m = true /\
    canon_node m n = Some n' /\ canon_node m n' <> Some n'.
Proof.
  exists (model_of_table slash_of_table),
         (Node (AStr [120]%N) [(SLASHS, TAtom (AStr [99]%N))]),
         (Node (AStr [120]%N) [((SLASHS ++ OF) ++ OF, TAtom (AStr [99]%N))]).
  split; [vm_compute; reflexivity|]. split; vm_compute; [reflexivity|discriminate].
Qed.
