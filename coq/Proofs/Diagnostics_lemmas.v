(** Proofs for C14: node_contexts / get_pushed_variable / appears_inverted of a
    freshly interpreted graph agree with the reading (marker-stack simulation). *)
From PM Require Import Impl.Interpret Impl.Diagnostics Spec.Reading
  Proofs.Model_lemmas Proofs.Interpret_lemmas.
From Coq Require Import Lia.

Local Arguments eqc : simpl never.

(* ------------------------------------------------------------------ *)
(** * One step of the context loop on a triple whose markers are the reading's *)

Definition some_ctx (it : item) : option atom := Some (i_ctx it).

Definition good (g : graph) (vs : list atom) (it : item) : Prop :=
  epis_of g (i_triple it) = item_markers it /\
  eligible vs (i_triple it) (i_ctx it) = true /\
  match i_opened it with Some v' => falsy v' = false | None => True end.

Lemma pushed_of_markers : forall g it, epis_of g (i_triple it) = item_markers it ->
  get_pushed_variable g (i_triple it) = i_opened it.
Proof.
  intros g it E. unfold get_pushed_variable. rewrite E, push_of_markers.
  destruct (i_opened it); reflexivity.
Qed.

Lemma loop_step : forall g vs it rest v s stack2,
  good g vs it -> i_ctx it = v ->
  pop_n (i_closes it) (match i_opened it with Some v' => v' :: v :: s | None => v :: s end)
    = Some stack2 ->
  node_contexts_loop g vs (i_triple it :: rest) (v :: s) =
  Some v :: node_contexts_loop g vs rest stack2.
Proof.
  intros g vs it rest v s stack2 (E & El & Op) C P. subst v.
  cbn [node_contexts_loop]. fold (eligible vs (i_triple it) (i_ctx it)). rewrite El. cbn [negb].
  unfold pushed_value. rewrite (pushed_of_markers _ _ E).
  rewrite E, pops_of_markers, repeat_length.
  destruct (i_opened it) as [v'|].
  - rewrite Op, P. reflexivity.
  - cbn [falsy]. rewrite P. reflexivity.
Qed.

(* ------------------------------------------------------------------ *)
(** * Simulation over the tree *)

Section Sim.
Variable m : model.
Variable vars : list atom.
Variable g : graph.
Variable vs : list atom.

Definition sim_ok (n : node) : Prop :=
  forall k s s' rest,
    pop_n k (node_var n :: s) = Some s' ->
    (forall it, In it (node_items m vars n k) -> good g vs it) ->
    node_contexts_loop g vs (map i_triple (node_items m vars n k) ++ rest) (node_var n :: s) =
    map some_ctx (node_items m vars n k) ++ node_contexts_loop g vs rest s'.

Lemma sim_branches : forall v bs, Forall (branch_ok sim_ok) bs ->
  forall k s s' rest,
    pop_n k (v :: s) = Some s' ->
    (forall it, In it (branch_items m vars v bs k) -> good g vs it) ->
    node_contexts_loop g vs (map i_triple (branch_items m vars v bs k) ++ rest) (v :: s) =
    map some_ctx (branch_items m vars v bs k) ++
    node_contexts_loop g vs rest (match bs with [] => v :: s | _ :: _ => s' end).
Proof.
  intros v bs F. induction F as [|[role tgt] bs Hb Hbs IH]; intros k s s' rest P G; [reflexivity|].
  cbn [branch_items] in *.
  set (k' := match bs with [] => k | _ :: _ => 0 end) in *.
  assert (P' : pop_n k' (v :: s) = Some (match bs with [] => s' | _ :: _ => v :: s end)).
  { unfold k'. destruct bs; [exact P|reflexivity]. }
  assert (Tail : forall stk, stk = match bs with [] => s' | _ :: _ => v :: s end ->
            node_contexts_loop g vs (map i_triple (branch_items m vars v bs k) ++ rest) stk =
            map some_ctx (branch_items m vars v bs k) ++ node_contexts_loop g vs rest s').
  { intros stk Es. subst stk. destruct bs as [|b2 bs]; [reflexivity|].
    rewrite (IH k s s' rest P); [reflexivity|].
    intros it Hit. apply G. apply in_or_app. right. exact Hit. }
  rewrite map_app, <- app_assoc, (map_app some_ctx), <- app_assoc.
  destruct tgt as [a|n'].
  - cbn [map app].
    rewrite (loop_step g vs (atom_item m vars v role a k') _ v s
               (match bs with [] => s' | _ :: _ => v :: s end)).
    + cbn [some_ctx atom_item i_ctx]. f_equal. apply Tail. reflexivity.
    + apply G. apply in_or_app. left. left. reflexivity.
    + reflexivity.
    + cbn [atom_item i_opened i_closes]. exact P'.
  - cbn [map app].
    rewrite (loop_step g vs (open_item m v role (node_var n')) _ v s (node_var n' :: v :: s)).
    + cbn [some_ctx open_item i_ctx]. f_equal.
      unfold branch_ok in Hb. cbn [snd] in Hb.
      rewrite (Hb (S k') (v :: s) _ _ P').
      * f_equal. apply Tail. reflexivity.
      * intros it Hit. apply G. apply in_or_app. left. right. exact Hit.
    + apply G. apply in_or_app. left. left. reflexivity.
    + reflexivity.
    + reflexivity.
Qed.

Lemma sim_node : forall n, sim_ok n.
Proof.
  induction n as [v bs IHbs] using node_ind'. unfold sim_ok. intros k s s' rest P G.
  cbn [node_var] in *. rewrite node_items_eq in *.
  destruct (writes_concept bs) eqn:W.
  - rewrite (sim_branches v bs IHbs k s s' rest P G).
    destruct bs; [discriminate|reflexivity].
  - cbn [map app].
    set (k0 := match bs with [] => k | _ :: _ => 0 end) in *.
    assert (P0 : pop_n k0 (v :: s) = Some (match bs with [] => s' | _ :: _ => v :: s end)).
    { unfold k0. destruct bs; [exact P|reflexivity]. }
    rewrite (loop_step g vs (synth_item v k0) _ v s _ (G _ (or_introl eq_refl)) eq_refl P0).
    cbn [some_ctx synth_item i_ctx]. f_equal.
    destruct bs as [|b bs]; [reflexivity|].
    rewrite (sim_branches v (b :: bs) IHbs k s s' rest P); [reflexivity|].
    intros it Hit. apply G. right. exact Hit.
Qed.

End Sim.

(* ------------------------------------------------------------------ *)
(** * Facts about items needed to discharge [good] *)

Lemma item_ctx_side : forall m vars n k it, In it (node_items m vars n k) ->
  (i_winv it = false /\ tsrc (i_triple it) = i_ctx it) \/
  (i_winv it = true /\ ttgt (i_triple it) = i_ctx it).
Proof.
  intros m vars n k it H.
  destruct (item_shape _ _ _ _ _ H) as (v & k' & [E|[(role & a & E)|(role & v' & E)]]); subst it.
  - left. split; reflexivity.
  - unfold atom_item. cbn [i_winv i_triple i_ctx].
    destruct (orient_cases m v (fst (read_role role)) (fst (read_atom a))
                (mem atom_eqb (fst (read_atom a)) vars)) as [E|(E & _)]; rewrite E; auto.
  - unfold open_item. cbn [i_winv i_triple i_ctx].
    destruct (orient_cases m v (fst (read_role role)) v' true) as [E|(E & _)]; rewrite E; auto.
Qed.

Lemma item_ctx_is_node_var : forall m vars n k it, In it (node_items m vars n k) ->
  In (i_ctx it) (all_node_vars n).
Proof.
  intros m vars n. induction n as [v bs IHbs] using node_ind'. intros k it H.
  cbn [all_node_vars].
  assert (B : forall k, In it (branch_items m vars v bs k) ->
              i_ctx it = v \/ In (i_ctx it) (flat_map (fun b : branch =>
                 match snd b with TAtom _ => [] | TNode n' => all_node_vars n' end) bs)).
  { clear H k. induction IHbs as [|[role tgt] bs Hb Hbs IH]; intros k H; [contradiction|].
    cbn [branch_items] in H. cbn [flat_map snd]. apply in_app_or in H. destruct H as [H|H].
    - destruct tgt as [a|n'].
      + destruct H as [H|[]]. subst it. left. reflexivity.
      + destruct H as [H|H]; [subst it; left; reflexivity|].
        right. apply in_or_app. left. eapply Hb. exact H.
    - destruct (IH _ H) as [E|E]; [left; exact E|right; apply in_or_app; right; exact E]. }
  rewrite node_items_eq in H. destruct (writes_concept bs).
  - destruct (B _ H) as [E|E]; [left; symmetry; exact E|right; exact E].
  - destruct H as [H|H]; [subst it; left; reflexivity|].
    destruct (B _ H) as [E|E]; [left; symmetry; exact E|right; exact E].
Qed.

Lemma head_ctx : forall m vars n k, exists it rest,
  node_items m vars n k = it :: rest /\ i_ctx it = node_var n.
Proof.
  intros m vars [v bs] k. rewrite node_items_eq. destruct (writes_concept bs) eqn:W.
  - destruct bs as [|[role [a|n']] bs]; [discriminate| |]; cbn [branch_items app]; eauto.
  - eauto.
Qed.

Lemma with_colon_id : forall t, startswith (trole t) [COLON] = true -> with_colon t = t.
Proof. intros [[s r] x] H. unfold with_colon. cbn [trole tsrc ttgt fst snd] in *. rewrite H. reflexivity. Qed.

(* ------------------------------------------------------------------ *)
(** * What well-formedness gives *)

Definition tree_items (m : model) (t : tree) : list item :=
  node_items m (defined_vars (troot t)) (troot t) 0.

Record wf_facts (m : model) (t : tree) (g : graph) : Prop := mkFacts {
  wf_graph_eq : g = reading_graph (reading_of m (troot t)) (tmeta t);
  wf_items_ok : forall it, In it (tree_items m t) -> item_wf it = true;
  wf_nodup : nodupE (tree_items m t);
  wf_triples : triples g = map i_triple (tree_items m t);
  wf_epis : forall it, In it (tree_items m t) -> epis_of g (i_triple it) = item_markers it;
  wf_ctx_var : forall it, In it (tree_items m t) -> mem atom_eqb (i_ctx it) (variables g) = true
}.

Lemma wf_gives_facts : forall m t g,
  wf_layout_tree m t = true -> interpret m t = Ok g -> wf_facts m t g.
Proof.
  intros m t g W H. destruct (interpret_ok_inv _ _ _ H) as [_ E].
  unfold wf_layout_tree in W. destruct (surface_check (troot t)); try discriminate.
  apply andb_true_iff in W. destruct W as [W1 W2].
  rewrite forallb_forall in W1.
  set (its := node_items m (defined_vars (troot t)) (troot t) 0) in *.
  assert (F : firsts its = its) by (apply firsts_distinct; exact W2).
  assert (T : triples g = map i_triple its).
  { subst g. unfold reading_graph, reading_of. cbn [triples r_triples]. fold its.
    apply map_ext_in. intros it Hit. apply with_colon_id.
    specialize (W1 _ Hit). unfold item_wf in W1. rewrite !andb_true_iff in W1. tauto. }
  constructor; try assumption.
  - apply distinct_nodupE. exact W2.
  - intros it Hit. subst g. apply epis_of_reading. unfold reading_of. cbn [r_items]. fold its.
    rewrite F. exact Hit.
  - intros it Hit. subst g. rewrite variables_reading. apply In_mem.
    eapply item_ctx_is_node_var. exact Hit.
Qed.

Lemma wf_item_good : forall m t g it, wf_facts m t g ->
  In it (node_items m (defined_vars (troot t)) (troot t) 0) -> good g (variables g) it.
Proof.
  intros m t g it Fs Hit. pose proof (wf_epis _ _ _ Fs) as Ep. pose proof (wf_ctx_var _ _ _ Fs) as Cv.
  unfold good. split; [apply Ep; exact Hit|].
  pose proof (wf_items_ok _ _ _ Fs _ Hit) as W. unfold item_wf in W. rewrite !andb_true_iff in W.
  destruct W as (((W1 & W2) & W3) & W4). split.
  - unfold eligible.
    destruct (item_ctx_side _ _ _ _ _ Hit) as [[I S]|[I S]].
    + rewrite S. unfold mem. cbn [existsb]. rewrite atom_eqb_refl. reflexivity.
    + rewrite I in W4. cbn [andb] in W4. rewrite W4. rewrite S, (Cv _ Hit). cbn [andb].
      unfold mem. cbn [existsb]. rewrite atom_eqb_refl, orb_true_r. reflexivity.
  - destruct (i_opened it); [|exact I]. apply negb_true_iff in W2. exact W2.
Qed.

(* ------------------------------------------------------------------ *)
(** * C14 main theorems *)

Theorem node_contexts_wf : forall m t g,
  wf_layout_tree m t = true -> interpret m t = Ok g ->
  exists r, reading m t = Ok r /\ node_contexts g = map some_ctx (r_items r).
Proof.
  intros m t g W H. pose proof (wf_gives_facts _ _ _ W H) as Fs.
  destruct (interpret_ok_inv _ _ _ H) as [R E].
  exists (reading_of m (troot t)). split; [exact R|].
  unfold reading_of at 1. cbn [r_items].
  set (its := node_items m (defined_vars (troot t)) (troot t) 0).
  unfold node_contexts. rewrite (wf_triples _ _ _ Fs). unfold tree_items. fold its.
  destruct (head_ctx m (defined_vars (troot t)) (troot t) 0) as (it0 & rest0 & E0 & C0).
  assert (Hv : falsy (node_var (troot t)) = false).
  { pose proof (wf_items_ok _ _ _ Fs it0) as W0. unfold tree_items in W0. rewrite E0 in W0.
    specialize (W0 (or_introl eq_refl)). unfold item_wf in W0. rewrite !andb_true_iff in W0.
    destruct W0 as (((W1 & _) & _) & _). rewrite C0 in W1. apply negb_true_iff in W1. exact W1. }
  assert (Top : graph_top g = Some (node_var (troot t))).
  { rewrite E. unfold graph_top, reading_graph, reading_of. cbn [gtop r_top].
    destruct (node_var (troot t)); [discriminate|reflexivity|reflexivity]. }
  rewrite Top.
  pose proof (sim_node m (defined_vars (troot t)) g (variables g) (troot t) 0 [] _ [] eq_refl) as S.
  rewrite !app_nil_r in S. fold its in S. rewrite S; [reflexivity|].
  intros it Hit. eapply wf_item_good; eauto.
Qed.

Theorem pushed_wf : forall m t g r it,
  wf_layout_tree m t = true -> interpret m t = Ok g -> reading m t = Ok r ->
  In it (r_items r) -> get_pushed_variable g (i_triple it) = i_opened it.
Proof.
  intros m t g r it W H R Hit. apply reading_ok_inv in R. subst r.
  pose proof (wf_gives_facts _ _ _ W H) as Fs.
  apply pushed_of_markers. apply (wf_epis _ _ _ Fs). exact Hit.
Qed.

Lemma scan_found : forall l it, nodupE l -> In it l ->
  (forall x, In x l -> i_ctx x <> ANone) ->
  appears_inverted_scan (i_triple it) (map some_ctx l) (map i_triple l) =
  atom_eqb (ttgt (i_triple it)) (i_ctx it).
Proof.
  induction l as [|x l IH]; intros it N H NN; [contradiction|].
  destruct N as [N1 N2]. cbn [map appears_inverted_scan some_ctx].
  assert (Cx : ctx_is_none (Some (i_ctx x)) = false).
  { pose proof (NN x (or_introl eq_refl)) as Hx. destruct (i_ctx x); [contradiction| |]; reflexivity. }
  change (some_ctx x) with (Some (i_ctx x)). rewrite Cx. destruct H as [H|H].
  - subst x. rewrite triple_eqb_refl. reflexivity.
  - rewrite triple_eqb_sym, (N1 _ H). apply IH; auto.
    intros y Hy. apply NN. right. exact Hy.
Qed.

Theorem appears_inverted_wf : forall m t g r it,
  wf_layout_tree m t = true -> interpret m t = Ok g -> reading m t = Ok r ->
  In it (r_items r) ->
  atom_eqb (tsrc (i_triple it)) (ttgt (i_triple it)) = false ->
  appears_inverted g (i_triple it) = i_winv it.
Proof.
  intros m t g r it W H R Hit NE.
  destruct (node_contexts_wf _ _ _ W H) as (r' & R' & NC).
  rewrite R in R'. inversion R'; subst r'. clear R'.
  apply reading_ok_inv in R. subst r.
  pose proof (wf_gives_facts _ _ _ W H) as Fs.
  unfold reading_of in Hit, NC. cbn [r_items] in Hit, NC.
  set (its := node_items m (defined_vars (troot t)) (troot t) 0) in *.
  pose proof (wf_items_ok _ _ _ Fs _ Hit) as Wi. unfold item_wf in Wi.
  rewrite !andb_true_iff in Wi. destruct Wi as (((W1 & W2) & W3) & W4).
  pose proof (wf_ctx_var _ _ _ Fs _ Hit) as Cv.
  pose proof (wf_epis _ _ _ Fs _ Hit) as Ep.
  assert (Scan : appears_inverted_scan (i_triple it) (node_contexts g) (triples g) =
                 atom_eqb (ttgt (i_triple it)) (i_ctx it)).
  { rewrite NC, (wf_triples _ _ _ Fs). apply scan_found; [exact (wf_nodup _ _ _ Fs)|exact Hit|].
    intros x Hx Ex. pose proof (wf_items_ok _ _ _ Fs _ Hx) as Wx. unfold item_wf in Wx.
    rewrite !andb_true_iff in Wx. destruct Wx as (((Wx & _) & _) & _). rewrite Ex in Wx. discriminate. }
  unfold appears_inverted, pushed_value, is_var. rewrite (pushed_of_markers _ _ Ep).
  destruct (item_ctx_side _ _ _ _ _ Hit) as [[I S]|[I S]]; rewrite I.
  - (* written as is: source = context *)
    destruct (str_eqb (trole (i_triple it)) INSTANCE); [reflexivity|].
    destruct (mem atom_eqb (ttgt (i_triple it)) (variables g)); [|reflexivity]. cbn [orb negb].
    destruct (i_opened it) as [v'|] eqn:O.
    + (* opening triple (v, r, v'): pushed v' is the target *)
      destruct (item_shape _ _ _ _ _ Hit) as (v & k' & [E|[(role & a & E)|(role & v'' & E)]]);
        subst it; cbn [synth_item atom_item open_item i_opened] in O; try discriminate.
      inversion O; subst v''. unfold open_item in *. cbn [i_triple i_winv] in *.
      destruct (orient_cases m v (fst (read_role role)) v' true) as [Eo|(Eo & _)];
        rewrite Eo in *; cbn [fst snd tsrc ttgt] in *; [|discriminate].
      apply negb_true_iff in W2.
      destruct v' as [|sv|tv zv]; [discriminate| |]; rewrite atom_eqb_sym; exact NE.
    + rewrite Scan, <- S, atom_eqb_sym. exact NE.
  - (* deinverted: target = context *)
    rewrite I in W4. cbn [andb] in W4. apply negb_true_iff in W4. rewrite W4.
    rewrite S, Cv. cbn [orb negb].
    destruct (i_opened it) as [v'|] eqn:O.
    + destruct (item_shape _ _ _ _ _ Hit) as (v & k' & [E|[(role & a & E)|(role & v'' & E)]]);
        subst it; cbn [synth_item atom_item open_item i_opened] in O; try discriminate.
      inversion O; subst v''. unfold open_item in *. cbn [i_triple i_winv] in *.
      destruct (orient_cases m v (fst (read_role role)) v' true) as [Eo|(Eo & _)];
        rewrite Eo in *; cbn [fst snd tsrc ttgt] in *; [discriminate|].
      apply negb_true_iff in W2.
      destruct v' as [|sv|tv zv]; [discriminate| |]; apply atom_eqb_refl.
    + rewrite Scan, S. apply atom_eqb_refl.
Qed.

(* ------------------------------------------------------------------ *)
(** * Graphs without markers *)

Lemma epis_of_empty : forall g t, epidata g = [] -> epis_of g t = [].
Proof. intros g t E. unfold epis_of. rewrite E. reflexivity. Qed.

Lemma loop_no_markers : forall g vs top ts, epidata g = [] ->
  node_contexts_loop g vs ts [top] = ctx_prefix (fun t => eligible vs t top) top ts.
Proof.
  intros g vs top ts E. induction ts as [|t ts IH]; [reflexivity|].
  cbn [node_contexts_loop ctx_prefix]. fold (eligible vs t top).
  destruct (eligible vs t top); cbn [negb]; [|reflexivity].
  unfold pushed_value, get_pushed_variable. rewrite (epis_of_empty _ _ E).
  cbn [find falsy filter length pop_n]. rewrite IH. reflexivity.
Qed.

Theorem no_markers_contexts : forall g, epidata g = [] ->
  node_contexts g =
  ctx_prefix (fun t => eligible (variables g) t (top_or_none g)) (top_or_none g) (triples g).
Proof. intros g E. unfold node_contexts. apply loop_no_markers. exact E. Qed.

Theorem no_markers_pushed : forall g t, epidata g = [] -> get_pushed_variable g t = None.
Proof. intros g t E. unfold get_pushed_variable. rewrite (epis_of_empty _ _ E). reflexivity. Qed.

Lemma scan_prefix : forall p top t ts,
  appears_inverted_scan t (ctx_prefix p top ts) ts =
  negb (atom_eqb top ANone) && existsb (fun t' => triple_eqb t' t) (take_while p ts)
  && atom_eqb (ttgt t) top.
Proof.
  intros p top t ts. induction ts as [|t' ts IH].
  - cbn. rewrite andb_false_r. reflexivity.
  - cbn [ctx_prefix take_while]. destruct (p t').
    + cbn [appears_inverted_scan existsb].
      destruct top as [|s|tx z]; [reflexivity| |];
        (cbn [ctx_is_none atom_eqb negb andb];
         destruct (triple_eqb t' t); [reflexivity|]; rewrite IH; reflexivity).
    + cbn [map appears_inverted_scan ctx_is_none existsb]. rewrite andb_false_r. reflexivity.
Qed.

Theorem no_markers_inverted : forall g t, epidata g = [] ->
  appears_inverted g t =
  negb (str_eqb (trole t) INSTANCE) && is_var g (ttgt t)
  && (negb (atom_eqb (top_or_none g) ANone)
      && existsb (fun t' => triple_eqb t' t)
           (take_while (fun t' => eligible (variables g) t' (top_or_none g)) (triples g))
      && atom_eqb (ttgt t) (top_or_none g)).
Proof.
  intros g t E. unfold appears_inverted.
  destruct (str_eqb (trole t) INSTANCE); [reflexivity|].
  destruct (is_var g (ttgt t)); [|reflexivity]. cbn [orb negb andb].
  unfold pushed_value. rewrite (no_markers_pushed _ _ E).
  rewrite (no_markers_contexts _ E). apply scan_prefix.
Qed.

(* in particular: on a graph without markers nothing is reported as pushed, and
   a triple is reported inverted only if its target is the top *)
Corollary no_markers_inverted_only_to_top : forall g t, epidata g = [] ->
  appears_inverted g t = true ->
  trole t <> INSTANCE /\ atom_eqb (ttgt t) (top_or_none g) = true /\
  exists t', In t' (triples g) /\ triple_eqb t' t = true.
Proof.
  intros g t E H. rewrite (no_markers_inverted _ _ E) in H.
  rewrite !andb_true_iff in H. destruct H as ((H1 & _) & (_ & H3) & H4).
  split.
  - intros C. rewrite C, str_eqb_refl in H1. discriminate.
  - split; [exact H4|]. apply existsb_exists in H3. destruct H3 as (t' & Hin & Ht).
    exists t'. split; [|exact Ht].
    clear - Hin. induction (triples g) as [|x l IH]; [contradiction|].
    cbn [take_while] in Hin. destruct (eligible (variables g) x (top_or_none g)); [|contradiction].
    destruct Hin as [Hin|Hin]; [left; exact Hin|right; apply IH; exact Hin].
Qed.
