(** Byte idempotence of the penman command for the option sets made of
    --reify-edges and --reify-attributes (plus any formatting), reduced to
    DECIDABLE conditions on what the first pass wrote.

    The first pass formats a tree t1.  When t1 is well formed (C01, C02), its
    interpretation has no reifiable role left (for --reify-edges) and no
    attribute left (for --reify-attributes), the second pass finds nothing to
    rewrite: both reifications return their argument, configure reproduces the
    layout (C02) and the same text is written.  The two exceptions recorded as
    known findings (F30, F32) are exactly inputs whose first-pass output still has
    a reifiable role after interpretation; the conditions are evaluated on every
    generated case by the harness through the extracted model.

    Graph-level companions: a graph without reifiable roles is a fixed point of
    reify_edges, a graph without attributes is a fixed point of
    reify_attributes, reify_edges leaves no reifiable role behind when the
    reification table only uses non-reifiable roles, reify_attributes leaves no
    attribute behind; hence both are idempotent. *)
From PM Require Import Spec.Pipeline Spec.WellFormed Spec.WfLayout Spec.Idle.
From PM Require Import Proofs.Cli_lemmas Proofs.CliIdem_lemmas Proofs.Configure_fast
  Proofs.ResetVars_lemmas Proofs.Transform_lemmas Proofs.Model_lemmas.

(* ------------------------------------------------------------------ *)
(** * Vocabulary *)

(* the Graph constructor applied to the graph's own fields gives the graph back:
   roles carry their colon and the top is explicit *)
Definition closed_graph (g : graph) : Prop :=
  mk_graph (triples g) (graph_top g) (epidata g) (gmeta g) = g.

(* ------------------------------------------------------------------ *)
(** * Fixed points of the two reifications *)

Lemma reify_edges_loop_fixed : forall m g ts vars ed,
  forallb (role_fixed m) ts = true -> reify_edges_loop m g ts vars ed = Ok (ts, ed).
Proof.
  intros m g. induction ts as [|t ts IH]; intros vars ed H; [reflexivity|].
  simpl in H. apply andb_true_iff in H. destruct H as [Ht Hts].
  unfold role_fixed in Ht. apply negb_true_iff in Ht.
  simpl. rewrite Ht. rewrite (IH vars ed Hts). reflexivity.
Qed.

Theorem reify_edges_fixed : forall m g, no_reifiable m g = true -> closed_graph g ->
  reify_edges m g = Ok g.
Proof.
  intros m g H C. unfold reify_edges. rewrite (reify_edges_loop_fixed m g _ _ _ H). simpl.
  rewrite C. reflexivity.
Qed.

Lemma reify_attributes_loop_fixed : forall variables ts vars i ed,
  forallb (not_attribute variables) ts = true ->
  reify_attributes_loop variables ts vars i ed = Ok (ts, ed).
Proof.
  intros variables. induction ts as [|t ts IH]; intros vars i ed H; [reflexivity|].
  simpl in H. apply andb_true_iff in H. destruct H as [Ht Hts].
  unfold not_attribute in Ht.
  simpl.
  assert (E : negb (str_eqb (trole t) INSTANCE) && negb (mem atom_eqb (ttgt t) variables) = false).
  { apply orb_true_iff in Ht. destruct Ht as [Ht|Ht]; rewrite Ht; simpl; [reflexivity|].
    apply andb_false_r. }
  rewrite E. rewrite (IH vars i ed Hts). reflexivity.
Qed.

Theorem reify_attributes_fixed : forall g, no_attributes g = true -> closed_graph g ->
  reify_attributes g = Ok g.
Proof.
  intros g H C. unfold reify_attributes. rewrite (reify_attributes_loop_fixed _ _ _ _ _ H). simpl.
  rewrite C. reflexivity.
Qed.

Lemma dereify_edges_loop_nil : forall ts ed, dereify_edges_loop [] ts ed = (ts, ed).
Proof.
  induction ts as [|t ts IH]; intros ed; [reflexivity|]. simpl. rewrite IH. reflexivity.
Qed.

Theorem dereify_edges_fixed : forall m g, agenda_empty m g = true -> closed_graph g ->
  dereify_edges m g = Ok g.
Proof.
  intros m g H C. unfold agenda_empty in H. unfold dereify_edges.
  destruct (dereify_agenda m g) as [[|e l]| | | | | | | |]; try discriminate.
  simpl. rewrite dereify_edges_loop_nil. rewrite C. reflexivity.
Qed.

(* ------------------------------------------------------------------ *)
(** * An interpreted tree with a root variable is a closed graph *)

Lemma map_ensure_idem : forall ts : list triple,
  map (fun t => (tsrc t, ensure_colon (trole t), ttgt t))
      (map (fun t => (tsrc t, ensure_colon (trole t), ttgt t)) ts)
  = map (fun t => (tsrc t, ensure_colon (trole t), ttgt t)) ts.
Proof.
  induction ts as [|[[s r] x] ts IH]; [reflexivity|].
  simpl. rewrite IH. unfold tsrc, trole, ttgt. simpl. rewrite ensure_colon_idem. reflexivity.
Qed.

Lemma interpret_closed : forall m t g, interpret m t = Ok g -> node_var (troot t) <> ANone ->
  closed_graph g.
Proof.
  intros m t g I NV. unfold interpret in I.
  destruct (interp_node m (tree_vars (troot t)) (troot t)) as [[ts es]| | | | | | | |] eqn:E;
    simpl in I; try discriminate.
  inversion I. subst g. clear I.
  unfold closed_graph, graph_top, mk_graph. simpl.
  rewrite map_ensure_idem.
  destruct (node_var (troot t)) eqn:V; try reflexivity. exfalso. apply NV. reflexivity.
Qed.

(* ------------------------------------------------------------------ *)
(** * The second pass has nothing to reify: the reify options can be struck *)

Lemma normalise_strip : forall o t g,
  entering_graph o t = Ok g -> closed_graph g -> idle_on o g = true ->
  normalise o t = normalise (strip_reify o) t.
Proof.
  intros o t g E C I. unfold idle_on in I. apply andb_true_iff in I. destruct I as [I I2].
  apply andb_true_iff in I. destruct I as [I1 ID].
  unfold entering_graph, Pipeline.seq in E.
  unfold normalise, Pipeline.seq, canonicalise, interpret_stage, Pipeline.reify, Pipeline.dereify,
    reify_attrs, indicate, Pipeline.when in *. simpl.
  destruct (if o_canonicalize_roles o
            then match canonicalize_roles (o_model o) t with Some t' => Ok t' | None => OutOfFuel end
            else Ok t) as [t'| | | | | | | |] eqn:Ct; simpl in E; try discriminate.
  simpl. rewrite E. simpl.
  assert (R1 : (if o_reify_edges o then reify_edges (o_model o) g else Ok g) = Ok g).
  { destruct (o_reify_edges o); [|reflexivity]. simpl in I1. apply reify_edges_fixed; assumption. }
  rewrite R1. simpl.
  assert (RD : (if o_dereify_edges o then dereify_edges (o_model o) g else Ok g) = Ok g).
  { destruct (o_dereify_edges o); [|reflexivity]. simpl in ID. apply dereify_edges_fixed; assumption. }
  rewrite RD. simpl.
  assert (R2 : (if o_reify_attributes o then reify_attributes g else Ok g) = Ok g).
  { destruct (o_reify_attributes o); [|reflexivity]. simpl in I2. apply reify_attributes_fixed; assumption. }
  rewrite R2. reflexivity.
Qed.

(* every later stage reads the other options only *)
Theorem pipeline_strip : forall o t g,
  entering_graph o t = Ok g -> closed_graph g -> idle_on o g = true ->
  pipeline o t = pipeline (strip_reify o) t.
Proof.
  intros o t g E C I. pose proof (normalise_strip o t g E C I) as N.
  unfold pipeline, pre_format, Pipeline.seq.
  change (o_triples (strip_reify o)) with (o_triples o).
  destruct (o_triples o); rewrite N; reflexivity.
Qed.

(* ------------------------------------------------------------------ *)
(** * --reify-edges / --reify-attributes (plus any formatting) *)

Lemma reify_only_fields : forall o, reify_only o = true ->
  o_canonicalize_roles o = false /\ o_triples o = false /\ o_check o = false.
Proof.
  intros o P. unfold reify_only in P.
  destruct (plain_fields _ P) as [F1 [_ [_ [_ [_ [_ [_ [_ [F9 F10]]]]]]]]].
  simpl in *. auto.
Qed.

Theorem reify_tree_fixed : forall o t1, reify_only o = true -> second_pass_idle o t1 = true ->
  wf_tree t1 = true /\ pipeline o t1 = Ok (format (o_indent o) (o_compact o) t1).
Proof.
  intros o t1 P H. unfold second_pass_idle in H.
  apply andb_true_iff in H. destruct H as [H I].
  apply andb_true_iff in H. destruct H as [H FE].
  apply andb_true_iff in H. destruct H as [H RV].
  apply andb_true_iff in H. destruct H as [Wt Wl].
  split; [exact Wt|].
  destruct (interpret (o_model o) t1) as [g1| | | | | | | |] eqn:E; try discriminate.
  destruct (reify_only_fields o P) as [Fc [Tr Ck]].
  assert (NV : node_var (troot t1) <> ANone).
  { unfold root_has_var in RV. intro X. rewrite X in RV. discriminate. }
  assert (EG : entering_graph o t1 = Ok g1).
  { unfold entering_graph, Pipeline.seq, canonicalise, Pipeline.when, interpret_stage. rewrite Fc. simpl. exact E. }
  rewrite (pipeline_strip o t1 g1 EG (interpret_closed _ _ _ E NV) I).
  assert (Tr' : o_triples (strip_reify o) = false) by exact Tr.
  rewrite (pipeline_tree _ t1 Tr').
  rewrite (plain_pre_format (strip_reify o) t1 P Wl). simpl.
  apply Model_lemmas.str_eqb_eq in FE. change (o_indent (strip_reify o)) with (o_indent o).
  change (o_compact (strip_reify o)) with (o_compact o). rewrite FE. reflexivity.
Qed.

(* the stream: when every graph of the first pass leaves the second pass idle,
   the second pass reproduces the first byte for byte, status included *)
Theorem reify_idempotent : forall o s out code, reify_only o = true ->
  Forall (fun t => exists t1, pre_format o t = Ok t1 /\ second_pass_idle o t1 = true)
         (fst (iterparse_str s)) ->
  run o [] s = Ok (out, code) -> run o [] out = Ok (out, code).
Proof.
  intros o s out code P F R.
  destruct (reify_only_fields o P) as [_ [Tr Ck]].
  apply (stream_idempotent_from_trees o s out code Tr Ck); [|exact R].
  induction F as [|t l [t1 [Q H]] F IH]; constructor; [|exact IH].
  exists t1. destruct (reify_tree_fixed o t1 P H) as [W X]. auto.
Qed.

(* ------------------------------------------------------------------ *)
(** * Graph level: both reifications are idempotent *)
From PM Require Import Spec.WfGraph.

Lemma mk_graph_closed : forall ts top ed md, (top = None -> ts = []) ->
  closed_graph (mk_graph ts top ed md).
Proof.
  intros ts top ed md H. unfold closed_graph, graph_top, mk_graph. simpl.
  rewrite map_ensure_idem. destruct top as [tp|]; [reflexivity|].
  rewrite (H eq_refl). reflexivity.
Qed.

Lemma graph_top_none : forall g, graph_top g = None -> triples g = [].
Proof.
  intros g H. unfold graph_top in H. destruct (gtop g); [discriminate|].
  destruct (triples g); [reflexivity | discriminate].
Qed.

Lemma reify_edges_closed : forall m g g', reify_edges m g = Ok g' -> closed_graph g'.
Proof.
  intros m g g' H. unfold reify_edges in H.
  destruct (reify_edges_loop m g (triples g) (used_names g) (epidata g)) as [[ts ed]| | | | | | | |] eqn:E;
    simpl in H; try discriminate.
  inversion H. subst g'. apply mk_graph_closed. intros N.
  rewrite (graph_top_none g N) in E. simpl in E. inversion E. reflexivity.
Qed.

Lemma reify_attributes_closed : forall g g', reify_attributes g = Ok g' -> closed_graph g'.
Proof.
  intros g g' H. unfold reify_attributes in H.
  destruct (reify_attributes_loop (variables g) (triples g) (used_names g) 2%N (epidata g))
    as [[ts ed]| | | | | | | |] eqn:E; simpl in H; try discriminate.
  inversion H. subst g'. apply mk_graph_closed. intros N.
  rewrite (graph_top_none g N) in E. simpl in E. inversion E. reflexivity.
Qed.

Theorem reify_edges_idem : forall m g g', node_graph g ->
  (forall t, In t (triples g) -> row_shape_ok m (trole t) = true) ->
  reify_edges m g = Ok g' -> reify_edges m g' = Ok g'.
Proof.
  intros m g g' NG SH H. apply reify_edges_fixed; [|exact (reify_edges_closed m g g' H)].
  unfold no_reifiable. apply forallb_forall. intros t I. unfold role_fixed.
  rewrite (reify_no_reifiable m g g' NG SH H t I). reflexivity.
Qed.

Lemma no_attr_no_attributes : forall g, attributes g None None None = [] -> no_attributes g = true.
Proof.
  intros g H. rewrite attributes_all in H. unfold no_attributes. apply forallb_forall. intros t I.
  unfold not_attribute.
  destruct (str_eqb (trole t) INSTANCE) eqn:E1; [reflexivity|].
  destruct (mem atom_eqb (ttgt t) (variables g)) eqn:E2; [reflexivity|]. exfalso.
  assert (X : In t (filter (fun x => negb (str_eqb (trole x) INSTANCE) && negb (is_var g (ttgt x))) (triples g))).
  { apply filter_In. split; [exact I|]. unfold is_var. rewrite E1, E2. reflexivity. }
  rewrite H in X. destruct X.
Qed.

Theorem reify_attributes_idem : forall g g', reify_attributes g = Ok g' -> reify_attributes g' = Ok g'.
Proof.
  intros g g' H. apply reify_attributes_fixed; [|exact (reify_attributes_closed g g' H)].
  apply no_attr_no_attributes. exact (reify_attributes_no_attr g g' H).
Qed.

(* ------------------------------------------------------------------ *)
(** * The same with --canonicalize-roles allowed *)

Lemma second_pass_idle_c_plain : forall o t1, o_canonicalize_roles o = false ->
  second_pass_idle_c o t1 = second_pass_idle o t1.
Proof.
  intros o t1 H. unfold second_pass_idle_c, second_pass_idle, canon_of. rewrite H.
  destruct (wf_tree t1); [|reflexivity]. simpl.
  destruct (wf_layout_tree (o_model o) t1); reflexivity.
Qed.

Theorem reify_canon_tree_fixed : forall o t1, reify_canon_only o = true ->
  second_pass_idle_c o t1 = true ->
  wf_tree t1 = true /\ pipeline o t1 = Ok (format (o_indent o) (o_compact o) t1).
Proof.
  intros o t1 P H. unfold second_pass_idle_c in H.
  apply andb_true_iff in H. destruct H as [Wt H]. split; [exact Wt|].
  destruct (canon_of o t1) as [t1c|] eqn:Cn; [|discriminate].
  apply andb_true_iff in H. destruct H as [H I].
  apply andb_true_iff in H. destruct H as [H FE].
  apply andb_true_iff in H. destruct H as [Wl RV].
  destruct (interpret (o_model o) t1c) as [g1| | | | | | | |] eqn:E; try discriminate.
  unfold reify_canon_only in P.
  destruct (plain_rest_fields _ P) as [_ [_ [_ [_ [_ [_ [_ [Tr Ck]]]]]]]]. simpl in Tr, Ck.
  assert (NV : node_var (troot t1c) <> ANone).
  { unfold root_has_var in RV. intro X. rewrite X in RV. discriminate. }
  assert (EG : entering_graph o t1 = Ok g1).
  { unfold entering_graph, Pipeline.seq, canonicalise, Pipeline.when, interpret_stage.
    unfold canon_of in Cn. destruct (o_canonicalize_roles o).
    - rewrite Cn. simpl. exact E.
    - inversion Cn. subst t1c. simpl. exact E. }
  rewrite (pipeline_strip o t1 g1 EG (interpret_closed _ _ _ E NV) I).
  assert (Tr' : o_triples (strip_reify o) = false) by exact Tr.
  rewrite (pipeline_tree _ t1 Tr').
  assert (Cn' : canon_of (strip_reify o) t1 = Some t1c) by exact Cn.
  rewrite (canon_pre_format (strip_reify o) t1 t1c P Cn' Wl). simpl.
  apply Model_lemmas.str_eqb_eq in FE. change (o_indent (strip_reify o)) with (o_indent o).
  change (o_compact (strip_reify o)) with (o_compact o). rewrite FE. reflexivity.
Qed.

Theorem reify_canon_idempotent : forall o s out code, reify_canon_only o = true ->
  Forall (fun t => exists t1, pre_format o t = Ok t1 /\ second_pass_idle_c o t1 = true)
         (fst (iterparse_str s)) ->
  run o [] s = Ok (out, code) -> run o [] out = Ok (out, code).
Proof.
  intros o s out code P F R.
  assert (X : o_triples o = false /\ o_check o = false).
  { unfold reify_canon_only in P. destruct (plain_rest_fields _ P) as [_ [_ [_ [_ [_ [_ [_ [Tr Ck]]]]]]]]. auto. }
  destruct X as [Tr Ck].
  apply (stream_idempotent_from_trees o s out code Tr Ck); [|exact R].
  induction F as [|t l [t1 [Q H]] F IH]; constructor; [|exact IH].
  exists t1. destruct (reify_canon_tree_fixed o t1 P H) as [W X]. auto.
Qed.

Theorem certificate_sound : forall o s out code, idempotence_certificate o s = true ->
  run o [] s = Ok (out, code) -> run o [] out = Ok (out, code).
Proof.
  intros o s out code H R. unfold idempotence_certificate in H.
  apply andb_true_iff in H. destruct H as [P F].
  apply (reify_canon_idempotent o s out code P); [|exact R].
  rewrite forallb_forall in F. apply Forall_forall. intros t I. specialize (F t I).
  destruct (pre_format o t) as [t1| | | | | | | |]; try discriminate. exists t1. auto.
Qed.
