(** Proofs for C10 (Tree.reset_variables relabels by a graph isomorphism).
    The declarative vocabulary of C10 (all_vars, rename_node, erase_vars,
    rename_graph, names_ok, inst_plain, no_collision) is defined in this file
    because no Spec file was assigned to it. *)
From PM Require Import Impl.ResetVars Impl.Interpret Proofs.Model_lemmas Proofs.Errors_lemmas.
From Coq Require Import Lia Arith.


(* ================================================================== *)
(** * Declarative vocabulary of C10 (would live in a Spec file of its own) *)

(* every node of the tree carries a variable *)
Fixpoint all_vars (n : node) : bool :=
  match n with
  | Node v bs =>
      negb (atom_eqb v ANone) &&
      (fix go (bs : list branch) : bool :=
         match bs with
         | [] => true
         | (_, TAtom _) :: bs' => go bs'
         | (_, TNode n') :: bs' => all_vars n' && go bs'
         end) bs
  end.

Definition sigma := dict atom str.
Definition sig_get (s : sigma) (a : atom) : option str := dget atom_eqb a s.

(* the text of an atomic target split at the first '~': variable part, suffix *)
Definition ref_parts (s : str) : str * str :=
  let '(v, found, aln) := partition [TILDE] s in (v, (if found then [TILDE] else []) ++ aln).

(* a non-concept atomic target whose variable part is renamed by sigma *)
Definition ref_target (s : sigma) (role : str) (a : atom) : option (str * str) :=
  match a with
  | AStr t =>
      if str_eqb role SLASHS then None
      else let '(v, suf) := ref_parts t in
           match sig_get s (AStr v) with Some nv => Some (nv, suf) | None => None end
  | _ => None
  end.

(* sigma applied at every node variable and every reference, suffix preserved *)
Definition rename_atom (s : sigma) (role : str) (a : atom) : atom :=
  match ref_target s role a with Some (nv, suf) => AStr (nv ++ suf) | None => a end.
Definition rename_var (s : sigma) (v : atom) : atom :=
  match sig_get s v with Some nv => AStr nv | None => v end.
Fixpoint rename_node (s : sigma) (n : node) : node :=
  match n with
  | Node v bs =>
      Node (rename_var s v)
           (map (fun b : branch =>
                   (fst b, match snd b with
                           | TAtom a => TAtom (rename_atom s (fst b) a)
                           | TNode n' => TNode (rename_node s n')
                           end)) bs)
  end.

(* blank the variable positions (node variables and references) of a tree;
   [erase_at s n0 n] blanks in n the positions that are variable positions of n0 *)
Definition is_ref (s : sigma) (role : str) (a : atom) : bool :=
  match ref_target s role a with Some _ => true | None => false end.
Fixpoint erase_vars (s : sigma) (n : node) : node :=
  match n with
  | Node v bs =>
      Node ANone
           (map (fun b : branch =>
                   (fst b, match snd b with
                           | TAtom a => TAtom (if is_ref s (fst b) a then ANone else a)
                           | TNode n' => TNode (erase_vars s n')
                           end)) bs)
  end.
Fixpoint erase_at (s : sigma) (n0 n : node) : node :=
  match n0, n with
  | Node _ bs0, Node _ bs =>
      Node ANone
        ((fix go (bs0 bs : list branch) : list branch :=
            match bs0, bs with
            | (role0, tgt0) :: bs0', (role, tgt) :: bs' =>
                (role, match tgt0, tgt with
                       | TNode a, TNode b => TNode (erase_at s a b)
                       | TAtom a0, TAtom a => TAtom (if is_ref s role0 a0 then ANone else a)
                       | _, _ => tgt
                       end) :: go bs0' bs'
            | _, _ => bs
            end) bs0 bs)
  end.

(* ================================================================== *)
(** * The format *)

Lemma parse_fmt_fuel : forall f s acc, length s <= f ->
  parse_fmt_loop f s acc = parse_fmt_loop (length s) s acc.
Proof.
  assert (SP : forall p s a b, span p s = (a, b) -> length b <= length s).
  { induction s as [|c s IH]; intros a b E; simpl in E.
    - inversion E. simpl. lia.
    - destruct (p c).
      + destruct (span p s) as [a' b'] eqn:S. inversion E; subst. specialize (IH a' b eq_refl). simpl. lia.
      + inversion E; subst. simpl. lia. }
  assert (G : forall n f s acc, length s <= n -> n <= f ->
              parse_fmt_loop f s acc = parse_fmt_loop n s acc).
  { induction n as [|n IH]; intros f s acc L1 L2.
    - destruct s; [|simpl in L1; lia]. destruct f; reflexivity.
    - destruct f as [|f]; [lia|]. destruct s as [|c s]; [reflexivity|]. simpl in L1.
      simpl. destruct (eqc c LBRACE).
      + destruct s as [|d s']; [reflexivity|]. simpl in L1.
        destruct (eqc d LBRACE); [apply IH; lia|].
        destruct (span (fun x => negb (eqc x RBRACE)) (d :: s')) as [name rest] eqn:S.
        apply SP in S. simpl in S.
        destruct rest as [|r rest']; [reflexivity|]. simpl in S.
        destruct (str_eqb name F_PREFIX); [apply IH; lia|].
        destruct (str_eqb name F_I); [apply IH; lia|].
        destruct (str_eqb name F_J); [apply IH; lia|]. reflexivity.
      + destruct (eqc c RBRACE).
        * destruct s as [|d s']; [reflexivity|]. simpl in L1. destruct (eqc d RBRACE); [apply IH; lia|reflexivity].
        * apply IH; lia. }
  intros f s acc L. apply G; [lia|exact L].
Qed.

Lemma app_eq_len : forall {A} (a a' b b' : list A),
  length a = length a' -> a ++ b = a' ++ b' -> a = a' /\ b = b'.
Proof.
  induction a as [|x a IH]; intros [|y a'] b b' L E; simpl in *; try discriminate; auto.
  inversion E; subst. inversion L. destruct (IH a' b b' H0 H1). subst. auto.
Qed.

Lemma piece_len_mono : forall pre p i i', (i <= i')%N ->
  length (render_piece pre i p) <= length (render_piece pre i' p).
Proof.
  intros pre p i i' L. destruct p; simpl; auto.
  - apply N_to_str_len_mono. exact L.
  - destruct (N.eqb i 0) eqn:E; [simpl; lia|]. apply N.eqb_neq in E.
    destruct (N.eqb i' 0) eqn:E'; [apply N.eqb_eq in E'; lia|].
    apply N_to_str_len_mono. lia.
Qed.

Lemma render_len_mono : forall ps pre i i', (i <= i')%N ->
  length (render ps pre i) <= length (render ps pre i').
Proof.
  induction ps as [|p ps IH]; intros pre i i' L; simpl; [lia|].
  rewrite !app_length. specialize (IH pre i i' L). pose proof (piece_len_mono pre p i i' L). lia.
Qed.

Lemma render_lt_neq : forall ps pre i i', (i < i')%N ->
  render ps pre i = render ps pre i' -> uses_index ps = false.
Proof.
  induction ps as [|p ps IH]; intros pre i i' L E; [reflexivity|].
  simpl in E.
  assert (L1 := piece_len_mono pre p i i' ltac:(lia)).
  assert (L2 := render_len_mono ps pre i i' ltac:(lia)).
  assert (LE := f_equal (@length N) E). rewrite !app_length in LE.
  assert (LL : length (render_piece pre i p) = length (render_piece pre i' p)) by lia.
  destruct (app_eq_len _ _ _ _ LL E) as [E1 E2].
  simpl. rewrite (IH pre i i' L E2), orb_false_r.
  destruct p; simpl in *; try reflexivity; exfalso.
  - apply N_to_str_inj in E1. lia.
  - destruct (N.eqb i 0) eqn:Z.
    + destruct (N.eqb i' 0) eqn:Z'; [apply N.eqb_eq in Z, Z'; lia|].
      symmetry in E1. apply N_to_str_nonempty in E1. exact E1.
    + destruct (N.eqb i' 0) eqn:Z'; [apply N.eqb_eq in Z'; lia|].
      apply N_to_str_inj in E1. lia.
Qed.

Lemma render_injective : forall ps pre i i', uses_index ps = true ->
  render ps pre i = render ps pre i' -> i = i'.
Proof.
  intros ps pre i i' U E. destruct (N.lt_trichotomy i i') as [L|[L|L]]; [|exact L|].
  - rewrite (render_lt_neq ps pre i i' L E) in U. discriminate.
  - symmetry in E. rewrite (render_lt_neq ps pre i' i L E) in U. discriminate.
Qed.

Lemma render_no_index : forall ps pre i, uses_index ps = false -> render ps pre i = render ps pre 0.
Proof.
  induction ps as [|p ps IH]; intros pre i U; [reflexivity|]. simpl in U.
  apply orb_false_iff in U. destruct U as [U1 U2]. simpl. rewrite (IH pre i U2).
  destruct p; simpl in *; try reflexivity; discriminate.
Qed.


(* ================================================================== *)
(** * The candidate loop *)

Lemma NoDup_app_snoc : forall {A} (l : list A) x, NoDup l -> ~ In x l -> NoDup (l ++ [x]).
Proof.
  induction l as [|y l IH]; intros x ND NI; simpl.
  - constructor; [intros []|constructor].
  - inversion ND; subst. constructor.
    + intro I. apply in_app_or in I. destruct I as [I|[I|[]]]; [contradiction|]. subst. apply NI. left. reflexivity.
    + apply IH; [assumption|]. intro I. apply NI. right. exact I.
Qed.

Section Loop.
  Variable ps : list piece.
  Variable pre : str.
  Variable used : list str.

  Definition cand (k : nat) : str := render ps pre (N.of_nat k).

  Lemma mem_str_in : forall v l, mem str_eqb v l = true <-> In v l.
  Proof.
    intros v l. unfold mem. rewrite existsb_exists. split.
    - intros (x & I & E). apply str_eqb_eq in E. subst. exact I.
    - intros I. exists v. split; [exact I|apply str_eqb_refl].
  Qed.

  (* whatever the loop returns is not in [used] *)
  Lemma pick_loop_fresh : forall fuel newvar i v,
    pick_loop fuel ps pre used newvar i = Ok v -> mem str_eqb v used = false.
  Proof.
    induction fuel as [|f IH]; intros newvar i v H; simpl in H.
    - destruct newvar as [w|]; [|discriminate].
      destruct (mem str_eqb w used) eqn:M; [discriminate|]. inversion H; subst. exact M.
    - destruct newvar as [w|].
      + destruct (mem str_eqb w used) eqn:M.
        * destruct (str_eqb (render ps pre i) w); [discriminate|]. eapply IH; eauto.
        * inversion H; subst. exact M.
      + eapply IH; eauto.
  Qed.

  Lemma nodup_cands : forall n, uses_index ps = true -> NoDup (map cand (seq 0 n)).
  Proof.
    intros n U. induction n as [|n IH]; [constructor|].
    rewrite seq_S, map_app. simpl. apply NoDup_app_snoc; [exact IH|].
    intros I. apply in_map_iff in I. destruct I as (k & E & Ik). apply in_seq in Ik.
    unfold cand in E. apply render_injective in E; [|exact U]. lia.
  Qed.

  (* with an index in the format, fuel |used|+1 is enough *)
  Definition entry_ok (n : nat) (newvar : option str) : Prop :=
    match newvar with
    | None => n = 0
    | Some w => exists n0, n = S n0 /\ w = cand n0 /\
                           (forall k, k < n0 -> mem str_eqb (cand k) used = true)
    end.

  Lemma entry_all : forall n newvar, entry_ok n newvar ->
    match newvar with Some w => mem str_eqb w used = true | None => True end ->
    forall k, k < n -> mem str_eqb (cand k) used = true.
  Proof.
    intros n [w|] E C k Hk.
    - destruct E as (n0 & -> & -> & H). destruct (Nat.eq_dec k n0) as [->|NE]; [exact C|]. apply H. lia.
    - simpl in E. lia.
  Qed.

  Lemma all_bound : uses_index ps = true -> forall n,
    (forall k, k < n -> mem str_eqb (cand k) used = true) -> n <= length used.
  Proof.
    intros U n Hall. rewrite <- (seq_length n 0), <- (map_length cand).
    apply NoDup_incl_length; [apply nodup_cands; exact U|].
    intros x I. apply in_map_iff in I. destruct I as (k & E & Ik). apply in_seq in Ik.
    subst x. apply mem_str_in. apply Hall. lia.
  Qed.

  Lemma pick_loop_index : uses_index ps = true ->
    forall fuel n newvar, entry_ok n newvar -> length used < n + fuel ->
    exists v, pick_loop fuel ps pre used newvar (N.of_nat n) = Ok v.
  Proof.
    intros U. induction fuel as [|f IH]; intros n newvar Hnv Hf.
    - simpl. destruct newvar as [w|].
      + destruct (mem str_eqb w used) eqn:M; [|eexists; reflexivity].
        exfalso. pose proof (all_bound U n (entry_all n (Some w) Hnv M)). lia.
      + exfalso. simpl in Hnv. subst n. simpl in Hf. lia.
    - simpl.
      assert (STEP : (match newvar with Some w => mem str_eqb w used = true | None => True end) ->
                     exists v,
                       (if match newvar with Some p => str_eqb (render ps pre (N.of_nat n)) p | None => false end
                        then Other 5
                        else pick_loop f ps pre used (Some (render ps pre (N.of_nat n))) (N.of_nat n + 1)) = Ok v).
      { intros C. pose proof (entry_all n newvar Hnv C) as Hall.
        assert (NE : match newvar with Some p => str_eqb (render ps pre (N.of_nat n)) p | None => false end = false).
        { destruct newvar as [w|]; [|reflexivity]. destruct Hnv as (n0 & E1 & E2 & _). subst.
          apply str_eqb_neq. intro E. unfold cand in E. apply render_injective in E; [|exact U]. lia. }
        rewrite NE. replace (N.of_nat n + 1)%N with (N.of_nat (S n)) by lia.
        apply IH; [|lia]. exists n. repeat split. exact Hall. }
      destruct newvar as [w|].
      + destruct (mem str_eqb w used) eqn:M; [apply STEP; reflexivity|eexists; reflexivity].
      + apply STEP. exact I.
  Qed.

  Lemma pick_loop_index_start : uses_index ps = true -> forall fuel,
    length used < fuel -> exists v, pick_loop fuel ps pre used None 0 = Ok v.
  Proof.
    intros U fuel H. apply (pick_loop_index U fuel 0 None); [reflexivity|lia].
  Qed.

  (* without an index: one candidate; it is taken or ValueError is raised *)
  Lemma pick_loop_no_index : uses_index ps = false -> forall f,
    pick_loop (S (S f)) ps pre used None 0 =
    if mem str_eqb (render ps pre 0) used then Other 5 else Ok (render ps pre 0).
  Proof.
    intros U f. simpl. destruct (mem str_eqb (render ps pre 0) used) eqn:M; [|reflexivity].
    rewrite (render_no_index ps pre _ U), str_eqb_refl. reflexivity.
  Qed.
End Loop.


(* ================================================================== *)
(** * The first pass *)

Lemma dset_new : forall (d : dict atom str) k v, dmem atom_eqb k d = false ->
  dset atom_eqb k v d = d ++ [(k, v)].
Proof.
  induction d as [|[k0 v0] d IH]; intros k v H; unfold dmem in *; simpl in *; [reflexivity|].
  destruct (atom_eqb k k0); [discriminate|]. f_equal. apply IH. exact H.
Qed.

Section FirstPass.
  Variable is_alpha : N -> bool.
  Variable lower : N -> str.
  Variable ps : list piece.

  Notation build := (build_map is_alpha lower).
  Notation prefix_of n := (default_variable_prefix is_alpha lower (concept_of (node_branches n))).

  (* invariant of (varmap, used) *)
  Definition bm_inv (varmap : sigma) (used : list str) : Prop :=
    keys_nodup atom_eqb (dkeys varmap) /\ NoDup (map snd varmap) /\
    (forall v, In v (map snd varmap) -> In v used) /\ length used = length varmap.

  Lemma bm_inv_step : forall varmap used k v, bm_inv varmap used ->
    dmem atom_eqb k varmap = false -> mem str_eqb v used = false ->
    bm_inv (dset atom_eqb k v varmap) (v :: used).
  Proof.
    intros varmap used k v (I1 & I2 & I3 & I4) DM MU. rewrite (dset_new _ _ _ DM). repeat split.
    - unfold dkeys. rewrite map_app. simpl. fold (dkeys varmap). apply (keys_nodup_snoc atom_eqb atom_equiv); [exact I1|].
      rewrite <- (dmem_iff_keys atom_eqb). exact DM.
    - rewrite map_app. simpl. apply NoDup_app_snoc; [exact I2|].
      intro I. apply I3 in I. apply mem_str_in in I. congruence.
    - intros w I. rewrite map_app in I. apply in_app_or in I. destruct I as [I|[I|[]]].
      + right. apply I3. exact I.
      + left. exact I.
    - rewrite app_length. simpl. lia.
  Qed.

  Lemma build_map_inv : forall fuel ns varmap used s,
    build fuel ps ns varmap used = Ok s -> bm_inv varmap used ->
    bm_inv s (map snd s) /\
    (forall k, dmem atom_eqb k varmap = true -> dmem atom_eqb k s = true) /\
    (forall n, In n ns -> dmem atom_eqb (node_var n) s = true) /\
    (forall k, dmem atom_eqb k s = true ->
       dmem atom_eqb k varmap = true \/ exists n, In n ns /\ atom_eqb k (node_var n) = true).
  Proof.
    induction ns as [|n ns IH]; intros varmap used s H Inv; simpl in H.
    - inversion H; subst. split; [|repeat split; auto; intros n []].
      destruct Inv as (I1 & I2 & I3 & I4). repeat split; auto. rewrite map_length. reflexivity.
    - destruct (dmem atom_eqb (node_var n) varmap) eqn:DM.
      + destruct (IH _ _ _ H Inv) as (R1 & R2 & R3 & R4). split; [exact R1|]. repeat split.
        * exact R2.
        * intros n' [E|I]; [subst; apply R2; exact DM|apply R3; exact I].
        * intros k Hk. destruct (R4 k Hk) as [A|(n' & I & E)]; [left; exact A|].
          right. exists n'. split; [right; exact I|exact E].
      + destruct (pick_loop fuel ps (prefix_of n) used None 0) as [v| | | | | | | |] eqn:PL;
          simpl in H; try discriminate.
        pose proof (pick_loop_fresh _ _ _ _ _ _ _ PL) as FR.
        destruct (IH _ _ _ H (bm_inv_step _ _ _ _ Inv DM FR)) as (R1 & R2 & R3 & R4).
        assert (KM : forall k, dmem atom_eqb k (dset atom_eqb (node_var n) v varmap) =
                               atom_eqb k (node_var n) || dmem atom_eqb k varmap).
        { intros k. unfold dmem. destruct (atom_eqb k (node_var n)) eqn:E.
          - rewrite (dget_dset_same atom_eqb atom_equiv) by exact E. reflexivity.
          - rewrite (dget_dset_other atom_eqb atom_equiv) by exact E. reflexivity. }
        split; [exact R1|]. repeat split.
        * intros k Hk. apply R2. rewrite KM, Hk. apply orb_true_r.
        * intros n' [E|I]; [subst; apply R2; rewrite KM, atom_eqb_refl; reflexivity|apply R3; exact I].
        * intros k Hk. destruct (R4 k Hk) as [A|(n' & I & E)].
          -- rewrite KM in A. apply orb_true_iff in A. destruct A as [A|A]; [|left; exact A].
             right. exists n. split; [left; reflexivity|exact A].
          -- right. exists n'. split; [right; exact I|exact E].
  Qed.

  Lemma build_map_cons : forall fuel n ns varmap used,
    build fuel ps (n :: ns) varmap used =
    if dmem atom_eqb (node_var n) varmap then build fuel ps ns varmap used
    else (v <- pick_loop fuel ps (prefix_of n) used None 0 ;;
          build fuel ps ns (dset atom_eqb (node_var n) v varmap) (v :: used)).
  Proof. reflexivity. Qed.

  (* with an index the first pass always succeeds *)
  Lemma build_map_index : uses_index ps = true -> forall fuel ns varmap used,
    length used + length ns < fuel -> length used = length varmap ->
    exists s, build fuel ps ns varmap used = Ok s.
  Proof.
    intros U fuel. induction ns as [|n ns IH]; intros varmap used Hf HL; simpl; [eexists; reflexivity|].
    simpl in Hf. destruct (dmem atom_eqb (node_var n) varmap) eqn:DM.
    - apply IH; [lia|exact HL].
    - destruct (pick_loop_index_start ps (prefix_of n) used U fuel ltac:(lia)) as [v PL].
      rewrite PL. simpl. apply IH; [simpl; lia|].
      rewrite (dset_new _ _ _ DM), app_length. simpl. lia.
  Qed.

  (* without an index: success or ValueError, never out of fuel *)
  Lemma build_map_no_index : uses_index ps = false -> forall f ns varmap used,
    build (S (S f)) ps ns varmap used = Other 5 \/
    exists s, build (S (S f)) ps ns varmap used = Ok s.
  Proof.
    intros U f. induction ns as [|n ns IH]; intros varmap used; [right; eexists; reflexivity|].
    rewrite build_map_cons. destruct (dmem atom_eqb (node_var n) varmap); [apply IH|].
    rewrite (pick_loop_no_index ps (prefix_of n) used U f).
    destruct (mem str_eqb (render ps (prefix_of n) 0) used); [left; reflexivity|]. simpl. apply IH.
  Qed.
End FirstPass.

(* ================================================================== *)
(** * The second pass *)

Fixpoint map_bs (s : sigma) (bs : list branch) : outcome (list branch) :=
  match bs with
  | [] => Ok []
  | (role, tgt) :: bs' =>
      tgt' <- match tgt with
              | TNode n' => (n'' <- map_vars s n' ;; Ok (TNode n''))
              | TAtom a => Ok (TAtom (map_atom s role a))
              end ;;
      rest <- map_bs s bs' ;;
      Ok ((role, tgt') :: rest)
  end.

Lemma map_vars_eq : forall s var bs,
  map_vars s (Node var bs) =
  (bs' <- map_bs s bs ;;
   match dget atom_eqb var s with Some nv => Ok (Node (AStr nv) bs') | None => Other 2 end).
Proof.
  intros s var bs. simpl.
  match goal with
  | |- bind (?g bs) _ = _ => assert (E : forall l, g l = map_bs s l)
  end.
  { induction l as [|[role tgt] l IH]; [reflexivity|]. simpl. rewrite IH. reflexivity. }
  rewrite E. reflexivity.
Qed.

Lemma map_atom_rename : forall s role a, map_atom s role a = rename_atom s role a.
Proof.
  intros s role a. unfold map_atom, rename_atom, ref_target, ref_parts, sig_get.
  destruct a as [|t|]; try reflexivity.
  destruct (str_eqb role SLASHS); simpl; [reflexivity|].
  destruct (partition [TILDE] t) as [[v found] aln].
  destruct (dget atom_eqb (AStr v) s); reflexivity.
Qed.

Definition rename_branch (s : sigma) (b : branch) : branch :=
  (fst b, match snd b with
          | TAtom a => TAtom (rename_atom s (fst b) a)
          | TNode n' => TNode (rename_node s n')
          end).
Lemma rename_node_eq : forall s v bs,
  rename_node s (Node v bs) = Node (rename_var s v) (map (rename_branch s) bs).
Proof. reflexivity. Qed.

(* C10_consistent: the second pass is the declarative renaming *)
Lemma map_vars_rename : forall s n n', map_vars s n = Ok n' -> n' = rename_node s n.
Proof.
  intros s n. induction n as [var bs IHbs] using node_ind'. intros n' H.
  rewrite map_vars_eq in H.
  destruct (map_bs s bs) as [bs'| | | | | | | |] eqn:B; simpl in H; try discriminate.
  rewrite rename_node_eq. unfold rename_var, sig_get.
  destruct (dget atom_eqb var s) as [nv|]; [|discriminate]. inversion H; subst n'. f_equal.
  clear H. revert bs' B. induction IHbs as [|[role tgt] bs Hb Hbs IH]; intros bs' B; simpl in B.
  - inversion B. reflexivity.
  - destruct tgt as [a|n0].
    + simpl in B. destruct (map_bs s bs) as [rest| | | | | | | |]; simpl in B; try discriminate.
      inversion B; subst. simpl. unfold rename_branch at 1. simpl. rewrite map_atom_rename.
      f_equal. apply IH. reflexivity.
    + destruct (map_vars s n0) as [n0'| | | | | | | |] eqn:M; simpl in B; try discriminate.
      destruct (map_bs s bs) as [rest| | | | | | | |]; simpl in B; try discriminate.
      inversion B; subst. simpl. unfold rename_branch at 1. simpl.
      unfold branch_ok in Hb. simpl in Hb. rewrite (Hb n0' M).
      f_equal. apply IH. reflexivity.
Qed.

Lemma all_vars_eq : forall v bs,
  all_vars (Node v bs) = negb (atom_eqb v ANone) &&
    forallb (fun b : branch => match snd b with TAtom _ => true | TNode n' => all_vars n' end) bs.
Proof.
  intros v bs. simpl. f_equal. induction bs as [|[role [a|n']] bs IH]; simpl; auto. rewrite IH. reflexivity.
Qed.

(* the second pass succeeds when every node variable is in the map *)
Lemma map_vars_total : forall s n, all_vars n = true ->
  (forall n', In n' (nodes_of n) -> dmem atom_eqb (node_var n') s = true) ->
  exists n', map_vars s n = Ok n'.
Proof.
  intros s n. induction n as [var bs IHbs] using node_ind'. intros AV DM.
  rewrite all_vars_eq in AV. apply andb_true_iff in AV. destruct AV as [NV AB].
  rewrite nodes_of_eq in DM.
  assert (DM' : dmem atom_eqb var s = true /\
                forall n', In n' (nodes_bs bs) -> dmem atom_eqb (node_var n') s = true).
  { destruct var; simpl in NV; try discriminate; split;
      try (apply (DM (Node _ bs)); left; reflexivity); intros n' I; apply DM; right; exact I. }
  destruct DM' as [DV DB]. rewrite map_vars_eq.
  assert (B : exists bs', map_bs s bs = Ok bs').
  { clear DM DV NV. induction IHbs as [|[role tgt] bs Hb Hbs IH]; [eexists; reflexivity|].
    simpl in AB. apply andb_true_iff in AB. destruct AB as [A1 A2]. simpl in DB.
    destruct tgt as [a|n0]; simpl.
    - destruct (IH A2 DB) as [rest R]. rewrite R. eexists. reflexivity.
    - unfold branch_ok in Hb. simpl in Hb.
      destruct (Hb A1) as [n0' M]. { intros n' I. apply DB. apply in_or_app. left. exact I. }
      rewrite M. simpl.
      destruct (IH A2) as [rest R]. { intros n' I. apply DB. apply in_or_app. right. exact I. }
      rewrite R. eexists. reflexivity. }
  destruct B as [bs' B]. rewrite B. simpl. unfold dmem in DV.
  destruct (dget atom_eqb var s); [eexists; reflexivity|discriminate].
Qed.


(* ================================================================== *)
(** * reset_variables as a whole *)

Fixpoint erase_bs (s : sigma) (bs0 bs : list branch) : list branch :=
  match bs0, bs with
  | (role0, tgt0) :: bs0', (role, tgt) :: bs' =>
      (role, match tgt0, tgt with
             | TNode a, TNode b => TNode (erase_at s a b)
             | TAtom a0, TAtom a => TAtom (if is_ref s role0 a0 then ANone else a)
             | _, _ => tgt
             end) :: erase_bs s bs0' bs'
  | _, _ => bs
  end.
Lemma erase_at_eq : forall s v0 bs0 v bs,
  erase_at s (Node v0 bs0) (Node v bs) = Node ANone (erase_bs s bs0 bs).
Proof.
  intros s v0 bs0 v bs. simpl. f_equal. revert bs.
  induction bs0 as [|[role0 tgt0] bs0 IH]; intros bs; [destruct bs; reflexivity|].
  destruct bs as [|[role tgt] bs]; [reflexivity|]. rewrite IH. reflexivity.
Qed.

Lemma erase_at_rename : forall s n, erase_at s n (rename_node s n) = erase_vars s n.
Proof.
  intros s n. induction n as [var bs IHbs] using node_ind'.
  rewrite rename_node_eq, erase_at_eq. simpl. f_equal.
  induction IHbs as [|[role tgt] bs Hb Hbs IH]; [reflexivity|].
  simpl. rewrite IH. f_equal. unfold rename_branch. simpl. f_equal.
  destruct tgt as [a|n0]; simpl.
  - unfold rename_atom, is_ref. destruct (ref_target s role a) as [[nv suf]|]; reflexivity.
  - unfold branch_ok in Hb. simpl in Hb. rewrite Hb. reflexivity.
Qed.

Section Top.
  Variable is_alpha : N -> bool.
  Variable lower : N -> str.
  Notation reset := (reset_variables is_alpha lower).
  Notation rmap := (reset_map is_alpha lower).

  Lemma bm_inv_nil : bm_inv [] [].
  Proof. repeat split; try constructor. intros v []. Qed.

  Lemma all_vars_root_in : forall n, all_vars n = true -> In n (nodes_of n).
  Proof.
    intros [v bs] H. rewrite all_vars_eq in H. apply andb_true_iff in H. destruct H as [H _].
    rewrite nodes_of_eq. destruct v; simpl in H; try discriminate; left; reflexivity.
  Qed.

  Lemma reset_map_facts : forall ps t s, rmap ps t = Ok s ->
    NoDup (map snd s) /\ keys_nodup atom_eqb (dkeys s) /\
    (forall n, In n (nodes_of (troot t)) -> dmem atom_eqb (node_var n) s = true) /\
    (forall k, dmem atom_eqb k s = true ->
       exists n, In n (nodes_of (troot t)) /\ atom_eqb k (node_var n) = true).
  Proof.
    intros ps t s H. unfold reset_map in H.
    destruct (build_map_inv is_alpha lower ps _ _ _ _ _ H bm_inv_nil) as ((I1 & I2 & _) & _ & R3 & R4).
    repeat split; auto. intros k Hk. destruct (R4 k Hk) as [A|A]; [discriminate|exact A].
  Qed.

  Lemma reset_terminates : forall ps t, uses_index ps = true -> all_vars (troot t) = true ->
    exists t', reset ps t = Ok t'.
  Proof.
    intros ps t U AV. unfold reset_variables.
    destruct (build_map_index is_alpha lower ps U (reset_fuel t) (nodes_of (troot t)) [] []) as [s B].
    { unfold reset_fuel. simpl. lia. } { reflexivity. }
    unfold reset_map. rewrite B. simpl.
    destruct (reset_map_facts ps t s B) as (_ & _ & R3 & _).
    destruct (map_vars_total s (troot t) AV R3) as [n' M]. rewrite M. simpl. eexists. reflexivity.
  Qed.

  Lemma reset_no_index : forall ps t, uses_index ps = false -> all_vars (troot t) = true ->
    reset ps t = Other 5 \/ exists t', reset ps t = Ok t'.
  Proof.
    intros ps t U AV. unfold reset_variables, reset_map, reset_fuel.
    pose proof (all_vars_root_in _ AV) as RI.
    destruct (nodes_of (troot t)) as [|n0 ns0] eqn:NS; [destruct RI|]. rewrite <- NS in *.
    replace (S (length (nodes_of (troot t)))) with (S (S (length ns0))) by (rewrite NS; reflexivity).
    destruct (build_map_no_index is_alpha lower ps U (length ns0) (nodes_of (troot t)) [] []) as [B|[s B]].
    - left. rewrite B. reflexivity.
    - right. rewrite B. simpl.
      assert (B' : rmap ps t = Ok s).
      { unfold reset_map, reset_fuel. rewrite NS. simpl length. rewrite <- NS. exact B. }
      destruct (reset_map_facts ps t s B') as (_ & _ & R3 & _).
      destruct (map_vars_total s (troot t) AV R3) as [n' M]. rewrite M. simpl. eexists. reflexivity.
  Qed.

  Lemma reset_consistent : forall ps t t', reset ps t = Ok t' ->
    exists s, rmap ps t = Ok s /\ troot t' = rename_node s (troot t) /\ tmeta t' = tmeta t.
  Proof.
    intros ps t t' H. unfold reset_variables in H.
    destruct (rmap ps t) as [s| | | | | | | |] eqn:B; simpl in H; try discriminate.
    destruct (map_vars s (troot t)) as [n'| | | | | | | |] eqn:M; simpl in H; try discriminate.
    inversion H; subst t'. exists s. repeat split. simpl. apply map_vars_rename. exact M.
  Qed.

  Lemma reset_nothing_else : forall ps t t', reset ps t = Ok t' ->
    exists s, rmap ps t = Ok s /\
              erase_at s (troot t) (troot t') = erase_vars s (troot t) /\ tmeta t' = tmeta t.
  Proof.
    intros ps t t' H. destruct (reset_consistent ps t t' H) as (s & B & E & M).
    exists s. repeat split; auto. rewrite E. apply erase_at_rename.
  Qed.
End Top.


(* ================================================================== *)
(** * Interpretation commutes with the renaming *)

(* vocabulary *)
Definition plain_name (s : str) : Prop := notilde s /\ startswith s [QUOTE] = false.
(* old variables are plain strings; new names are plain *)
Definition names_ok (s : sigma) : Prop :=
  (forall k v, In (k, v) s -> exists t, k = AStr t /\ plain_name t) /\
  (forall k v, In (k, v) s -> plain_name v).

Definition is_instance_role (r : str) : bool := str_eqb (ensure_colon r) INSTANCE.
Definition rename_triple (s : sigma) (t : triple) : triple :=
  (rename_var s (tsrc t), trole t,
   if is_instance_role (trole t) then ttgt t else rename_var s (ttgt t)).
Definition rename_epi (s : sigma) (e : epi) : epi :=
  match e with Push v => Push (rename_var s v) | _ => e end.
Definition rename_entry (s : sigma) (e : epientry) : epientry :=
  (rename_triple s (fst e), map (rename_epi s) (snd e)).
Definition rename_graph (s : sigma) (g : graph) : graph :=
  mkGraph (map (rename_triple s) (triples g))
          (match gtop g with Some v => Some (rename_var s v) | None => None end)
          (map (rename_entry s) (epidata g)) (gmeta g).

(* the concept role is written "/" with an atomic target, and no other branch
   produces an instance triple *)
Definition role_plain (m : model) (role : str) (atomic : bool) : bool :=
  if str_eqb role SLASHS then atomic
  else match process_role role with
       | Ok (r, _) => negb (is_instance_role r) && negb (is_instance_role (invert_role m r))
       | _ => true
       end.
Fixpoint inst_plain (m : model) (n : node) : bool :=
  match n with
  | Node _ bs =>
      (fix go (bs : list branch) : bool :=
         match bs with
         | [] => true
         | (role, TAtom _) :: bs' => role_plain m role true && go bs'
         | (role, TNode n') :: bs' => role_plain m role false && inst_plain m n' && go bs'
         end) bs
  end.
Fixpoint inst_plain_bs (m : model) (bs : list branch) : bool :=
  match bs with
  | [] => true
  | (role, TAtom _) :: bs' => role_plain m role true && inst_plain_bs m bs'
  | (role, TNode n') :: bs' => role_plain m role false && inst_plain m n' && inst_plain_bs m bs'
  end.
Lemma inst_plain_eq : forall m v bs, inst_plain m (Node v bs) = inst_plain_bs m bs.
Proof.
  intros m v bs. simpl. induction bs as [|[role [a|n']] bs IH]; simpl; [reflexivity| |]; rewrite IH; reflexivity.
Qed.

(* no constant is spelled like a new name: an atomic target of a non-concept
   branch that is not renamed is not the image of a variable *)
Definition atom_free (s : sigma) (a : atom) : bool :=
  dmem atom_eqb a s || negb (existsb (fun nv => atom_eqb a (AStr nv)) (map snd s)).
Definition branch_free (s : sigma) (role : str) (a : atom) : bool :=
  if str_eqb role SLASHS then true
  else match process_atomic a with Ok (a', _) => atom_free s a' | _ => true end.
Fixpoint no_collision (s : sigma) (n : node) : bool :=
  match n with
  | Node _ bs =>
      (fix go (bs : list branch) : bool :=
         match bs with
         | [] => true
         | (role, TAtom a) :: bs' => branch_free s role a && go bs'
         | (role, TNode n') :: bs' => no_collision s n' && go bs'
         end) bs
  end.
Fixpoint no_collision_bs (s : sigma) (bs : list branch) : bool :=
  match bs with
  | [] => true
  | (role, TAtom a) :: bs' => branch_free s role a && no_collision_bs s bs'
  | (role, TNode n') :: bs' => no_collision s n' && no_collision_bs s bs'
  end.
Lemma no_collision_eq : forall s v bs, no_collision s (Node v bs) = no_collision_bs s bs.
Proof.
  intros s v bs. simpl. induction bs as [|[role [a|n']] bs IH]; simpl; [reflexivity| |]; rewrite IH; reflexivity.
Qed.

(* ---- strings ---- *)
Lemma partition_notilde : forall t, notilde t -> partition [TILDE] t = (t, false, []).
Proof.
  intros t NT. pose proof (partition_build t false [] NT (fun _ => eq_refl)) as P.
  simpl in P. rewrite app_nil_r in P. exact P.
Qed.

Lemma partition_found : forall t v f aln, contains_char TILDE t = true ->
  partition [TILDE] t = (v, f, aln) -> f = true.
Proof.
  intros t v f aln C P. destruct f; [reflexivity|]. apply partition_spec in P.
  destruct P as (E & NT & A). rewrite (A eq_refl) in E. simpl in E. rewrite app_nil_r in E. subst.
  unfold notilde in NT. congruence.
Qed.

Lemma startswith_quote_app : forall a b, a <> [] ->
  startswith (a ++ b) [QUOTE] = startswith a [QUOTE].
Proof. intros [|c a] b H; [congruence|]. rewrite <- app_comm_cons, !startswith_cons1. reflexivity. Qed.

Section Iso.
  Variable m : model.
  Variable s : sigma.
  Hypothesis NOK : names_ok s.
  Hypothesis NDV : NoDup (map snd s).
  Hypothesis NDK : keys_nodup atom_eqb (dkeys s).

  Notation R := (rename_triple s).
  Notation RE := (rename_entry s).
  Notation rv := (rename_var s).

  Lemma key_is_plain : forall a nv, sig_get s a = Some nv -> exists t, a = AStr t /\ plain_name t.
  Proof.
    intros a nv G. unfold sig_get in G. apply Errors_lemmas.dget_in in G. destruct G as (k0 & I & E).
    destruct NOK as [N1 _]. destruct (N1 k0 nv I) as (t & -> & P). exists t. split; [|exact P].
    rewrite atom_eqb_sym in E. apply atom_eqb_str in E. exact E.
  Qed.

  Lemma val_is_plain : forall a nv, sig_get s a = Some nv -> plain_name nv.
  Proof.
    intros a nv G. unfold sig_get in G. apply Errors_lemmas.dget_in in G. destruct G as (k0 & I & _).
    destruct NOK as [_ N2]. exact (N2 k0 nv I).
  Qed.

  Lemma rv_not_key : forall a, sig_get s a = None -> rv a = a.
  Proof. intros a H. unfold rename_var. rewrite H. reflexivity. Qed.

  Lemma rv_none : rv ANone = ANone.
  Proof.
    unfold rename_var. destruct (sig_get s ANone) as [nv|] eqn:G; [|reflexivity].
    destruct (key_is_plain _ _ G) as (t & E & _). discriminate.
  Qed.

  Lemma rv_num : forall x z, rv (ANum x z) = ANum x z.
  Proof.
    intros x z. unfold rename_var. destruct (sig_get s (ANum x z)) as [nv|] eqn:G; [|reflexivity].
    destruct (key_is_plain _ _ G) as (t & E & _). discriminate.
  Qed.

  Lemma rv_quoted : forall t, startswith t [QUOTE] = true -> rv (AStr t) = AStr t.
  Proof.
    intros t Q. unfold rename_var. destruct (sig_get s (AStr t)) as [nv|] eqn:G; [|reflexivity].
    destruct (key_is_plain _ _ G) as (t' & E & _ & P). inversion E; subst. congruence.
  Qed.

  (* process_atomic on a renamed reference *)
  Lemma process_atomic_rename : forall role a a' epis, str_eqb role SLASHS = false ->
    process_atomic a = Ok (a', epis) ->
    process_atomic (rename_atom s role a) = Ok (rv a', epis).
  Proof.
    intros role a a' epis NR H. unfold rename_atom, ref_target. destruct a as [|t|x z].
    - simpl in *. inversion H; subst. rewrite rv_none. reflexivity.
    - rewrite NR. pose proof H as H0. unfold process_atomic in H. unfold ref_parts.
      destruct (contains_char TILDE t) eqn:CT; simpl in H.
      + destruct (startswith t [QUOTE]) eqn:SQ.
        * (* quoted string: never a reference *)
          destruct (partition [TILDE] t) as [[v f] aln] eqn:P.
          assert (VQ : startswith v [QUOTE] = true).
          { pose proof (partition_spec _ _ _ _ P) as (E & _). destruct v as [|c v].
            - rewrite (partition_found _ _ _ _ CT P) in E. rewrite E in SQ. simpl in SQ. discriminate.
            - rewrite E in SQ. rewrite <- app_comm_cons in SQ. rewrite startswith_cons1 in SQ |- *. exact SQ. }
          destruct (sig_get s (AStr v)) as [nv|] eqn:G.
          { destruct (key_is_plain _ _ G) as (t' & E & _ & PQ). inversion E; subst. congruence. }
          assert (RVA : rv a' = a').
          { destruct (rindex QUOTE t) as [i|].
            - destruct (Nat.ltb (S i) (length t)).
              + destruct t as [|c t']; [discriminate|]. simpl in H.
                destruct (aln_from_string (skipn i t')) as [[idx pre]| | | | | | | |]; simpl in H; try discriminate.
                inversion H; subst. apply rv_quoted. rewrite startswith_cons1 in *. exact SQ.
              + inversion H; subst. apply rv_quoted. exact SQ.
            - inversion H; subst. apply rv_quoted. exact SQ. }
          rewrite RVA. exact H0.
        * destruct (partition [TILDE] t) as [[v f] aln] eqn:P.
          pose proof (partition_found _ _ _ _ CT P) as ->.
          destruct (aln_from_string aln) as [[idx pre]| | | | | | | |] eqn:AL; simpl in H; try discriminate.
          inversion H; subst a' epis. unfold rename_var.
          destruct (sig_get s (AStr v)) as [nv|] eqn:G.
          -- destruct (val_is_plain _ _ G) as [NT NQ].
             unfold process_atomic.
             assert (C2 : contains_char TILDE (nv ++ [TILDE] ++ aln) = true).
             { rewrite has_tilde_app. apply orb_true_iff. right. unfold contains_char, isin. simpl. reflexivity. }
             rewrite C2. simpl negb.
             assert (Q2 : startswith (nv ++ [TILDE] ++ aln) [QUOTE] = false).
             { destruct nv as [|c nv]; [reflexivity|]. rewrite startswith_quote_app by discriminate. exact NQ. }
             cbv iota. rewrite Q2.
             rewrite (partition_build nv true aln NT) by (intros; discriminate).
             rewrite AL. reflexivity.
          -- unfold process_atomic. rewrite CT. simpl. rewrite SQ, P, AL. reflexivity.
      + inversion H; subst a' epis. unfold notilde in *.
        rewrite (partition_notilde t CT). simpl. unfold rename_var.
        destruct (sig_get s (AStr t)) as [nv|] eqn:G.
        * destruct (val_is_plain _ _ G) as [NT NQ]. rewrite app_nil_r.
          unfold process_atomic. unfold notilde in NT. rewrite NT. reflexivity.
        * unfold process_atomic. rewrite CT. reflexivity.
    - simpl in *. destruct z; [|discriminate]. inversion H; subst. rewrite rv_num. reflexivity.
  Qed.

  (* ---- sigma is injective on its domain ---- *)
  Lemma snd_nodup_key : forall (l : sigma) k1 k2 v, NoDup (map snd l) ->
    In (k1, v) l -> In (k2, v) l -> k1 = k2.
  Proof.
    induction l as [|[k0 v0] l IH]; intros k1 k2 v ND I1 I2; [destruct I1|].
    simpl in ND. inversion ND as [|x xs NI ND']; subst.
    destruct I1 as [I1|I1], I2 as [I2|I2].
    - congruence.
    - inversion I1; subst. exfalso. apply NI. apply in_map_iff. exists (k2, v). auto.
    - inversion I2; subst. exfalso. apply NI. apply in_map_iff. exists (k1, v). auto.
    - eapply IH; eauto.
  Qed.

  Lemma rv_congr : forall a b, atom_eqb a b = true -> atom_eqb (rv a) (rv b) = true.
  Proof.
    intros a b E. unfold rename_var, sig_get. rewrite (dget_congr atom_eqb atom_equiv s a b E).
    destruct (dget atom_eqb b s); [apply atom_eqb_refl|exact E].
  Qed.

  Lemma rv_inj_dom : forall a b, dmem atom_eqb a s = true -> dmem atom_eqb b s = true ->
    atom_eqb (rv a) (rv b) = true -> atom_eqb a b = true.
  Proof.
    intros a b Da Db E. unfold dmem, rename_var, sig_get in *.
    destruct (dget atom_eqb a s) as [x|] eqn:Ga; [|discriminate].
    destruct (dget atom_eqb b s) as [y|] eqn:Gb; [|discriminate].
    simpl in E. apply str_eqb_eq in E. subst y.
    apply Errors_lemmas.dget_in in Ga. destruct Ga as (ka & Ia & Ea).
    apply Errors_lemmas.dget_in in Gb. destruct Gb as (kb & Ib & Eb).
    rewrite (snd_nodup_key s ka kb x NDV Ia Ib) in Ea.
    eapply atom_eqb_trans; [exact Ea|]. rewrite atom_eqb_sym. exact Eb.
  Qed.

  Variable vars : list atom.
  Hypothesis DOMV : forall a, mem atom_eqb a vars = dmem atom_eqb a s.

  Lemma mem_vars_rename : forall a, atom_free s a = true ->
    mem atom_eqb (rv a) (map rv vars) = mem atom_eqb a vars.
  Proof.
    intros a FR. destruct (mem atom_eqb a vars) eqn:M.
    - unfold mem in *. apply existsb_exists in M. destruct M as (u & Iu & Eu).
      apply existsb_exists. exists (rv u). split; [apply in_map; exact Iu|apply rv_congr; exact Eu].
    - destruct (mem atom_eqb (rv a) (map rv vars)) eqn:M2; [|reflexivity]. exfalso.
      unfold mem in M2. apply existsb_exists in M2. destruct M2 as (x & Ix & Ex).
      apply in_map_iff in Ix. destruct Ix as (u & <- & Iu).
      assert (Du : dmem atom_eqb u s = true).
      { rewrite <- DOMV. unfold mem. apply existsb_exists. exists u. split; [exact Iu|apply atom_eqb_refl]. }
      rewrite DOMV in M. unfold atom_free in FR. rewrite M in FR. simpl in FR.
      apply negb_true_iff in FR.
      assert (RA : rv a = a).
      { apply rv_not_key. unfold dmem, sig_get in *. destruct (dget atom_eqb a s); [discriminate|reflexivity]. }
      rewrite RA in Ex. unfold rename_var in Ex. unfold dmem, sig_get in *.
      destruct (dget atom_eqb u s) as [nv|] eqn:Gu; [|discriminate].
      assert (EX : existsb (fun nv => atom_eqb a (AStr nv)) (map snd s) = true).
      { apply existsb_exists. exists nv. split; [|exact Ex].
        apply Errors_lemmas.dget_in in Gu. destruct Gu as (k0 & I0 & _).
        apply in_map_iff. exists (k0, nv). auto. }
      congruence.
  Qed.

  (* ---- markers ---- *)
  Lemma process_role_epis : forall role r e, process_role role = Ok (r, e) ->
    map (rename_epi s) e = e.
  Proof.
    intros role r e H. unfold process_role in H.
    destruct (str_eqb role SLASHS); [inversion H; reflexivity|].
    destruct (contains_char TILDE role); [|inversion H; reflexivity].
    destruct (partition [TILDE] role) as [[r0 f] aln].
    destruct (aln_from_string aln) as [[idx pre]| | | | | | | |]; simpl in H; try discriminate.
    inversion H; reflexivity.
  Qed.

  Lemma process_atomic_epis : forall a a' e, process_atomic a = Ok (a', e) ->
    map (rename_epi s) e = e.
  Proof.
    intros a a' e H. unfold process_atomic in H. destruct a as [|t|x z].
    - inversion H; reflexivity.
    - destruct (contains_char TILDE t); cbn [negb] in H; [|inversion H; reflexivity].
      destruct (startswith t [QUOTE]).
      + destruct (rindex QUOTE t) as [i|]; [|inversion H; reflexivity].
        destruct (Nat.ltb (S i) (length t)); [|inversion H; reflexivity].
        destruct (aln_from_string (skipn (S i) t)) as [[idx pre]| | | | | | | |]; simpl in H; try discriminate.
        inversion H; reflexivity.
      + destruct (partition [TILDE] t) as [[v f] aln].
        destruct (aln_from_string aln) as [[idx pre]| | | | | | | |]; simpl in H; try discriminate.
        inversion H; reflexivity.
    - destruct z; [inversion H; reflexivity|discriminate].
  Qed.

  Lemma add_pop_last_rename : forall es, add_pop_last (map RE es) = map RE (add_pop_last es).
  Proof.
    induction es as [|[t l] es IH]; [reflexivity|]. destruct es as [|e2 es'].
    - simpl. unfold rename_entry. simpl. rewrite map_app. reflexivity.
    - simpl map in *.
      change (add_pop_last (RE (t, l) :: RE e2 :: map RE es'))
        with (RE (t, l) :: add_pop_last (RE e2 :: map RE es')).
      rewrite IH. reflexivity.
  Qed.

  (* ---- triples ---- *)
  Lemma R_deinvert : forall a r b, is_instance_role r = false ->
    is_instance_role (invert_role m r) = false ->
    R (deinvert m (a, r, b)) = deinvert m (rv a, r, rv b).
  Proof.
    intros a r b I1 I2. unfold deinvert, invert, rename_triple, trole, tsrc, ttgt. simpl.
    destruct (deinverts m); [destruct (is_role_inverted m r)|]; simpl; rewrite ?I1, ?I2; reflexivity.
  Qed.

  Lemma R_plain : forall a r b, is_instance_role r = false -> R (a, r, b) = (rv a, r, rv b).
  Proof. intros a r b I1. unfold rename_triple, trole, tsrc, ttgt. simpl. rewrite I1. reflexivity. Qed.

  Lemma node_var_rename : forall n, node_var (rename_node s n) = rv (node_var n).
  Proof. intros [v bs]. reflexivity. Qed.

  Definition node_iso (n : node) : Prop :=
    forall ts es, inst_plain m n = true -> no_collision s n = true ->
      interp_node m vars n = Ok (ts, es) ->
      interp_node m (map rv vars) (rename_node s n) = Ok (map R ts, map RE es).

  Lemma interp_bs_rename : forall var bs, Forall (branch_ok node_iso) bs ->
    forall hc ts es hc' ts' es',
    inst_plain_bs m bs = true -> no_collision_bs s bs = true ->
    interp_bs m vars var bs hc ts es = Ok (hc', ts', es') ->
    interp_bs m (map rv vars) (rv var) (map (rename_branch s) bs) hc (map R ts) (map RE es)
    = Ok (hc', map R ts', map RE es').
  Proof.
    intros var bs FB. induction FB as [|[role tgt] bs Hb Hbs IH];
      intros hc ts es hc' ts' es' IP NC H; simpl in H.
    - inversion H; subst. reflexivity.
    - destruct (process_role role) as [[role' repis]| | | | | | | |] eqn:PR; simpl in H; try discriminate.
      pose proof (process_role_epis _ _ _ PR) as REP.
      destruct tgt as [a|n'].
      + destruct (process_atomic a) as [[a' tepis]| | | | | | | |] eqn:PA; simpl in H; try discriminate.
        pose proof (process_atomic_epis _ _ _ PA) as TEP.
        simpl in IP, NC. apply andb_true_iff in IP. destruct IP as [IP1 IP2].
        apply andb_true_iff in NC. destruct NC as [NC1 NC2].
        simpl map. unfold rename_branch at 1. simpl fst. simpl snd.
        simpl interp_bs. rewrite PR. simpl bind.
        unfold role_plain in IP1. unfold branch_free in NC1.
        destruct (str_eqb role SLASHS) eqn:SL.
        * (* the concept branch *)
          assert (RA : rename_atom s role a = a).
          { unfold rename_atom, ref_target. destruct a; try reflexivity. rewrite SL. reflexivity. }
          rewrite RA, PA. simpl bind.
          apply str_eqb_eq in SL. subst role. unfold process_role in PR. simpl in PR. inversion PR; subst role' repis.
          rewrite instance_not_inverted in *. simpl andb in *.
          specialize (IH _ _ _ _ _ _ IP2 NC2 H).
          rewrite !map_app in IH. simpl map in IH.
          unfold rename_entry at 2 in IH. simpl fst in IH. simpl snd in IH.
          rewrite TEP in IH. exact IH.
        * rewrite PR in IP1. apply andb_true_iff in IP1. destruct IP1 as [I1 I2].
          apply negb_true_iff in I1. apply negb_true_iff in I2.
          rewrite PA in NC1.
          rewrite (process_atomic_rename role a a' tepis SL PA). simpl bind.
          rewrite (mem_vars_rename a' NC1).
          specialize (IH _ _ _ _ _ _ IP2 NC2 H).
          rewrite !map_app in IH. simpl map in IH.
          unfold rename_entry at 2 in IH. simpl fst in IH. simpl snd in IH.
          rewrite map_app, REP, TEP in IH.
          destruct (is_role_inverted m role' && mem atom_eqb a' vars).
          -- rewrite (R_deinvert var role' a' I1 I2) in IH. exact IH.
          -- rewrite (R_plain var role' a' I1) in IH. exact IH.
      + destruct (interp_node m vars n') as [[ts2 es2]| | | | | | | |] eqn:IN; simpl in H; try discriminate.
        simpl in IP, NC. apply andb_true_iff in IP. destruct IP as [IP IP3].
        apply andb_true_iff in IP. destruct IP as [IP1 IP2].
        apply andb_true_iff in NC. destruct NC as [NC1 NC2].
        unfold role_plain in IP1. destruct (str_eqb role SLASHS) eqn:SL; [discriminate|].
        rewrite PR in IP1. apply andb_true_iff in IP1. destruct IP1 as [I1 I2].
        apply negb_true_iff in I1. apply negb_true_iff in I2.
        simpl map. unfold rename_branch at 1. simpl fst. simpl snd.
        simpl interp_bs. rewrite PR. simpl bind.
        unfold branch_ok in Hb. simpl in Hb. rewrite (Hb ts2 es2 IP2 NC1 IN). simpl bind.
        specialize (IH _ _ _ _ _ _ IP3 NC2 H).
        rewrite !map_app in IH. simpl map in IH.
        unfold rename_entry at 2 in IH. simpl fst in IH. simpl snd in IH.
        rewrite map_app, REP in IH. simpl map in IH.
        rewrite (R_deinvert var role' (node_var n') I1 I2) in IH.
        rewrite node_var_rename, add_pop_last_rename. exact IH.
  Qed.

  Lemma node_iso_all : forall n, node_iso n.
  Proof.
    induction n as [var bs IHbs] using node_ind'. intros ts es IP NC H.
    rewrite interp_node_eq in H. rewrite inst_plain_eq in IP. rewrite no_collision_eq in NC.
    destruct (interp_bs m vars var bs false [] []) as [[[hc ts0] es0]| | | | | | | |] eqn:B;
      simpl in H; try discriminate.
    rewrite rename_node_eq, interp_node_eq.
    pose proof (interp_bs_rename var bs IHbs false [] [] hc ts0 es0 IP NC B) as X.
    change (map R []) with (@nil triple) in X. change (map RE []) with (@nil epientry) in X.
    rewrite X. simpl bind.
    destruct hc; inversion H; subst; [reflexivity|].
    reflexivity.
  Qed.
End Iso.


Lemma map_snoc : forall {A B} (f : A -> B) l x, map f l ++ [f x] = map f (l ++ [x]).
Proof. intros. rewrite map_app. reflexivity. Qed.

Section Iso2.
  Variable m : model.
  Variable s : sigma.
  Hypothesis NOK : names_ok s.
  Hypothesis NDV : NoDup (map snd s).
  Hypothesis NDK : keys_nodup atom_eqb (dkeys s).
  Variable vars : list atom.
  Hypothesis DOMV : forall a, mem atom_eqb a vars = dmem atom_eqb a s.

  Notation R := (rename_triple s).
  Notation RE := (rename_entry s).
  Notation rv := (rename_var s).

  (* ---- every atom of an interpreted triple is a variable or collision-free ---- *)
  Definition triple_safe (t : triple) : Prop :=
    dmem atom_eqb (tsrc t) s = true /\
    (is_instance_role (trole t) = false -> atom_free s (ttgt t) = true).

  Lemma dmem_free : forall a, dmem atom_eqb a s = true -> atom_free s a = true.
  Proof. intros a H. unfold atom_free. rewrite H. reflexivity. Qed.

  Lemma safe_deinvert : forall a r b, dmem atom_eqb a s = true -> dmem atom_eqb b s = true ->
    triple_safe (deinvert m (a, r, b)).
  Proof.
    intros a r b Da Db. destruct (deinvert_cases m a r b) as [E|E]; rewrite E; split; simpl; auto;
      intros _; apply dmem_free; assumption.
  Qed.

  Definition node_safe (n : node) : Prop :=
    forall ts es, all_vars n = true ->
      (forall n', In n' (nodes_of n) -> dmem atom_eqb (node_var n') s = true) ->
      no_collision s n = true ->
      interp_node m vars n = Ok (ts, es) ->
      (forall t, In t ts -> triple_safe t) /\ (forall e, In e es -> In (fst e) ts).

  Lemma in_add_pop_last : forall (es : list epientry) e, In e (add_pop_last es) ->
    exists e0, In e0 es /\ fst e = fst e0.
  Proof.
    induction es as [|[t l] es IH]; intros e I; [destruct I|].
    destruct es as [|e2 es'].
    - simpl in I. destruct I as [I|[]]. subst. exists (t, l). split; [left; reflexivity|reflexivity].
    - change (add_pop_last ((t, l) :: e2 :: es')) with ((t, l) :: add_pop_last (e2 :: es')) in I.
      destruct I as [I|I].
      + subst. exists (t, l). split; [left; reflexivity|reflexivity].
      + destruct (IH e I) as (e0 & I0 & E0). exists e0. split; [right; exact I0|exact E0].
  Qed.

  Lemma interp_bs_safe : forall var bs, Forall (branch_ok node_safe) bs ->
    dmem atom_eqb var s = true ->
    forall hc ts es hc' ts' es',
    forallb (fun b : branch => match snd b with TAtom _ => true | TNode n' => all_vars n' end) bs = true ->
    (forall n', In n' (nodes_bs bs) -> dmem atom_eqb (node_var n') s = true) ->
    no_collision_bs s bs = true ->
    interp_bs m vars var bs hc ts es = Ok (hc', ts', es') ->
    (forall t, In t ts -> triple_safe t) -> (forall e, In e es -> In (fst e) ts) ->
    (forall t, In t ts' -> triple_safe t) /\ (forall e, In e es' -> In (fst e) ts').
  Proof.
    intros var bs FB DV. induction FB as [|[role tgt] bs Hb Hbs IH];
      intros hc ts es hc' ts' es' AV DN NC H ST SE; simpl in H.
    - inversion H; subst. auto.
    - destruct (process_role role) as [[role' repis]| | | | | | | |] eqn:PR; simpl in H; try discriminate.
      simpl in AV. apply andb_true_iff in AV. destruct AV as [AV1 AV2].
      destruct tgt as [a|n'].
      + destruct (process_atomic a) as [[a' tepis]| | | | | | | |] eqn:PA; simpl in H; try discriminate.
        simpl in NC. apply andb_true_iff in NC. destruct NC as [NC1 NC2]. simpl in DN.
        eapply IH; [exact AV2|exact DN|exact NC2|exact H| |].
        * intros t I. apply in_app_or in I. destruct I as [I|[I|[]]]; [apply ST; exact I|]. subst t.
          destruct (is_role_inverted m role' && mem atom_eqb a' vars) eqn:C.
          -- apply andb_true_iff in C. destruct C as [_ C]. rewrite DOMV in C.
             apply safe_deinvert; assumption.
          -- split; [exact DV|]. simpl. intros NI. unfold branch_free in NC1.
             destruct (str_eqb role SLASHS) eqn:SL.
             ++ apply str_eqb_eq in SL. subst role. unfold process_role in PR. simpl in PR.
                inversion PR; subst. vm_compute in NI. discriminate.
             ++ rewrite PA in NC1. exact NC1.
        * intros e I. apply in_app_or in I. destruct I as [I|[I|[]]].
          -- apply in_or_app. left. apply SE. exact I.
          -- subst e. apply in_or_app. right. left. reflexivity.
      + destruct (interp_node m vars n') as [[ts2 es2]| | | | | | | |] eqn:IN; simpl in H; try discriminate.
        simpl in NC. apply andb_true_iff in NC. destruct NC as [NC1 NC2]. simpl in DN.
        unfold branch_ok in Hb. simpl in Hb.
        destruct (Hb ts2 es2 AV1) as [S2 E2]; [intros n'' I; apply DN; apply in_or_app; left; exact I|exact NC1|exact IN|].
        assert (DV' : dmem atom_eqb (node_var n') s = true).
        { apply DN. apply in_or_app. left. destruct n' as [v' bs']. rewrite all_vars_eq in AV1.
          apply andb_true_iff in AV1. destruct AV1 as [NV _]. rewrite nodes_of_eq.
          destruct v'; simpl in NV; try discriminate; left; reflexivity. }
        eapply IH; [exact AV2| |exact NC2|exact H| |].
        * intros n'' I. apply DN. apply in_or_app. right. exact I.
        * intros t I. apply in_app_or in I. destruct I as [I|[I|I]].
          -- apply ST. exact I.
          -- subst t. apply safe_deinvert; assumption.
          -- apply S2. exact I.
        * intros e I. apply in_app_or in I. destruct I as [I|[I|I]].
          -- apply in_or_app. left. apply SE. exact I.
          -- subst e. apply in_or_app. right. left. reflexivity.
          -- apply in_add_pop_last in I. destruct I as (e0 & I0 & E0). rewrite E0.
             apply in_or_app. right. right. apply E2. exact I0.
  Qed.

  Lemma node_safe_all : forall n, node_safe n.
  Proof.
    induction n as [var bs IHbs] using node_ind'. intros ts es AV DN NC H.
    rewrite interp_node_eq in H. rewrite no_collision_eq in NC.
    rewrite all_vars_eq in AV. apply andb_true_iff in AV. destruct AV as [NV AB].
    rewrite nodes_of_eq in DN.
    assert (DM' : dmem atom_eqb var s = true /\
                  forall n', In n' (nodes_bs bs) -> dmem atom_eqb (node_var n') s = true).
    { destruct var; simpl in NV; try discriminate; split;
        try (apply (DN (Node _ bs)); left; reflexivity); intros n' I; apply DN; right; exact I. }
    destruct DM' as [DV DB].
    destruct (interp_bs m vars var bs false [] []) as [[[hc ts0] es0]| | | | | | | |] eqn:B;
      simpl in H; try discriminate.
    destruct (interp_bs_safe var bs IHbs DV _ _ _ _ _ _ AB DB NC B) as [S0 E0];
      [intros t []|intros e []|].
    destruct hc; inversion H; subst; [auto|]. split.
    - intros t [I|I]; [|apply S0; exact I]. subst t. split; [exact DV|]. simpl. intros NI.
      vm_compute in NI. discriminate.
    - intros e [I|I]; [subst e; left; reflexivity|right; apply E0; exact I].
  Qed.

  (* ---- hence the renaming is injective on the triples of the graph ---- *)
  Lemma rv_inj_free : forall a b, atom_free s a = true -> atom_free s b = true ->
    atom_eqb (rv a) (rv b) = true -> atom_eqb a b = true.
  Proof.
    assert (MIX : forall a b, dmem atom_eqb a s = true -> dmem atom_eqb b s = false ->
              atom_free s b = true -> atom_eqb (rv a) (rv b) = true -> False).
    { intros a b Da Db Fb E. unfold atom_free in Fb. rewrite Db in Fb. simpl in Fb.
      apply negb_true_iff in Fb.
      assert (RB : rv b = b).
      { apply rv_not_key. unfold dmem, sig_get in *. destruct (dget atom_eqb b s); [discriminate|reflexivity]. }
      rewrite RB in E. unfold rename_var, dmem, sig_get in *.
      destruct (dget atom_eqb a s) as [nv|] eqn:Ga; [|discriminate].
      assert (EX : existsb (fun nv => atom_eqb b (AStr nv)) (map snd s) = true).
      { apply existsb_exists. exists nv. split; [|rewrite atom_eqb_sym; exact E].
        apply Errors_lemmas.dget_in in Ga. destruct Ga as (k0 & I0 & _).
        apply in_map_iff. exists (k0, nv). auto. }
      congruence. }
    intros a b Fa Fb E.
    destruct (dmem atom_eqb a s) eqn:Da, (dmem atom_eqb b s) eqn:Db.
    - apply (rv_inj_dom s NDV); assumption.
    - exfalso. eapply MIX; eauto.
    - exfalso. rewrite atom_eqb_sym in E. eapply MIX; eauto.
    - rewrite !rv_not_key in E; [exact E| |];
        unfold dmem, sig_get in *; [destruct (dget atom_eqb b s)|destruct (dget atom_eqb a s)];
        try discriminate; reflexivity.
  Qed.

  Lemma R_inj_safe : forall t1 t2, triple_safe t1 -> triple_safe t2 ->
    triple_eqb (R t1) (R t2) = true -> triple_eqb t1 t2 = true.
  Proof.
    intros [[s1 r1] o1] [[s2 r2] o2] [S1 T1] [S2 T2] E.
    unfold triple_safe, rename_triple, tsrc, trole, ttgt in *. simpl in *.
    apply triple_eqb_parts in E. unfold tsrc, trole, ttgt in E. simpl in E. destruct E as (E1 & E2 & E3).
    subst r2. apply triple_eqb_parts. unfold tsrc, trole, ttgt. simpl.
    split; [apply (rv_inj_dom s NDV); assumption|]. split; [reflexivity|].
    destruct (is_instance_role r1) eqn:IR; [exact E3|]. apply rv_inj_free; auto.
  Qed.

  Lemma R_congr : forall t1 t2, triple_eqb t1 t2 = true -> triple_eqb (R t1) (R t2) = true.
  Proof.
    intros t1 t2 E. apply triple_eqb_parts in E. destruct E as (E1 & E2 & E3).
    apply triple_eqb_parts. unfold rename_triple. simpl. rewrite <- E2.
    split; [apply (rv_congr s); exact E1|]. split; [reflexivity|].
    destruct (is_instance_role (trole t1)); [exact E3|apply (rv_congr s); exact E3].
  Qed.

  Lemma dmem_rename : forall (d : list epientry) t,
    triple_safe t -> (forall e, In e d -> triple_safe (fst e)) ->
    dmem triple_eqb (R t) (map RE d) = dmem triple_eqb t d.
  Proof.
    induction d as [|[t0 l0] d IH]; intros t St Sd; [reflexivity|].
    unfold dmem in *. simpl.
    assert (S0 : triple_safe t0) by (apply (Sd (t0, l0)); left; reflexivity).
    destruct (triple_eqb t t0) eqn:E.
    - rewrite (R_congr _ _ E). reflexivity.
    - destruct (triple_eqb (R t) (R t0)) eqn:E2.
      + rewrite (R_inj_safe _ _ St S0 E2) in E. discriminate.
      + apply IH; [exact St|]. intros e I. apply Sd. right. exact I.
  Qed.

  Lemma epimap_rename_gen : forall es d,
    (forall e, In e es -> triple_safe (fst e)) -> (forall e, In e d -> triple_safe (fst e)) ->
    fold_left (fun d e => if dmem triple_eqb (fst e) d then d else d ++ [e]) (map RE es) (map RE d)
    = map RE (fold_left (fun d e => if dmem triple_eqb (fst e) d then d else d ++ [e]) es d).
  Proof.
    induction es as [|e es IH]; intros d Se Sd; [reflexivity|]. cbn [fold_left map].
    assert (S1 : triple_safe (fst e)) by (apply Se; left; reflexivity).
    change (fst (RE e)) with (R (fst e)). rewrite (dmem_rename d (fst e) S1 Sd).
    destruct (dmem triple_eqb (fst e) d).
    - apply IH; [intros e' I; apply Se; right; exact I|exact Sd].
    - rewrite map_snoc.
      apply IH; [intros e' I; apply Se; right; exact I|].
      intros e' I. apply in_app_or in I. destruct I as [I|[I|[]]]; [apply Sd; exact I|subst; exact S1].
  Qed.

  Lemma epimap_rename : forall es, (forall e, In e es -> triple_safe (fst e)) ->
    epimap_of (map RE es) = map RE (epimap_of es).
  Proof. intros es Se. unfold epimap_of. apply (epimap_rename_gen es [] Se). intros e []. Qed.
End Iso2.


Section IsoTop.
  Variable s : sigma.
  Hypothesis NOK : names_ok s.
  Notation rv := (rename_var s).

  Lemma rv_nonnone : forall v, v <> ANone -> rv v <> ANone.
  Proof.
    intros v NV. unfold rename_var. destruct (sig_get s v); [discriminate|exact NV].
  Qed.

  Lemma nodes_bs_rename : forall bs,
    Forall (branch_ok (fun n => nodes_of (rename_node s n) = map (rename_node s) (nodes_of n))) bs ->
    nodes_bs (map (rename_branch s) bs) = map (rename_node s) (nodes_bs bs).
  Proof.
    intros bs FB. induction FB as [|[role tgt] bs Hb Hbs IH]; [reflexivity|].
    destruct tgt as [a|n']; simpl; [exact IH|].
    unfold branch_ok in Hb. simpl in Hb. rewrite Hb, IH, map_app. reflexivity.
  Qed.

  Lemma nodes_of_rename : forall n,
    nodes_of (rename_node s n) = map (rename_node s) (nodes_of n).
  Proof.
    induction n as [var bs IHbs] using node_ind'.
    rewrite rename_node_eq, !nodes_of_eq, (nodes_bs_rename bs IHbs).
    destruct var as [|t|x z].
    - rewrite (rv_none s NOK). reflexivity.
    - pose proof (rv_nonnone (AStr t) ltac:(discriminate)) as NN.
      destruct (rv (AStr t)) eqn:E; [congruence| |]; simpl; rewrite E; reflexivity.
    - rewrite (rv_num s NOK). simpl. rewrite (rv_num s NOK). reflexivity.
  Qed.

  Lemma tree_vars_rename : forall n, tree_vars (rename_node s n) = map rv (tree_vars n).
  Proof.
    intros n. unfold tree_vars. rewrite nodes_of_rename, !map_map.
    apply map_ext. intros n'. apply node_var_rename.
  Qed.
End IsoTop.

Lemma ensure_colon_idem : forall r, ensure_colon (ensure_colon r) = ensure_colon r.
Proof.
  intros r. unfold ensure_colon. destruct (startswith r [COLON]) eqn:E.
  - rewrite E. reflexivity.
  - rewrite startswith_cons1. unfold eqc. rewrite N.eqb_refl. reflexivity.
Qed.

Lemma fixt_rename : forall s t, fixt (rename_triple s t) = rename_triple s (fixt t).
Proof.
  intros s [[a r] b]. unfold fixt, rename_triple, is_instance_role, tsrc, trole, ttgt. simpl.
  rewrite ensure_colon_idem. reflexivity.
Qed.

Theorem reset_iso : forall is_alpha lower m ps t t' s g,
  reset_variables is_alpha lower ps t = Ok t' ->
  reset_map is_alpha lower ps t = Ok s ->
  names_ok s -> all_vars (troot t) = true ->
  inst_plain m (troot t) = true -> no_collision s (troot t) = true ->
  interpret m t = Ok g ->
  interpret m t' = Ok (rename_graph s g).
Proof.
  intros is_alpha lower m ps t t' s g HR HM NOK AV IP NC HI.
  destruct (reset_consistent is_alpha lower ps t t' HR) as (s' & HM' & ET & EM).
  rewrite HM in HM'. inversion HM'; subst s'. clear HM'.
  destruct (reset_map_facts is_alpha lower ps t s HM) as (NDV & NDK & D1 & D2).
  set (vars := tree_vars (troot t)).
  assert (DOMV : forall a, mem atom_eqb a vars = dmem atom_eqb a s).
  { intros a. destruct (dmem atom_eqb a s) eqn:DA.
    - destruct (D2 a DA) as (n & I & E). unfold mem. apply existsb_exists.
      exists (node_var n). split; [unfold vars, tree_vars; apply in_map; exact I|exact E].
    - destruct (mem atom_eqb a vars) eqn:M; [|reflexivity].
      unfold mem in M. apply existsb_exists in M. destruct M as (v & Iv & Ev).
      unfold vars, tree_vars in Iv. apply in_map_iff in Iv. destruct Iv as (n & <- & In_).
      specialize (D1 n In_). unfold dmem in *.
      rewrite (dget_congr atom_eqb atom_equiv s a (node_var n) Ev) in DA.
      destruct (dget atom_eqb (node_var n) s); discriminate. }
  unfold interpret in *. fold vars in HI.
  destruct (interp_node m vars (troot t)) as [[ts es]| | | | | | | |] eqn:IN; simpl in HI; try discriminate.
  inversion HI; subst g. clear HI.
  rewrite ET, (tree_vars_rename s NOK). fold vars.
  rewrite (node_iso_all m s NOK vars DOMV (troot t) ts es IP NC IN). simpl bind.
  destruct (node_safe_all m s vars DOMV (troot t) ts es AV D1 NC IN) as [ST SE].
  f_equal. unfold rename_graph, mk_graph. simpl. f_equal.
  - rewrite !map_map. apply map_ext. intros x. apply fixt_rename.
  - rewrite node_var_rename. destruct (node_var (troot t)) as [|x|x z] eqn:NV.
    + rewrite (rv_none s NOK). reflexivity.
    + pose proof (rv_nonnone s (AStr x) ltac:(discriminate)) as NN.
      destruct (rename_var s (AStr x)); [congruence|reflexivity|reflexivity].
    + rewrite (rv_num s NOK). reflexivity.
  - apply (epimap_rename s NDV). intros e I. apply ST. apply SE. exact I.
  - exact EM.
Qed.

(* ================================================================== *)
(** * Decidable form of [names_ok] and witnesses *)

Definition plain_b (t : str) : bool := negb (contains_char TILDE t) && negb (startswith t [QUOTE]).
Definition names_ok_b (s : sigma) : bool :=
  forallb (fun kv : atom * str =>
             match fst kv with AStr t => plain_b t | _ => false end && plain_b (snd kv)) s.
Lemma plain_b_ok : forall t, plain_b t = true -> plain_name t.
Proof.
  intros t H. unfold plain_b in H. apply andb_true_iff in H. destruct H as [A B].
  apply negb_true_iff in A. apply negb_true_iff in B. split; assumption.
Qed.
Lemma names_ok_b_ok : forall s, names_ok_b s = true -> names_ok s.
Proof.
  intros s H. unfold names_ok_b in H. rewrite forallb_forall in H. split; intros k v I;
    specialize (H (k, v) I); simpl in H; apply andb_true_iff in H; destruct H as [A B].
  - destruct k as [|t|]; try discriminate. exists t. split; [reflexivity|apply plain_b_ok; exact A].
  - apply plain_b_ok. exact B.
Qed.

Definition w_dog : str := [100;111;103]%N.
Definition w_R : str := [58;82]%N.
Definition w_aln : str := [126;101;46;53]%N.       (* ~e.5 *)
(* (a / dog :R (b / dog :R a~e.5) :R c) with a constant spelled like no new name *)
Definition tree_two_dogs : tree :=
  mkTree (Node (AStr s_a) [(SLASHS, TAtom (AStr w_dog));
                           (w_R, TNode (Node (AStr s_b) [(SLASHS, TAtom (AStr w_dog));
                                                         (w_R, TAtom (AStr (s_a ++ w_aln)))]));
                           (w_R, TAtom (AStr s_x))]) [].
Definition fmt_prefix_j : list piece := [Prefix; Jdx].
Definition fmt_prefix : list piece := [Prefix].
(* expected: (d / dog :R (d2 / dog :R d~e.5) :R x) *)
Definition tree_two_dogs_reset : tree :=
  mkTree (Node (AStr [100]%N) [(SLASHS, TAtom (AStr w_dog));
                               (w_R, TNode (Node (AStr [100;50]%N) [(SLASHS, TAtom (AStr w_dog));
                                                                   (w_R, TAtom (AStr ([100]%N ++ w_aln)))]));
                               (w_R, TAtom (AStr s_x))]) [].

Lemma index_format_nonvacuous :
  parse_fmt [123;112;114;101;102;105;120;125;123;106;125]%N = Some fmt_prefix_j /\
  uses_index fmt_prefix_j = true /\ all_vars (troot tree_two_dogs) = true /\
  reset_variables latin1_is_alpha latin1_lower fmt_prefix_j tree_two_dogs = Ok tree_two_dogs_reset.
Proof. repeat split; vm_compute; reflexivity. Qed.

Lemma no_index_collision_raises :
  uses_index fmt_prefix = false /\ all_vars (troot tree_two_dogs) = true /\
  reset_variables latin1_is_alpha latin1_lower fmt_prefix tree_two_dogs = Other 5.
Proof. repeat split; vm_compute; reflexivity. Qed.

Lemma iso_nonvacuous : exists s g,
  reset_map latin1_is_alpha latin1_lower fmt_prefix_j tree_two_dogs = Ok s /\
  names_ok s /\ all_vars (troot tree_two_dogs) = true /\
  inst_plain default_model (troot tree_two_dogs) = true /\
  no_collision s (troot tree_two_dogs) = true /\
  interpret default_model tree_two_dogs = Ok g /\ length (triples g) = 5.
Proof.
  eexists. eexists. split; [vm_compute; reflexivity|].
  split; [apply names_ok_b_ok; vm_compute; reflexivity|].
  repeat split; vm_compute; reflexivity.
Qed.
